import FparserModel.Proofs.BlockStream
import FparserModel.Proofs.BlockClosed
import FparserModel.Proofs.BlockOutcome
import FparserModel.Proofs.BlockFuel
import FparserModel.Proofs.BlockForest

/-!
# M-D — property theorems (every class table, every oracle, every fuel, every state)

All theorems are about `Fp.Block.run` / `Fp.Block.eval`, the functions the driver executes.

Boundary predicates (decidable on a run; reported by the driver as "ghost events"):

* `D st' = D st`            no *drop* event (`seqDrop`, `hookDrop`, `progDrop`, `noMatchDrop`)
  was logged between `st` and `st'` — the places where the code loses consumed items;
* `leaks st'.log = leaks st.log`   no *leak* event (`scopeLeak`, `main0Leak`, `emptyScopeName`).

Each boundary is reachable in the pinned tree or one of its variants (`Quirks`); the witnesses
below are `decide`d on concrete small tables.
-/
namespace Fp.Block

/-! ## a. no-match restores the reader;  b. the frontier of a tree is what was consumed -/

/-- FULL STATEMENT (false on the pinned tree, see `seq_drop_witness`):
    `run env fuel c st = (.none, st') → st'.stream.all = st.stream.all`. -/
theorem fail_restores (env : Env) (fuel : Nat) (c : Cls) (st st' : St)
    (h : run env fuel c st = (.none, st')) (hd : D st' = D st) :
    st'.stream.all = st.stream.all := by
  unfold run fresh at h
  simp only [Prod.mk.injEq] at h
  have := (eval_A env fuel).spec c [] st _ _ _ rfl
  rw [h.1, h.2] at this
  exact this hd

/-- a `NoMatchError` also leaves the reader as it was (this is what lets every caller treat
it as "no match") -/
theorem nomatch_restores (env : Env) (fuel : Nat) (c : Cls) (st st' : St)
    (h : run env fuel c st = (.raise .noMatch, st')) (hd : D st' = D st) :
    st'.stream.all = st.stream.all := by
  unfold run fresh at h
  simp only [Prod.mk.injEq] at h
  have := (eval_A env fuel).spec c [] st _ _ _ rfl
  rw [h.1, h.2] at this
  exact this hd

/-- FULL STATEMENT (false: `program0_drops_witness`): every item consumed is a leaf of the
tree, in order, exactly once. -/
theorem frontier_eq_consumed (env : Env) (fuel : Nat) (c : Cls) (st st' : St) (t : Tree)
    (h : run env fuel c st = (.tree t, st')) (hd : D st' = D st) :
    st.stream.all = t.frontier ++ st'.stream.all := by
  unfold run fresh at h
  simp only [Prod.mk.injEq] at h
  have := (eval_A env fuel).spec c [] st _ _ _ rfl
  rw [h.1, h.2] at this
  exact this hd

/-- drop events are never undone, so "no drop" for the whole run is "no drop" anywhere in it -/
theorem drops_monotone (env : Env) (fuel : Nat) (c : Cls) (st : St) :
    D st ≤ D (run env fuel c st).2 :=
  D_mono (run_rel (logExt_ok env) fuel c st)

/-! ## c. scopes -/

/-- PARTIAL: unless a leak event is logged, the chain of open scopes (current scope, its
parent, …, as table identities) is the same after the call — for EVERY outcome, including
every exception.  FULL STATEMENT ("for outcomes tree/none/raise Syntax the current scope is
unchanged") is false on the pinned tree: `internal_syntax_leaks_witness`,
`main0_leaks_witness`. -/
theorem scope_balanced_partial (env : Env) (fuel : Nat) (c : Cls) (st : St)
    (hl : leaks (run env fuel c st).2.log = leaks st.log) :
    (run env fuel c st).2.sym.chain = st.sym.chain :=
  (run_rel (scopeR_ok env) fuel c st).2 hl

theorem leaks_monotone (env : Env) (fuel : Nat) (c : Cls) (st : St) :
    leaks st.log ≤ leaks (run env fuel c st).2.log :=
  (run_rel (logExt_ok env) fuel c st).leaks_le

/-- the frames that were open when a class is called are still the bottom of the chain
afterwards — for every outcome, leak or not (nothing ever exits a scope it did not enter) -/
theorem entry_scopes_stay_open (env : Env) (fuel : Nat) (c : Cls) (st : St) :
    ∃ extra, (run env fuel c st).2.sym.chain = extra ++ st.sym.chain :=
  run_rel (sufR_ok env) fuel c st

/-- C09 for the repaired `Program.__new__` (`programRollback`, derived from the live code):
WHATEVER exception ends `Program(reader)` — `FortranSyntaxError`, the `sys.exit` of
`reader.error`, an internal error — the scope that was current at entry is current again (the
whole chain of open tables is the one at entry) and every remaining top-level table already
existed at entry: a failed parse leaves no table and no open scope of its own behind.
No boundary hypothesis.  (Pinned variant: `sysexit_witness`, `internal_syntax_leaks_witness`.) -/
theorem program_failure_rolls_back (env : Env) (fuel : Nat) (c unit main0 : Cls) (subs : List Cls)
    (st st' : St) (e : Exc) (hk : env.tbl.kind c = .program unit main0 subs)
    (hq : env.tbl.quirks.programRollback = true)
    (h : run env (fuel + 1) c st = (.raise e, st')) :
    st'.sym.chain = st.sym.chain ∧ ∀ sc ∈ st'.sym.tops, sc.name ∈ st.sym.topNames := by
  unfold run fresh at h
  simp only [eval, hk, Prod.mk.injEq] at h
  obtain ⟨ho, hs⟩ := h
  generalize hfin : finish env (eval env fuel) c subs
    (programMatch env (fresh (eval env fuel)) fuel unit main0 st) [c] = fr at ho hs
  have hsuf : SufR st fr.2.2 := by
    have := finish_rel (sufR_ok env) (eval_rel (sufR_ok env) fuel) c subs
      (programMatch env (fresh (eval env fuel)) fuel unit main0 st) [c] st
      (programMatch_rel (sufR_ok env) (fresh_rel (eval_rel (sufR_ok env) fuel)) fuel unit main0 st)
    rw [hfin] at this; exact this
  rw [ho] at hs
  simp only [programExit, hq, if_true] at hs
  subst hs
  obtain ⟨extra, hex⟩ := hsuf
  constructor
  · have hl : st.sym.stack.length = st.sym.chain.length := by simp [SymTabs.chain]
    show (fr.2.2.sym.rollback st.sym.topNames st.sym.stack.length).chain = st.sym.chain
    rw [hl]; exact SymTabs.rollback_chain _ _ extra _ hex
  · intro sc hsc
    have : sc ∈ (fr.2.2.sym.rollback st.sym.topNames st.sym.stack.length).tops := hsc
    unfold SymTabs.rollback at this
    simp only at this
    split at this
    · simp only [List.mem_filter] at this
      exact List.mem_of_elem_eq_true (by simpa using this.2)
    · simp only [List.mem_filter] at this
      exact List.mem_of_elem_eq_true (by simpa using this.2)

/-- C09 / C16, second half of `scope_balanced`: a class call that ends in "no match" (`None` or
`NoMatchError`) leaves the symbol tables EXACTLY as they were — the top-level tables and the
whole chain of open tables with all their children — unless a boundary event was logged in
the run (`B` counts them): a leak, `abandon` (a completed block object was handed back to the
reader: its tables stay — F-C16-1, `stale_table_witness`), `nameClash` (a table of that name
already existed next to the new one: `remove` then deletes the wrong one / the top-level
table is re-used) or a drop.  Also for a match that is a single statement. -/
theorem forest_unchanged_on_failure (env : Env) (fuel : Nat) (c : Cls) (st st' : St) (o : Outcome)
    (h : run env fuel c st = (o, st')) (hb : B st' = B st)
    (ho : o = .none ∨ o = .raise .noMatch ∨ ∃ cl i info, o = .tree (.leaf cl i info)) :
    st'.sym.tops = st.sym.tops ∧ st'.sym.stack = st.sym.stack := by
  unfold run fresh at h
  simp only [Prod.mk.injEq] at h
  have := (eval_F env fuel).spec c [] st _ _ _ rfl
  rw [h.1, h.2] at this
  have h2 := this hb
  rcases ho with rfl | rfl | ⟨cl, i, info, rfl⟩
  · exact h2
  · exact h2
  · exact h2 trivial

/-! ## d. an unmatched statement is never read past -/

/-- If no class matches item `g` (and it is not a comment), then whatever is called and
whatever happens, `g` stays in the stream with exactly `post` behind it, and at most the
items up to and including `g` are ever pulled from the source.  (`pulled` is a high-water
mark, so the bound holds throughout the run.) -/
theorem no_read_past_unmatched (env : Env) (fuel : Nat) (c : Cls) (st : St) (g : Item)
    (pre post : List Item) (hu : Unmatched env g)
    (hb : st.stream.buf = []) (hr : st.stream.rest = pre ++ g :: post) :
    (run env fuel c st).2.stream.pulled ≤ st.stream.pulled + pre.length + 1 ∧
    ∃ pre', (run env fuel c st).2.stream.all = pre' ++ g :: post := by
  have h := run_rel (guardR_ok env g post hu) fuel c st
  have hg : Guarded g post st.stream := by
    refine ⟨⟨pre, by simp [Stream.all, hb, hr]⟩, ?_⟩
    rw [hr]; simp; omega
  obtain ⟨⟨pre', hp⟩, hlen⟩ := h.1 hg
  have hsum := h.2
  refine ⟨?_, pre', hp⟩
  rw [hr] at hsum
  simp at hsum
  omega

/-- … hence a tree can only be returned with `g` still unconsumed behind it -/
theorem unmatched_not_in_tree (env : Env) (fuel : Nat) (c : Cls) (st st' : St) (g : Item)
    (pre post : List Item) (t : Tree) (hu : Unmatched env g)
    (hb : st.stream.buf = []) (hr : st.stream.rest = pre ++ g :: post)
    (h : run env fuel c st = (.tree t, st')) (hd : D st' = D st) :
    ∃ pre', pre = t.frontier ++ pre' := by
  have h1 := frontier_eq_consumed env fuel c st st' t h hd
  obtain ⟨_, pre', hp⟩ := no_read_past_unmatched env fuel c st g pre post hu hb hr
  rw [h] at hp
  simp only at hp
  rw [hp] at h1
  simp only [Stream.all, hb, hr, List.nil_append] at h1
  -- pre ++ g :: post = frontier ++ pre' ++ g :: post
  have : pre ++ (g :: post) = (t.frontier ++ pre') ++ (g :: post) := by
    rw [h1]; simp
  exact ⟨pre', List.append_cancel_right this⟩

/-! ## e. blocks are properly closed; `Program` consumes all input -/

/-- every node of every tree returned by any class satisfies `NodeOK`: a block (or
`Main_Program0`) whose configuration has an `endcls` consists of leading comment / include /
directive / cpp leaves, the object returned for its `startcls` (iff it has one), …, and a last
child that is an instance of `endcls_all`, for which the `match_labels` and `match_names`
tests of `BlockBase.match` held (`EndOK`). -/
theorem block_closed (env : Env) (fuel : Nat) (c : Cls) (st st' : St) (t : Tree)
    (h : run env fuel c st = (.tree t, st')) : WF env.tbl t := by
  unfold run fresh at h
  simp only [Prod.mk.injEq] at h
  exact eval_E env fuel c [] st t h.1

/-- what `EndOK` says about names when `match_names` is on: an end name needs an equal
(lower-cased) start name, and with `strict_match_names` a named start needs a named end -/
theorem endNameCheck_none {cfg : Cfg} {si inf : NodeInfo} (hm : cfg.matchNames = true)
    (hc : endNameCheck cfg (some si) inf = none) :
    (truthy inf.endName = true → si.startName = inf.endName) ∧
    (cfg.strictNames = true → truthy si.startName = true → truthy inf.endName = true) := by
  unfold endNameCheck at hc
  simp only [hm, if_true] at hc
  split at hc
  · cases hc
  · split at hc
    · cases hc
    · split at hc
      · cases hc
      · rename_i h1
        split at hc
        · cases hc
        · rename_i h2
          split at hc
          · cases hc
          · rename_i h3
            constructor
            · intro he
              cases hs : truthy si.startName with
              | false => simp [he, hs] at h1
              | true =>
                have := h3
                simp only [hs, he, Bool.true_and, bne_iff_ne, ne_eq, Decidable.not_not,
                  Bool.and_eq_true, decide_eq_true_eq] at this
                simpa using this
            · intro hst hs
              cases he : truthy inf.endName with
              | true => rfl
              | false => simp [hst, hs, he] at h2

theorem endOK_names {tbl : Table} {cfg : Cfg} {st en : Tree} (h : EndOK tbl cfg (some st) en)
    (hm : cfg.matchNames = true) :
    (truthy (infoOf tbl en).endName = true →
        (infoOf tbl st).startName = (infoOf tbl en).endName) ∧
    (cfg.strictNames = true → truthy (infoOf tbl st).startName = true →
        truthy (infoOf tbl en).endName = true) := by
  have hc := h.2.2.1 hm
  simp only [Option.map_some] at hc
  exact endNameCheck_none hm hc

/-- C08 for the labelled DO (repaired variant `labelDoEndNames`): in a `match_labels` block
whose construct does not ask for `match_names`, an end statement that can carry a name (an
`END DO`) has a name equal (lower-cased) to the start name or none, and a named DO statement
needs the name on its `END DO` — e.g. `outer: do 24 … / 24 end do wrong` is not accepted. -/
theorem endOK_label_do_names {tbl : Table} {cfg : Cfg} {st en : Tree}
    (h : EndOK tbl cfg (some st) en) (hq : tbl.quirks.labelDoEndNames = true)
    (hl : cfg.matchLabels = true) (hm : cfg.matchNames = false)
    (he : (infoOf tbl en).hasEndName = true) (hs : (infoOf tbl st).hasStartName = true) :
    (truthy (infoOf tbl en).endName = true →
        (infoOf tbl st).startName = (infoOf tbl en).endName) ∧
    (truthy (infoOf tbl st).startName = true → truthy (infoOf tbl en).endName = true) := by
  have hd : endDoNames tbl.quirks cfg (Option.map (infoOf tbl) (some st)) (infoOf tbl en) = true := by
    simp [endDoNames, hq, hl, hm, he, hs]
  have hc := h.2.2.2 hd
  simp only [Option.map_some] at hc
  have := endNameCheck_none (cfg := { cfg with matchNames := true, strictNames := true }) rfl hc
  exact ⟨this.1, this.2 rfl⟩

/-- a successful `Program` leaves the stream empty — unconditionally for the repaired
`Program.match` (`programContinues`), and for the pinned one unless it fell back to
`Main_Program0` (no `fallback` event in this run; the fall-back path does not consume
everything: `program0_drops_legacy_witness`, `garbage_after_main0_legacy_witness`). -/
theorem program_consumes_all (env : Env) (fuel : Nat) (c unit main0 : Cls) (st st' : St) (t : Tree)
    (hk : env.tbl.kind c = .program unit main0 [])
    (h : run env (fuel + 1) c st = (.tree t, st'))
    (hfb : env.tbl.quirks.programContinues = true ∨ FB st' = FB st) :
    st'.stream.all = [] := by
  unfold run fresh at h
  simp only [Prod.mk.injEq] at h
  exact program_consumes_eval env fuel c unit main0 [] (eval env (fuel + 1) c [] st).2.1 st st' t hk
    (Prod.ext h.1 (Prod.ext rfl h.2)) hfb

/-- … so with an unmatched statement in the input `Program(reader)` can return a tree only
in the pinned variant, and only through the `Main_Program0` fall-back -/
theorem unmatched_rejects_program (env : Env) (fuel : Nat) (c unit main0 : Cls) (st st' : St)
    (t : Tree) (g : Item) (pre post : List Item) (hu : Unmatched env g)
    (hb : st.stream.buf = []) (hr : st.stream.rest = pre ++ g :: post)
    (hk : env.tbl.kind c = .program unit main0 [])
    (h : run env (fuel + 1) c st = (.tree t, st')) :
    env.tbl.quirks.programContinues = false ∧ FB st < FB st' := by
  have hm : FB st ≤ FB st' := by
    have := FB_mono (run_rel (logExt_ok env) (fuel + 1) c st); rw [h] at this; exact this
  have key : ¬ (env.tbl.quirks.programContinues = true ∨ FB st' = FB st) := by
    intro hfb
    have he := program_consumes_all env fuel c unit main0 st st' t hk h hfb
    obtain ⟨_, pre', hp⟩ := no_read_past_unmatched env (fuel + 1) c st g pre post hu hb hr
    rw [h] at hp
    simp only at hp
    rw [he] at hp
    simp at hp
  constructor
  · cases hq : env.tbl.quirks.programContinues with
    | false => rfl
    | true => exact absurd (Or.inl hq) key
  · rcases Nat.lt_or_ge (FB st) (FB st') with hlt | hge
    · exact hlt
    · exact absurd (Or.inr (by omega)) key

/-- the shared-DO repair, for every table and oracle: with `seqRestores` no `seqDrop` event is
ever logged (compare `seq_drop_witness`) -/
theorem seq_repair_never_drops (env : Env) (hq : env.tbl.quirks.seqRestores = true) (fuel : Nat)
    (c : Cls) (st : St) : SD (run env fuel c st).2 = SD st :=
  run_rel (seqR_ok env hq) fuel c st

/-! ## C11 / C13 / C14: comments, directives, include lines and cpp lines -/

/-- the sub-sequence of items of a given kind (e.g. the comment items, the cpp lines) -/
def itemsOf (p : Item → Bool) (l : List Item) : List Item := l.filter p

/-- `frontier_eq_consumed` specialised to any class of items: the comment items (p = "kind is
comment"), the directive-form comments, the cpp lines, … that were consumed are exactly the
corresponding leaves of the tree, in source order, each once -/
theorem items_once_in_order (p : Item → Bool) (env : Env) (fuel : Nat) (c : Cls) (st st' : St)
    (t : Tree) (h : run env fuel c st = (.tree t, st')) (hd : D st' = D st) :
    itemsOf p st.stream.all = itemsOf p t.frontier ++ itemsOf p st'.stream.all := by
  unfold itemsOf
  rw [frontier_eq_consumed env fuel c st st' t h hd, List.filter_append]

/-- for a successful `Program` of the repaired variant: EVERY comment (resp. cpp, include,
directive) item of the input is a leaf of the tree, in source order, exactly once -/
theorem comments_once_in_order (p : Item → Bool) (env : Env) (fuel : Nat) (c unit main0 : Cls)
    (st st' : St) (t : Tree) (hk : env.tbl.kind c = .program unit main0 [])
    (hq : env.tbl.quirks.programContinues = true)
    (h : run env (fuel + 1) c st = (.tree t, st')) (hd : D st' = D st) :
    itemsOf p st.stream.all = itemsOf p t.frontier := by
  have h1 := items_once_in_order p env (fuel + 1) c st st' t h hd
  have h2 := program_consumes_all env fuel c unit main0 st st' t hk h (Or.inl hq)
  rw [h2] at h1
  simpa [itemsOf] using h1

/-- … and when nothing matches the stream, nothing of it is lost or duplicated either
(back-tracking over comments, includes, directives and cpp lines is exact) -/
theorem items_restored (p : Item → Bool) (env : Env) (fuel : Nat) (c : Cls) (st st' : St)
    (h : run env fuel c st = (.none, st')) (hd : D st' = D st) :
    itemsOf p st'.stream.all = itemsOf p st.stream.all := by
  unfold itemsOf; rw [fail_restores env fuel c st st' h hd]

/-! ## f. outcomes of `Program.__new__` -/

/-- `Program(reader)` never lets `NoMatchError` or `InternalSyntaxError` out -/
theorem outcome_classified (env : Env) (fuel : Nat) (c unit main0 : Cls) (subs : List Cls)
    (st : St) (hk : env.tbl.kind c = .program unit main0 subs) :
    (run env fuel c st).1 ≠ .raise .noMatch ∧ (run env fuel c st).1 ≠ .raise .internalSyntax := by
  unfold run fresh
  cases fuel with
  | zero => simp [eval]
  | succ fuel =>
    simp only [eval, hk]
    generalize (finish env (eval env fuel) c subs _ [c]).1 = o
    cases o with
    | none => simp [programConvert]
    | tree t => simp [programConvert]
    | raise e => cases e <;> simp [programConvert]

/-- if no leaf class raises `SystemExit`, a `SystemExit` outcome of ANY class is the
`reader.error → sys.exit` of `BlockBase.match`'s trailing name check (a `sysExit` event was
logged in this run); witness: `sysexit_witness` -/
theorem systemExit_only_via_reader_error (env : Env) (fuel : Nat) (c : Cls) (st st' : St)
    (horc : ∀ i c, (env.orc i c).res ≠ .raise .systemExit)
    (h : run env fuel c st = (.raise .systemExit, st')) : SX st < SX st' := by
  unfold run fresh at h
  simp only [Prod.mk.injEq] at h
  have := (eval_P (env := env) (e0 := .systemExit) (Or.inl rfl) horc fuel).spec c [] st .systemExit
    (eval env fuel c [] st).2.1 st' (Prod.ext h.1 (Prod.ext rfl h.2))
  exact (this rfl).2

/-- if no leaf class raises `InternalSyntaxError`, no class ever yields it -/
theorem internalSyntax_only_from_leaves (env : Env) (fuel : Nat) (c : Cls) (st : St)
    (horc : ∀ i c, (env.orc i c).res ≠ .raise .internalSyntax) :
    (run env fuel c st).1 ≠ .raise .internalSyntax := by
  intro h
  unfold run fresh at h
  have := (eval_P (env := env) (e0 := .internalSyntax) (Or.inr rfl) horc fuel).spec c [] st
    .internalSyntax (eval env fuel c [] st).2.1 (eval env fuel c [] st).2.2
    (Prod.ext h (Prod.ext rfl rfl))
  exact absurd (this rfl).1 (by simp)

/-! ## g. fuel -/

/-- more fuel never changes a completed result: if the run with fuel `n` did not end in
`raise outOfFuel`, every larger fuel gives the same outcome and the same final state
(stream, scope forest, parse cache, event log).
`eval_total` ("some fuel always suffices") is NOT a theorem for every class table: a table
with a block that has no start class and lists itself as a sub-class loops forever, as the
Python would (RecursionError). -/
theorem eval_fuel_mono (env : Env) (n m : Nat) (hnm : n ≤ m) (c : Cls) (st : St)
    (h : (run env n c st).1 ≠ .raise .outOfFuel) : run env m c st = run env n c st := by
  unfold run fresh at h ⊢
  rw [eval_mono env hnm c [] st h]

/-- C20 (memoisation part): the keys of the per-line parse caches stay duplicate-free, i.e.
every `(item, class)` pair is parsed at string level at most once per reader, however often
the block matcher back-tracks over it (all further queries are cache hits). -/
theorem parse_cache_once (env : Env) (fuel : Nat) (c : Cls) (st : St) (h : st.seen.Nodup) :
    (run env fuel c st).2.seen.Nodup :=
  run_rel (cacheR_ok env) fuel c st h

/-- C20: the number of `item.parse_line` calls (string-level parse attempts, cache hits
included) made by any class call is at most the number of `reader.get_item()` calls it
makes: all the work of the block matcher is accounted for by item reads. -/
theorem queries_le_gets (env : Env) (fuel : Nat) (c : Cls) (st : St) :
    NQ (run env fuel c st).2 - NQ st ≤ NG (run env fuel c st).2 - NG st := by
  have h : CostR st (run env fuel c st).2 := run_rel (costR_ok env) fuel c st
  unfold CostR at h
  omega

/-! ## witnesses on a concrete small table -/

namespace W

/-- classes: 0 Program, 1 Unit (alt), 2 Sub (block), 3 Sub_Stmt, 4 End_Sub, 5 Stmt, 6 cpp,
7 Main0, 8 Comment, 9 Directive, 10 Include, 11 Seq (no-restore sequence), 12 Wrap (alt) -/
def kind : Cls → Kind
  | 0 => .program 1 7 []
  | 1 => .alt [2]
  | 2 => .block { start := some 3, subs := [5], end_ := some 4, endAll := [4] } []
  | 6 => .cpp []
  | 7 => .main0 { start := none, subs := [5], end_ := some 4, endAll := [4] } 1 []
  | 8 => .comment
  | 9 => .directive
  | 11 => .seqNR [3, 5] []
  | 12 => .alt [11, 3]
  | _ => .leaf

def tbl (q : Quirks) : Table :=
  { kind := kind, isa := fun c => [c], comment := 8, directive := 9, includeStmt := 10,
    cppFn := 6, labelDo := [], endDo := 99, endDoStmt := 99, continueStmt := 99, elseIf := 99,
    else_ := 99, endIf := 99, maskedElsewhere := 99, elsewhere := 99, endWhere := 99,
    quirks := q }

def line (i : Nat) : Item := { id := i, kind := .line, directive := false }

def subInfo (n : Name) : NodeInfo :=
  { cls := 3, isa := [3], scoping := true, scopeName := some n, hasName := true, name := some n }
def endInfo (n : Option Name) : NodeInfo :=
  { cls := 4, isa := [4], hasName := true, name := n }
def stmtInfo : NodeInfo := { cls := 5, isa := [5] }

def env (q : Quirks) (orc : Oracle) : Env :=
  { tbl := tbl q, orc := orc, processDirectives := false, blank := fun p => p == 0,
    blankEof := false }

def ans (r : LeafRes) : LeafAns := { res := r }

/-- `subroutine a / x = sin(1., 2.)`: the statement raises `InternalSyntaxError` -/
def orcInternal : Oracle := fun i c =>
  match i, c with
  | 0, 3 => ans (.matched (subInfo 5))
  | 1, 5 => ans (.raise .internalSyntax)
  | _, _ => ans .none

/-- `x = 1` where `x = 1` raises `FortranSyntaxError` inside `Main_Program0` -/
def orcMain0 : Oracle := fun i c =>
  match i, c with
  | 0, 5 => ans (.raise .syntax)
  | _, _ => ans .none

/-- `subroutine s / end subroutine q` -/
def orcExit : Oracle := fun i c =>
  match i, c with
  | 0, 3 => ans (.matched (subInfo 5))
  | 1, 4 => ans (.matched (endInfo (some 6)))
  | _, _ => ans .none

/-- `subroutine a / end subroutine a / i = 1 / end` -/
def orcDrop : Oracle := fun i c =>
  match i, c with
  | 0, 3 => ans (.matched (subInfo 5))
  | 1, 4 => ans (.matched (endInfo (some 5)))
  | 2, 5 => ans (.matched stmtInfo)
  | 3, 4 => ans (.matched (endInfo none))
  | _, _ => ans .none

def items (n : Nat) : List Item := (List.range n).map line

def outKind : Outcome → Nat
  | .tree _ => 0 | .none => 1 | .raise .noMatch => 2 | .raise .syntax => 3
  | .raise .internalSyntax => 4 | .raise .systemExit => 5 | .raise .other => 6
  | .raise .outOfFuel => 7

def res (q : Quirks) (orc : Oracle) (c : Cls) (n : Nat) : Outcome × St :=
  run (env q orc) 12 c (St.init (items n))

end W

open W in
/-- F-C09-2 on the unrepaired variant: `Program.__new__` reports `FortranSyntaxError`
(converted from `InternalSyntaxError`) and the scope of the subroutine is still open. -/
theorem internal_syntax_leaks_witness :
    outKind (res {} orcInternal 0 2).1 = 3 ∧ (res {} orcInternal 0 2).2.sym.chain = [0] := by
  decide

open W in
/-- … repaired by catching `InternalSyntaxError` in the clean-up handler -/
theorem internal_syntax_repaired_witness :
    outKind (res { catchInternalSyntax := true } orcInternal 0 2).1 = 3 ∧
    (res { catchInternalSyntax := true } orcInternal 0 2).2.sym.chain = [] ∧
    (res { catchInternalSyntax := true } orcInternal 0 2).2.sym.forest.length = 0 := by
  decide

open W in
/-- F-C09-1 on the unrepaired variant: `Main_Program0.match` has no `finally` -/
theorem main0_leaks_witness :
    outKind (res {} orcMain0 0 1).1 = 3 ∧ (res {} orcMain0 0 1).2.sym.chain = [0] := by
  decide

open W in
theorem main0_repaired_witness :
    outKind (res { main0Finally := true } orcMain0 0 1).1 = 3 ∧
    (res { main0Finally := true } orcMain0 0 1).2.sym.chain = [] ∧
    (res { main0Finally := true } orcMain0 0 1).2.sym.forest.length = 0 := by
  decide

open W in
/-- F-C06-1 / F-C09-3: differing names on `subroutine`/`end subroutine` end in `SystemExit`
(the `reader.error` path, logged as `sysExit`), and the table of the subroutine stays -/
theorem sysexit_witness :
    outKind (res {} orcExit 0 2).1 = 5 ∧
    (res {} orcExit 0 2).2.sym.forest.length = 1 ∧
    (res {} orcExit 0 2).2.log.contains (.ghost .sysExit) = true := by
  decide

open W in
/-- … repaired by `programRollback`: same input, outcome still `SystemExit`, but no table and
no open scope are left -/
theorem sysexit_rollback_witness :
    outKind (res { programRollback := true } orcExit 0 2).1 = 5 ∧
    (res { programRollback := true } orcExit 0 2).2.sym.forest.length = 0 ∧
    (res { programRollback := true } orcExit 0 2).2.sym.chain = [] := by
  decide

open W in
/-- F-C02-1 / F-C08-1: `Program.match` falls back to `Main_Program0`, the first unit is
dropped: four items consumed, only the last two are in the tree. -/
theorem program0_drops_legacy_witness :
    outKind (res {} orcDrop 0 4).1 = 0 ∧
    (match (res {} orcDrop 0 4).1 with
      | .tree t => t.frontier.map (·.id) | _ => []) = [2, 3] ∧
    (res {} orcDrop 0 4).2.stream.all = [] ∧
    D (res {} orcDrop 0 4).2 = 1 := by
  decide

open W in
open W in
/-- the repaired `Program.match` (`programContinues`) keeps the first unit: all four items
are in the tree, nothing is dropped -/
theorem program0_repaired_witness :
    outKind (res { programContinues := true } orcDrop 0 4).1 = 0 ∧
    (match (res { programContinues := true } orcDrop 0 4).1 with
      | .tree t => t.frontier.map (·.id) | _ => []) = [0, 1, 2, 3] ∧
    (res { programContinues := true } orcDrop 0 4).2.stream.all = [] ∧
    D (res { programContinues := true } orcDrop 0 4).2 = 0 := by
  decide

open W in
/-- the shared-DO defect ("todo: restore reader"): class 11 consumes item 0, fails on item 1
and returns None without restoring; the alternative 3 then sees item 1. -/
theorem seq_drop_witness :
    outKind (res {} orcDrop 12 2).1 = 2 ∧
    (res {} orcDrop 12 2).2.stream.all.map (·.id) = [1] ∧
    D (res {} orcDrop 12 2).2 = 1 := by
  decide

open W in
/-- … repaired (`seqRestores`): the stream is given back and the alternative matches item 0 -/
theorem seq_repaired_witness :
    outKind (res { seqRestores := true } orcDrop 12 2).1 = 0 ∧
    (res { seqRestores := true } orcDrop 12 2).2.stream.all.map (·.id) = [1] ∧
    D (res { seqRestores := true } orcDrop 12 2).2 = 0 := by
  decide

open W in
/-- F-C08-1: `i = 1 / end / @@garbage`: the fall-back accepts the program and never looks at
the third line (`fallback` event, no drop event) -/
theorem garbage_after_main0_legacy_witness :
    outKind (res {} (fun i c => match i, c with
        | 0, 5 => ans (.matched stmtInfo) | 1, 4 => ans (.matched (endInfo none))
        | _, _ => ans .none) 0 3).1 = 0 ∧
    (res {} (fun i c => match i, c with
        | 0, 5 => ans (.matched stmtInfo) | 1, 4 => ans (.matched (endInfo none))
        | _, _ => ans .none) 0 3).2.stream.all.map (·.id) = [2] ∧
    FB (res {} (fun i c => match i, c with
        | 0, 5 => ans (.matched stmtInfo) | 1, 4 => ans (.matched (endInfo none))
        | _, _ => ans .none) 0 3).2 = 1 := by
  decide

open W in
/-- … and `i = 1 / end / garbage` is rejected by the repaired variant -/
theorem garbage_after_main0_repaired_witness :
    outKind (res { programContinues := true } (fun i c => match i, c with
        | 0, 5 => ans (.matched stmtInfo) | 1, 4 => ans (.matched (endInfo none))
        | _, _ => ans .none) 0 3).1 = 3 := by
  decide

namespace W
/-- class 20: a NON-scoping block `Stmt [Sub]… End_Sub` -/
def kind2 : Cls → Kind
  | 20 => .block { start := some 5, subs := [2], end_ := some 4, endAll := [4] } []
  | c => kind c
def orcStale : Oracle := fun i c =>
  match i, c with
  | 0, 5 => ans (.matched stmtInfo)
  | 1, 3 => ans (.matched (subInfo 5))
  | 2, 4 => ans (.matched (endInfo (some 5)))
  | _, _ => ans .none
def resStale : Outcome × St :=
  run { env {} orcStale with tbl := { tbl {} with kind := kind2 } } 12 20 (St.init (items 3))
end W

open W in
/-- F-C16-1 in miniature: a non-scoping block attempt is abandoned (its end statement is
missing) after an inner scoping block was matched: the stream is restored exactly, the chain
of open scopes is unchanged, but the table of the inner block stays in the forest. -/
theorem stale_table_witness :
    outKind resStale.1 = 2 ∧ resStale.2.stream.all.map (·.id) = [0, 1, 2] ∧
    resStale.2.sym.chain = [] ∧ resStale.2.sym.forest.length = 1 ∧
    leaks resStale.2.log = 0 ∧ D resStale.2 = 0 ∧ B resStale.2 = 1 ∧
    resStale.2.log.contains (.ghost .abandon) = true := by
  decide

/-! ### F-C20-2: the cost of nested non-block DO loops with distinct labels doubles per level -/

namespace K
/-- 0 Exec = BlockDo | ActionDo | Stmt; 1 BlockDo (`Block_Label_Do_Construct`: label-DO …
`End_Do`, ticket-499 abort applies); 2 ActionDo (`Action_Term_Do_Construct`: label-DO …
action statement); 3 Stmt; 4 LabelDo; 5 End_Do = 6 | 7; 8 Do_Term_Action = Stmt -/
def kind : Cls → Kind
  | 0 => .alt [1, 2, 3]
  | 1 => .block { start := some 4, subs := [0], end_ := some 5, endAll := [5, 6, 7],
                  matchLabels := true, doHook := true } []
  | 2 => .block { start := some 4, subs := [0], end_ := some 8, endAll := [8, 3],
                  matchLabels := true, doHook := true } []
  | 5 => .alt [6, 7]
  | 8 => .alt [3]
  | 9 => .comment
  | 10 => .directive
  | 12 => .cpp []
  | _ => .leaf
def tbl : Table :=
  { kind := kind, isa := fun c => [c], comment := 9, directive := 10, includeStmt := 11,
    cppFn := 12, labelDo := [4], endDo := 5, endDoStmt := 6, continueStmt := 7, elseIf := 99,
    else_ := 99, endIf := 99, maskedElsewhere := 99, elsewhere := 99, endWhere := 99,
    quirks := {} }
def doInfo (i : Nat) : NodeInfo :=
  { cls := 4, isa := [4], hasStartLabel := true, startLabel := some (i + 1), hasEndLabel := true }
def stInfo (l : Nat) : NodeInfo :=
  { cls := 3, isa := [3], hasEndLabel := true, endLabel := some l }
/-- `do 1 … / do 2 … / … / do d … / d x=1 / … / 2 x=1 / 1 x=1` -/
def orc (d : Nat) : Oracle := fun i c =>
  if i < d then
    (if c = 4 then { res := LeafRes.matched (doInfo i) } else { res := LeafRes.none })
  else
    (if c = 3 then { res := LeafRes.matched (stInfo (2 * d - i)) } else { res := LeafRes.none })
def env (d : Nat) : Env :=
  { tbl := tbl, orc := orc d, processDirectives := false, blank := fun p => p == 0,
    blankEof := false }
def items (n : Nat) : List Item :=
  (List.range n).map fun i => { id := i, kind := .line, directive := false }
def run (d : Nat) : Outcome × St := Fp.Block.run (env d) (4 * d + 8) 0 (St.init (items (2 * d)))
/-- the whole nest is matched -/
def ok (d : Nat) : Bool :=
  match (run d).1 with
  | .tree t => t.frontier.length == 2 * d
  | _ => false
def queries (d : Nat) : Nat := NQ (run d).2
end K

/-- depth 1, 2, 3, 4, 5: 16, 50, 118, 254, 526 `parse_line` calls for 2, 4, 6, 8, 10 lines:
each further level more than doubles the cost (the block-DO attempt of every level re-parses
the whole inner nest before the ticket-499 abort stops it at its own label, then the
action-terminated alternative parses it again). -/
theorem cost_doubles_witness :
    (K.ok 1 && K.ok 2 && K.ok 3 && K.ok 4 && K.ok 5) = true ∧
    [K.queries 1, K.queries 2, K.queries 3, K.queries 4, K.queries 5] = [16, 50, 118, 254, 526] ∧
    2 * K.queries 1 ≤ K.queries 2 ∧ 2 * K.queries 2 ≤ K.queries 3 ∧
    2 * K.queries 3 ≤ K.queries 4 ∧ 2 * K.queries 4 ≤ K.queries 5 := by
  decide +kernel

/-! ## non-vacuity -/

open W in
/-- a run satisfying the hypotheses of `frontier_eq_consumed` with a non-trivial tree:
`subroutine a / end subroutine a` -/
example : (∃ t, (res {} orcDrop 0 2).1 = .tree t ∧ t.frontier.map (·.id) = [0, 1]) ∧
    D (res {} orcDrop 0 2).2 = D (St.init (items 2)) ∧
    leaks (res {} orcDrop 0 2).2.log = leaks (St.init (items 2)).log := by
  refine ⟨⟨_, rfl, ?_⟩, ?_, ?_⟩ <;> decide

open W in
/-- runs satisfying the hypotheses of `fail_restores` / `nomatch_restores`: the subroutine
block, resp. the unit rule, on a lone unmatched line (two `get`s and two `put`s happened) -/
example : outKind (res {} (fun _ _ => ans .none) 5 1).1 = 1 ∧
    outKind (res {} (fun _ _ => ans .none) 1 1).1 = 2 ∧
    D (res {} (fun _ _ => ans .none) 1 1).2 = 0 ∧
    (res {} (fun _ _ => ans .none) 1 1).2.stream.all.map (·.id) = [0] ∧
    (res {} (fun _ _ => ans .none) 1 1).2.stream.pulled = 1 := by
  decide

open W in
/-- a non-trivial instance of `forest_unchanged_on_failure`: `subroutine a` without its END —
the scope `a` was entered, left and removed again (the log shows it), no boundary event -/
example : outKind (res {} orcDrop 2 1).1 = 2 ∧ B (res {} orcDrop 2 1).2 = 0 ∧
    (res {} orcDrop 2 1).2.log.contains (.enter 5) = true ∧
    (res {} orcDrop 2 1).2.log.contains (.remove 5) = true ∧
    (res {} orcDrop 2 1).2.sym.forest.length = 0 := by
  decide

open W in
/-- an instance of the hypothesis of `eval_fuel_mono`: fuel 12 completes -/
example : (res {} orcDrop 0 2).1 ≠ .raise .outOfFuel := by
  intro h
  have : outKind (res {} orcDrop 0 2).1 = 7 := by rw [h]; rfl
  revert this; decide

open W in
/-- an instance of `Unmatched`: item 1 of `orcExit`'s world restricted to class 3 … is matched
by class 4, so instead take the all-`none` oracle: every line item is unmatched -/
example : Unmatched (env {} (fun _ _ => ans .none)) (line 0) :=
  ⟨by decide, fun _ => Or.inl rfl⟩

end Fp.Block
