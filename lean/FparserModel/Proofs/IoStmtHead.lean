import FparserModel.Proofs.SplitlineSrm2Found
import FparserModel.Proofs.SplitlineSrm2Paren
import FparserModel.Combi
/-!
# The head of a line survives tokenisation

* `srm_head` : the first character of a line survives `string_replace_map`, unless it can start
  an exponent constant (a digit or `.`);
* `srm_prefix_alpha` : a leading run of letters survives `string_replace_map`.

Three "a prefix is preserved" steps, one per phase of `string_replace_map`:
phase 1 through `P1Rel` (`phase1_P1Rel`), phase 2 through `replaceAllAux` (a found constant
starts with a digit or `.`), phase 3 through `HidAll` (`srm_hides`).
-/
namespace Fp.IoStmt
open Fp Fp.Splitline

/-! ## character classes -/

theorem alpha_not_digit {c : Char} (h : isAlpha c = true) : isDigit c = false := by
  cases hd : isDigit c with
  | false => rfl
  | true =>
    exfalso
    simp only [isDigit, isAlpha, Char.isDigit, Char.isAlpha, Char.isUpper, Char.isLower,
      Bool.and_eq_true, Bool.or_eq_true, decide_eq_true_eq] at *
    simp only [UInt32.le_iff_toNat_le, ge_iff_le] at *
    simp at *
    omega

theorem alpha_ne {c x : Char} (h : isAlpha c = true) (hx : isAlpha x = false) : c ≠ x := by
  rintro rfl; rw [h] at hx; cases hx

theorem alpha_not_quote {c : Char} (h : isAlpha c = true) : isQuote c = false := by
  cases hq : isQuote c with
  | false => rfl
  | true =>
    rcases isQuote_cases hq with rfl | rfl <;> exact absurd h (by decide)

/-! ## phase 1 -/

theorem P1Rel_head {a b : Str} (h : P1Rel a b) : b.head? = a.head? := by
  cases h <;> rfl

/-- a quote-free prefix of the line is a prefix of the phase-1 text -/
theorem P1Rel_prefix_fwd {a b : Str} (h : P1Rel a b) : ∀ (g post : Str), a = g ++ post →
    (∀ c ∈ g, isQuote c = false) → ∃ post', b = g ++ post' := by
  induction h with
  | nil => intro g post ha _; simp at ha; exact ⟨[], by simp [ha.1]⟩
  | cons c _ ih =>
    intro g post ha hg
    cases g with
    | nil => exact ⟨_, rfl⟩
    | cons x g =>
      simp only [List.cons_append, List.cons.injEq] at ha
      obtain ⟨rfl, ha⟩ := ha
      obtain ⟨post', rfl⟩ := ih g post ha (fun y hy => hg y (by simp [hy]))
      exact ⟨post', rfl⟩
  | lit q x v k hq _ _ _ _ =>
    intro g post ha hg
    cases g with
    | nil => exact ⟨_, rfl⟩
    | cons y g =>
      simp only [List.cons_append, List.cons.injEq] at ha
      obtain ⟨rfl, _⟩ := ha
      have := hg q (by simp)
      rw [hq] at this; cases this

theorem phase1_rel (l : Str) : P1Rel l (phase1Text discipline l false) := by
  have h : P1Rel (foldOutsideLiterals false l) (phase1Text discipline l false) :=
    phase1_P1Rel discipline rfl _ {} P1Inv_init (splitquote_quoted l false)
  have hj : foldOutsideLiterals false l = l := splitquote_join' l none
  rwa [hj] at h

/-! ## phase 2 -/

/-- a character that cannot start an exponent constant -/
def Safe (c : Char) : Prop := isDigit c = false ∧ c ≠ '.'

/-- a string that starts like an exponent constant -/
def NumHead (f : Str) : Prop := ∃ x t, f = x :: t ∧ (isDigit x = true ∨ x = '.')

theorem safe_ne {c x : Char} (hc : Safe c) (hx : isDigit x = true ∨ x = '.') : x ≠ c := by
  rintro rfl
  rcases hx with hx | hx
  · rw [hc.1] at hx; cases hx
  · exact hc.2 hx

theorem replaceAllAux_prefix (old new : Str) (ho : NumHead old) :
    ∀ (p : Str) (fuel : Nat) (w : Str), (∀ c ∈ p, Safe c) →
      ∃ w', replaceAllAux old new fuel (p ++ w) = p ++ w' := by
  obtain ⟨x, t, rfl, hx⟩ := ho
  intro p
  induction p with
  | nil => intro fuel w _; exact ⟨replaceAllAux (x :: t) new fuel w, rfl⟩
  | cons a p ih =>
    intro fuel w hp
    cases fuel with
    | zero => exact ⟨w, by simp [replaceAllAux]⟩
    | succ n =>
      have hne : x ≠ a := safe_ne (hp a (by simp)) hx
      obtain ⟨w', hw'⟩ := ih n w (fun c hc => hp c (by simp [hc]))
      refine ⟨w', ?_⟩
      simp [replaceAllAux, stripPrefix?, hne, hw']

theorem replaceAll_prefix (old new : Str) (ho : NumHead old) (p w : Str)
    (hp : ∀ c ∈ p, Safe c) : ∃ w', replaceAll (p ++ w) old new = p ++ w' :=
  replaceAllAux_prefix old new ho p _ w hp

theorem phase2Step_text (acc : SrmState × Str) (f : Str) :
    ∃ key, (phase2Step acc f).2 = replaceAll acc.2 f key := by
  unfold phase2Step
  simp only
  split <;> exact ⟨_, rfl⟩

theorem phase2_fold_prefix (p : Str) (hp : ∀ c ∈ p, Safe c) :
    ∀ (fs : List Str), (∀ f ∈ fs, NumHead f) → ∀ (acc : SrmState × Str),
      (∃ w, acc.2 = p ++ w) → ∃ w', (fs.foldl phase2Step acc).2 = p ++ w' := by
  intro fs
  induction fs with
  | nil => intro _ acc h; exact h
  | cons f fs ih =>
    intro hfs acc ⟨w, hw⟩
    rw [List.foldl_cons]
    apply ih (fun g hg => hfs g (by simp [hg]))
    obtain ⟨key, hk⟩ := phase2Step_text acc f
    rw [hk, hw]
    exact replaceAll_prefix f key (hfs f (by simp)) p w hp

theorem phase2_prefix (st : SrmState) (t p w : Str) (hp : ∀ c ∈ p, Safe c) (ht : t = p ++ w) :
    ∃ w', (phase2 st t).2 = p ++ w' := by
  unfold phase2
  exact phase2_fold_prefix p hp _ (fun f hf => (expConsts_occ t f hf).2.2) (st, t) ⟨w, ht⟩

/-! ## phase 3 -/

theorem isSimple_strip_interior_nil : isSimple (strip (interior [])) = true := by decide

theorem HidRel_head {a b : PItem} (h : HidRel a b) :
    (a.str = [] ∧ b.str = []) ∨ ∃ x t t', a.str = x :: t ∧ b.str = x :: t' := by
  cases a with
  | plain s =>
    cases b with
    | plain s' =>
      have : s' = s := h
      subst this
      cases s' with
      | nil => exact Or.inl ⟨rfl, rfl⟩
      | cons x t => exact Or.inr ⟨x, t, t, rfl, rfl⟩
    | paren s' => exact absurd h id
  | paren s =>
    cases b with
    | plain s' => exact absurd h id
    | paren s' =>
      rcases h with ⟨_, rfl⟩ | ⟨hs, n, rfl⟩
      · cases s' with
        | nil => exact Or.inl ⟨rfl, rfl⟩
        | cons x t => exact Or.inr ⟨x, t, t, rfl, rfl⟩
      · cases s with
        | nil => rw [isSimple_strip_interior_nil] at hs; cases hs
        | cons x t => exact Or.inr ⟨x, t, _, rfl, by simp [PItem.str, rewrap]; rfl⟩

theorem HidAll_head {a b : List PItem} (h : HidAll a b) : (pjoin b).head? = (pjoin a).head? := by
  induction h with
  | nil => rfl
  | cons hx _ ih =>
    rcases HidRel_head hx with ⟨h1, h2⟩ | ⟨x, t, t', h1, h2⟩
    · simp [h1, h2, ih]
    · simp [h1, h2]

/-- every group of `splitparen` starts with an opening parenthesis or bracket -/
theorem parensOK_opener (s : Scan) (items : List PItem) (h : parensOK defaultPairs s items) :
    ∀ t, PItem.paren t ∈ items → ∃ o t', t = o :: t' ∧ (o = '(' ∨ o = '[') := by
  induction items generalizing s with
  | nil => intro t ht; simp at ht
  | cons it items ih =>
    intro t ht
    rcases List.mem_cons.1 ht with ht | ht
    · subst ht
      obtain ⟨o, mid, cl, rfl, hcl⟩ := parenOK_shape defaultPairs s t h.1
      refine ⟨o, _, rfl, ?_⟩
      simp only [closerOf, defaultPairs] at hcl
      by_cases h1 : o = '('
      · exact Or.inl h1
      · by_cases h2 : o = '['
        · exact Or.inr h2
        · simp [h1, h2] at hcl
    · exact ih _ h.2 t ht

theorem HidAll_prefix {a b : List PItem} (h : HidAll a b)
    (hop : ∀ t, PItem.paren t ∈ a → ∃ o t', t = o :: t' ∧ (o = '(' ∨ o = '[')) :
    ∀ (p rest : Str), pjoin a = p ++ rest → (∀ c ∈ p, isAlpha c = true) →
      ∃ rest', pjoin b = p ++ rest' := by
  induction h with
  | nil => intro p rest hj _; simp at hj; exact ⟨[], by simp [hj.1]⟩
  | @cons x y r r' hx _ ih =>
    intro p rest hj hp
    cases p with
    | nil => exact ⟨_, rfl⟩
    | cons c p =>
      cases x with
      | plain s =>
        cases y with
        | paren s' => exact absurd hx id
        | plain s' =>
          have : s' = s := hx
          subst this
          simp only [pjoin_cons, PItem.str] at hj ⊢
          rcases List.append_eq_append_iff.1 hj with ⟨a', h1, h2⟩ | ⟨c', h1, h2⟩
          · -- the prefix extends beyond the plain item
            obtain ⟨rest', hr'⟩ := ih (fun t ht => hop t (by simp [ht])) a' rest h2
              (fun z hz => hp z (by rw [h1]; simp [hz]))
            exact ⟨rest', by rw [h1, hr']; simp⟩
          · -- the prefix ends inside the plain item
            exact ⟨c' ++ pjoin r', by rw [h1]; simp⟩
      | paren s =>
        exfalso
        obtain ⟨o, t', rfl, ho⟩ := hop s (by simp)
        simp only [pjoin_cons, PItem.str, List.cons_append, List.cons.injEq] at hj
        have hc := hp c (by simp)
        rw [← hj.1] at hc
        rcases ho with rfl | rfl <;> exact absurd hc (by decide)

/-! ## the two results -/

theorem alpha_safe {c : Char} (h : isAlpha c = true) : Safe c :=
  ⟨alpha_not_digit h, by rintro rfl; exact absurd h (by decide)⟩

/-- the first character of a line survives tokenisation, unless it can start an exponent constant -/
theorem srm_head {l : Str} {r : SrmResult} (hr : Combi.tokenise l = some r) {c : Char}
    (hd : isDigit c = false) (hdot : c ≠ '.') (hl : l.head? = some c) : r.text.head? = some c := by
  have hr' : stringReplaceMapWith discipline l false = some r := hr
  obtain ⟨h1, h2, _⟩ := srm_hides discipline rfl l false r hr'
  rw [h1, HidAll_head h2, splitparen_join']
  -- phase 1
  have hp1 : (phase1Text discipline l false).head? = some c := by
    rw [P1Rel_head (phase1_rel l), hl]
  obtain ⟨w1, hw1⟩ : ∃ w, phase1Text discipline l false = [c] ++ w := by
    cases ht : phase1Text discipline l false with
    | nil => rw [ht] at hp1; cases hp1
    | cons x w => rw [ht] at hp1; simp at hp1; exact ⟨w, by simp [hp1]⟩
  -- phase 2
  obtain ⟨w2, hw2⟩ := phase2_prefix (phase1 discipline {} (splitquote l none false).1).1
    (phase1Text discipline l false) [c] w1 (by intro z hz; simp at hz; subst hz; exact ⟨hd, hdot⟩) hw1
  have : phase2Text discipline l false = [c] ++ w2 := hw2
  rw [this]; rfl

/-- a leading run of letters survives tokenisation -/
theorem srm_prefix_alpha {l : Str} {r : SrmResult} (hr : Combi.tokenise l = some r) (p rest : Str)
    (hl : l = p ++ rest) (hp : ∀ c ∈ p, isAlpha c = true) : ∃ rest', r.text = p ++ rest' := by
  have hr' : stringReplaceMapWith discipline l false = some r := hr
  obtain ⟨h1, h2, _⟩ := srm_hides discipline rfl l false r hr'
  rw [h1]
  -- phase 1
  obtain ⟨w1, hw1⟩ := P1Rel_prefix_fwd (phase1_rel l) p rest hl (fun c hc => alpha_not_quote (hp c hc))
  -- phase 2
  obtain ⟨w2, hw2⟩ := phase2_prefix (phase1 discipline {} (splitquote l none false).1).1
    (phase1Text discipline l false) p w1 (fun c hc => alpha_safe (hp c hc)) hw1
  have h3 : phase2Text discipline l false = p ++ w2 := hw2
  -- phase 3
  exact HidAll_prefix h2 (parensOK_opener {} _ (splitparen_parensOK _)) p w2
    (by rw [splitparen_join', h3]) hp

end Fp.IoStmt

#print axioms Fp.IoStmt.srm_head
#print axioms Fp.IoStmt.srm_prefix_alpha
