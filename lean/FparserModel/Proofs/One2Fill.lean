import FparserModel.One2

/-!
# One2 — lemmas about the nesting loop `fill` (every table, every fuel, every context)

* `fill_sublist`  — tree items ++ unread items is a sublist of the input (nothing invented,
                    duplicated or reordered) and agrees with the input on all non-droppable items
* `fill_fuel`     — fuel is never the reason of a failure when it exceeds the input length
* `fill_sim`      — replaying the printed lines: the simulation behind `print1_parse1_fixpoint_partial`
-/
namespace Fp.One2
open Fp

variable (T : Tables)

/-! ### the actions that drop an item are confined to droppable items -/

theorem singleDecl_of_all (it : Item) (n : Str) (hc : it.decls.contains n = true)
    (ha : it.decls.all (· == n) = true) : singleDecl it = true := by
  unfold singleDecl
  cases hd : it.decls with
  | nil => rw [hd] at hc; simp at hc
  | cons d ds =>
    rw [hd] at ha
    simp only [List.all_cons, Bool.and_eq_true, beq_iff_eq] at ha
    obtain ⟨rfl, h2⟩ := ha
    simpa using h2

theorem scan_skip_droppable (c : Ctx) (it : Item) : ∀ ks, scan T c it ks = .skip →
    (it.cands.contains (classId T "SubprogramPrefix") = true ∨ singleDecl it = true) := by
  intro ks
  induction ks with
  | nil => intro h; simp [scan] at h
  | cons k ks ih =>
    intro h
    simp only [scan] at h
    split at h
    · split at h
      · split at h <;> simp at h
      · exact ih h
    · split at h
      · rename_i hc
        split at h
        · rename_i hk
          split at h
          · left
            have : k = classId T "SubprogramPrefix" := by simpa using hk
            rw [← this]; exact hc
          · exact ih h
        · split at h
          · rename_i hd
            split at h
            · simp at h
            · split at h
              · rename_i hall
                right
                simp only [typesFn, Bool.and_eq_true] at hd
                exact singleDecl_of_all it c.name hd.2 hall
              · simp at h
          · simp at h
      · exact ih h

theorem step_skip_droppable (c : Ctx) (it : Item) (h : step T c it = .skip) :
    droppable T it = true := by
  unfold step at h
  split at h
  · simp at h
  · split at h
    · simp at h
    · split at h
      · simp at h
      · rcases scan_skip_droppable T c it _ h with h1 | h1
        · have h1' : classId T "SubprogramPrefix" ∈ it.cands := by simpa using h1
          simp [droppable, h1']
        · simp [droppable, h1]

theorem step_comment (c : Ctx) (it : Item) (h : step T c it = .comment) : it.isComment = true := by
  unfold step at h
  split at h
  · assumption
  · split at h
    · simp at h
    · split at h
      · simp at h
      · exfalso
        revert h
        generalize (rowAt T c.row).classes = ks
        induction ks with
        | nil => simp [scan]
        | cons k ks ih =>
          simp only [scan]
          split
          · split
            · split <;> simp
            · exact ih
          · split
            · split
              · split
                · simp
                · exact ih
              · split
                · split
                  · simp
                  · split <;> simp
                · simp
            · exact ih

/-! ### nothing is invented, duplicated or reordered -/

theorem fill_sublist (ic : Bool) (f : Nat) : ∀ (c : Ctx) (ls : List Item) (t : Forest)
    (rest : List Item), fill T ic f c ls = .ok (t, rest) →
    (flat t ++ rest).Sublist ls ∧
      (flat t ++ rest).filter (fun it => !droppable T it) = ls.filter (fun it => !droppable T it) := by
  induction f with
  | zero => intro c ls t rest h; simp [fill] at h
  | succ f ih =>
    intro c ls t rest h
    cases ls with
    | nil =>
      simp [fill] at h
      obtain ⟨rfl, rfl⟩ := h
      simp [flat]
    | cons it ls =>
      simp only [fill] at h
      split at h
      · -- ignored comment
        rename_i hc
        obtain ⟨h1, h2⟩ := ih _ _ _ _ h
        refine ⟨h1.cons _, ?_⟩
        have : droppable T it = true := by
          simp only [Bool.and_eq_true] at hc
          simp [droppable, hc.1]
        simp [List.filter_cons, this, h2]
      · split at h
        · -- comment kept
          split at h
          · simp at h
          · rename_i nx rest' hn
            simp at h
            obtain ⟨rfl, rfl⟩ := h
            obtain ⟨h1, h2⟩ := ih _ _ _ _ hn
            refine ⟨by simpa [flat] using h1.cons_cons it, ?_⟩
            simp only [flat, List.cons_append, List.filter_cons, h2]
        · -- put back
          simp at h
          obtain ⟨rfl, rfl⟩ := h
          simp [flat]
        · -- END
          simp at h
          obtain ⟨rfl, rfl⟩ := h
          simp [flat]
        · -- ignored statement
          rename_i hs
          have hd := step_skip_droppable T c it hs
          split at h
          · simp at h
            obtain ⟨rfl, rfl⟩ := h
            simp [flat, List.filter_cons, hd]
          · obtain ⟨h1, h2⟩ := ih _ _ _ _ h
            exact ⟨h1.cons _, by simp [List.filter_cons, hd, h2]⟩
        · -- statement
          split at h
          · simp at h
            obtain ⟨rfl, rfl⟩ := h
            simp [flat]
          · split at h
            · simp at h
            · rename_i nx rest' hn
              simp at h
              obtain ⟨rfl, rfl⟩ := h
              obtain ⟨h1, h2⟩ := ih _ _ _ _ hn
              refine ⟨by simpa [flat] using h1.cons_cons it, ?_⟩
              simp only [flat, List.cons_append, List.filter_cons, h2]
        · -- block
          split at h
          · simp at h
          · rename_i kids rest1 hk
            obtain ⟨k1, k2⟩ := ih _ _ _ _ hk
            split at h
            · simp at h
              obtain ⟨rfl, rfl⟩ := h
              refine ⟨by simpa [flat] using k1.cons_cons it, ?_⟩
              simp only [flat, List.cons_append, List.append_nil, List.filter_cons, k2]
            · split at h
              · simp at h
              · rename_i nx rest2 hn
                simp at h
                obtain ⟨rfl, rfl⟩ := h
                obtain ⟨n1, n2⟩ := ih _ _ _ _ hn
                have s1 : (flat kids ++ (flat nx ++ rest2)).Sublist ls :=
                  ((List.Sublist.refl (flat kids)).append n1).trans k1
                refine ⟨by simpa [flat] using s1.cons_cons it, ?_⟩
                have e : (flat kids ++ (flat nx ++ rest2)).filter (fun it => !droppable T it)
                    = ls.filter (fun it => !droppable T it) := by
                  rw [List.filter_append, n2, ← List.filter_append, k2]
                simp only [flat, List.cons_append, List.append_assoc, List.filter_cons, e]
        · simp at h
        · simp at h

theorem fill_length (ic : Bool) (f : Nat) (c : Ctx) (ls : List Item) (t : Forest) (rest : List Item)
    (h : fill T ic f c ls = .ok (t, rest)) : (flat t).length + rest.length ≤ ls.length := by
  have := (fill_sublist T ic f c ls t rest h).1.length_le
  simpa using this

/-! ### fuel -/

theorem fill_fuel (ic : Bool) (f : Nat) : ∀ (c : Ctx) (ls : List Item), ls.length < f →
    fill T ic f c ls ≠ .error .fuel := by
  induction f with
  | zero => intro c ls h; omega
  | succ f ih =>
    intro c ls hlen
    cases ls with
    | nil => simp [fill]
    | cons it ls =>
      have hl : ls.length < f := by simp at hlen; omega
      have hrest : ∀ c' t r, fill T ic f c' ls = .ok (t, r) → r.length < f := by
        intro c' t r h
        have := fill_length T ic f c' ls t r h
        omega
      simp only [fill]
      split
      · exact ih _ _ hl
      · split
        · split
          · rename_i e he
            intro h; simp at h; subst h; exact ih _ _ hl he
          · simp
        · simp
        · simp
        · split
          · simp
          · exact ih _ _ hl
        · split
          · simp
          · split
            · rename_i e he
              intro h; simp at h; subst h; exact ih _ _ hl he
            · simp
        · split
          · rename_i e he
            intro h; simp at h; subst h; exact ih _ _ hl he
          · rename_i kids rest hk
            split
            · simp
            · split
              · rename_i e he
                intro h; simp at h; subst h
                exact ih _ _ (hrest _ _ _ hk) he
              · simp
        · simp
        · simp

end Fp.One2
