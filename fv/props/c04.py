"""C04 — free-form layout does not change the parse."""
import random
from fv import real, gen, layout, treeutil, engine, findings
from fv.props import util

RULE = ("generated programs x seeded free-form layouts (continuation cuts at token boundaries and inside character literals "
        "with/without leading '&', blank/comment lines between continuation lines, trailing comments, indentation, extra blanks, "
        "';' joins, case changes); oracle: tree(layout) == tree(canonical) exactly (case-insensitively outside literals only when "
        "the layout changed case); separate streams: ';' joins, and adjacent-keyword pairs stressed one at a time; "
        "non-trivial = the layout took >= 3 continuation/comment/semicolon decisions"
        " Correspondence: the reader model Fp.Reader is run on every second laid-out source and its item stream compared with the real reader's (both comment settings).")
ASSUMPTIONS = ["'same items => same tree' needs leaf matchers to be insensitive to blanks between tokens: exercised, not proved"]
TIE_MODULES = ["FparserModel.Reader"]

# adjacent-keyword pairs on which the pinned tree is sensitive to extra blanks / a
# continuation between the two words (known finding F-C04-3)
KNOWN_PAIRS = {("IN", "OUT"), ("ERROR", "STOP"), ("DOUBLE", "PRECISION"), ("BLOCK", "DATA")}

QUOTE_COMMENTS = ["! don't", "! 3\" wide", "! it's \"half", "! 'open", "! say \"hi", "! ok", "! a 'b' \"c"]

MODES = ["layout", "layout", "quotes", "case", "semi", "kwpair", "layout"]


def _opts(mode, rng):
    if mode == "layout":
        return layout.FreeOpts(p_cont=0.35, comments=True, indent=rng.choice(["tree", "none", "random"]))
    if mode == "quotes":
        # continued statements with trailing comments that contain unbalanced quote marks
        return layout.FreeOpts(p_cont=0.7, comments=True, p_trailing=0.6, p_between=0.3, p_comment=0.05, max_cuts=4, p_lit_cut=0.5)
    if mode == "case":
        return layout.FreeOpts(p_cont=0.2, comments=False, case=rng.choice(["upper", "lower", "random"]))
    if mode == "semi":
        return layout.FreeOpts(p_cont=0.1, comments=False, p_semi=0.5, p_trailing=0.0)
    if mode == "kwpair":
        return layout.FreeOpts(p_cont=0.5, comments=False, kw_stress=True, p_extra_blank=0.3, max_cuts=2)
    raise ValueError(mode)


def _kw_pairs(p):
    out = set()
    for s in p.flat():
        for a, b in zip(s.toks, s.toks[1:]):
            if gen.is_kw(a) and gen.is_kw(b):
                out.add((a.upper(), b.upper()))
    return out


def run_case(case):
    p = util.program_case(case)
    std, mode = case["std"], case["mode"]
    if mode == "semi":
        # statements that carry BOTH a label and a construct name, so that they also occur
        # behind a `;` (the label of a named opener stands in front of the name)
        lab = 9000
        r0 = random.Random(case["seed"] ^ 0x5E1)
        for st_ in p.flat():
            if st_.role == "open" and st_.cname and st_.label is None and st_.cons not in ("labeldo", "nonblockdo") and r0.random() < 0.6:
                lab += 1
                st_.label = str(lab)
    res = {"key": [case["seed"], std, mode], "counts": {"mode:" + mode: 1}, "findings": []}
    canon = p.text()
    o0 = real.try_parse(canon, std=std, ignore_comments=True, free=True)
    if o0.kind != "tree":
        res["nontrivial"] = False
        res["counts"]["canonical-rejected"] = 1
        return res
    rng = random.Random(case["seed"] ^ 0xC04)
    opts = _opts(mode, rng)
    L = layout.render_free(p, case["seed"] ^ 0xC04, opts, comment_texts=QUOTE_COMMENTS if mode == "quotes" else None)
    src = L.text()
    for k, v in L.decisions.items():
        res["counts"]["lay:" + k] = v
    ndec = sum(v for k, v in L.decisions.items() if k.startswith(("cut", "comment", "semicolon", "blank-in")))
    res["nontrivial"] = ndec >= 3
    res["sample"] = {"seed": case["seed"], "mode": mode, "decisions": dict(L.decisions), "head": src[:300]}
    o1 = real.try_parse(src, std=std, ignore_comments=True, free=True)
    if case["seed"] % 2 == 0:
        res["findings"] += util.reader_cosim(src, "free", case=case)
        res["counts"]["reader-cosim"] = 1
    fold = mode == "case"
    ctx = {"std": std, "ignore_comments": True, "mode": mode}

    def layout_of(q, protect=()):
        o_ = opts
        if protect:
            o_ = _opts(mode, random.Random(case["seed"] ^ 0xC04))
            o_.__dict__.update(opts.__dict__)
            o_.kw_protect = protect
        return layout.render_free(q, case["seed"] ^ 0xC04, o_, comment_texts=QUOTE_COMMENTS if mode == "quotes" else None).text()

    def kw_known(q, same):
        """failure disappears when only the known-sensitive keyword pairs are protected"""
        if mode != "kwpair" or not (_kw_pairs(q) & KNOWN_PAIRS):
            return None
        t = layout_of(q, KNOWN_PAIRS)
        return "pred:compound_keyword_blanks" if same(t) else None

    if o1.kind != "tree":
        sigs = util.outcome_signature(o1)

        def failsp(q):
            if real.try_parse(q.text(), std=std, free=True).kind != "tree":
                return False
            o_ = real.try_parse(layout_of(q), std=std, free=True)
            return o_.kind != "tree" and util.outcome_signature(o_) == sigs
        q = util.reduce_prog(p, failsp, max_tests=300)
        mini = layout_of(q)
        ctx["pairs"] = sorted(_kw_pairs(q))
        known = findings.classify("C04", mini, ctx) or kw_known(q, lambda t: real.try_parse(t, std=std, free=True).kind == "tree")
        res["findings"].append({"signature": known or ("layout-reject[%s]:%s" % (mode, sigs)),
                                "what": "laid-out source rejected (%s): %s | minimal %r" % (mode, str(o1.exc)[:150], mini[:500]),
                                "replay": {"case": case, "source": src, "canonical": canon, "minimal": mini}})
        return res
    a, b = treeutil.sig(o0.tree, fold=fold), treeutil.sig(o1.tree, fold=fold)
    if a != b:
        def failsp(q):
            oa = real.try_parse(q.text(), std=std, free=True)
            ob = real.try_parse(layout_of(q), std=std, free=True)
            return oa.kind == "tree" and ob.kind == "tree" and treeutil.sig(oa.tree, fold=fold) != treeutil.sig(ob.tree, fold=fold)
        q = util.reduce_prog(p, failsp, max_tests=300)
        mini = layout_of(q)
        oa = real.try_parse(q.text(), std=std, free=True)
        ob = real.try_parse(mini, std=std, free=True)
        d = treeutil.first_diff(treeutil.sig(oa.tree, fold=fold), treeutil.sig(ob.tree, fold=fold))
        ctx["diff"] = d
        ctx["fold_equal"] = treeutil.sig(oa.tree, fold=True) == treeutil.sig(ob.tree, fold=True)
        ctx["pairs"] = sorted(_kw_pairs(q))

        def same_tree(t):
            o_ = real.try_parse(t, std=std, free=True)
            return o_.kind == "tree" and treeutil.sig(o_.tree, fold=fold) == treeutil.sig(oa.tree, fold=fold)
        known = findings.classify("C04", mini, ctx) or kw_known(q, same_tree)
        res["findings"].append({"signature": known or ("tree-differs[%s]:%s" % (mode, str(d[1])[:50] if d else "?")),
                                "what": "tree of laid-out source differs (%s) at %s: %s vs %s | minimal %r" % ((mode,) + tuple(d) + (mini[:400],)),
                                "replay": {"case": case, "source": src, "canonical": canon, "minimal": mini}})
    return res


def cases(tier, seed):
    n = util.tier_n(tier, 240, 3000)
    out = []
    for i, s in enumerate(util.seeds(seed, n, 4)):
        out.append({"seed": s, "std": "f2008" if i % 4 else "f2003", "mode": MODES[i % len(MODES)]})
    return out


def run(tier, rep, st):
    engine.run_cases(__name__, cases(tier, rep.seed), rep)
