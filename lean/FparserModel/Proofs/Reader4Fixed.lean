import FparserModel.Proofs.Reader4Step
import FparserModel.Proofs.Reader3FixStmt
import FparserModel.Proofs.Reader3FixOmpSrc

/-!
# Reader4Fixed — fixed-form statements whose character literals cross the line wrap (C05)

`Reader3FixLoop/Item/Stmt` with the cleanliness hypothesis (`fixClean`: no `!`, no quote)
replaced by "`!` only inside character literals" (`bangFree`), the quote state being threaded
through the continuation lines by `handle_inline_comment`.
-/
namespace Fp.Reader
open Fp
open Fp.Splitline (QState qstep qrun qinit qfinal quoteStateAfter)

/-- follow lines read in quote state `q`: comment lines, or continuation lines whose columns 7…
    contain `!` only inside character literals; the state is handed on -/
def FollowOkQ : Option Char → List (Str × Nat) → Prop
  | _, [] => True
  | q, (l, _) :: ls => isFollow l = true ∧
      (if isFixCommentS l then FollowOkQ q ls
       else bangFree (qinit q) (l.drop 6) = true ∧ FollowOkQ (quoteStateAfter q (l.drop 6)) ls)

instance FollowOkQ.dec : ∀ (q : Option Char) (ls : List (Str × Nat)), Decidable (FollowOkQ q ls)
  | _, [] => isTrue trivial
  | q, (l, _) :: ls => by
    unfold FollowOkQ
    have := FollowOkQ.dec q ls
    have := FollowOkQ.dec (quoteStateAfter q (l.drop 6)) ls
    infer_instance

theorem fixLoopQ_run : ∀ (ls : List (Str × Nat)) (ra r_end r_fin : Rd) (nxt : Option Str) (F : List Item)
    (acc : Str) (q : Option Char) (endl fuel : Nat),
    (∀ c, q = some c → isQuote c = true) →
    ReadsAt ra ls r_end → FollowOkQ q ls → getSingleLine r_end = (nxt, r_fin) →
    (isFixCont nxt || isFixComment nxt) = false → ls.length + 1 ≤ fuel →
    fixLoop fuel (getNextLine { ra with fifo := F }).1 acc q endl (getNextLine { ra with fifo := F }).2 =
      (acc ++ fixPieces ls, fixEnd endl ls, unread { r_fin with fifo := F ++ fixComments ls } nxt)
  | [], ra, r_end, r_fin, nxt, F, acc, q, endl, fuel, _, hr, _, hn, hstop, hf => by
    cases hr
    cases fuel with
    | zero => simp at hf
    | succ fuel =>
      rw [getNextLine_eq, getSingleLine_setFifo, hn]
      unfold fixLoop
      simp only [hstop, Bool.false_eq_true, if_false, fixPieces, fixEnd, fixComments,
        List.append_nil, unread_setFifo]
  | (l, n) :: ls, ra, r_end, r_fin, nxt, F, acc, q, endl, fuel, hq, hr, hok, hn, hstop, hf => by
    cases hr with
    | cons hg hn1 hr' =>
      rename_i r1
      cases fuel with
      | zero => simp at hf
      | succ fuel =>
        have hfuel : ls.length + 1 ≤ fuel := by simp only [List.length_cons] at hf; omega
        obtain ⟨hfol, hrest⟩ := hok
        have hgF : getSingleLine { ra with fifo := F } = (some l, { r1 with fifo := F }) := by
          rw [getSingleLine_setFifo, hg]
        rw [getNextLine_eq, hgF]
        unfold fixLoop
        have hcond : (isFixCont (some l) || isFixComment (some l)) = true := hfol
        simp only [unread_some, hcond, if_true, getSingleLine_unput _ _ _ hgF]
        by_cases hc : isFixCommentS l = true
        · simp only [hc, if_true] at hrest ⊢
          have ih := fixLoopQ_run ls r1 r_end r_fin nxt (F ++ [Item.comment l r1.linecount r1.linecount false])
            acc q endl fuel hq hr' hrest hn hstop hfuel
          refine ih.trans ?_
          simp only [fixPieces, fixEnd, fixComments, hc, if_true, List.nil_append, List.append_assoc, hn1]
        · have hc' : isFixCommentS l = false := by simpa using hc
          simp only [hc', Bool.false_eq_true, if_false] at hrest ⊢
          simp only [hic_code _ r1.linecount q hq hrest.1, List.append_nil]
          have ih := fixLoopQ_run ls r1 r_end r_fin nxt F (acc ++ l.drop 6) _ r1.linecount fuel
            (quoteStateAfter_isQuote q hq (l.drop 6)) hr' hrest.2 hn hstop hfuel
          refine ih.trans ?_
          simp only [fixPieces, fixEnd, fixComments, hc', Bool.false_eq_true, if_false, List.nil_append,
            List.append_assoc, hn1]

theorem fixedItem_runQ (r1 r_end r_fin : Rd) (line line' : Str) (s : Nat) (lab : Option Nat)
    (nam : Option Str) (ls : List (Str × Nat)) (nxt : Option Str)
    (hlab : fixedLabel line = some lab) (hnam : fixedName line = (nam, line'))
    (hcl : bangFree .outside (line'.drop 6) = true) (hne : strip (line'.drop 6) ≠ [])
    (hr : ReadsAt r1 ls r_end) (hok : FollowOkQ (quoteStateAfter none (line'.drop 6)) ls)
    (hn : getSingleLine r_end = (nxt, r_fin))
    (hstop : (isFixCont nxt || isFixComment nxt) = false) :
    fixedItem r1 line s =
      (.ok (.line (strip (line'.drop 6 ++ fixPieces ls)) lab nam s (fixEnd r1.linecount ls)),
       unread { r_fin with fifo := r1.fifo ++ fixComments ls } nxt) := by
  unfold fixedItem
  have hq0 : ∀ c, (none : Option Char) = some c → isQuote c = true := fun _ h => by cases h
  simp only [hlab, hnam, hne, if_false, hic_code _ s none hq0 hcl, List.append_nil]
  have hm := hr.measure
  have hrun := fixLoopQ_run ls r1 r_end r_fin nxt r1.fifo (line'.drop 6) _ r1.linecount
    (r1.src.length + r1.filo.length + 2) (quoteStateAfter_isQuote none hq0 _) hr hok hn hstop (by omega)
  have he : ({ r1 with fifo := r1.fifo } : Rd) = r1 := rfl
  rw [he] at hrun
  rw [hrun]
  unfold mkLine
  simp only [strip_append_ne_nil _ _ hne, if_false]

/-- C05, ONE fixed-form statement with character literals, any reader state -/
theorem getSourceItem_fixedQ (r0 r1 r_end r_fin : Rd) (line line' : Str) (lab : Option Nat)
    (nam : Option Str) (ls : List (Str × Nat)) (nxt : Option Str)
    (hg : getSingleLine r0 = (some line, r1)) (hfx : r1.isFree = false)
    (hcpp : startsWith (lstrip line) ['#'] = false) (hnc : isFixCommentS line = false)
    (hcol : colCheck line = .fine)
    (hlab : fixedLabel line = some lab) (hnam : fixedName line = (nam, line'))
    (hcl : bangFree .outside (line'.drop 6) = true) (hne : strip (line'.drop 6) ≠ [])
    (hr : ReadsAt r1 ls r_end) (hok : FollowOkQ (quoteStateAfter none (line'.drop 6)) ls)
    (hn : getSingleLine r_end = (nxt, r_fin))
    (hstop : (isFixCont nxt || isFixComment nxt) = false) :
    getSourceItem r0 =
      (.ok (.line (strip (line'.drop 6 ++ fixPieces ls)) lab nam r1.linecount (fixEnd r1.linecount ls)),
       unread { r_fin with fifo := r1.fifo ++ fixComments ls } nxt) := by
  unfold getSourceItem
  simp only [hg, hcpp, Bool.and_false, Bool.false_eq_true, if_false, hfx, Bool.false_and,
    Bool.not_false, if_true, hnc, hcol]
  exact fixedItem_runQ r1 r_end r_fin line line' r1.linecount lab nam ls nxt hlab hnam hcl hne hr hok hn hstop

/-- the same with the follow lines given as physical source lines -/
theorem getSourceItem_fixed_srcQ (r0 r1 : Rd) (line line' : Str) (lab : Option Nat) (nam : Option Str)
    (ls rest : List Str)
    (hg : getSingleLine r0 = (some line, r1)) (hp : FixedPlain r1) (hsrc : r1.src = ls ++ rest)
    (hcpp : startsWith (lstrip line) ['#'] = false) (hnc : isFixCommentS line = false)
    (hcol : colCheck line = .fine)
    (hlab : fixedLabel line = some lab) (hnam : fixedName line = (nam, line'))
    (hcl : bangFree .outside (line'.drop 6) = true) (hne : strip (line'.drop 6) ≠ [])
    (hfol : FollowOkQ (quoteStateAfter none (line'.drop 6)) (surf r1.ignoreComments r1.linecount ls))
    (hnx : stopsAt rest = true) :
    getSourceItem r0 =
      (.ok (.line (strip (line'.drop 6 ++ srcPieces ls)) lab nam r1.linecount
              (srcEnd r1.linecount r1.linecount ls)),
       afterStmt r1 ls rest (r1.fifo ++ srcComments r1.ignoreComments r1.linecount ls)) := by
  obtain ⟨r_end, hr, ht⟩ := readsAt_fixed ls rest r1 hp hsrc (fun nx rest' he => by
    have := stopsAt_cons (he ▸ hnx)
    simp only [isFollow, Bool.or_eq_false_iff] at this
    rw [this.2, Bool.and_false])
  have hstop : (isFixCont (tailRead r1 ls rest).1 || isFixComment (tailRead r1 ls rest).1) = false := by
    cases rest with
    | nil => rfl
    | cons nx rest' => exact stopsAt_cons hnx
  have := getSourceItem_fixedQ r0 r1 r_end (tailRead r1 ls rest).2 line line' lab nam
    (surf r1.ignoreComments r1.linecount ls) (tailRead r1 ls rest).1 hg hp.fixed hcpp hnc hcol hlab hnam
    hcl hne hr hfol ht hstop
  rw [this, fixPieces_surf, fixEnd_surf, fixComments_surf, unread_tailRead _ _ _ _ hp.filo]

/-- the columns 7… of physical lines without tabs, `\xa0` and trailing white space are what
    `srcPieces` concatenates: nothing is lost -/
theorem srcPieces_cooked : ∀ (ls : List Str), (∀ l ∈ ls, Cooked1 l) →
    srcPieces ls = (ls.map fun l => if isFixCommentS l then [] else l.drop 6).flatten
  | [], _ => rfl
  | l :: ls, h => by
    have hl := cook_of_cooked1 (h l List.mem_cons_self)
    simp only [srcPieces, hl, List.map_cons, List.flatten_cons,
      srcPieces_cooked ls (fun x hx => h x (List.mem_cons_of_mem _ hx))]

end Fp.Reader
