import FparserModel.Primary
import FparserModel.Proofs.IoStmtBasic
import FparserModel.Proofs.IoStmtSeg
import FparserModel.Proofs.IoStmtLayoutCombi
/-!
Token preservation for the LITERAL constants of the operand layer (hand-written matchers without
children and without the tokeniser): `NumberBase` (`Int_/Signed_Int_/Real_/Signed_Real_/
Logical_Literal_Constant`), `Name`, `Type_Name`, `Binary_/Octal_/Hex_Constant`.
The statements are EXACT (the printed text is given), `toks` equality is a corollary.
-/
namespace Fp.Primary
open Fp Fp.Splitline
open Fp.IoStmt (Res Exc Slot Item Oracle runSlots runSlot toks net OracleTok echoO echoO_tok
  toks_append toks_upper toks_strip toks_of_noBlank net_append upper_append
  runSlots_cons_ok runSlots_nil_ok runSlot_none_ok runSlot_str_ok runSlots_pair_ok)
open Fp.Combi (noBlank noBlank_append noBlank_lstrip)

variable {Node : Type}

/-! ## vocabulary -/

/-- `"_" + kind_param` when there is one -/
def kindSuffix : Option Str → Str
  | none => []
  | some k => '_' :: k

/-- the second entry of `NumberBase.items` -/
def kindItem : Option Str → Item Node
  | none => .none
  | some k => .str k

theorem kindSuffix_eq (k : Option Str) :
    kindSuffix k = (match k with | none => [] | some k => '_' :: k) := by cases k <;> rfl

/-! ## characters -/

theorem not_space_of_nameChar {c : Char} (h : isNameChar c = true) : isSpace c = false := by
  cases hs : isSpace c with
  | false => rfl
  | true =>
    exfalso
    rcases isSpace_cases hs with e | e | e | e | e | e | e | e | e | e <;> subst e <;>
      exact absurd h (by decide)

theorem not_space_of_digit {c : Char} (h : isDigit c = true) : isSpace c = false := by
  cases hs : isSpace c with
  | false => rfl
  | true =>
    exfalso
    rcases isSpace_cases hs with e | e | e | e | e | e | e | e | e | e <;> subst e <;>
      exact absurd h (by decide)

theorem not_space_of_alpha {c : Char} (h : isAlpha c = true) : isSpace c = false := by
  cases hs : isSpace c with
  | false => rfl
  | true =>
    exfalso
    rcases isSpace_cases hs with e | e | e | e | e | e | e | e | e | e <;> subst e <;>
      exact absurd h (by decide)

theorem noBlank_self {k : Str} (h : ∀ c ∈ k, isSpace c = false) : noBlank k = k := by
  unfold noBlank
  rw [List.filter_eq_self]
  intro c hc
  simp [h c hc]

/-- a `kind_param` has no blank -/
theorem noBlank_kindParam {k : Str} (h : isKindParam k = true) : noBlank k = k := by
  apply noBlank_self
  cases k with
  | nil => intro c hc; simp at hc
  | cons a r =>
    replace h : (if isDigit a then r.all isDigit else isAlpha a && r.all isNameChar) = true := h
    intro c hc
    split at h
    · rename_i hd
      rcases List.mem_cons.mp hc with e | e
      · subst e; exact not_space_of_digit hd
      · exact not_space_of_digit (List.all_eq_true.mp h c e)
    · simp only [Bool.and_eq_true] at h
      rcases List.mem_cons.mp hc with e | e
      · subst e; exact not_space_of_alpha h.1
      · exact not_space_of_nameChar (List.all_eq_true.mp h.2 c e)

theorem noBlank_skipWs (s : Str) : noBlank (skipWs s) = noBlank s := noBlank_lstrip s

theorem noBlank_cons_us (s : Str) : noBlank ('_' :: s) = '_' :: noBlank s := by
  simp [noBlank, show isSpace '_' = false by decide]

/-- `s.replace(" ", "")` only deletes blanks -/
theorem noBlank_noSpaces (s : Str) : noBlank (Combi.noSpaces s) = noBlank s := by
  unfold noBlank Combi.noSpaces
  rw [List.filter_filter]
  apply List.filter_congr
  intro c _
  by_cases h : c = ' '
  · subst h; decide
  · simp [h]

/-! ## the scanners only consume a prefix -/

theorem skipWs_suffix (s : Str) : skipWs s <:+ s := List.dropWhile_suffix _

theorem digits1_suffix {s r : Str} (h : digits1 s = some r) : r <:+ s := by
  unfold digits1 at h
  split at h
  · split at h
    · cases h; exact List.dropWhile_suffix _
    · cases h
  · cases h

theorem optSign_suffix (s : Str) : optSign s <:+ s := by
  unfold optSign
  split
  · exact List.suffix_cons _ _
  · exact List.suffix_cons _ _
  · exact List.suffix_refl _

theorem expPart_suffix {s r : Str} (h : expPart s = some r) : r <:+ s := by
  unfold expPart at h
  split at h
  · rename_i c r0
    split at h
    · exact (digits1_suffix h).trans ((skipWs_suffix _).trans ((optSign_suffix _).trans
        ((skipWs_suffix _).trans (List.suffix_cons _ _))))
    · cases h
  · cases h

theorem significand_suffix {s r : Str} (h : significand s = some r) : r <:+ s := by
  unfold significand at h
  split at h
  · exact (digits1_suffix h).trans ((skipWs_suffix _).trans (List.suffix_cons _ _))
  · split at h
    · cases h
    · rename_i r1 h1
      have s1 := digits1_suffix h1
      split at h
      · rename_i r2 h2
        have s2 : r2 <:+ s := by
          have : r2 <:+ skipWs r1 := by rw [h2]; exact List.suffix_cons _ _
          exact this.trans ((skipWs_suffix _).trans s1)
        dsimp only at h
        split at h
        · rename_i r4 h4
          cases h
          exact (digits1_suffix h4).trans ((skipWs_suffix _).trans s2)
        · cases h; exact s2
      · cases h

theorem realValue_suffix {s r : Str} (h : realValue s = some r) : r <:+ s := by
  unfold realValue at h
  split at h
  · rename_i r0 h0
    have s0 := significand_suffix h0
    dsimp only at h
    split at h
    · rename_i r2 h2
      cases h
      exact (expPart_suffix h2).trans ((skipWs_suffix _).trans s0)
    · cases h; exact (skipWs_suffix _).trans s0
  · split at h
    · rename_i r1 h1
      exact (expPart_suffix h).trans ((skipWs_suffix _).trans (digits1_suffix h1))
    · cases h

theorem logicalValue_suffix {s r : Str} (h : logicalValue s = some r) : r <:+ s := by
  unfold logicalValue at h
  split at h
  · rename_i r0
    dsimp only at h
    split at h
    · split at h
      · rename_i r2 h2
        have : r2 <:+ skipWs ((skipWs r0).drop ((skipWs r0).takeWhile isAlpha).length) := by
          rw [h2]; exact List.suffix_cons _ _
        cases h
        exact this.trans ((skipWs_suffix _).trans ((List.drop_suffix _ _).trans
          ((skipWs_suffix _).trans (List.suffix_cons _ _))))
      · cases h
    · cases h
  · cases h

theorem takePre_append {s r : Str} (h : r <:+ s) : takePre s r ++ r = s := by
  obtain ⟨p, rfl⟩ := h
  simp [takePre]

/-! ## the kind tail -/

theorem kindTail_content {r : Str} {k : Option Str} (h : kindTail r = some k) :
    noBlank r = kindSuffix k ∧ (∀ k', k = some k' → isKindParam k' = true) := by
  unfold kindTail at h
  split at h
  · rename_i h0
    cases h
    refine ⟨?_, fun k' e => by cases e⟩
    rw [← noBlank_skipWs, h0]; rfl
  · rename_i r' h0
    dsimp only at h
    split at h
    · rename_i hk
      cases h
      refine ⟨?_, fun k' e => by cases e; exact hk⟩
      rw [← noBlank_skipWs, h0, noBlank_cons_us, ← noBlank_skipWs r', noBlank_kindParam hk]; rfl
    · cases h
  · cases h

/-- the CONTENT property of a scanner: value and kind together are the scanned text, up to blanks -/
def ScanContent (scan : Str → Option (Str × Option Str)) : Prop :=
  ∀ t v k, scan t = some (v, k) →
    noBlank t = noBlank v ++ kindSuffix k ∧ (∀ k', k = some k' → isKindParam k' = true)

theorem content_of_suffix {t r : Str} {k : Option Str} (hs : r <:+ t) (hk : kindTail r = some k) :
    noBlank t = noBlank (takePre t r) ++ kindSuffix k ∧
      (∀ k', k = some k' → isKindParam k' = true) := by
  refine ⟨?_, (kindTail_content hk).2⟩
  conv => lhs; rw [← takePre_append hs]
  rw [noBlank_append, (kindTail_content hk).1]

theorem scan_inv {t r : Str} {v : Str} {k : Option Str}
    (h : (kindTail r).map (fun k => (takePre t r, k)) = some (v, k)) :
    kindTail r = some k ∧ v = takePre t r := by
  cases hk : kindTail r with
  | none => rw [hk] at h; cases h
  | some k' =>
    rw [hk] at h
    simp only [Option.map_some, Option.some.injEq, Prod.mk.injEq] at h
    exact ⟨by rw [h.2], h.1.symm⟩

theorem scanInt_content : ScanContent scanInt := by
  intro t v k h
  unfold scanInt at h
  split at h
  · cases h
  · rename_i r hr
    obtain ⟨hk, rfl⟩ := scan_inv h
    exact content_of_suffix (digits1_suffix hr) hk

theorem scanSignedInt_content : ScanContent scanSignedInt := by
  intro t v k h
  unfold scanSignedInt at h
  split at h
  · cases h
  · rename_i r hr
    obtain ⟨hk, rfl⟩ := scan_inv h
    exact content_of_suffix
      ((digits1_suffix hr).trans ((skipWs_suffix _).trans (optSign_suffix _))) hk

theorem scanReal_content : ScanContent scanReal := by
  intro t v k h
  unfold scanReal at h
  split at h
  · cases h
  · rename_i r hr
    obtain ⟨hk, rfl⟩ := scan_inv h
    exact content_of_suffix (realValue_suffix hr) hk

theorem scanSignedReal_content : ScanContent scanSignedReal := by
  intro t v k h
  unfold scanSignedReal at h
  split at h
  · cases h
  · rename_i r hr
    obtain ⟨hk, rfl⟩ := scan_inv h
    exact content_of_suffix
      ((realValue_suffix hr).trans ((skipWs_suffix _).trans (optSign_suffix _))) hk

theorem scanLogical_content : ScanContent scanLogical := by
  intro t v k h
  unfold scanLogical at h
  split at h
  · cases h
  · rename_i r hr
    obtain ⟨hk, rfl⟩ := scan_inv h
    exact content_of_suffix (logicalValue_suffix hr) hk

/-! ## NumberBase -/

/-- **NumberBase, exact**: the items and the printed text of a matched number.  The VALUE is
    upper-cased, the KIND keeps its spelling; the printed text is `VALUE` or `VALUE_kind`. -/
theorem planNumber_exact (scan : Str → Option (Str × Option Str)) (o : Oracle Node) (s : Str)
    (items : List (Item Node)) (hm : (planNumber scan s).bind (runSlots o) = .ok items) :
    ∃ v k, scan (Combi.noSpaces s) = some (v, k) ∧ items = [.str (upper v), kindItem k] ∧
      tostrNumber o items = .ok (upper v ++ (match k with | none => [] | some k => '_' :: k)) := by
  obtain ⟨slots, hp, hr⟩ := IoStmt.Res.bind_eq_ok hm
  unfold planNumber at hp
  split at hp
  · cases hp
  · rename_i v hv
    cases hp
    obtain ⟨i, j, rfl, hi, hj⟩ := runSlots_pair_ok hr
    have := runSlot_str_ok hi; subst this
    have := runSlot_none_ok hj; subst this
    exact ⟨v, none, hv, rfl, by simp [tostrNumber, Item.text]⟩
  · rename_i v k hv
    cases hp
    obtain ⟨i, j, rfl, hi, hj⟩ := runSlots_pair_ok hr
    have := runSlot_str_ok hi; subst this
    have := runSlot_str_ok hj; subst this
    exact ⟨v, some k, hv, rfl, by simp [tostrNumber, Item.text]⟩

/-- **the case facts**: the printed text is `upper value ++ "_" ++ kind` where `value`/`kind` are
    the pieces of the input (up to blanks): the value is upper-cased (`.true.` prints `.TRUE.`,
    `1e3` prints `1E3`), the kind suffix is printed in the case it was written in. -/
theorem number_kind_case_kept (scan : Str → Option (Str × Option Str)) (hscan : ScanContent scan)
    (o : Oracle Node) (s : Str) (items : List (Item Node))
    (hm : (planNumber scan s).bind (runSlots o) = .ok items) :
    ∃ v k, tostrNumber o items = .ok (upper v ++ kindSuffix k) ∧
      noBlank s = noBlank v ++ kindSuffix k := by
  obtain ⟨v, k, hv, _, ht⟩ := planNumber_exact scan o s items hm
  refine ⟨v, k, by rw [ht, kindSuffix_eq], ?_⟩
  rw [← noBlank_noSpaces]
  exact (hscan _ _ _ hv).1

theorem net_kindSuffix (o : Oracle Node) (k : Option Str)
    (h : net ((kindItem k : Item Node).text o) = 0) : net (kindSuffix k) = 0 := by
  cases k with
  | none => rfl
  | some k =>
    have h' : net k = 0 := h
    simp [kindSuffix, net, h']

theorem upperC_ne_paren (c : Char) :
    (upperC c == '(') = (c == '(') ∧ (upperC c == ')') = (c == ')') := IoStmt.upperC_paren c

theorem net_upper (s : Str) : net (upper s) = net s := by
  induction s with
  | nil => rfl
  | cons c cs ih =>
    simp only [upper, List.map_cons, net, (upperC_ne_paren c).1, (upperC_ne_paren c).2]
    simp only [upper] at ih
    rw [ih]

/-- **NumberBase** keeps the tokens, for every scanner with the content property -/
theorem number_tostr_match_tokens (scan : Str → Option (Str × Option Str)) (hscan : ScanContent scan)
    (o : Oracle Node) (s : Str) (items : List (Item Node))
    (hm : (planNumber scan s).bind (runSlots o) = .ok items) :
    ∃ t, tostrNumber o items = .ok t ∧ toks t = toks s ∧
      ((∀ i ∈ items, net (i.text o) = 0) → net t = 0) := by
  obtain ⟨v, k, hv, hi, ht⟩ := planNumber_exact scan o s items hm
  rw [← kindSuffix_eq] at ht
  refine ⟨_, ht, ?_, ?_⟩
  · obtain ⟨h1, hk⟩ := hscan _ _ _ hv
    rw [noBlank_noSpaces] at h1
    have h3 : noBlank (kindSuffix k) = kindSuffix k := by
      cases k with
      | none => rfl
      | some k' =>
        show noBlank ('_' :: k') = '_' :: k'
        rw [noBlank_cons_us, noBlank_kindParam (hk k' rfl)]
    have h2 : toks s = toks v ++ toks (kindSuffix k) := by
      unfold toks; rw [h1, upper_append, h3]
    rw [toks_append, toks_upper, h2]
  · intro hb
    subst hi
    have a := hb (.str (upper v)) (by simp)
    have b := hb (kindItem k) (by simp)
    have a' : net (upper v) = 0 := a
    rw [net_append, a', net_kindSuffix o k b]; rfl

theorem Int_Literal_Constant_tostr_match_tokens (o : Oracle Node) (s : Str) (items : List (Item Node))
    (hm : (planIntLit s).bind (runSlots o) = .ok items) :
    ∃ t, tostrNumber o items = .ok t ∧ toks t = toks s ∧
      ((∀ i ∈ items, net (i.text o) = 0) → net t = 0) :=
  number_tostr_match_tokens scanInt scanInt_content o s items hm

theorem Signed_Int_Literal_Constant_tostr_match_tokens (o : Oracle Node) (s : Str)
    (items : List (Item Node)) (hm : (planSignedIntLit s).bind (runSlots o) = .ok items) :
    ∃ t, tostrNumber o items = .ok t ∧ toks t = toks s ∧
      ((∀ i ∈ items, net (i.text o) = 0) → net t = 0) :=
  number_tostr_match_tokens scanSignedInt scanSignedInt_content o s items hm

theorem Real_Literal_Constant_tostr_match_tokens (o : Oracle Node) (s : Str) (items : List (Item Node))
    (hm : (planRealLit s).bind (runSlots o) = .ok items) :
    ∃ t, tostrNumber o items = .ok t ∧ toks t = toks s ∧
      ((∀ i ∈ items, net (i.text o) = 0) → net t = 0) :=
  number_tostr_match_tokens scanReal scanReal_content o s items hm

theorem Signed_Real_Literal_Constant_tostr_match_tokens (o : Oracle Node) (s : Str)
    (items : List (Item Node)) (hm : (planSignedRealLit s).bind (runSlots o) = .ok items) :
    ∃ t, tostrNumber o items = .ok t ∧ toks t = toks s ∧
      ((∀ i ∈ items, net (i.text o) = 0) → net t = 0) :=
  number_tostr_match_tokens scanSignedReal scanSignedReal_content o s items hm

theorem Logical_Literal_Constant_tostr_match_tokens (o : Oracle Node) (s : Str)
    (items : List (Item Node)) (hm : (planLogicalLit s).bind (runSlots o) = .ok items) :
    ∃ t, tostrNumber o items = .ok t ∧ toks t = toks s ∧
      ((∀ i ∈ items, net (i.text o) = 0) → net t = 0) :=
  number_tostr_match_tokens scanLogical scanLogical_content o s items hm

/-! ### non-vacuity and witnesses -/

example : (planRealLit "1.0e-3_wp".toList).bind (runSlots echoO)
    = .ok [.str "1.0E-3".toList, .str "wp".toList] := by decide +kernel
example : tostrNumber echoO [.str "1.0E-3".toList, .str "wp".toList] = .ok "1.0E-3_wp".toList := by
  decide +kernel
example : (planLogicalLit ".true._k".toList).bind (runSlots echoO)
    = .ok [.str ".TRUE.".toList, .str "k".toList] := by decide +kernel
example : tostrNumber echoO [.str ".TRUE.".toList, .str "k".toList] = .ok ".TRUE._k".toList := by
  decide +kernel
example : (planSignedIntLit "- 12_i8".toList).bind (runSlots echoO)
    = .ok [.str "-12".toList, .str "i8".toList] := by decide +kernel
example : (planSignedRealLit "+1e3".toList).bind (runSlots echoO)
    = .ok [.str "+1E3".toList, .none] := by decide +kernel
example : (planIntLit "42".toList).bind (runSlots echoO) = .ok [.str "42".toList, .none] := by
  decide +kernel

/-- `.true._Kp` prints `.TRUE._Kp`, `1e3_Wp` prints `1E3_Wp`: value upper-cased, kind verbatim -/
theorem number_case_witness :
    (planLogicalLit ".true._Kp".toList).bind (runSlots echoO)
      = .ok [.str ".TRUE.".toList, .str "Kp".toList] ∧
    tostrNumber echoO [.str ".TRUE.".toList, .str "Kp".toList] = .ok ".TRUE._Kp".toList ∧
    (planRealLit "1e3_Wp".toList).bind (runSlots echoO)
      = .ok [.str "1E3".toList, .str "Wp".toList] ∧
    tostrNumber echoO [.str "1E3".toList, .str "Wp".toList] = .ok "1E3_Wp".toList := by
  decide +kernel

/-- `Int_Literal_Constant("1 2")` is accepted and prints `12`: blanks INSIDE a literal are dropped
    (`string.replace(" ", "")` in `NumberBase.match`); the token text is kept all the same -/
theorem intLit_drops_inner_blank :
    planIntLit "1 2".toList = .ok [.str "12".toList, .none] := by decide +kernel

/-! ## Name / Type_Name / BOZ (StringBase / STRINGBase) -/

/-- **Name, exact**: the printed text is `string.strip()` -/
theorem Name_tostr_exact (o : Oracle Node) (s : Str) (items : List (Item Node))
    (hm : (planName s).bind (runSlots o) = .ok items) :
    isName (strip s) = true ∧ items = [.str (strip s)] ∧ tostrString o items = .ok (strip s) := by
  obtain ⟨slots, hp, hr⟩ := IoStmt.Res.bind_eq_ok hm
  unfold planName at hp
  dsimp only at hp
  split at hp
  · rename_i hn
    cases hp
    obtain ⟨i, is, rfl, hi, his⟩ := runSlots_cons_ok hr
    have := runSlots_nil_ok his; subst this
    have := runSlot_str_ok hi; subst this
    exact ⟨hn, rfl, rfl⟩
  · cases hp

theorem Name_tostr_match_tokens (o : Oracle Node) (s : Str) (items : List (Item Node))
    (hm : (planName s).bind (runSlots o) = .ok items) :
    ∃ t, tostrString o items = .ok t ∧ toks t = toks s ∧
      ((∀ i ∈ items, net (i.text o) = 0) → net t = 0) := by
  obtain ⟨_, hi, ht⟩ := Name_tostr_exact o s items hm
  refine ⟨_, ht, toks_strip s, ?_⟩
  intro hb
  subst hi
  exact hb (.str (strip s)) (by simp)

theorem Type_Name_tostr_exact (o : Oracle Node) (s : Str) (items : List (Item Node))
    (hm : (planTypeName s).bind (runSlots o) = .ok items) :
    isIntrinsicTypeName s = false ∧ isName (strip s) = true ∧ items = [.str (strip s)] ∧
      tostrString o items = .ok (strip s) := by
  unfold planTypeName at hm
  split at hm
  · cases hm
  · rename_i hn
    exact ⟨by simpa using hn, Name_tostr_exact o s items hm⟩

theorem Type_Name_tostr_match_tokens (o : Oracle Node) (s : Str) (items : List (Item Node))
    (hm : (planTypeName s).bind (runSlots o) = .ok items) :
    ∃ t, tostrString o items = .ok t ∧ toks t = toks s ∧
      ((∀ i ∈ items, net (i.text o) = 0) → net t = 0) := by
  unfold planTypeName at hm
  split at hm
  · cases hm
  · exact Name_tostr_match_tokens o s items hm

/-- **Binary_/Octal_/Hex_Constant, exact**: the printed text is `string.upper()` -/
theorem Boz_tostr_exact (letter : Char) (digitOk : Char → Bool) (o : Oracle Node) (s : Str)
    (items : List (Item Node)) (hm : (planBoz letter digitOk s).bind (runSlots o) = .ok items) :
    scanBoz letter digitOk (upper s) = true ∧ items = [.str (upper s)] ∧
      tostrString o items = .ok (upper s) := by
  obtain ⟨slots, hp, hr⟩ := IoStmt.Res.bind_eq_ok hm
  unfold planBoz at hp
  dsimp only at hp
  split at hp
  · rename_i hn
    cases hp
    obtain ⟨i, is, rfl, hi, his⟩ := runSlots_cons_ok hr
    have := runSlots_nil_ok his; subst this
    have := runSlot_str_ok hi; subst this
    exact ⟨hn, rfl, rfl⟩
  · cases hp

theorem Boz_tostr_match_tokens (letter : Char) (digitOk : Char → Bool) (o : Oracle Node) (s : Str)
    (items : List (Item Node)) (hm : (planBoz letter digitOk s).bind (runSlots o) = .ok items) :
    ∃ t, tostrString o items = .ok t ∧ toks t = toks s ∧
      ((∀ i ∈ items, net (i.text o) = 0) → net t = 0) := by
  obtain ⟨_, hi, ht⟩ := Boz_tostr_exact letter digitOk o s items hm
  refine ⟨_, ht, toks_upper s, ?_⟩
  intro hb
  subst hi
  exact hb (.str (upper s)) (by simp)

theorem Binary_Constant_tostr_match_tokens (o : Oracle Node) (s : Str) (items : List (Item Node))
    (hm : (planBinary s).bind (runSlots o) = .ok items) :
    ∃ t, tostrString o items = .ok t ∧ toks t = toks s ∧
      ((∀ i ∈ items, net (i.text o) = 0) → net t = 0) :=
  Boz_tostr_match_tokens 'B' isBinDigit o s items hm

theorem Octal_Constant_tostr_match_tokens (o : Oracle Node) (s : Str) (items : List (Item Node))
    (hm : (planOctal s).bind (runSlots o) = .ok items) :
    ∃ t, tostrString o items = .ok t ∧ toks t = toks s ∧
      ((∀ i ∈ items, net (i.text o) = 0) → net t = 0) :=
  Boz_tostr_match_tokens 'O' isOctDigit o s items hm

theorem Hex_Constant_tostr_match_tokens (o : Oracle Node) (s : Str) (items : List (Item Node))
    (hm : (planHex s).bind (runSlots o) = .ok items) :
    ∃ t, tostrString o items = .ok t ∧ toks t = toks s ∧
      ((∀ i ∈ items, net (i.text o) = 0) → net t = 0) :=
  Boz_tostr_match_tokens 'Z' isHexDigitU o s items hm

example : (planHex "z'1F'".toList).bind (runSlots echoO) = .ok [.str "Z'1F'".toList] := by
  decide +kernel
example : (planBinary "b'101'".toList).bind (runSlots echoO) = .ok [.str "B'101'".toList] := by
  decide +kernel
example : (planOctal "O\"17\"".toList).bind (runSlots echoO) = .ok [.str "O\"17\"".toList] := by
  decide +kernel
example : (planName " a_b$1 ".toList).bind (runSlots echoO) = .ok [.str "a_b$1".toList] := by
  decide +kernel
example : (planTypeName "my_type".toList).bind (runSlots echoO) = .ok [.str "my_type".toList] := by
  decide +kernel
example : planTypeName "double  precision".toList = .noMatch := by decide +kernel

end Fp.Primary

#print axioms Fp.Primary.scanInt_content
#print axioms Fp.Primary.scanSignedInt_content
#print axioms Fp.Primary.scanReal_content
#print axioms Fp.Primary.scanSignedReal_content
#print axioms Fp.Primary.scanLogical_content
#print axioms Fp.Primary.planNumber_exact
#print axioms Fp.Primary.number_kind_case_kept
#print axioms Fp.Primary.number_tostr_match_tokens
#print axioms Fp.Primary.Int_Literal_Constant_tostr_match_tokens
#print axioms Fp.Primary.Signed_Int_Literal_Constant_tostr_match_tokens
#print axioms Fp.Primary.Real_Literal_Constant_tostr_match_tokens
#print axioms Fp.Primary.Signed_Real_Literal_Constant_tostr_match_tokens
#print axioms Fp.Primary.Logical_Literal_Constant_tostr_match_tokens
#print axioms Fp.Primary.number_case_witness
#print axioms Fp.Primary.intLit_drops_inner_blank
#print axioms Fp.Primary.Name_tostr_exact
#print axioms Fp.Primary.Name_tostr_match_tokens
#print axioms Fp.Primary.Type_Name_tostr_exact
#print axioms Fp.Primary.Type_Name_tostr_match_tokens
#print axioms Fp.Primary.Boz_tostr_exact
#print axioms Fp.Primary.Boz_tostr_match_tokens
#print axioms Fp.Primary.Binary_Constant_tostr_match_tokens
#print axioms Fp.Primary.Octal_Constant_tostr_match_tokens
#print axioms Fp.Primary.Hex_Constant_tostr_match_tokens
