"""C03 — expression parse trees encode Fortran precedence and associativity."""
import random
from fv import real, engine
from fv import cosim_expr as CE
from fv.props import util
from fv.model import get_model

RULE = ("expression trees over all intrinsic + defined operators in both spellings with operands of every kind: "
        "bounded-exhaustive over operator classes to depth 2, every top constructor over sampled operands from the complete depth-2 set (depth 3: 2.2e7 trees, sampled), all spellings at depth 1, random to depth 6/7, "
        "rendered with minimal (+ a few redundant) parentheses and random spacing; plus a malformed token stream; plus the same "
        "expressions as Assignment_Stmt right-hand sides of full programs. Two comparisons per case: real tree == model tree "
        "(correspondence of Fp.Expr) and real tree == generated grouping (the property). non-trivial = depth >= 2")
ASSUMPTIONS = ["regex lexing of operators is tied by tabulated tables and co-simulation, not proved",
               "known boundary F-C03-1 (defined binary operator followed by a dotted token at the same parenthesis level) is "
               "the negated hypothesis of parse_render_partial"]
TIE_MODULES = ["FparserModel.Expr", "FparserModel.Props.ExprTie", "FparserModel.Generated.ExprLevels", "FparserModel.ExprLex", "FparserModel.Generated.ExprLexTables", "FparserModel.Primary", "FparserModel.PrimaryPins", "FparserModel.Generated.PrimaryTables"]


def wide_cases(rng, n):
    """expressions with 10-16 parenthesised groups on one level (chains of products / sums /
    mixed), over operands that are sub-expressions, calls and array elements"""
    out = []
    for _ in range(n):
        k = rng.randint(10, 16)
        # one precedence level per chain (left-associative), so the flat rendering is the tree
        ops = rng.choice([["*"], ["+"], ["+", "-"], ["*", "/"], ["//"], [".and."], [".or."]])
        def group(i):
            r = rng.random()
            a = ("atom", "a%d" % i)
            b = ("atom", rng.choice(["b", "c", "k%d" % i, "2"]))
            inner = ("bin", rng.choice(["+", "-", "*"]) if ops[0] not in ("//", ".and.", ".or.") else ops[0], a, b)
            if ops[0] == "//":
                inner = ("bin", "//", a, b)
            if ops[0] in (".and.", ".or."):
                inner = ("bin", rng.choice([".and.", ".or."]), a, b)
            return ("paren", inner)
        t = group(0)
        for i in range(1, k):
            t = ("bin", rng.choice(ops), t, group(i))
        tree = CE.parenthesize(t, rng, redundant=0.0) if False else t
        toks = CE.tokens_of(tree)
        glue = CE.rand_glue(rng, toks, rng.choice([0.0, 0.5, 1.0]))
        out.append(CE.make_case(tree, toks, glue, "wide", rng))
    return out


def _mk_cases(case):
    rng = random.Random(case["seed"])
    k = case["stream"]
    if k == "wide":
        return wide_cases(rng, case["n"])
    if k == "enames":
        # variables named like exponent letters next to a sign and digits: `c*e-3`, `a+d+1`
        out = []
        for nm in ("e", "d", "E", "D", "e1"):
            for ctor in CE.BINARY:
                op = CE.SPELL[ctor][0]
                for sign in ("+", "-"):
                    for num in ("3", "10", "1.5"):
                        for ab in ((("add", sign, (ctor, op, ("atom", "c"), ("atom", nm)), ("atom", num))),
                                   ((ctor, op, ("atom", "c"), ("add", sign, ("atom", nm), ("atom", num))))):
                            tree = CE.parenthesize(ab)
                            toks = CE.tokens_of(tree)
                            out.append(CE.make_case(tree, toks, [False] * len(toks), "enames"))
                            glue = CE.rand_glue(rng, toks, 1.0)
                            if any(glue):
                                out.append(CE.make_case(tree, toks, glue, "enames"))
        return out
    if k == "enum3":
        return CE.enum3_cases(rng, case["n"])
    if k == "enum":
        cs = CE.enum_cases(case["depth"])
        return cs[case["lo"]:case["hi"]]
    if k == "random" or k == "program":
        return CE.gen_cases(rng, case["n"], case["depth"])
    return CE.gen_malformed(rng, case["n"])


def _in_program(c, std):
    """the same expression as the right-hand side of an assignment in a full program"""
    src = "subroutine s_expr\n  zz_lhs = %s\nend subroutine s_expr\n" % c["text"]
    o = real.try_parse(src, std=std, free=True)
    if o.kind != "tree":
        return "reject"
    F = real.F03
    a = real.walk(o.tree, F.Assignment_Stmt)
    if len(a) != 1:
        return "reject"
    return CE.real_sexp(a[0].items[2], dict(c["atoms"]))


def run_case(case):
    std = case.get("std", "f2008")
    cs = _mk_cases(case)
    m = get_model()
    res = {"key": [case["stream"], case["seed"], case.get("lo", 0)], "counts": {}, "findings": [], "nontrivial": True}
    if case["stream"] == "program":
        real.get_parser(std)
        results = []
        replies = m.ask_many([("expr", " ".join(c["words"])) for c in cs])
        for c, rp in zip(cs, replies):
            got = _in_program(c, std)
            exp = CE.sexp_of_tree(c["tree"], dict(c["atoms"]))
            r = None
            if got != exp or got != rp[0]:
                r = {"correspondence": got != rp[0], "oracle": got != exp, "known": CE.in_known_boundary(c),
                     "lexing": CE.in_lexing_boundary(c), "text": c["text"], "real": got, "model": rp[0], "expected": exp,
                     "stream": "program"}
            results.append(r)
    else:
        CE.real_setup(std)
        results = CE.run_cases(m, cs, std)
    n_nontriv = 0
    keys = set()
    for c, r in zip(cs, results):
        res["counts"]["stream:" + case["stream"]] = res["counts"].get("stream:" + case["stream"], 0) + 1
        for k in c.get("classes", ()):
            res["counts"]["opclass:" + k] = res["counts"].get("opclass:" + k, 0) + 1
        res["counts"]["depth:%s" % c.get("depth")] = res["counts"].get("depth:%s" % c.get("depth"), 0) + 1
        if (c.get("depth") or 0) >= 2:
            keys.add(c["text"])
        if r is None:
            continue
        rep = {"case": case, "text": c["text"], "words": " ".join(c["words"]), "real": r["real"], "model": r["model"],
               "expected": r["expected"], "std": std, "stream": r["stream"]}
        if r["lexing"]:
            res["findings"].append({"signature": "pred:exponent_after_dotted_operator",
                                    "what": "%r: real %s, expected %s" % (c["text"], r["real"], r["expected"]), "replay": rep})
            continue
        if r["oracle"]:
            sig = "pred:defined_binary_then_dotted" if r["known"] else "grouping:" + "+".join(c.get("classes", ()))
            res["findings"].append({"signature": sig, "what": "%r parsed as %s, standard requires %s" % (c["text"], r["real"], r["expected"]),
                                    "replay": rep})
        elif r["correspondence"]:
            res["findings"].append({"signature": "correspondence:Fp.Expr", "no_input": True,
                                    "what": "model Fp.Expr.parse and Fortran2003.Expr disagree on %r: real %s, model %s (the property's oracle "
                                            "holds on this input; theorem parse_render_partial no longer describes the code)" % (c["text"], r["real"], r["model"]),
                                    "replay": rep})
    import hashlib
    res["keys"] = [hashlib.sha256(k.encode()).hexdigest()[:10] for k in keys]
    res["sample"] = {"stream": case["stream"], "text": cs[len(cs) // 2]["text"] if cs else "", "n": len(cs)}
    res["evals"] = len(cs)
    return res


def cases(tier, seed):
    out = []
    total = len(CE.enum_cases(2))
    step = 400
    for lo in range(0, total, step):
        out.append({"stream": "enum", "depth": 2, "lo": lo, "hi": lo + step, "seed": 0})
    out.append({"stream": "enames", "seed": 7})
    # depth 3 has 2.2e7 trees: sampled (every top constructor over the complete depth-2 set)
    for i, s in enumerate(util.seeds(seed, util.tier_n(tier, 2, 60), 36)):
        out.append({"stream": "enum3", "seed": s, "n": 600, "_timeout": 900})
    nb = util.tier_n(tier, 16, 100)
    for i, s in enumerate(util.seeds(seed, nb, 3)):
        out.append({"stream": "random", "seed": s, "n": 400, "depth": 6 if i % 2 else 7, "std": "f2008" if i % 3 else "f2003"})
    for i, s in enumerate(util.seeds(seed, max(2, nb // 4), 33)):
        out.append({"stream": "malformed", "seed": s, "n": 400})
    for i, s in enumerate(util.seeds(seed, max(2, nb // 4), 34)):
        out.append({"stream": "program", "seed": s, "n": 150, "depth": 5})
    for i, s in enumerate(util.seeds(seed, max(2, nb // 4), 35)):
        out.append({"stream": "wide", "seed": s, "n": 150})
    return out


def exprlex_cosim(tier, rep):
    """string-level lexing model Fp.ExprLex (operator regex scanners, Pattern.rsplit/lsplit,
    the string match steps) against the real regexes / BinaryOpBase.match, stages A-F of
    fv/cosim_exprlex.py, in a sub-process"""
    import subprocess
    from fv import common
    n = 250 if tier != "thorough" else 3000
    r = subprocess.run([common.PY, "-m", "fv.cosim_exprlex", "--seed", str(rep.seed), "--n", str(n)],
                       cwd=common.VERIF, capture_output=True, text=True, timeout=3000)
    rep.coverage["exprlex_cosim"] = [l for l in r.stdout.splitlines() if l[:2] in ("A ", "B ", "C ", "D ", "E ", "F ")][-6:]
    if r.returncode != 0 or "RESULT: PASS" not in r.stdout:
        rep.violation("correspondence:Fp.ExprLex", "string-level lexing model and the real operator regexes / match steps disagree: %s" % r.stdout[-600:],
                      {"stdout": r.stdout[-4000:], "stderr": r.stderr[-2000:]}, no_input=True)


def run(tier, rep, st):
    util.sub_cosim(rep, tier, "cosim_primary", "Fp.Primary", 40, 400)
    exprlex_cosim(tier, rep)
    # the level table read from the repository must be the model's (also a kernel
    # obligation in Props/ExprTie.lean)
    try:
        bad = CE.levels_tie(get_model())
    except Exception as e:  # noqa: BLE001  the translator no longer understands the source
        bad = [("translator", "%s: %s" % (type(e).__name__, str(e)[:300]))]
    results = engine.run_cases(__name__, cases(tier, rep.seed), rep)
    # evaluations = individual expressions, not batches
    rep.evaluations = sum(r.get("evals", 0) for r in results)
    for r in results:
        pass
    rep.coverage["batches"] = len(results)
    rep.distinct = set()
    for r in results:
        rep.distinct.update(r.get("keys", []))
    if bad and not rep.violations:
        rep.violation("tie:ExprLevels", "level table extracted from the repository differs from the model's: %s" % (bad[0][:2],),
                      {"tables": [list(b) for b in bad]}, no_input=True)
