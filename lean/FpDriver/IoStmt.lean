import FparserModel.Wire
import FparserModel.IoStmt
/-!
driver commands of the IoStmt slice (trusted glue, no theorems)

    iostmt.match  std cls text entry*
        std = f2003 | f2008 ; cls = class name ; entry = 8 fields, one ANSWERED child call:
            cls text kind str rhsStr head heads flag
            kind = ok | nomatch | raises ; head = "-" | "+KW" ; heads = "-"/"+KW" joined by ","
            flag = isinstance(node, Data_Edit_Desc…) "0"/"1" (kind ok) | exception name (kind raises)
        → unmodelled
        | ask cls text                      the model needs `cls(text)`: answer it and ask again
        | nomatch
        | raises excname
        | ok n item* (str text | strraises excname)
          item = N | S text | T i | B i | L i,j,…      (i = index of the entry that produced the node)
    iostmt.plan   std cls text
        → unmodelled | none (no plan: child-dependent class) | nomatch | raises excname
        | ok n slot*      slot = N | S text | C cls text | F | X excname        (call order)
    iostmt.str    std cls item*            item = N | S text | T text | B text | D text | L text,text…
        (T = node by printed text, B = bare KeywordValue node by the text of its value,
         D = a Data_Edit_Desc node by printed text; L separator is U+001F)
        → unmodelled | str text | strraises excname
    iostmt.classes → the class names (id order)
-/
namespace FpDriver.IoStmt
open Fp Fp.Wire Fp.IoStmt

def ok (fs : List String) : String := "\t".intercalate ("OK" :: fs)

def excName : Exc → String
  | .indexError => "IndexError"
  | .valueError => "ValueError"
  | .assertionError => "AssertionError"
  | .typeError => "TypeError"
  | .keyError => "KeyError"
  | .internalError => "InternalError"
  | .child info => "child:" ++ String.ofList info

def stdOf (h : String) : Std := if dec h == "f2008" then .f2008 else .f2003

def clsOf (name : String) : Option ClassId :=
  let i := clsNames.idxOf name
  if i < clsNames.length then some i else none

def nameOf (c : ClassId) : String := clsNames.getD c "?"

structure Entry where
  cls : String
  text : Str
  kind : String
  str : Str
  rhs : Str
  head : Option Str
  heads : List (Option Str)
  flag : String

def optKw (s : String) : Option Str :=
  match s.toList with
  | '+' :: k => some k
  | _ => none

def decEntries : List String → List Entry
  | c :: t :: k :: s :: r :: h :: hs :: f :: rest =>
    { cls := dec c, text := decL t, kind := dec k, str := decL s, rhs := decL r,
      head := optKw (dec h),
      heads := if (dec hs).isEmpty then [] else ((dec hs).splitOn ",").map optKw,
      flag := dec f } :: decEntries rest
  | _ => []

def findEntry (es : List Entry) (name : String) (t : Str) : Option (Nat × Entry) :=
  let rec go : List Entry → Nat → Option (Nat × Entry)
    | [], _ => none
    | e :: rest, i => if e.cls == name && e.text == t then some (i, e) else go rest (i + 1)
  go es 0

/-- nodes are indices into the entry table -/
def tableOracle (es : List Entry) : Oracle Nat :=
  { call := fun c t =>
      match findEntry es (nameOf c) t with
      | none => .raises (.child ('?' :: (nameOf c).toList ++ '\t' :: t))
      | some (i, e) =>
        if e.kind == "ok" then .ok i
        else if e.kind == "nomatch" then .noMatch
        else .raises (.child e.flag.toList)
    str := fun i => (es[i]?.map (·.str)).getD []
    head := fun i => (es[i]?.map (·.head)).getD none
    rhsStr := fun i => (es[i]?.map (·.rhs)).getD []
    heads := fun i => (es[i]?.map (·.heads)).getD []
    isDataEdit := fun i => (es[i]?.map (·.flag == "1")).getD false }

def encItem : Item Nat → List String
  | .none => [enc "N"]
  | .str s => [enc "S", encL s]
  | .node i => [enc "T", enc (toString i)]
  | .bare i => [enc "B", enc (toString i)]
  | .nodes is => [enc "L", enc (",".intercalate (is.map toString))]

def encStrRes : Res Str → List String
  | .ok t => [enc "str", encL t]
  | .noMatch => [enc "strraises", enc "NoMatch"]
  | .raises e => [enc "strraises", enc (excName e)]

def encSlot : Slot → List String
  | .none => [enc "N"]
  | .str s => [enc "S", encL s]
  | .child c s => [enc "C", enc (nameOf c), encL s]
  | .fail => [enc "F"]
  | .raise e => [enc "X", enc (excName e)]

/-- nodes by printed text for `iostmt.str` -/
structure TNode where
  text : Str
  rhs : Str
  data : Bool
deriving Inhabited

def textOracle : Oracle TNode :=
  { call := fun _ _ => .noMatch, str := (·.text), head := fun _ => none, rhsStr := (·.rhs),
    heads := fun _ => [], isDataEdit := (·.data) }

def decItems : List String → Option (List (Item TNode))
  | [] => some []
  | k :: rest =>
    match dec k, rest with
    | "N", rest => (decItems rest).map (Item.none :: ·)
    | "S", t :: rest => (decItems rest).map (Item.str (decL t) :: ·)
    | "T", t :: rest => (decItems rest).map (Item.node ⟨decL t, [], false⟩ :: ·)
    | "D", t :: rest => (decItems rest).map (Item.node ⟨decL t, [], true⟩ :: ·)
    | "B", t :: rest => (decItems rest).map (Item.bare ⟨[], decL t, false⟩ :: ·)
    | "L", t :: rest =>
      let parts := if (dec t).isEmpty then [] else (dec t).splitOn "\x1f"
      (decItems rest).map (Item.nodes (parts.map fun p => ⟨p.toList, [], false⟩) :: ·)
    | _, _ => none

def handle (cmd : String) (args : List String) : Option String :=
  match cmd, args with
  | "iostmt.classes", _ => some (ok (clsNames.map enc))
  | "iostmt.match", std :: cls :: text :: entries =>
    match clsOf (dec cls) with
    | none => some (ok [enc "unmodelled"])
    | some c =>
      let es := decEntries entries
      let o := tableOracle es
      match matchOf (stdOf std) o c (decL text) with
      | none => some (ok [enc "unmodelled"])
      | some .noMatch => some (ok [enc "nomatch"])
      | some (.raises (.child ('?' :: q))) =>
        let qs := String.ofList q
        (match qs.splitOn "\t" with
          | n :: rest => some (ok [enc "ask", enc n, enc ("\t".intercalate rest)])
          | [] => some (ok [enc "ask", enc "", enc ""]))
      | some (.raises e) => some (ok [enc "raises", enc (excName e)])
      | some (.ok items) =>
        let pr := match tostrOf (stdOf std) o c items with
          | some r => encStrRes r
          | none => [enc "strraises", enc "unmodelled"]
        some (ok (enc "ok" :: enc (toString items.length) :: items.flatMap encItem ++ pr))
  | "iostmt.plan", [std, cls, text] =>
    match clsOf (dec cls) with
    | none => some (ok [enc "unmodelled"])
    | some c =>
      match planOf (stdOf std) c with
      | none => some (ok [enc (if (matchOf (stdOf std) (tableOracle []) c []).isSome then "none" else "unmodelled")])
      | some plan =>
        match plan (decL text) with
        | .noMatch => some (ok [enc "nomatch"])
        | .raises e => some (ok [enc "raises", enc (excName e)])
        | .ok slots => some (ok (enc "ok" :: enc (toString slots.length) :: slots.flatMap encSlot))
  | "iostmt.str", std :: cls :: items =>
    match clsOf (dec cls), decItems items with
    | some c, some its =>
      (match tostrOf (stdOf std) textOracle c its with
        | some r => some (ok (encStrRes r))
        | none => some (ok [enc "unmodelled"]))
    | _, _ => some ("ERR\t" ++ enc "bad iostmt.str request")
  | _, _ => none

end FpDriver.IoStmt
