import FparserModel.Proofs.CppCls

/-! # Cpp slice: `Cpp_Macro_Stmt`, `Cpp_Linemarker_Stmt`, `Cpp_Null_Stmt`; at most one class accepts -/
namespace Fp.Cpp
open Fp

/-! ## chompNl -/
theorem chompNl_decomp (s : Str) : s = chompNl s ∨ s = chompNl s ++ ['\n'] := by
  unfold chompNl
  cases h : s.getLast? with
  | none => left; rfl
  | some c =>
    by_cases hc : c = '\n'
    · subst hc
      right
      have hne : s ≠ [] := by intro h0; subst h0; cases h
      have e := List.getLast?_eq_some_getLast hne
      rw [h] at e
      have := List.dropLast_concat_getLast hne
      rw [← Option.some.inj e] at this
      exact this.symm
    · left
      split
      · rename_i heq; exact absurd (Option.some.inj heq) hc
      · rfl

theorem chompNl_of_last {s : Str} (h : s.getLast? ≠ some '\n') : chompNl s = s := by
  unfold chompNl
  split
  · rename_i heq; exact absurd heq h
  · rfl

theorem chompNl_snoc (s : Str) : chompNl (s ++ ['\n']) = s := by
  unfold chompNl
  simp

theorem chompNl_append {p x : Str} (hx : x ≠ []) : chompNl (p ++ x) = p ++ chompNl x := by
  rcases chompNl_decomp x with h | h
  · have hl : x.getLast? ≠ some '\n' → chompNl (p ++ x) = p ++ x := fun hl =>
      chompNl_of_last (by rw [getLast?_append_ne hx]; exact hl)
    by_cases hl2 : x.getLast? = some '\n'
    · -- x = chompNl x and last is newline: then chompNl x = x.dropLast ≠ x
      exfalso
      have : chompNl x = x.dropLast := by simp [chompNl, hl2]
      rw [this] at h
      have := congrArg List.length h
      simp at this
      have hpos : 0 < x.length := List.length_pos_iff.mpr hx
      omega
    · rw [hl hl2, ← h]
  · conv => lhs; rw [h, ← List.append_assoc]
    rw [chompNl_snoc]

theorem squash_chompNl (s : Str) : squash (chompNl s) = squash s := by
  rcases chompNl_decomp s with h | h
  · rw [← h]
  · conv => rhs; rw [h]
    rw [squash_append]; simp [squash, isSpace]

theorem noNl_last {b : Str} (h : noNl b = true) : b.getLast? ≠ some '\n' := by
  intro hl
  have hne : b ≠ [] := by intro h0; subst h0; cases hl
  have hm : '\n' ∈ b := by
    have e := List.getLast?_eq_some_getLast hne
    rw [hl] at e
    rw [Option.some.inj e]; exact List.getLast_mem hne
  simp only [noNl, List.all_eq_true] at h
  have := h _ hm
  simp at this

/-! ## digits -/
theorem isDigit_isWord {c : Char} (h : isDigit c = true) : isWord c = true := by
  unfold isDigit at h; unfold isWord Char.isAlphanum; simp [h]

theorem isDigit_not_space {c : Char} (h : isDigit c = true) : isSpace c = false :=
  isWord_not_space (isDigit_isWord h)

theorem space_not_digit {c : Char} (h : isSpace c = true) : isDigit c = false := by
  cases hd : isDigit c with
  | false => rfl
  | true => rw [isDigit_not_space hd] at h; cases h

theorem dropWhile_digits {ds t : Str} (hd : ∀ c ∈ ds, isDigit c = true)
    (ht : t.head?.map isDigit ≠ some true) : (ds ++ t).dropWhile isDigit = t := by
  induction ds with
  | nil =>
    cases t with
    | nil => rfl
    | cons c t =>
      have : isDigit c = false := by
        cases hc : isDigit c with
        | false => rfl
        | true => simp [hc] at ht
      simp [this]
  | cons c ds ih =>
    simp only [List.cons_append, List.dropWhile, hd c (by simp)]
    exact ih (fun x hx => hd x (by simp [hx]))

/-! ## the line marker -/
structure LmShape (s a g ds g2 r3 : Str) : Prop where
  eq : s = a ++ '#' :: (g ++ (ds ++ (g2 ++ '"' :: r3)))
  ha : allSp a
  hg : allSp g
  hgne : g ≠ []
  hds : ∀ c ∈ ds, isDigit c = true
  hdsne : ds ≠ []
  hg2 : allSp g2
  hg2ne : g2 ≠ []
  hbody : noNl (chompNl r3) = true
  hquote : (chompNl r3).contains '"' = true

theorem linemarker_intro {s a g ds g2 r3 : Str} (h : LmShape s a g ds g2 r3) :
    linemarker s = some (chompNl s) := by
  obtain ⟨c, g', hgc⟩ := List.exists_cons_of_ne_nil h.hgne
  obtain ⟨d, ds', hdc⟩ := List.exists_cons_of_ne_nil h.hdsne
  obtain ⟨c2, g2', hg2c⟩ := List.exists_cons_of_ne_nil h.hg2ne
  have hc : isSpace c = true := h.hg c (by simp [hgc])
  have hd : isDigit d = true := h.hds d (by simp [hdc])
  have hc2 : isSpace c2 = true := h.hg2 c2 (by simp [hg2c])
  unfold linemarker
  rw [h.eq, lstrip_allSp_append _ h.ha, lstrip_cons_ns _ (by decide)]
  simp only
  have e1 : (g ++ (ds ++ (g2 ++ '"' :: r3))).head? = some c := by rw [hgc]; rfl
  have e2 : lstrip (g ++ (ds ++ (g2 ++ '"' :: r3))) = ds ++ (g2 ++ '"' :: r3) := by
    rw [lstrip_allSp_append _ h.hg, hdc]; exact lstrip_cons_ns _ (isDigit_not_space hd)
  have e3 : (ds ++ (g2 ++ '"' :: r3)).head? = some d := by rw [hdc]; rfl
  have e4 : (ds ++ (g2 ++ '"' :: r3)).dropWhile isDigit = g2 ++ '"' :: r3 := by
    apply dropWhile_digits h.hds
    rw [hg2c]; simp [space_not_digit hc2]
  have e5 : (g2 ++ '"' :: r3).head? = some c2 := by rw [hg2c]; rfl
  have e6 : lstrip (g2 ++ '"' :: r3) = '"' :: r3 := by
    rw [lstrip_allSp_append _ h.hg2]; exact lstrip_cons_ns _ (by decide)
  rw [e1, e2, e3, e4, e5, e6]
  have hq : '"' ∈ chompNl r3 := by simpa using h.hquote
  simp [hc, hd, hc2, h.hbody, hq]

theorem head?_map_eq {s : Str} {p : Char → Bool} (h : ¬ (s.head?.map p != some true) = true) :
    ∃ c r, s = c :: r ∧ p c = true := by
  cases s with
  | nil => simp at h
  | cons c r => refine ⟨c, r, rfl, ?_⟩; simpa using h

theorem takeWhile_dropWhile_digits (s : Str) :
    (∀ c ∈ s.takeWhile isDigit, isDigit c = true) := by
  induction s with
  | nil => intro c hc; cases hc
  | cons d s ih =>
    intro c hc
    by_cases hd : isDigit d = true
    · simp only [List.takeWhile, hd] at hc
      rcases List.mem_cons.mp hc with h | h
      · subst h; exact hd
      · exact ih c h
    · have hd' : isDigit d = false := by simpa using hd
      simp [List.takeWhile, hd'] at hc

theorem linemarker_elim {s grp : Str} (h : linemarker s = some grp) :
    grp = chompNl s ∧ ∃ a g ds g2 r3, LmShape s a g ds g2 r3 := by
  unfold linemarker at h
  split at h
  · rename_i r hl
    split at h
    · cases h
    · rename_i h1
      simp only at h
      split at h
      · cases h
      · rename_i h2
        split at h
        · cases h
        · rename_i h3
          split at h
          · rename_i r3 h4
            split at h
            · rename_i h5
              cases h
              refine ⟨rfl, ?_⟩
              obtain ⟨a, ha1, ha2⟩ := lstrip_decomp s
              obtain ⟨g, hg1, hg2⟩ := lstrip_decomp r
              obtain ⟨g2, hk1, hk2⟩ := lstrip_decomp ((lstrip r).dropWhile isDigit)
              obtain ⟨c, r', hr, hc⟩ := head?_map_eq h1
              obtain ⟨d, r1', hr1, hd⟩ := head?_map_eq h2
              obtain ⟨c2, r2', hr2, hc2⟩ := head?_map_eq h3
              simp only [Bool.and_eq_true] at h5
              refine ⟨a, g, (lstrip r).takeWhile isDigit, g2, r3, ?_, ha2, hg2, ?_,
                takeWhile_dropWhile_digits _, ?_, hk2, ?_, h5.1, h5.2⟩
              · rw [← h4, ← hk1, List.takeWhile_append_dropWhile, ← hg1, ← hl]; exact ha1
              · intro h0; subst h0
                rw [List.nil_append] at hg1
                rw [hr] at hg1
                have := lstrip_head hg1.symm
                rw [this] at hc; cases hc
              · rw [hr1]; simp [List.takeWhile, hd]
              · intro h0; subst h0
                rw [List.nil_append] at hk1
                rw [hr2] at hk1
                have := lstrip_head hk1.symm
                rw [this] at hc2; cases hc2
            · cases h
          · cases h
  · cases h

theorem LmShape.shape {s a g ds g2 r3 : Str} (h : LmShape s a g ds g2 r3) :
    Fp.Cpp.shape s = some (ds, g2 ++ '"' :: r3) := by
  rw [h.eq]
  refine shape_intro ⟨h.hdsne, fun c hc => isDigit_isWord (h.hds c hc)⟩ h.ha h.hg ?_
  obtain ⟨c2, g2', hg2c⟩ := List.exists_cons_of_ne_nil h.hg2ne
  have hc2 : isSpace c2 = true := h.hg2 c2 (by simp [hg2c])
  rw [hg2c]; simp [boundary, space_not_word hc2]

theorem drop_snoc_nl (t : Str) : (t ++ ['\n']).drop t.length = ['\n'] := by simp

/-- `Cpp_Linemarker_Stmt(s)`: the second item is always None -/
theorem matchLinemarker_elim {s : Str} {n : Node} (h : matchCls .linemarkerStmt s = some n) :
    n = .word .linemarkerStmt (chompNl s) none ∧ ∃ a g ds g2 r3, LmShape s a g ds g2 r3 := by
  simp only [matchCls, matchLinemarker] at h
  split at h
  · cases h
  · split at h
    · rename_i grp hg
      obtain ⟨h1, a, g, ds, g2, r3, hs⟩ := linemarker_elim hg
      refine ⟨?_, a, g, ds, g2, r3, hs⟩
      obtain ⟨v, x, hx, hn⟩ := mkWord_some h
      obtain ⟨hv, hrest⟩ := wordTail_elim hx
      simp only at hv hrest
      subst h1
      rcases hrest with ⟨hx2, _, _⟩ | ⟨t, _, ht, hne⟩
      · rw [hn, hv, hx2]
      · -- nothing but (at most) one newline is left after the match
        exfalso
        rcases chompNl_decomp s with e | e
        · have : s.drop (chompNl s).length = [] := by rw [← e]; simp
          rw [this] at hne; exact hne rfl
        · have : s.drop (chompNl s).length = ['\n'] := by
            have := drop_snoc_nl (chompNl s)
            rw [← e] at this; exact this
          rw [this] at hne; exact hne rfl
    · cases h

theorem matchLinemarker_intro {s a g ds g2 r3 : Str} (h : LmShape s a g ds g2 r3) :
    matchCls .linemarkerStmt s = some (.word .linemarkerStmt (chompNl s) none) := by
  have hne : s ≠ [] := by rw [h.eq]; simp
  simp only [matchCls, matchLinemarker, hne, if_false, linemarker_intro h]
  have : wordTail (chompNl s) false ppTokens (s.drop (chompNl s).length) = some (chompNl s, none) := by
    rcases chompNl_decomp s with e | e
    · have : s.drop (chompNl s).length = [] := by rw [← e]; simp
      rw [this]; rfl
    · have : s.drop (chompNl s).length = ['\n'] := by
        have := drop_snoc_nl (chompNl s)
        rw [← e] at this; exact this
      rw [this]
      exact wordTail_noarg (by decide) (by intro c hc; simp at hc; subst hc; decide)
  rw [this]; rfl

/-! ## the null directive -/
theorem matchNull_iff {s : Str} {n : Node} :
    matchCls .nullStmt s = some n ↔ strip s = ['#'] ∧ n = .null := by
  simp only [matchCls, matchNull]
  constructor
  · intro h
    split at h
    · cases h
    · split at h
      · rename_i hs; cases h; exact ⟨hs, rfl⟩
      · cases h
  · rintro ⟨hs, rfl⟩
    have : s ≠ [] := by intro h0; subst h0; cases hs
    simp [this, hs]

theorem null_shape {s : Str} (h : strip s = ['#']) : shape s = some ([], []) := by
  obtain ⟨a, b, h1, h2, h3⟩ := strip_decomp s
  unfold shape
  rw [h1, h, List.append_assoc, lstrip_allSp_append _ h2]
  simp only [List.singleton_append]
  rw [lstrip_cons_ns _ (by decide)]
  simp [lstrip_allSp h3]

/-! ## the define directive -/
theorem matchMacro_eq (s : Str) (hne : s ≠ []) :
    matchCls .macroStmt s =
      match hashKw kDefine (strip s) with
      | none => none
      | some rest => macroArg (strip rest) := by
  simp only [matchCls, matchMacro, hne, if_false]
  rfl

theorem take_len_sub (p after : Str) : (p ++ after).take ((p ++ after).length - after.length) = p := by
  simp

theorem strip_KW {g : Str} (h : KW g) : strip g = g := by
  obtain ⟨c, r, e, hc⟩ := KW_head h
  have hl := List.getLast?_eq_some_getLast h.1
  exact strip_of_ends e hc hl (isWord_not_space (h.2 _ (List.getLast_mem h.1)))

theorem macroIdent_of_abs {g : Str} (h : absMacroName g = true) : macroIdent g = some g := by
  have := strip_KW (absMacroName_word h).1
  simp [macroIdent, this, h]

theorem optTokens_strip (y : Str) :
    optTokens (strip y) = if strip y = [] then none else some (strip y) := by
  unfold optTokens
  split
  · rfl
  · rename_i h
    have : strip (strip y) ≠ [] := by rw [strip_idem]; exact h
    rw [ppTokens_intro this, strip_idem]

theorem squash_optTokens (y : Str) : squash ((optTokens (strip y)).getD []) = squash y := by
  rw [optTokens_strip]
  split
  · rename_i h; simp only [Option.getD_none]; rw [squash_eq_nil h]; rfl
  · simp only [Option.getD_some]; exact squash_strip y

/-- what an accepted `#define` payload looks like -/
inductive MacroForm : Str → Node → Prop where
  | bare (name : Str) (hn : absMacroName name = true) : MacroForm name (.macro name none none)
  | plain (name defn : Str) (hn : absMacroName name = true) (hb : boundary defn = true)
      (hne : defn ≠ []) (hp : defn.head? ≠ some '(') :
      MacroForm (name ++ defn) (.macro name none (optTokens (strip defn)))
  | params (name pl after : Str) (hn : absMacroName name = true) (hh : pl.head? = some '(')
      (hl : pl.getLast? = some ')') (hi : ∀ y, idList (pl ++ y) = some y) :
      MacroForm (name ++ (pl ++ after)) (.macro name (some pl) (optTokens (strip after)))

theorem macroArg_elim {rhs : Str} {n : Node} (h : macroArg rhs = some n) : MacroForm rhs n := by
  unfold macroArg at h
  split at h
  · cases h
  · rename_i grp defn hp
    obtain ⟨h1, h2, h3, h4, h5⟩ := macroNamePrefix_elim hp
    rw [macroIdent_of_abs h2] at h
    simp only at h
    unfold macroBody at h
    split at h
    · cases h; rw [h1, List.append_nil]; exact .bare grp h2
    · rename_i t
      split at h
      · cases h
      · rename_i after hid
        obtain ⟨p, e1, e2, e3, e4⟩ := idList_elim hid
        have hlen : ('(' :: t).take (('(' :: t).length - after.length) = p := by
          rw [e1]; simp
        rw [hlen] at h
        have hpne : p ≠ [] := by intro h0; subst h0; cases e2
        have : macroIdentList p = some p := by
          have := e4 []
          rw [List.append_nil] at this
          simp [macroIdentList, hpne, this]
        rw [this] at h
        cases h
        rw [h1, e1]
        exact .params grp p after h2 e3 e2 e4
    · rename_i hnil hparen
      cases h
      rw [h1]
      refine .plain grp defn h2 h4 hnil ?_
      intro hh
      cases defn with
      | nil => exact hnil rfl
      | cons c t =>
        simp only [List.head?_cons, Option.some.injEq] at hh
        subst hh
        exact hparen t rfl

theorem macroArg_intro {rhs : Str} {n : Node} (h : MacroForm rhs n) : macroArg rhs = some n := by
  cases h with
  | bare name hn =>
    have := macroNamePrefix_intro (d := []) hn rfl
    rw [List.append_nil] at this
    simp [macroArg, this, macroIdent_of_abs hn, macroBody]
  | plain name defn hn hb hne hp =>
    simp only [macroArg, macroNamePrefix_intro hn hb, macroIdent_of_abs hn]
    unfold macroBody
    cases defn with
    | nil => exact absurd rfl hne
    | cons c t =>
      have hc : c ≠ '(' := by intro h0; subst h0; exact hp rfl
      split
      · rename_i heq; cases heq
      · rename_i t' heq; cases heq; exact absurd rfl hc
      · rfl
  | params name pl after hn hh hl hi =>
    have hb : boundary (pl ++ after) = true := by
      cases pl with
      | nil => cases hh
      | cons c t => simp only [List.head?_cons, Option.some.injEq] at hh; subst hh; rfl
    simp only [macroArg, macroNamePrefix_intro hn hb, macroIdent_of_abs hn]
    unfold macroBody
    cases pl with
    | nil => cases hh
    | cons c t =>
      simp only [List.head?_cons, Option.some.injEq] at hh
      subst hh
      simp only [List.cons_append]
      have e := hi after
      simp only [List.cons_append] at e
      have hlen : ('(' :: (t ++ after)).take (('(' :: (t ++ after)).length - after.length) = '(' :: t :=
        take_len_sub ('(' :: t) after
      have := hi []
      rw [List.append_nil] at this
      simp only [e, hlen]
      simp [macroIdentList, this]

end Fp.Cpp
