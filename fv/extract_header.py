"""Translator of the Header slice: what `lean/FparserModel/Header.lean` mirrors BY HAND, read from the
LIVE classes of /repo and written to `FparserModel/Generated/HeaderTables.lean`, with kernel
obligations that it still is what the model was written against.

* `fingerprints`: sha1 (16 hex digits) of the normalised source of every mirrored method -
  `inspect.getsource` -> `ast.parse` -> docstrings removed -> `ast.dump` (the normalisation of
  fv/extract_iostmt.py: comments, docstrings and layout do not count, every token of the code does) -
  for the opening / END statement classes of program units, derived types, interfaces and
  constructs in BOTH standards (resolved through the MRO to the defining class, so the combinators of
  utils.py they inherit - `EndStmtBase`, `StmtBase`, `WORDClsBase`, `STRINGBase`, `CALLBase`,
  `BinaryOpBase`, `SequenceBase` ... - are pinned too), `BlockBase.match` (whole, and separately its
  name / label statements: `utils.BlockBase.match#names`), `c1242_valid`, `FortranReaderBase.error`,
  `splitline.splitparen` and the regular expressions the mirrored code matches with.
  One theorem per entry: `Pinned "<what to do>" (some (key, live)) Pins.expected[i]?`, proved by
  `decide +kernel` against `FparserModel/HeaderPins.lean` (hand-maintained: the fingerprints the
  model was validated against).  AN EDIT TO A MIRRORED METHOD BREAKS THE BUILD at that theorem; the
  statement that fails to reduce carries the instruction.
* live tables with the obligation that they equal the model's: the END classes (arguments of
  `EndStmtBase.match`, read by calling each class's `match` with `EndStmtBase.match` intercepted),
  the flags with which every block class of `BKind` calls `BlockBase.match` (fv/extract_block.py's
  recorder) and the `hasattr` facts `BlockBase.match` reads, the block classes with names or labels
  that the model does NOT cover, the keyword lists, and the class names of the model.

    python -m fv.extract_header <lean dir>                          (re)generate
    python -m fv.extract_header --write-pins <lean dir> [method…]   after re-validation: record pins
"""
import ast
import hashlib
import inspect
import os
import re
import sys
import textwrap

from fv import repo

repo.activate()

from fv import extract_block as XB                     # noqa: E402
from fparser.two import utils as U                     # noqa: E402
from fparser.two import Fortran2003 as F3              # noqa: E402
from fparser.two import Fortran2008 as F8              # noqa: E402
from fparser.two import pattern_tools as pattern       # noqa: E402
from fparser.common import readfortran, splitline      # noqa: E402

INSTRUCTION = ("MIRRORED METHOD EDITED in /repo: re-validate its mirror in FparserModel/Header.lean "
               "(read the diff, run fv/cosim_header.py), then record the new fingerprint with "
               "python -m fv.extract_header --write-pins <lean dir> [<method>]")

# ---------------------------------------------------------------------------------------------
# what is mirrored

#: the END classes in the order of `Fp.Header.endTable` (live classes that are not listed are appended)
END_ORDER = [
    "End_Program_Stmt", "End_Module_Stmt", "End_Subroutine_Stmt", "End_Function_Stmt",
    "End_Block_Data_Stmt", "End_Type_Stmt", "End_Interface_Stmt", "End_Do_Stmt", "End_If_Stmt",
    "End_Select_Stmt", "End_Select_Type_Stmt", "End_Where_Stmt", "End_Forall_Stmt",
    "End_Associate_Stmt", "End_Enum_Stmt", "End_Block_Stmt", "End_Critical_Stmt",
    "End_Submodule_Stmt"]

#: opening statements and their parts: every method of METHODS they have, own or inherited
STATEMENTS = [
    "Program_Stmt", "Module_Stmt", "Submodule_Stmt", "Parent_Identifier", "Block_Data_Stmt",
    "Subroutine_Stmt", "Function_Stmt", "Prefix", "Prefix_Spec", "Suffix", "Language_Binding_Spec",
    "Dummy_Arg", "Dummy_Arg_List", "Dummy_Arg_Name_List", "Entry_Stmt", "Interface_Stmt",
    "Generic_Spec", "Dtio_Generic_Spec", "Extended_Intrinsic_Op", "Procedure_Stmt",
    "Derived_Type_Stmt", "Type_Attr_Spec", "Type_Attr_Spec_List", "Private_Components_Stmt",
    "Sequence_Stmt", "Contains_Stmt", "Binding_Private_Stmt", "Specific_Binding", "Generic_Binding",
    "Final_Binding", "Binding_Attr", "Proc_Component_Attr_Spec", "Proc_Component_Def_Stmt",
    "Procedure_Declaration_Stmt", "Proc_Decl", "Proc_Attr_Spec", "Import_Stmt", "Enum_Def_Stmt",
    "Enumerator_Def_Stmt", "Associate_Stmt", "Association", "Select_Type_Stmt", "Type_Guard_Stmt",
    "Block_Stmt", "Critical_Stmt", "Else_Stmt", "Elsewhere_Stmt", "Masked_Elsewhere_Stmt",
    "Binding_PASS_Arg_Name", "Proc_Component_PASS_Arg_Name"]
METHODS = ("match", "tostr", "tostr_a", "init", "get_name", "get_start_name", "get_end_name",
           "get_type", "get_start_label", "get_end_label", "get_scope_name")

#: statements whose match/tostr belong to the IoStmt slice: only what BlockBase.match asks them
NAME_ONLY = [
    ("If_Then_Stmt", ("get_start_name",)), ("Select_Case_Stmt", ("get_start_name",)),
    ("Where_Construct_Stmt", ("get_start_name",)), ("Forall_Construct_Stmt", ("get_start_name",)),
    ("Nonlabel_Do_Stmt", ("get_start_name",)),
    ("Label_Do_Stmt", ("get_start_name", "get_start_label")),
    ("Else_If_Stmt", ("get_end_name",)), ("Case_Stmt", ("get_end_name",)),
    ("Continue_Stmt", ("get_end_label",))]

#: (class of utils.py, method) pinned whether or not a statement class above resolves to it
UTILS = [
    ("EndStmtBase", "match"), ("EndStmtBase", "init"), ("EndStmtBase", "tostr"),
    ("EndStmtBase", "get_name"), ("EndStmtBase", "get_type"), ("EndStmtBase", "get_end_name"),
    ("StmtBase", "tofortran"), ("StmtBase", "get_end_label"), ("BlockBase", "match"),
    ("WORDClsBase", "match"), ("WORDClsBase", "tostr"), ("WORDClsBase", "tostr_a"),
    ("STRINGBase", "match"), ("StringBase", "match"), ("CALLBase", "match"), ("CallBase", "match"),
    ("BinaryOpBase", "match"), ("BinaryOpBase", "tostr"), ("SequenceBase", "match"),
    ("SequenceBase", "tostr")]

PATTERNS = ["name", "abs_name", "subroutine", "function", "extended_intrinsic_operator"]

#: the identifiers of the name / label logic of BlockBase.match (`utils.BlockBase.match#names`)
NAME_LOGIC = {"start_name", "end_name", "start_label", "end_label", "get_name", "get_start_name",
              "get_end_name", "get_start_label", "get_end_label", "match_names", "strict_match_names",
              "match_labels", "match_name_classes", "end_do_names"}

#: the block classes of `Fp.Header.BKind.all`, in that order
BLOCKS = [
    "Main_Program", "Module", "Submodule", "Subroutine_Subprogram", "Subroutine_Body",
    "Function_Subprogram", "Function_Body", "Block_Data", "Derived_Type_Def", "Interface_Block",
    "Enum_Def", "If_Construct", "Case_Construct", "Select_Type_Construct", "Where_Construct",
    "Forall_Construct", "Associate_Construct", "Block_Construct", "Critical_Construct",
    "Block_Nonlabel_Do_Construct", "Block_Label_Do_Construct"]

#: literals the model has inline (no named table in Header.lean): planDtio / dtioOne, planEnumDef,
#: planTypeGuard
MODEL_DTIO_RW = ["READ", "WRITE"]
MODEL_DTIO_FMT = ["FORMATTED", "UNFORMATTED"]
MODEL_ENUM_DEF = ["ENUM,BIND(C)", "ENUM, BIND(C)"]
MODEL_TYPE_GUARD = ["TYPE IS", "CLASS IS", "CLASS DEFAULT"]
#: block classes with names / labels that the model knowingly leaves to other slices
MODEL_OTHER_NAMED = []
MODEL_OTHER_LABELLED = ["Action_Term_Do_Construct"]


class ExtractionError(Exception):
    """the shape of the code changed so that a table cannot be read"""


# ---------------------------------------------------------------------------------------------
# fingerprints

def _strip_doc(tree):
    for n in ast.walk(tree):
        if isinstance(n, (ast.FunctionDef, ast.ClassDef, ast.AsyncFunctionDef, ast.Module)) and n.body \
                and isinstance(n.body[0], ast.Expr) and isinstance(getattr(n.body[0], "value", None), ast.Constant) \
                and isinstance(n.body[0].value.value, str):
            n.body = n.body[1:] or [ast.Pass()]
    return tree


def _sha(text):
    return hashlib.sha1(text.encode("utf-8")).hexdigest()[:16]


def _tree(fn):
    return _strip_doc(ast.parse(textwrap.dedent(inspect.getsource(fn))))


def fingerprint(fn):
    return _sha(ast.dump(_tree(fn), include_attributes=False))


def _fn(raw):
    raw = raw.__func__ if isinstance(raw, (staticmethod, classmethod)) else raw
    return getattr(raw, "__wrapped__", raw)


def _pkg(cls):
    return "Fortran2008" if cls.__module__.startswith("fparser.two.Fortran2008") else (
        "Fortran2003" if cls.__module__ == "fparser.two.Fortran2003" else cls.__module__.split(".")[-1])


def regex_fingerprint(rx):
    """pattern string + flags of a compiled `re` / a pattern_tools.Pattern"""
    if hasattr(rx, "get_compiled"):
        rx = rx.get_compiled()
    return _sha("%s\x00%d" % (rx.pattern, rx.flags))


def _mentions_name_logic(node):
    for n in ast.walk(node):
        if isinstance(n, ast.Name) and n.id in NAME_LOGIC:
            return True
        if isinstance(n, ast.Attribute) and n.attr in NAME_LOGIC:
            return True
        if isinstance(n, ast.Constant) and isinstance(n.value, str) and n.value in NAME_LOGIC:
            return True
        if isinstance(n, ast.keyword) and n.arg in NAME_LOGIC:
            return True
        if isinstance(n, ast.Attribute) and n.attr == "error" and isinstance(n.value, ast.Name) \
                and n.value.id == "reader":
            return True
    return False


def name_logic_nodes(fn):
    """the statements of `fn` that make up its name / label logic: every `Assign`, and every `If`
    whose TEST mentions one of NAME_LOGIC (taken whole); other compound statements (and an `If`
    whose test does not) are searched recursively, in source order"""
    found = []

    def visit(stmts):
        for st in stmts:
            if isinstance(st, (ast.Assign, ast.AugAssign, ast.AnnAssign)):
                if _mentions_name_logic(st):
                    found.append(st)
            elif isinstance(st, ast.If) and _mentions_name_logic(st.test):
                found.append(st)
            else:
                for field in ("body", "orelse", "finalbody"):
                    visit(getattr(st, field, []) or [])
                for hd in getattr(st, "handlers", []) or []:
                    visit(hd.body)
    tree = _tree(fn)
    visit(tree.body[0].body)
    return found


def name_logic_fingerprint(fn):
    nodes = name_logic_nodes(fn)
    if not nodes:
        raise ExtractionError("no name / label logic found in %s" % fn.__qualname__)
    return _sha("\n".join(ast.dump(n, include_attributes=False) for n in nodes))


def end_classes():
    """name -> class of every END class of the live packages (the 2008 one where both exist)"""
    out = {}
    for mod in (F3, F8):
        for k, v in vars(mod).items():
            if isinstance(v, type) and issubclass(v, U.EndStmtBase) and v is not U.EndStmtBase:
                out[k] = v
    return out


def _methods_of(out, name, methods):
    for mod in (F3, F8):
        cls = getattr(mod, name, None)
        if cls is None:
            continue
        for meth in methods:
            for k in cls.__mro__:
                if meth in k.__dict__:
                    try:
                        fp = fingerprint(_fn(k.__dict__[meth]))
                    except (OSError, TypeError):
                        fp = "generated"              # exec-generated `*_List.match`
                    out["%s.%s.%s" % (_pkg(k), k.__name__, meth)] = fp
                    break


def collect_fingerprints():
    out = {}
    ends = end_classes()
    for name in [n for n in END_ORDER if n in ends] + sorted(set(ends) - set(END_ORDER)):
        _methods_of(out, name, METHODS)
    for name in STATEMENTS:
        _methods_of(out, name, METHODS)
    for name, methods in NAME_ONLY:
        _methods_of(out, name, methods)
    for cn, meth in UTILS:
        out["utils.%s.%s" % (cn, meth)] = fingerprint(_fn(getattr(U, cn).__dict__[meth]))
    out["utils.BlockBase.match#names"] = name_logic_fingerprint(_fn(U.BlockBase.__dict__["match"]))
    out["Fortran2003.c1242_valid"] = fingerprint(F3.c1242_valid)
    out["Fortran2003.Elsewhere_Stmt._regex"] = regex_fingerprint(F3.Elsewhere_Stmt._regex)
    out["readfortran.FortranReaderBase.error"] = fingerprint(_fn(readfortran.FortranReaderBase.__dict__["error"]))
    out["splitline.splitparen"] = fingerprint(splitline.splitparen)
    for p in PATTERNS:
        out["pattern_tools.%s" % p] = regex_fingerprint(getattr(pattern, p))
    fps = sorted(out.items())
    idents = [ident(k) for k, _ in fps]
    if len(set(idents)) != len(idents):
        raise ExtractionError("two fingerprint keys give the same theorem name")
    return fps


# ---------------------------------------------------------------------------------------------
# live tables

class _Sentinel:
    pass


def end_rows():
    """[(cls, stmt_type, name class or None, require_stmt_type, only2008)] in the model's order,
    read by calling each END class's `match` with `EndStmtBase.match` intercepted"""
    ends = end_classes()
    sig = inspect.signature(_fn(U.EndStmtBase.__dict__["match"]))
    if list(sig.parameters) != ["stmt_type", "stmt_name", "string", "require_stmt_type"] \
            or sig.parameters["require_stmt_type"].default is not False:
        raise ExtractionError("EndStmtBase.match signature changed: %s" % sig)
    rows = []
    orig = U.EndStmtBase.__dict__["match"]
    for name in [n for n in END_ORDER if n in ends] + sorted(set(ends) - set(END_ORDER)):
        cls = ends[name]
        calls = []
        sentinel = _Sentinel()
        probe = "end <probe of fv.extract_header>"

        def recorder(*args, **kwargs):
            calls.append(sig.bind(*args, **kwargs))
            return sentinel
        U.EndStmtBase.match = staticmethod(recorder)
        try:
            res = cls.match(probe)
        finally:
            U.EndStmtBase.match = orig
        if len(calls) != 1 or res is not sentinel:
            raise ExtractionError("%s.match does more than delegate to EndStmtBase.match" % name)
        b = calls[0]
        b.apply_defaults()
        a = b.arguments
        if a["string"] is not probe or not isinstance(a["stmt_type"], str) or \
                not (a["stmt_name"] is None or isinstance(a["stmt_name"], type)):
            raise ExtractionError("%s.match passes unexpected arguments to EndStmtBase.match" % name)
        rows.append((name, a["stmt_type"], None if a["stmt_name"] is None else a["stmt_name"].__name__,
                     bool(a["require_stmt_type"]),
                     _pkg(cls) == "Fortran2008" and not hasattr(F3, name)))
    return rows, sorted(set(ends) - set(END_ORDER))


def _block_classes(mods):
    seen = {}
    for mod in mods:
        for k, v in vars(mod).items():
            if isinstance(v, type) and issubclass(v, U.BlockBase) and v is not U.BlockBase:
                seen[k] = v
    return seen


def _block_cfg(cls):
    """the flags with which `cls.match` calls `BlockBase.match` (None: it does not simply call it)"""
    calls, _trace, _is_sentinel, _reader = XB._record_block_args(cls)
    if len(calls) != 1:
        return None
    a = XB._bind(*calls[0])
    mnc = a["match_name_classes"]
    mnc = list(mnc) if isinstance(mnc, (tuple, list)) else [mnc]
    sc, ec = a["startcls"], a["endcls"]
    # `hasattr(end_stmt, "get_name")` is asked of the matched statement: for the alternative
    # `End_Do` (END DO | CONTINUE) the model's flag is the one of End_Do_Stmt
    ec_named = F3.End_Do_Stmt if ec is getattr(F3, "End_Do", None) else ec
    return {
        "block": cls.__name__,
        "startCls": None if sc is None else sc.__name__,
        "endCls": None if ec is None else ec.__name__,
        "matchNames": bool(a["match_names"]), "strictNames": bool(a["strict_match_names"]),
        "matchLabels": bool(a["match_labels"]),
        "nameClasses": [m.__name__ for m in mnc],
        "startGetName": sc is not None and hasattr(sc, "get_name"),
        "startStartName": sc is not None and hasattr(sc, "get_start_name"),
        "endGetName": ec_named is not None and hasattr(ec_named, "get_name"),
    }


def block_kinds():
    """-> (kinds, kinds2003, otherNamed, otherLabelled): the rows of BLOCKS under f2008 (the 2008
    class where one exists), the rows of those that also exist in Fortran2003 under f2003, and the
    names of all OTHER block classes that ask for names / have a named opening statement / ask for
    labels"""
    from fparser.two.parser import ParserFactory
    ParserFactory().create(std="f2003")
    c3 = _block_classes((F3,))
    kinds2003 = []
    for name in BLOCKS:
        if name in c3:
            cfg = _block_cfg(c3[name])
            if cfg is None:
                raise ExtractionError("%s.match (f2003) does not simply call BlockBase.match" % name)
            kinds2003.append(dict(cfg, only2008=False))
    other_named, other_labelled = set(), set()

    def others(classes):
        for name, cls in classes.items():
            if name in BLOCKS:
                continue
            cfg = _block_cfg(cls)
            if cfg is None:
                continue
            if cfg["matchNames"] or cfg["startGetName"]:
                other_named.add(name)
            if cfg["matchLabels"]:
                other_labelled.add(name)
    others(c3)
    ParserFactory().create(std="f2008")
    c8 = _block_classes((F3, F8))
    kinds = []
    for name in BLOCKS:
        if name not in c8:
            continue
        cfg = _block_cfg(c8[name])
        if cfg is None:
            raise ExtractionError("%s.match (f2008) does not simply call BlockBase.match" % name)
        kinds.append(dict(cfg, only2008=name not in c3))
    others(c8)
    return kinds, kinds2003, sorted(other_named), sorted(other_labelled)


def _match_tree(cls):
    return _tree(_fn(cls.__dict__["match"]))


def _list_literals(cls):
    """the list literals of string constants in cls.match, in source order"""
    out = []
    for n in ast.walk(_match_tree(cls)):
        if isinstance(n, ast.List) and n.elts and all(
                isinstance(e, ast.Constant) and isinstance(e.value, str) for e in n.elts):
            out.append((n.lineno, n.col_offset, [e.value for e in n.elts]))
    return [x[2] for x in sorted(out)]


def _one_list(cls):
    ls = _list_literals(cls)
    if len(ls) != 1:
        raise ExtractionError("%s.match: expected one keyword list literal, found %s" % (cls.__name__, ls))
    return ls[0]


def keyword_tables():
    t = {}
    t["prefix"] = list(F3.Prefix_Spec.keywords)
    if not all(isinstance(k, str) for k in t["prefix"]):
        raise ExtractionError("Prefix_Spec.keywords is not a list of str")
    t["bindingAttr"] = _one_list(F3.Binding_Attr)
    t["procComponentAttr"] = _one_list(F3.Proc_Component_Attr_Spec)
    ls = _list_literals(F3.Dtio_Generic_Spec)
    if len(ls) != 2:
        raise ExtractionError("Dtio_Generic_Spec.match: expected two list literals, found %s" % ls)
    t["dtioRw"], t["dtioFmt"] = ls
    # Enum_Def_Stmt: the string compared with and the string returned (constants with "ENUM")
    enum = []
    for n in ast.walk(_match_tree(F3.Enum_Def_Stmt)):
        if isinstance(n, ast.Constant) and isinstance(n.value, str) and "ENUM" in n.value.upper():
            enum.append((n.lineno, n.col_offset, n.value))
    t["enumDef"] = [x[2] for x in sorted(enum)]
    # Type_Guard_Stmt: the constants assigned to `kind` and the constant heads of returned tuples
    kinds = []
    for n in ast.walk(_match_tree(F3.Type_Guard_Stmt)):
        v = None
        if isinstance(n, ast.Assign) and any(isinstance(x, ast.Name) and x.id == "kind" for x in n.targets):
            v = n.value
        elif isinstance(n, ast.Return) and isinstance(n.value, ast.Tuple) and n.value.elts:
            v = n.value.elts[0]
        if isinstance(v, ast.Constant) and isinstance(v.value, str):
            kinds.append((n.lineno, n.col_offset, v.value))
    t["typeGuard"] = []
    for x in sorted(kinds):
        if x[2] not in t["typeGuard"]:
            t["typeGuard"].append(x[2])
    return t


def live_class_names():
    names = set()
    for mod in (F3, F8):
        for k, v in vars(mod).items():
            if isinstance(v, type) and issubclass(v, U.Base):
                names.add(k)
    return names


def model_class_names(outdir):
    """the `clsNames` list of FparserModel/Header.lean (class id = index)"""
    text = open(os.path.join(outdir, "FparserModel", "Header.lean"), encoding="utf-8").read()
    head = "def clsNames : List String := ["
    i = text.index(head)
    j = text.index("]", i + len(head))
    block = re.sub(r"--[^\n]*", "", text[i + len(head):j])
    return re.findall(r'"([A-Za-z_0-9]+)"', block)


# ---------------------------------------------------------------------------------------------
# rendering

def lean_str(s):
    return '"' + s.replace("\\", "\\\\").replace('"', '\\"') + '"'


def ident(key):
    return "".join(ch if ch.isalnum() else "_" for ch in key)


def _b(x):
    return "true" if x else "false"


def _opt_str(x):
    return "none" if x is None else "some " + lean_str(x)


def _strs(xs):
    return "[" + ", ".join(lean_str(x) for x in xs) + "]"


def _kind_row(c):
    return ("  { block := %s, startCls := %s, endCls := %s, matchNames := %s, strictNames := %s,\n"
            "    matchLabels := %s, nameClasses := %s,\n"
            "    startGetName := %s, startStartName := %s, endGetName := %s, only2008 := %s }") % (
        lean_str(c["block"]), lean_str(c["startCls"] or ""), lean_str(c["endCls"] or ""),
        _b(c["matchNames"]), _b(c["strictNames"]), _b(c["matchLabels"]), _strs(c["nameClasses"]),
        _b(c["startGetName"]), _b(c["startStartName"]), _b(c["endGetName"]), _b(c["only2008"]))


def render(fps, data, model_names, pinned=None):
    rows, extra_ends = data["endRows"]
    kinds, kinds2003, other_named, other_labelled = data["blocks"]
    tables = data["tables"]
    L = []
    L.append("import FparserModel.Header")
    L.append("import FparserModel.HeaderPins")
    L.append("/-! GENERATED by fv/extract_header.py from the fparser working tree - do not edit.")
    L.append("")
    L.append("Fingerprints of the methods FparserModel/Header.lean mirrors by hand, the END classes, the")
    L.append("flags of the block classes, the keyword lists and the class names they use; each with the")
    L.append("kernel obligation that it equals what the model was written against")
    L.append("(FparserModel/HeaderPins.lean / the tables of Header.lean).")
    L.append("A failing `pin_*` theorem means: " + INSTRUCTION)
    L.append("-/")
    L.append("namespace Fp.Header.Generated")
    L.append("open Fp.Header")
    L.append("")
    L.append("def fingerprints : List (String × String) := [")
    L.append(",\n".join("  (%s, %s)" % (lean_str(k), lean_str(v)) for k, v in fps))
    L.append("]")
    L.append("")
    # The comparison is POSITIONAL (a String equality costs ~8 ms in the kernel: no lookups there).
    # The position of a key in HeaderPins.lean is looked up HERE, so that a method that appears or
    # disappears breaks its own theorem / `pins_complete` only; the kernel still checks key and value.
    pinned = [k for k, _ in fps] if pinned is None else list(pinned)
    pos = {k: i for i, k in enumerate(pinned)}
    fresh = [k for k, _ in fps if k not in pos]
    for k, v in fps:
        if k in pos:
            what, i = " -- edited: " + k, pos[k]
        else:
            what = " -- NEW mirrored method (no pin in FparserModel/HeaderPins.lean yet): " + k
            i = len(pinned) + fresh.index(k)
        L.append("theorem pin_%s : Pinned %s (some (%s, %s)) Pins.expected[%d]? := by decide +kernel"
                 % (ident(k), lean_str(INSTRUCTION + what), lean_str(k), lean_str(v), i))
    L.append("")
    live_keys = {k for k, _ in fps}
    gone = [k for k in pinned if k not in live_keys]
    msg = ("the SET of mirrored methods changed (a class gained or lost its own "
           "match/tostr/init/get_*name/get_*label): " + INSTRUCTION)
    if gone:
        msg += " -- pinned but gone from /repo: " + ", ".join(gone)
    if fresh:
        msg += " -- new in /repo: " + ", ".join(fresh)
    L.append("/-- no mirrored method appeared or disappeared: there is no pin after the last live fingerprint")
    L.append("    (every live one has its own, distinct, position by the `pin_*` theorems).  Stated through")
    L.append("    `[i]?` because a false `Nat` equality makes `decide +kernel` fail without its diagnosis. -/")
    L.append("theorem pins_complete : Pinned %s none Pins.expected[%d]? := by decide +kernel"
             % (lean_str(msg), len(fps)))
    L.append("")
    # ---- END classes
    L.append("/-- the arguments with which every END class of /repo calls `EndStmtBase.match` -/")
    L.append("def endRows : List EndRow := [")
    L.append(",\n".join("  ⟨%s, %s, %s, %s, %s⟩" % (lean_str(c), lean_str(ty), _opt_str(nm), _b(req), _b(o8))
                        for c, ty, nm, req, o8 in rows))
    L.append("]")
    L.append("")
    msg = ("END CLASS TABLE of /repo differs from Fp.Header.endTable: update endTable (and clsNames) in "
           "FparserModel/Header.lean and re-run fv/cosim_header.py")
    if extra_ends:
        msg += " -- END classes of /repo that the model lacks: " + ", ".join(extra_ends)
    L.append("theorem end_rows_as_modelled : PinnedEq %s endRows endTable := by decide +kernel" % lean_str(msg))
    L.append("")
    # ---- block kinds
    L.append("/-- the flags with which the block classes of `BKind` call `BlockBase.match` (std f2008) and")
    L.append("    the `hasattr` facts it reads off the start / end classes -/")
    L.append("def kinds : List KindCfg := [")
    L.append(",\n".join(_kind_row(c) for c in kinds))
    L.append("]")
    L.append("")
    L.append("/-- the same under std f2003, for the block classes that exist in Fortran2003 -/")
    L.append("def kinds2003 : List KindCfg := [")
    L.append(",\n".join(_kind_row(c) for c in kinds2003))
    L.append("]")
    L.append("")
    msg = ("BLOCK FLAGS of /repo differ from Fp.Header.cfgOf: a block class calls BlockBase.match with other "
           "match_names / strict_match_names / match_labels / match_name_classes or start / end classes, or "
           "a start / end class gained or lost get_name / get_start_name: update cfgOf in "
           "FparserModel/Header.lean, re-validate namesAgree and re-run fv/cosim_header.py")
    L.append("theorem kinds_as_modelled : PinnedEq %s kinds (BKind.all.map cfgOf) := by decide +kernel"
             % lean_str(msg))
    L.append("theorem kinds2003_same_flags : PinnedEq %s kinds2003 (kinds.filter (fun c => !c.only2008)) "
             ":= by decide +kernel"
             % lean_str("a block class has different BlockBase.match flags under f2003 and f2008: the model "
                        "(Fp.Header.cfgOf) has ONE row per kind - split it per standard"))
    L.append("")
    L.append("/-- block classes OUTSIDE `BKind` that call `BlockBase.match` with `match_names` or with a start")
    L.append("    class that has `get_name` (their names are compared by code the model does not cover) -/")
    L.append("def otherNamedBlocks : List String := %s" % _strs(other_named))
    L.append("/-- ... and those that call it with `match_labels` -/")
    L.append("def otherLabelledBlocks : List String := %s" % _strs(other_labelled))
    msg = ("A NEW NAMED / LABELLED BLOCK KIND in /repo: add it to BKind / cfgOf in FparserModel/Header.lean "
           "(and to BLOCKS in fv/extract_header.py), or record it as knowingly unmodelled in "
           "fv/extract_header.py (MODEL_OTHER_NAMED / MODEL_OTHER_LABELLED)")
    L.append("theorem no_unmodelled_named_block : PinnedEq %s otherNamedBlocks %s := by decide +kernel"
             % (lean_str(msg), _strs(MODEL_OTHER_NAMED) if MODEL_OTHER_NAMED else "([] : List String)"))
    L.append("theorem no_unmodelled_labelled_block : PinnedEq %s otherLabelledBlocks %s := by decide +kernel"
             % (lean_str(msg), _strs(MODEL_OTHER_LABELLED) if MODEL_OTHER_LABELLED else "([] : List String)"))
    L.append("")
    # ---- keyword tables
    msg = lean_str("KEYWORD LIST of /repo differs from the model's: update it in FparserModel/Header.lean "
                   "and re-run fv/cosim_header.py")
    for name, what, model in [
            ("prefix", "Prefix_Spec.keywords", "prefixKeywordsS"),
            ("bindingAttr", "the list literal of Binding_Attr.match", "bindingAttrKeywords"),
            ("procComponentAttr", "the list literal of Proc_Component_Attr_Spec.match", "procComponentAttrKeywords"),
            ("dtioRw", "Dtio_Generic_Spec.match: `for rw in [...]` (planDtio)", _strs(MODEL_DTIO_RW)),
            ("dtioFmt", "Dtio_Generic_Spec.match: `line in [...]` (dtioOne)", _strs(MODEL_DTIO_FMT)),
            ("enumDef", "Enum_Def_Stmt.match: the text compared with, the text returned (planEnumDef)",
             _strs(MODEL_ENUM_DEF)),
            ("typeGuard", "Type_Guard_Stmt.match: the kinds (planTypeGuard)", _strs(MODEL_TYPE_GUARD))]:
        L.append("/-- %s -/" % what)
        L.append("def live_%s : List String := %s" % (name, _strs(tables[name])))
        L.append("theorem table_%s : PinnedEq %s live_%s %s := by decide +kernel" % (name, msg, name, model))
    L.append("")
    # ---- class names
    live = live_class_names()
    keep = [n for n in model_names if n in live]
    L.append("/-- the class names of the model (`clsNames`, read from Header.lean) that name a rule class of /repo -/")
    L.append("def liveOfModel : List String := [")
    for i in range(0, len(keep), 5):
        L.append("  " + ", ".join(lean_str(n) for n in keep[i:i + 5]) + ("," if i + 5 < len(keep) else ""))
    L.append("]")
    L.append("")
    msg = "a class of Fp.Header.clsNames is not a class of fparser.two.Fortran2003 / Fortran2008"
    missing = [n for n in model_names if n not in live]
    if missing:
        msg += ": " + ", ".join(missing)
    L.append("/-- every class id of the model names a rule class of /repo -/")
    L.append("theorem classes_live : PinnedEq %s liveOfModel clsNames := by decide +kernel" % lean_str(msg))
    L.append("")
    modelled = model_names[model_names.index(END_ORDER[0]):] if END_ORDER[0] in model_names else model_names
    only8 = [n for n in modelled if hasattr(F8, n) and not hasattr(F3, n)]
    L.append("/-- the MODELLED classes (ids from `firstModelled` on) that exist only in the Fortran2008 package -/")
    L.append("def liveOnly2008 : List String := %s" % _strs(only8))
    L.append("theorem only2008_as_modelled : PinnedEq %s liveOnly2008\n"
             "    ((List.range clsNames.length).filterMap fun i =>\n"
             "      if firstModelled ≤ i && only2008 i then clsNames[i]? else none) := by decide +kernel"
             % lean_str("the modelled classes that exist only in Fortran2008 are not those of Fp.Header.only2008: "
                        "update only2008 in FparserModel/Header.lean"))
    L.append("")
    L.append("end Fp.Header.Generated")
    return "\n".join(L) + "\n"


def render_pins(fps):
    L = []
    L.append("/-!")
    L.append("# HeaderPins - the fingerprints FparserModel/Header.lean was validated against")
    L.append("")
    L.append("Hand-maintained (written by `python -m fv.extract_header --write-pins <lean dir> [method…]` AFTER")
    L.append("the mirror of an edited method has been re-validated; never as part of a normal build).")
    L.append("Generated/HeaderTables.lean proves that the live fingerprints equal these.")
    L.append("-/")
    L.append("namespace Fp.Header")
    L.append("")
    L.append("/-- `live = expected`; the message is part of the statement so that it shows in the error -/")
    L.append("def Pinned (_msg : String) (live expected : Option (String × String)) : Prop := live = expected")
    L.append("instance (m : String) (a b : Option (String × String)) : Decidable (Pinned m a b) :=")
    L.append("  inferInstanceAs (Decidable (a = b))")
    L.append("/-- the same for any type with decidable equality (tables, counts) -/")
    L.append("def PinnedEq {α : Type} (_msg : String) (live expected : α) : Prop := live = expected")
    L.append("instance {α : Type} [DecidableEq α] (m : String) (a b : α) : Decidable (PinnedEq m a b) :=")
    L.append("  inferInstanceAs (Decidable (a = b))")
    L.append("")
    L.append("namespace Pins")
    L.append("")
    L.append("def expected : List (String × String) := [")
    L.append(",\n".join("  (%s, %s)" % (lean_str(k), lean_str(v)) for k, v in fps))
    L.append("]")
    L.append("")
    L.append("end Pins")
    L.append("end Fp.Header")
    return "\n".join(L) + "\n"


def read_pins(path):
    """the (key, fingerprint) pairs of an existing HeaderPins.lean"""
    if not os.path.exists(path):
        return []
    text = open(path, encoding="utf-8").read()
    i = text.find("def expected")
    if i < 0:
        return []
    j = text.index("end Pins", i)
    return re.findall(r'\(\s*"([^"]*)"\s*,\s*"([^"]*)"\s*\)', text[i:j])


# ---------------------------------------------------------------------------------------------
def _write_if_changed(path, text):
    if os.path.exists(path):
        with open(path, encoding="utf-8") as fh:
            if fh.read() == text:
                return False
    os.makedirs(os.path.dirname(path), exist_ok=True)
    tmp = path + ".tmp"
    with open(tmp, "w", encoding="utf-8") as fh:
        fh.write(text)
    os.replace(tmp, path)
    return True


def _project_dir(outdir):
    if os.path.basename(os.path.normpath(outdir)) == "Generated":
        return os.path.dirname(os.path.dirname(os.path.normpath(outdir)))
    return outdir


def collect():
    return {"endRows": end_rows(), "blocks": block_kinds(), "tables": keyword_tables()}


def generate(outdir):
    """write FparserModel/Generated/HeaderTables.lean (only if it changed); `outdir` = the lean
    project dir or its FparserModel/Generated directory (what fv.common.run_extractors passes)"""
    outdir = _project_dir(outdir)
    path = os.path.join(outdir, "FparserModel", "Generated", "HeaderTables.lean")
    pinned = [k for k, _ in read_pins(os.path.join(outdir, "FparserModel", "HeaderPins.lean"))]
    text = render(collect_fingerprints(), collect(), model_class_names(outdir), pinned or None)
    generate.changed = _write_if_changed(path, text)
    return path


generate.changed = False


def write_pins(outdir, methods=()):
    """record the live fingerprints as the expected ones: all of them, or only those of `methods`
    (a key such as `Fortran2003.Program_Stmt.match`, its theorem name `pin_…`, or a suffix such as
    `Program_Stmt.match`); the other pins are kept as they are"""
    outdir = _project_dir(outdir)
    path = os.path.join(outdir, "FparserModel", "HeaderPins.lean")
    live = collect_fingerprints()
    if methods:
        old = dict(read_pins(path))
        keys = set(old) | {k for k, _ in live}

        def wanted(k):
            return any(m == k or m == ident(k) or m == "pin_" + ident(k) or k.endswith("." + m)
                       for m in methods)
        chosen = {k for k in keys if wanted(k)}
        for m in methods:
            if not any(m == k or m == ident(k) or m == "pin_" + ident(k) or k.endswith("." + m) for k in keys):
                raise SystemExit("extract_header: no mirrored method matches %r" % m)
        new = dict(old)
        livemap = dict(live)
        for k in chosen:
            if k in livemap:
                new[k] = livemap[k]
            else:
                new.pop(k, None)            # the method is gone from /repo
        fps = sorted(new.items())
    else:
        fps = live
    _write_if_changed(path, render_pins(fps))
    return path


def main(argv=None):
    argv = list(sys.argv[1:] if argv is None else argv)
    pins = False
    if argv and argv[0] == "--write-pins":
        pins = True
        argv = argv[1:]
    outdir = argv[0] if argv else os.path.join(os.path.dirname(os.path.dirname(os.path.abspath(__file__))), "lean")
    if pins:
        print("wrote", write_pins(outdir, argv[1:]))
    path = generate(outdir)
    print("extract_header: %s %s" % (path, "written" if generate.changed else "unchanged"))
    return 0


if __name__ == "__main__":
    sys.exit(main())
