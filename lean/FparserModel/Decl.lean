import FparserModel.Py
import FparserModel.Splitline
import FparserModel.Combi
/-!
# Decl — executable mirror of the hand-written leaf classes of the specification part
# (`fparser/two/Fortran2003.py`, `Type_Declaration_StmtBase` of `fparser/two/utils.py`)

For every class `X` below: `matchX o s` mirrors the static `X.match(string)` branch for branch
(string slicing, `strip`s, `upper`, `string_replace_map` and the re-application `repmap(...)`),
`tostrX o n` mirrors `X.tostr`.  Nothing in the Python forces the two to agree; the theorems of
`Props/Decl.lean` are about exactly that.

Sub-expressions, names and lists are OPAQUE: a child call `Cls(text)` (the whole `Base.__new__`
dispatch of that class) is `o.leaf cls text : Option A` (`none` = `NoMatchError`), `str(child)` is
`o.render a`.  The control flow of no modelled `match` depends on a child's value (rule objects are
truthy), with one exception that is modelled structurally: `Equivalence_Set` looks at the NUMBER of
items of the `Equivalence_Object_List` it has just built (see `matchEquivalenceSet`).

A Python `return None` and a `NoMatchError` of a child both make `Base.__new__` give up on the
class: `none`.  The two places where another exception escapes (`InternalError` of
`Kind_Selector.match` for a text of length ≤ 1, `IndexError` of `string[0]` on an empty text in
`Kind_Selector`/`Char_Selector`/`Length_Selector`) are `none` in `matchX` and are described by the
separate predicates `crashKindSelector` / `crashOnEmpty` (co-simulated as "raises").

ASCII domain as in `Py.lean`.  No Mathlib.
-/
namespace Fp.Decl
open Fp Fp.Splitline
open Fp.Combi (cutFirst cutLast isPrefix splitGo joinStr tokenise)

/-! ## leaf classes and the oracle -/

/-- the rule classes that the modelled `match` methods call (as `Cls(text)`) -/
inductive Cls where
  | declarationTypeSpec | attrSpecList | componentAttrSpecList | entityDeclList | componentDeclList
  | name | componentName | arraySpec | componentArraySpec | charLength
  | initialization | componentInitialization | nullInit | initializationExpr
  | typeParamValue | scalarIntInitializationExpr
  | implicitSpecList | letterSpecList
  | dataStmtSet | dataStmtObjectList | dataStmtValueList
  | dataIDoObjectList | dataIDoVariable | scalarIntExpr | dataStmtRepeat | dataStmtConstant
  | namedConstantDefList | namedConstant
  | commonBlockName | commonBlockObjectList
  | namelistGroupName | namelistGroupObjectList
  | equivalenceSetList | equivalenceObject
  | arrayName | intentSpec | dummyArgNameList | savedEntityList
deriving Repr, DecidableEq

def Cls.all : List Cls :=
  [.declarationTypeSpec, .attrSpecList, .componentAttrSpecList, .entityDeclList, .componentDeclList,
   .name, .componentName, .arraySpec, .componentArraySpec, .charLength,
   .initialization, .componentInitialization, .nullInit, .initializationExpr,
   .typeParamValue, .scalarIntInitializationExpr,
   .implicitSpecList, .letterSpecList,
   .dataStmtSet, .dataStmtObjectList, .dataStmtValueList,
   .dataIDoObjectList, .dataIDoVariable, .scalarIntExpr, .dataStmtRepeat, .dataStmtConstant,
   .namedConstantDefList, .namedConstant,
   .commonBlockName, .commonBlockObjectList,
   .namelistGroupName, .namelistGroupObjectList,
   .equivalenceSetList, .equivalenceObject,
   .arrayName, .intentSpec, .dummyArgNameList, .savedEntityList]

/-- the Python class name -/
def Cls.pyName : Cls → String
  | .declarationTypeSpec => "Declaration_Type_Spec" | .attrSpecList => "Attr_Spec_List"
  | .componentAttrSpecList => "Component_Attr_Spec_List" | .entityDeclList => "Entity_Decl_List"
  | .componentDeclList => "Component_Decl_List" | .name => "Name" | .componentName => "Component_Name"
  | .arraySpec => "Array_Spec" | .componentArraySpec => "Component_Array_Spec"
  | .charLength => "Char_Length" | .initialization => "Initialization"
  | .componentInitialization => "Component_Initialization" | .nullInit => "Null_Init"
  | .initializationExpr => "Initialization_Expr" | .typeParamValue => "Type_Param_Value"
  | .scalarIntInitializationExpr => "Scalar_Int_Initialization_Expr"
  | .implicitSpecList => "Implicit_Spec_List" | .letterSpecList => "Letter_Spec_List"
  | .dataStmtSet => "Data_Stmt_Set" | .dataStmtObjectList => "Data_Stmt_Object_List"
  | .dataStmtValueList => "Data_Stmt_Value_List" | .dataIDoObjectList => "Data_I_Do_Object_List"
  | .dataIDoVariable => "Data_I_Do_Variable" | .scalarIntExpr => "Scalar_Int_Expr"
  | .dataStmtRepeat => "Data_Stmt_Repeat" | .dataStmtConstant => "Data_Stmt_Constant"
  | .namedConstantDefList => "Named_Constant_Def_List" | .namedConstant => "Named_Constant"
  | .commonBlockName => "Common_Block_Name" | .commonBlockObjectList => "Common_Block_Object_List"
  | .namelistGroupName => "Namelist_Group_Name"
  | .namelistGroupObjectList => "Namelist_Group_Object_List"
  | .equivalenceSetList => "Equivalence_Set_List" | .equivalenceObject => "Equivalence_Object"
  | .arrayName => "Array_Name" | .intentSpec => "Intent_Spec"
  | .dummyArgNameList => "Dummy_Arg_Name_List" | .savedEntityList => "Saved_Entity_List"

/-- index in `Cls.all` (the class id used with the combinators of `Combi.lean`) -/
def Cls.id (c : Cls) : Nat := Cls.all.idxOf c
def Cls.ofId (n : Nat) : Cls := Cls.all.getD n .name

structure Leaves (A : Type) where
  /-- `Cls(text)`; `none` = `NoMatchError` -/
  leaf : Cls → Str → Option A
  /-- `str(node)` -/
  render : A → Str

variable {A : Type}

/-- `"%s" % x` for an optional child (`None` prints as `None`; never reached by a `tostr` below) -/
def rOpt (o : Leaves A) : Option A → Str
  | none => "None".toList
  | some a => o.render a

/-- the children as the combinators of `Combi.lean` see them -/
def Leaves.combi (o : Leaves A) : Combi.Oracle A :=
  { childMatch := fun c s => o.leaf (Cls.ofId c) s, childStr := o.render }

/-! ## Python `str` helpers -/

/-- `s.startswith(p)` -/
def sw (s : Str) (p : String) : Bool := isPrefix p.toList s
/-- `s.endswith(c)` for a one-character `c` -/
def ew (s : Str) (c : Char) : Bool := s.getLast? == some c
/-- `s[:n].upper() == kw` (`n = len(kw)`) -/
def kwAt (kw : String) (s : Str) : Bool := upper (s.take kw.length) == kw.toList
/-- `s[0] + s[-1] == "()"` for a non-empty `s` (`false` for the empty string, where Python raises
    `IndexError` unless guarded) -/
def wrapped (s : Str) : Bool := s.head? == some '(' && s.getLast? == some ')'

/-- `(s[:i], s[i+2:])` for `i = s.find("::")`; `none` when `i = -1` -/
def cutColons : Str → Option (Str × Str)
  | [] => none
  | [_] => none
  | c :: d :: cs =>
    if c == ':' && d == ':' then some ([], cs)
    else match cutColons (d :: cs) with
      | some p => some (c :: p.1, p.2)
      | none => none

/-- `m = re.search(r"\s[a-z_]", s, re.I)`: `(s[:m.start()], s[m.start():])` -/
def searchBlankLetter : Str → Option (Str × Str)
  | [] => none
  | [_] => none
  | c :: d :: cs =>
    if isSpace c && (isAlpha d || d == '_') then some ([], c :: d :: cs)
    else match searchBlankLetter (d :: cs) with
      | some p => some (c :: p.1, p.2)
      | none => none

/-- `[\w$]` -/
def isNameChar (c : Char) : Bool := isWord c || c == '$'

/-- `m = pattern.name.match(s)` (`[A-Z][\w$]*`, IGNORECASE): `(m.group(), s[m.end():])` -/
def nameMatch : Str → Option (Str × Str)
  | [] => none
  | c :: cs =>
    if isAlpha c then some (c :: cs.takeWhile isNameChar, cs.dropWhile isNameChar) else none

/-- `", ".join(parts)` -/
def commaJoin (parts : List Str) : Str := joinStr [',', ' '] parts

/-- run the child calls of a list, left to right, fail-fast -/
def leafAll (o : Leaves A) (c : Cls) : List Str → Option (List A)
  | [] => some []
  | t :: ts =>
    match o.leaf c t with
    | none => none
    | some a =>
      match leafAll o c ts with
      | none => none
      | some as => some (a :: as)

/-! ## Type_Declaration_StmtBase / Type_Declaration_Stmt / Data_Component_Def_Stmt -/

structure TypeDecl (A : Type) where
  typeSpec : A
  attrSpecs : Option A
  entityDecls : A
deriving Repr, DecidableEq

/-- the first part of `Type_Declaration_StmtBase.match`: where the type-spec ends.
    Returns `(line[:i], line[i:])`. -/
def typeSpecCut (line : Str) : Option (Str × Str) :=
  match cutColons line with
  | some (a, b) =>
    -- i = line.find("::"); j = line[:i].find(","); if j != -1: i = j
    match cutFirst ',' a with
    | some (a1, a2) => some (a1, ',' :: a2 ++ ':' :: ':' :: b)
    | none => some (a, ':' :: ':' :: b)
  | none =>
    if kwAt "DOUBLE" line then
      let rest := lstrip (line.drop 6)
      match searchBlankLetter rest with
      | none => none
      | some (p, _) =>
        let i := p.length + line.length - rest.length
        some (line.take i, line.drop i)
    else
      match searchBlankLetter line with
      | none => none
      | some (p, q) => some (p, q)

/-- `Type_Declaration_StmtBase.match(decl_type_spec_cls, attr_spec_list_cls, entity_decl_list_cls, string)` -/
def matchTypeDeclBase (o : Leaves A) (tsC alC elC : Cls) (s : Str) : Option (TypeDecl A) :=
  match tokenise s with
  | none => none
  | some r =>
    match typeSpecCut r.text with
    | none => none
    | some (head, tail) =>
      match o.leaf tsC (applyMap r.map (rstrip head)) with
      | none => none
      | some ts =>
        let line := lstrip tail
        if sw line "," then
          match cutColons line with
          | none => none
          | some (a, b) =>
            -- attr_specs = cls(repmap(line[1:i].strip())); line = line[i:]; then the "::" is cut
            match o.leaf alC (applyMap r.map (strip (a.drop 1))) with
            | none => none
            | some al =>
              match o.leaf elC (applyMap r.map (lstrip b)) with
              | none => none
              | some el => some ⟨ts, some al, el⟩
        else
          let line := if sw line "::" then lstrip (line.drop 2) else line
          match o.leaf elC (applyMap r.map line) with
          | none => none
          | some el => some ⟨ts, none, el⟩

/-- `Type_Declaration_StmtBase.tostr` (= `Type_Declaration_Stmt.tostr`) -/
def tostrTypeDecl (o : Leaves A) (n : TypeDecl A) : Str :=
  match n.attrSpecs with
  | none => o.render n.typeSpec ++ " :: ".toList ++ o.render n.entityDecls
  | some al => o.render n.typeSpec ++ ", ".toList ++ o.render al ++ " :: ".toList ++ o.render n.entityDecls

/-- `Type_Declaration_Stmt.match` (the symbol-table side effect is not part of this model) -/
def matchTypeDeclarationStmt (o : Leaves A) (s : Str) : Option (TypeDecl A) :=
  matchTypeDeclBase o .declarationTypeSpec .attrSpecList .entityDeclList s

/-- `Data_Component_Def_Stmt.match` -/
def matchDataComponentDefStmt (o : Leaves A) (s : Str) : Option (TypeDecl A) :=
  matchTypeDeclBase o .declarationTypeSpec .componentAttrSpecList .componentDeclList s

/-! ## Entity_Decl / Component_Decl -/

structure EntityDecl (A : Type) where
  name : A
  arraySpec : Option A
  charLength : Option A
  init : Option A
deriving Repr, DecidableEq

/-- the `if newline.startswith("("):` block: `(text for Array_Spec, new newline)` -/
def entityArrayPart (newline : Str) : Option (Str × Str) :=
  match tokenise newline with
  | none => none
  | some r =>
    match cutFirst ')' r.text with
    | none => none
    | some (a, b) => some (applyMap r.map (strip (a.drop 1)), applyMap r.map (lstrip b))

/-- the `if newline.startswith("*"):` block: `(text for Char_Length, new newline)` -/
def entityCharPart (newline : Str) : Option (Str × Str) :=
  match tokenise newline with
  | none => none
  | some r =>
    match cutFirst '=' r.text with
    | some (a, b) => some (applyMap r.map (strip (a.drop 1)), applyMap r.map (lstrip ('=' :: b)))
    | none =>
      -- `repmap(newline[1:].strip())`: the UN-mapped text goes through `repmap`
      some (applyMap r.map (strip (newline.drop 1)), [])

/-- `Entity_Decl.match(string, target=False)` / `Component_Decl.match(string)` with the three
    child classes as parameters -/
def matchEntityLike (o : Leaves A) (nameC arrC initC : Cls) (s : Str) : Option (EntityDecl A) :=
  match nameMatch s with
  | none => none
  | some (nm, rest) =>
    match o.leaf nameC nm with
    | none => none
    | some name =>
      let newline := lstrip rest
      if newline.isEmpty then some ⟨name, none, none, none⟩ else
      -- array-spec
      let step1 : Option (Option A × Str) :=
        if sw newline "(" then
          match entityArrayPart newline with
          | none => none
          | some (t, nl) => (o.leaf arrC t).map fun a => (some a, nl)
        else some (none, newline)
      match step1 with
      | none => none
      | some (arr, newline) =>
        let step2 : Option (Option A × Str) :=
          if sw newline "*" then
            match entityCharPart newline with
            | none => none
            | some (t, nl) => (o.leaf .charLength t).map fun a => (some a, nl)
          else some (none, newline)
        match step2 with
        | none => none
        | some (cl, newline) =>
          if sw newline "=" then
            (o.leaf initC newline).map fun i => ⟨name, arr, cl, some i⟩
          else if !newline.isEmpty then none
          else some ⟨name, arr, cl, none⟩

def matchEntityDecl (o : Leaves A) (s : Str) : Option (EntityDecl A) :=
  matchEntityLike o .name .arraySpec .initialization s
def matchComponentDecl (o : Leaves A) (s : Str) : Option (EntityDecl A) :=
  matchEntityLike o .componentName .componentArraySpec .componentInitialization s

/-- `Entity_Decl.tostr` = `Component_Decl.tostr` -/
def tostrEntityDecl (o : Leaves A) (n : EntityDecl A) : Str :=
  o.render n.name
  ++ (match n.arraySpec with | some a => '(' :: o.render a ++ [')'] | none => [])
  ++ (match n.charLength with | some a => '*' :: o.render a | none => [])
  ++ (match n.init with | some a => ' ' :: o.render a | none => [])

/-! ## Initialization / Component_Initialization -/

inductive Init (A : Type) where
  | ptr (a : A)      -- `=> null-init`
  | val (a : A)      -- `= initialization-expr`
deriving Repr, DecidableEq

def matchInitialization (o : Leaves A) (s : Str) : Option (Init A) :=
  if sw s "=>" then (o.leaf .nullInit (lstrip (s.drop 2))).map .ptr
  else if sw s "=" then (o.leaf .initializationExpr (lstrip (s.drop 1))).map .val
  else none

def tostrInitialization (o : Leaves A) : Init A → Str
  | .ptr a => "=> ".toList ++ o.render a
  | .val a => "= ".toList ++ o.render a

/-! ## Kind_Selector -/

inductive KindSel (A : Type) where
  | star (a : A)     -- `("*", Char_Length)`
  | paren (a : A)    -- `("(", Scalar_Int_Initialization_Expr, ")")`
deriving Repr, DecidableEq

/-- the inputs on which `Kind_Selector.match` raises instead of returning: `InternalError` for
    `len(string) <= 1`, `IndexError` (`string[0]` after `strip`) for an all-blank text -/
def crashKindSelector (s : Str) : Bool := s.length ≤ 1 || (strip s).isEmpty

def matchKindSelector (o : Leaves A) (s0 : Str) : Option (KindSel A) :=
  if crashKindSelector s0 then none else
  let s := strip s0
  if !wrapped s then
    if !sw s "*" then none
    else (o.leaf .charLength (lstrip (s.drop 1))).map .star
  else
    let s := strip (interior s)
    let s :=
      if s.length > 5 && kwAt "KIND" s && (lstrip (s.drop 4)).head? == some '=' then
        lstrip ((lstrip (s.drop 4)).drop 1)
      else s
    (o.leaf .scalarIntInitializationExpr s).map .paren

def tostrKindSelector (o : Leaves A) : KindSel A → Str
  | .star a => '*' :: o.render a
  | .paren a => "(KIND = ".toList ++ o.render a ++ [')']

/-! ## Char_Selector / Length_Selector / Char_Length -/

/-- `string[0]` on the empty string: `IndexError` (`Char_Selector`, `Length_Selector`) -/
def crashOnEmpty (s : Str) : Bool := s.isEmpty

structure CharSel (A : Type) where
  len : Option A
  kind : A
deriving Repr, DecidableEq

/-- `line[:n].upper() == KW and line[n:].lstrip().startswith("=")` -/
def kwEq (kw : String) (line : Str) : Bool :=
  kwAt kw line && sw (lstrip (line.drop kw.length)) "="
/-- the text after `KW =` -/
def afterKwEq (kw : String) (line : Str) : Str :=
  lstrip ((lstrip (line.drop kw.length)).drop 1)

/-- `Char_Selector.match` (as of /repo 68391df: every branch maps both pieces back with `repmap`) -/
def matchCharSelector (o : Leaves A) (s : Str) : Option (CharSel A) :=
  if !wrapped s then none else
  match tokenise (strip (interior s)) with
  | none => none
  | some r =>
    let line := r.text
    if kwEq "LEN" line then
      let line := afterKwEq "LEN" line
      match cutFirst ',' line with
      | none => none
      | some (a, b) =>
        let v := rstrip a
        let line := lstrip b
        if !kwAt "KIND" line then none else
        let line := lstrip (line.drop 4)
        if !sw line "=" then none else
        let line := lstrip (line.drop 1)
        match o.leaf .typeParamValue (applyMap r.map v) with
        | none => none
        | some tv => (o.leaf .scalarIntInitializationExpr (applyMap r.map line)).map fun k => ⟨some tv, k⟩
    else if kwEq "KIND" line then
      let line := afterKwEq "KIND" line
      match cutFirst ',' line with
      | none => (o.leaf .scalarIntInitializationExpr (applyMap r.map line)).map fun k => ⟨none, k⟩
      | some (a, b) =>
        let v := lstrip b
        let line := rstrip a
        if !kwAt "LEN" v then none else
        let v := lstrip (v.drop 3)
        if !sw v "=" then none else
        let v := lstrip (v.drop 1)
        match o.leaf .typeParamValue (applyMap r.map v) with
        | none => none
        | some tv => (o.leaf .scalarIntInitializationExpr (applyMap r.map line)).map fun k => ⟨some tv, k⟩
    else
      match cutFirst ',' line with
      | none => none
      | some (a, b) =>
        let v := rstrip a
        let line := lstrip b
        let line := if kwEq "KIND" line then afterKwEq "KIND" line else line
        match o.leaf .typeParamValue (applyMap r.map v) with
        | none => none
        | some tv => (o.leaf .scalarIntInitializationExpr (applyMap r.map line)).map fun k => ⟨some tv, k⟩

def tostrCharSelector (o : Leaves A) (n : CharSel A) : Str :=
  match n.len with
  | none => "(KIND = ".toList ++ o.render n.kind ++ [')']
  | some l => "(LEN = ".toList ++ o.render l ++ ", KIND = ".toList ++ o.render n.kind ++ [')']

inductive LenSel (A : Type) where
  | paren (a : A)    -- `("(", Type_Param_Value, ")")`
  | star (a : A)     -- `("*", Char_Length)`
deriving Repr, DecidableEq

def matchLengthSelector (o : Leaves A) (s : Str) : Option (LenSel A) :=
  if wrapped s then
    let line := strip (interior s)
    let line := if kwEq "LEN" line then afterKwEq "LEN" line else line
    (o.leaf .typeParamValue line).map .paren
  else if !sw s "*" then none
  else
    let line := lstrip (s.drop 1)
    let line := if ew s ',' then rstrip line.dropLast else line
    (o.leaf .charLength line).map .star

def tostrLengthSelector (o : Leaves A) : LenSel A → Str
  | .star a => '*' :: o.render a
  | .paren a => "(LEN = ".toList ++ o.render a ++ [')']

/-- `Char_Length.match` = `BracketBase.match("()", Type_Param_Value, string)` -/
def matchCharLength (o : Leaves A) (s : Str) : Option (List (Combi.Item A)) :=
  Combi.bracketMatch o.combi "()".toList (some Cls.typeParamValue.id) true s

/-! ## Attr_Spec / Component_Attr_Spec / Intent_Spec / Dimension_Attr_Spec / Intent_Attr_Spec -/

/-- the alternatives of `pattern_tools.attr_spec` (checked against the live regex by the
    translator: `Generated/DeclTables.lean`) -/
def attrSpecNames : List String :=
  ["ALLOCATABLE", "ASYNCHRONOUS", "EXTERNAL", "INTENT", "INTRINSIC", "OPTIONAL", "PARAMETER",
   "POINTER", "PROTECTED", "SAVE", "TARGET", "VALUE", "VOLATILE"]

/-- `Component_Attr_Spec.attributes` -/
def componentAttrNames : List String := ["POINTER", "ALLOCATABLE"]

/-- `STRINGBase.match(<alternation of words, anchored>, string)` -/
def matchWordOf (names : List String) (s : Str) : Option Str :=
  if names.any (fun n => n.toList == upper s) then some (upper s) else none

def matchAttrSpec (s : Str) : Option Str := matchWordOf attrSpecNames s
def matchComponentAttrSpec (s : Str) : Option Str := matchWordOf componentAttrNames s

/-- `STRINGBase.match(abs_intent_spec, string)` with `\A(IN\s*OUT|IN|OUT)\Z`, IGNORECASE -/
def matchIntentSpec (s : Str) : Option Str :=
  let u := upper s
  if u == "IN".toList || u == "OUT".toList then some u
  else if u.take 2 == "IN".toList && (u.drop 2).dropWhile isSpace == "OUT".toList then some u
  else none

/-- `CALLBase.match("DIMENSION", Array_Spec, string)` -/
def matchDimensionAttrSpec (o : Leaves A) (s : Str) : Option (List (Combi.Item A)) :=
  Combi.callMatch o.combi (.kw "DIMENSION".toList) (.cls Cls.arraySpec.id) true false s
/-- `CALLBase.match("INTENT", Intent_Spec, string)` -/
def matchIntentAttrSpec (o : Leaves A) (s : Str) : Option (List (Combi.Item A)) :=
  Combi.callMatch o.combi (.kw "INTENT".toList) (.cls Cls.intentSpec.id) true false s

/-! ## Implicit_Stmt / Implicit_Spec / Letter_Spec -/

inductive Implicit (A : Type) where
  | none'            -- `("NONE",)`
  | specs (a : A)    -- `(Implicit_Spec_List,)`
deriving Repr, DecidableEq

def matchImplicitStmt (o : Leaves A) (s : Str) : Option (Implicit A) :=
  if !kwAt "IMPLICIT" s then none else
  let line := lstrip (s.drop 8)
  if line.length == 4 && upper line == "NONE".toList then some .none'
  else (o.leaf .implicitSpecList line).map .specs

def tostrImplicitStmt (o : Leaves A) : Implicit A → Str
  | .none' => "IMPLICIT NONE".toList
  | .specs a => "IMPLICIT ".toList ++ o.render a

structure ImplicitSpec (A : Type) where
  typeSpec : A
  letters : A
deriving Repr, DecidableEq

def matchImplicitSpec (o : Leaves A) (s : Str) : Option (ImplicitSpec A) :=
  if !ew s ')' then none else
  match cutLast '(' s with
  | none => none
  | some (pre, post) =>
    let s1 := rstrip pre
    let s2 := strip post.dropLast           -- string[i+1:-1]
    if s1.isEmpty || s2.isEmpty then none else
    match o.leaf .declarationTypeSpec s1 with
    | none => none
    | some t => (o.leaf .letterSpecList s2).map fun l => ⟨t, l⟩

/-- `CallBase.tostr` (both items present) -/
def tostrImplicitSpec (o : Leaves A) (n : ImplicitSpec A) : Str :=
  o.render n.typeSpec ++ '(' :: o.render n.letters ++ [')']

/-- a letter-spec node: `(lhs, rhs)` with `rhs = None` for a single letter -/
abbrev LetterSpec := Str × Option Str

def isUpperAZ (s : Str) : Bool :=
  match s with
  | [c] => 'A' ≤ c && c ≤ 'Z'
  | _ => false

def matchLetterSpec (s : Str) : Option LetterSpec :=
  if s.length == 1 then
    let lhs := upper s
    if isUpperAZ lhs then some (lhs, none) else none
  else
    match cutFirst '-' s with
    | none => none
    | some (l, r) =>
      let lhs := upper (strip l)
      let rhs := upper (strip r)
      match lhs, rhs with
      | [a], [b] => if 'A' ≤ a && a ≤ b && b ≤ 'Z' then some (lhs, some rhs) else none
      | _, _ => none

def tostrLetterSpec : LetterSpec → Str
  | (l, none) => l
  | (l, some r) => l ++ " - ".toList ++ r

/-! ## Data_Stmt / Data_Stmt_Set / Data_Implied_Do / Data_Stmt_Value -/

/-- the texts of the further sets (`while line:` loop of `Data_Stmt.match`), already mapped back;
    every round consumes two `/`, so `fuel = len(line) + 1` suffices -/
def dataMoreSets (m : Map) : Nat → Str → Option (List Str)
  | 0, _ => none
  | fuel+1, line =>
    if line.isEmpty then some [] else
    let line := if sw line "," then lstrip (line.drop 1) else line
    match cutFirst '/' line with
    | none => none
    | some (a, r1) =>
      match cutFirst '/' r1 with
      | none => none
      | some (b, r2) =>
        match dataMoreSets m fuel (lstrip r2) with
        | none => none
        | some ts => some (applyMap m (a ++ '/' :: b ++ ['/']) :: ts)

/-- the texts handed to `Data_Stmt_Set`, in order -/
def dataSetTexts (s : Str) : Option (List Str) :=
  if !kwAt "DATA" s then none else
  match tokenise (lstrip (s.drop 4)) with
  | none => none
  | some r =>
    match cutFirst '/' r.text with
    | none => none
    | some (a, r1) =>
      match cutFirst '/' r1 with
      | none => none
      | some (b, r2) =>
        match dataMoreSets r.map (r2.length + 1) (lstrip r2) with
        | none => none
        | some ts => some (applyMap r.map (a ++ '/' :: b ++ ['/']) :: ts)

def matchDataStmt (o : Leaves A) (s : Str) : Option (List A) :=
  match dataSetTexts s with
  | none => none
  | some ts => leafAll o .dataStmtSet ts

def tostrDataStmt (o : Leaves A) (items : List A) : Str :=
  "DATA ".toList ++ commaJoin (items.map o.render)

structure DataSet (A : Type) where
  objects : A
  values : A
deriving Repr, DecidableEq

def matchDataStmtSet (o : Leaves A) (s : Str) : Option (DataSet A) :=
  if !ew s '/' then none else
  match tokenise s with
  | none => none
  | some r =>
    match cutFirst '/' r.text with
    | none => none
    | some (a, b) =>
      match o.leaf .dataStmtObjectList (applyMap r.map (rstrip a)) with
      | none => none
      | some ob =>
        (o.leaf .dataStmtValueList (applyMap r.map (strip b.dropLast))).map fun v => ⟨ob, v⟩

def tostrDataStmtSet (o : Leaves A) (n : DataSet A) : Str :=
  o.render n.objects ++ " / ".toList ++ o.render n.values ++ " /".toList

structure ImpliedDo (A : Type) where
  objects : A
  var : A
  e1 : A
  e2 : A
  e3 : Option A
deriving Repr, DecidableEq

def matchDataImpliedDo (o : Leaves A) (s : Str) : Option (ImpliedDo A) :=
  if !(sw s "(" && ew s ')') then none else
  match tokenise (strip (interior s)) with
  | none => none
  | some r =>
    match cutFirst '=' r.text with
    | none => none
    | some (l0, r0) =>
      let lhs := rstrip l0
      let rhs := lstrip r0
      match cutLast ',' lhs with
      | none => none
      | some (s10, s11) =>
        let s2 := splitGo [','] 0 rhs
        let rm := applyMap r.map
        match s2 with
        | [x0, x1] =>
          match o.leaf .dataIDoObjectList (rm (rstrip s10)) with
          | none => none
          | some ob =>
          match o.leaf .dataIDoVariable (rm (lstrip s11)) with
          | none => none
          | some v =>
          match o.leaf .scalarIntExpr (rm (rstrip x0)) with
          | none => none
          | some a1 =>
            (o.leaf .scalarIntExpr (rm (strip x1))).map fun a2 => ⟨ob, v, a1, a2, none⟩
        | [x0, x1, x2] =>
          match o.leaf .dataIDoObjectList (rm (rstrip s10)) with
          | none => none
          | some ob =>
          match o.leaf .dataIDoVariable (rm (lstrip s11)) with
          | none => none
          | some v =>
          match o.leaf .scalarIntExpr (rm (rstrip x0)) with
          | none => none
          | some a1 =>
          match o.leaf .scalarIntExpr (rm (strip x1)) with
          | none => none
          | some a2 =>
            (o.leaf .scalarIntExpr (rm (lstrip x2))).map fun a3 => ⟨ob, v, a1, a2, some a3⟩
        | _ => none

def tostrDataImpliedDo (o : Leaves A) (n : ImpliedDo A) : Str :=
  '(' :: o.render n.objects ++ ", ".toList ++ o.render n.var ++ " = ".toList ++ o.render n.e1
    ++ ", ".toList ++ o.render n.e2
    ++ (match n.e3 with | some a => ", ".toList ++ o.render a | none => []) ++ [')']

structure DataValue (A : Type) where
  repeat' : A
  constant : A
deriving Repr, DecidableEq

def matchDataStmtValue (o : Leaves A) (s : Str) : Option (DataValue A) :=
  match tokenise s with
  | none => none
  | some r =>
    match cutFirst '*' r.text with
    | none => none
    | some (a, b) =>
      let lhs := applyMap r.map (rstrip a)
      let rhs := applyMap r.map (lstrip b)
      if lhs.isEmpty || rhs.isEmpty then none else
      match o.leaf .dataStmtRepeat lhs with
      | none => none
      | some x => (o.leaf .dataStmtConstant rhs).map fun y => ⟨x, y⟩

def tostrDataStmtValue (o : Leaves A) (n : DataValue A) : Str :=
  o.render n.repeat' ++ " * ".toList ++ o.render n.constant

/-! ## Dimension_Stmt / Intent_Stmt -/

/-- one `array-name ( array-spec )` of `Dimension_Stmt.match`: the two texts (mapped back) -/
def dimensionDecl (m : Map) (piece : Str) : Option (Str × Str) :=
  let s := strip piece
  if !ew s ')' then none else
  match cutFirst '(' s with
  | none => none
  | some (a, b) => some (applyMap m (rstrip a), applyMap m (strip b.dropLast))

def dimensionDecls (m : Map) : List Str → Option (List (Str × Str))
  | [] => some []
  | p :: ps =>
    match dimensionDecl m p with
    | none => none
    | some d =>
      match dimensionDecls m ps with
      | none => none
      | some ds => some (d :: ds)

/-- `(Array_Name(a), Array_Spec(b))` for every pair, left to right -/
def leafPairs (o : Leaves A) (c1 c2 : Cls) : List (Str × Str) → Option (List (A × A))
  | [] => some []
  | (a, b) :: ps =>
    match o.leaf c1 a with
    | none => none
    | some x =>
      match o.leaf c2 b with
      | none => none
      | some y =>
        match leafPairs o c1 c2 ps with
        | none => none
        | some r => some ((x, y) :: r)

def dimensionTexts (s : Str) : Option (List (Str × Str)) :=
  if !kwAt "DIMENSION" s then none else
  match tokenise (lstrip (s.drop 9)) with
  | none => none
  | some r =>
    let line := if sw r.text "::" then lstrip (r.text.drop 2) else r.text
    dimensionDecls r.map (splitGo [','] 0 line)

def matchDimensionStmt (o : Leaves A) (s : Str) : Option (List (A × A)) :=
  match dimensionTexts s with
  | none => none
  | some ds => leafPairs o .arrayName .arraySpec ds

def tostrDimensionStmt (o : Leaves A) (items : List (A × A)) : Str :=
  "DIMENSION :: ".toList
    ++ commaJoin (items.map fun p => o.render p.1 ++ '(' :: o.render p.2 ++ [')'])

structure IntentStmt (A : Type) where
  spec : A
  names : A
deriving Repr, DecidableEq

def matchIntentStmt (o : Leaves A) (s : Str) : Option (IntentStmt A) :=
  if !kwAt "INTENT" s then none else
  let line := lstrip (s.drop 6)
  if line.isEmpty || !sw line "(" then none else
  match cutLast ')' line with          -- i = line.rfind(")")
  | none => none
  | some (pre, post) =>
    let spec := strip (pre.drop 1)
    if spec.isEmpty then none else
    let line := lstrip post
    let line := if sw line "::" then lstrip (line.drop 2) else line
    if line.isEmpty then none else
    match o.leaf .intentSpec spec with
    | none => none
    | some sp => (o.leaf .dummyArgNameList line).map fun l => ⟨sp, l⟩

def tostrIntentStmt (o : Leaves A) (n : IntentStmt A) : Str :=
  "INTENT(".toList ++ o.render n.spec ++ ") :: ".toList ++ o.render n.names

/-! ## Parameter_Stmt / Named_Constant_Def / Save_Stmt / Saved_Entity / Equivalence_Stmt
    (instances of the combinators of `Combi.lean`) -/

/-- `CALLBase.match("PARAMETER", Named_Constant_Def_List, string, require_rhs=True)` -/
def matchParameterStmt (o : Leaves A) (s : Str) : Option (List (Combi.Item A)) :=
  Combi.callMatch o.combi (.kw "PARAMETER".toList) (.cls Cls.namedConstantDefList.id) true true s
/-- `KeywordValueBase.match(Named_Constant, Initialization_Expr, string)` -/
def matchNamedConstantDef (o : Leaves A) (s : Str) : Option (List (Combi.Item A)) :=
  Combi.kvMatch o.combi (.cls Cls.namedConstant.id) Cls.initializationExpr.id true false s
/-- `WORDClsBase.match("SAVE", Saved_Entity_List, string, colons=True, require_cls=False)` -/
def matchSaveStmt (o : Leaves A) (s : Str) : Option (List (Combi.Item A)) :=
  Combi.wordMatch o.combi ["SAVE".toList] false (some Cls.savedEntityList.id) true false s
/-- `BracketBase.match("//", Common_Block_Name, string)` -/
def matchSavedEntity (o : Leaves A) (s : Str) : Option (List (Combi.Item A)) :=
  Combi.bracketMatch o.combi "//".toList (some Cls.commonBlockName.id) true s
/-- `WORDClsBase.match("EQUIVALENCE", Equivalence_Set_List, string)` -/
def matchEquivalenceStmt (o : Leaves A) (s : Str) : Option (List (Combi.Item A)) :=
  Combi.wordMatch o.combi ["EQUIVALENCE".toList] false (some Cls.equivalenceSetList.id) false false s

/-! ## Namelist_Stmt -/

/-- the `while len(parts) >= 2:` loop: `(name text, list text)` pairs; `none` = a part is left over -/
def namelistPairs : List Str → Option (List (Str × Str))
  | [] => some []
  | [_] => none
  | p0 :: p1 :: rest =>
    let name := strip p0
    let lst := strip p1
    let lst := if ew lst ',' then rstrip lst.dropLast else lst
    match namelistPairs rest with
    | none => none
    | some ps => some ((name, lst) :: ps)

def namelistTexts (s : Str) : Option (List (Str × Str)) :=
  let line := lstrip s
  if !kwAt "NAMELIST" line then none else
  let line := lstrip (line.drop 8)
  if line.isEmpty then none else
  match splitGo ['/'] 0 line with
  | [] => none
  | first :: parts =>
    if !first.isEmpty then none else namelistPairs parts

/-- the Python builds the items while popping and only then looks at the left-over part; with
    pure children the outcome is the same -/
def matchNamelistStmt (o : Leaves A) (s : Str) : Option (List (A × A)) :=
  match namelistTexts s with
  | none => none
  | some ps => leafPairs o .namelistGroupName .namelistGroupObjectList ps

def tostrNamelistStmt (o : Leaves A) (items : List (A × A)) : Str :=
  "NAMELIST ".toList
    ++ commaJoin (items.map fun p => '/' :: o.render p.1 ++ "/ ".toList ++ o.render p.2)

/-! ## Equivalence_Set -/

structure EquivSet (A : Type) where
  first : A
  rest : List A      -- the items of the shortened `Equivalence_Object_List` (non-empty)
deriving Repr, DecidableEq

/-- `Equivalence_Set.match`.  `tmp = Equivalence_Object_List(line)` is modelled through
    `SequenceBase.match(",", Equivalence_Object, line)` because the code then takes the list
    apart (`tmp.items[0]`, `tmp.items[1:]`, `if not tmp.items: return`). -/
def matchEquivalenceSet (o : Leaves A) (s : Str) : Option (EquivSet A) :=
  if s.isEmpty || !wrapped s then none else
  let line := strip (interior s)
  if line.isEmpty then none else
  match tokenise line with
  | none => none
  | some r =>
    match leafAll o .equivalenceObject ((splitGo [','] 0 r.text).map fun e => applyMap r.map (strip e)) with
    | none => none
    | some [] => none
    | some [_] => none
    | some (a :: b :: rest) => some ⟨a, b :: rest⟩

def tostrEquivalenceSet (o : Leaves A) (n : EquivSet A) : Str :=
  '(' :: o.render n.first ++ ", ".toList ++ commaJoin (n.rest.map o.render) ++ [')']

/-! ## Common_Stmt -/

/-- the part of `Common_Stmt.match` that is written three times: the object list up to the next
    `/`.  Returns `(text for Common_Block_Object_List (mapped back), rest of the line)`. -/
def commonTail (m : Map) (line : Str) : Option (Str × Str) :=
  match cutFirst '/' line with
  | none => some (applyMap m line, [])
  | some (a, b) =>
    let tmp := rstrip a
    let tmp := if ew tmp ',' then rstrip tmp.dropLast else tmp
    if tmp.isEmpty then none else some (applyMap m tmp, lstrip ('/' :: b))

/-- `name = line[1:i].strip() or None` -/
def commonName (t : Str) : Option Str := if (strip t).isEmpty then none else some (strip t)

/-- the `while line:` loop: `(block name text or None, object list text)` -/
def commonMore (m : Map) : Nat → Str → Option (List (Option Str × Str))
  | 0, _ => none
  | fuel+1, line =>
    if line.isEmpty then some [] else
    let line := if sw line "," then lstrip (line.drop 1) else line
    if !sw line "/" then none else
    match cutFirst '/' (line.drop 1) with
    | none =>
      -- `i = line.find("/", 1)` is not checked: `i = -1`, `line = line[0:]` still starts with the
      -- `/`, so `tmp` is empty and the method returns `None` (after a possible call of
      -- `Common_Block_Name(line[1:-1].strip())`)
      none
    | some (nm, rest) =>
      match commonTail m (lstrip rest) with
      | none => none
      | some (lst, line') =>
        match commonMore m fuel line' with
        | none => none
        | some more => some ((commonName nm, lst) :: more)

def commonTexts (s : Str) : Option (List (Option Str × Str)) :=
  if !kwAt "COMMON" s then none else
  match s.drop 6 with
  | [] => none
  | c :: cs =>
    if ('A' ≤ upperC c && upperC c ≤ 'Z') || c == '_' then none else
    match tokenise (lstrip (c :: cs)) with
    | none => none
    | some r =>
      let line := r.text
      let first : Option (Option Str × Str × Str) :=
        if sw line "/" then
          match cutFirst '/' (line.drop 1) with
          | none => none
          | some (nm, rest) =>
            match commonTail r.map (lstrip rest) with
            | none => none
            | some (lst, line') => some (commonName nm, lst, line')
        else
          match commonTail r.map line with
          | none => none
          | some (lst, line') => some (none, lst, line')
      match first with
      | none => none
      | some (nm, lst, line') =>
        match commonMore r.map (line'.length + 1) line' with
        | none => none
        | some more => some ((nm, lst) :: more)

def leafCommon (o : Leaves A) : List (Option Str × Str) → Option (List (Option A × A))
  | [] => some []
  | (nm, lst) :: ps =>
    let name : Option (Option A) :=
      match nm with
      | none => some none
      | some t => (o.leaf .commonBlockName t).map some
    match name with
    | none => none
    | some n =>
      match o.leaf .commonBlockObjectList lst with
      | none => none
      | some l =>
        match leafCommon o ps with
        | none => none
        | some r => some ((n, l) :: r)

def matchCommonStmt (o : Leaves A) (s : Str) : Option (List (Option A × A)) :=
  match commonTexts s with
  | none => none
  | some ps => leafCommon o ps

def tostrCommonStmt (o : Leaves A) (items : List (Option A × A)) : Str :=
  "COMMON".toList ++ (items.map fun p =>
    match p.1 with
    | some n => " /".toList ++ o.render n ++ "/ ".toList ++ o.render p.2
    | none => " // ".toList ++ o.render p.2).flatten

/-! ## the echo oracle (children = the texts handed to them) -/

/-- every child class accepts every text and prints it back unchanged: with it, a node shows the
    texts the `match` hands to the child classes (used by the driver and as the non-vacuity
    instance of the theorems) -/
def echo : Leaves Str := { leaf := fun _ s => some s, render := id }

end Fp.Decl
