import FparserModel.One2
import FparserModel.Proofs.One2Top

/-!
# One2 — kernel obligations over the generated tables (`Generated/One2Tables.lean`)

Re-checked on every build against the tables read from the live classes; a change of a class list,
of a `match` regex, of a blocktype, or of a mirrored method in /repo makes one of them fail.
-/
namespace Fp.One2.Gen
open Fp Fp.One2

/-- sha1 (first 16 hex digits) of the source of every method that `One2.lean` mirrors branch for
    branch, as read when the model was written -/
def expectedFingerprints : List (String × String) := [
  ("BeginStatement.__init__", "004d53b32f018b3f"),
  ("BeginStatement.tostr", "68b6fe0bc6e77acb"),
  ("BeginStatement.tofortran", "a2a258f22703c98b"),
  ("BeginStatement.process_item", "5e497b7ddbc75ea3"),
  ("BeginStatement.fill", "3582b7b543d67458"),
  ("BeginStatement.process_subitem", "67ef8fff2c6d3233"),
  ("BeginStatement.handle_unknown_item_and_raise", "b23051e40bdf94c9"),
  ("EndStatement.__init__", "fb79e2594ad6fd3c"),
  ("EndStatement.process_item", "b9a65c034d413b3c"),
  ("EndStatement.tofortran", "61783fec916ccac8"),
  ("EndStatement.get_indent_tab", "f4abf3a794260304"),
  ("Statement.get_indent_tab", "7983f12662d11919"),
  ("BeginSource.process_item", "a0bc9a6297ce68e5"),
  ("BeginSource.process_subitem", "cc2950432185993e"),
  ("BeginSource.get_classes", "fdb7dafff2dc8dc7"),
  ("Module.process_item", "f3bfbc2ff2cd7f76"),
  ("Program.process_item", "c188d649fcaa276b"),
  ("BlockData.process_item", "e4b2ecc6f536a520"),
  ("Interface.process_item", "e4a5b48a7c6521fb"),
  ("SubProgramStatement.process_item", "1b416d8124146a70"),
  ("Select.process_item", "0b0557b63bbb634b"),
  ("Where.process_item", "a1f07941ed63740a"),
  ("Forall.process_item", "17659fb72aa3ca55"),
  ("IfThen.process_item", "aca2083c839ec5cb"),
  ("Do.process_item", "5cdbe6ca84f907b3"),
  ("Do.process_subitem", "ca443d2226346320"),
  ("Associate.process_item", "08fb74fe01c9f814"),
  ("Type.process_item", "2992c687015964ab"),
  ("Enum.process_item", "82b1dcd40f574825"),
  ("EndDo.process_item", "f9155d7e517f1ffc"),
  ("SubprogramPrefix.process_item", "def9555af8345681"),
  ("Enum.tostr", "e0b65e21526d992f"),
  ("If.process_item", "448378003074404b"),
  ("TypeDeclarationStatement.process_item", "f0f8199d81add4b8")
]

/-- the model is up to date with the mirrored methods -/
theorem fingerprints_ok : fingerprints = expectedFingerprints := by decide +kernel

def Re.supported : Re → Bool
  | .unsupported => false
  | .seq a b => supported a && supported b
  | .alt a b => supported a && supported b
  | .opt a => supported a
  | .star a => supported a
  | _ => true

/-- every Begin / End regex is inside the translated fragment -/
theorem regexes_supported :
    (tables.rows.all fun r => (r.beginPat == "" || Re.supported r.beginRe)
      && (r.endPat == "" || Re.supported r.endRe)) = true := by decide +kernel

def rowNamed (n : String) : BlockRow := (tables.rows.find? (·.cls == n)).getD default
def names (ks : List Nat) : List String := ks.map (className tables)

def dups : List Nat → List Nat
  | [] => []
  | k :: ks => if ks.contains k then k :: dups ks else dups ks

/-- class lists are duplicate-free, with these exact exceptions (a repeated class is harmless for
    first-match-wins: the second occurrence is only reached when the first was invalid) -/
theorem class_list_duplicates :
    (tables.rows.map fun r => (r.cls, (names (dups r.classes)).eraseDups)) =
      [("BeginSource", ["Parameter", "Format", "Entry", "Data", "Function", "Subroutine"]),
       ("Program", ["Parameter", "Format", "Entry", "Data"]),
       ("Type", ["Integer", "Private"]), ("Enum", []), ("Interface", []), ("Associate", []),
       ("Do", []), ("Forall", []), ("IfThen", []), ("SelectCase", []), ("SelectType", []),
       ("Where", []), ("If", []),
       ("Function", ["Parameter", "Format", "Entry", "Data"]),
       ("Subroutine", ["Parameter", "Format", "Entry", "Data"]),
       ("Module", ["Public", "Private", "Parameter", "Format", "Entry"]),
       ("BlockData", ["Parameter", "Format", "Entry"])] := by decide +kernel

/-- no END class is a member of any class list (an END line is only ever accepted by
    `end_stmt_cls` of the innermost open block) -/
theorem no_end_class_listed :
    (tables.rows.all fun r => r.endCls == "" || !classNames.contains r.endCls) = true := by
  decide +kernel

/-- END classes are private to their block, except `EndSelect` (SELECT CASE / SELECT TYPE) -/
theorem end_classes :
    (tables.rows.map fun r => (r.cls, r.endCls, r.endBt)) =
      [("BeginSource", "EndSource", "source"), ("Program", "EndProgram", "program"),
       ("Type", "EndType", "type"), ("Enum", "EndEnum", "enum"),
       ("Interface", "EndInterface", "interface"), ("Associate", "EndAssociate", "associate"),
       ("Do", "EndDo", "do"), ("Forall", "EndForall", "forall"), ("IfThen", "EndIfThen", "if"),
       ("SelectCase", "EndSelect", "select"), ("SelectType", "EndSelect", "select"),
       ("Where", "EndWhere", "where"), ("If", "", ""), ("Function", "EndFunction", "function"),
       ("Subroutine", "EndSubroutine", "subroutine"), ("Module", "EndModule", "module"),
       ("BlockData", "EndBlockData", "blockdata")] := by decide +kernel

/-- the executable constructs and action statements (`execution_part_construct` = the class list
    of DO) are listed, in the same order, by every block that can hold executable code; the exact
    extra classes in front: ELSE / ELSE IF, CASE, TYPE IS / CLASS IS -/
theorem exec_lists :
    (rowNamed "Associate").classes = (rowNamed "Do").classes
    ∧ names ((rowNamed "IfThen").classes.take 2) = ["Else", "ElseIf"]
    ∧ (rowNamed "IfThen").classes.drop 2 = (rowNamed "Do").classes
    ∧ names ((rowNamed "SelectCase").classes.take 1) = ["Case"]
    ∧ (rowNamed "SelectCase").classes.drop 1 = (rowNamed "Do").classes
    ∧ names ((rowNamed "SelectType").classes.take 2) = ["TypeIs", "ClassIs"]
    ∧ (rowNamed "SelectType").classes.drop 2 = (rowNamed "Do").classes
    ∧ (["Program", "Function", "Subroutine", "BeginSource"].all fun n =>
        (rowNamed "Do").classes.all fun k => (rowNamed n).classes.contains k) = true := by decide +kernel

/-- the block openers each class list offers (order of first occurrence) -/
theorem openers_offered :
    (tables.rows.map fun r => (r.cls, (names (r.classes.filter fun k => (rowOf? tables k).isSome)).eraseDups)) =
      [("BeginSource", ["Program", "Type", "Enum", "Interface", "Associate", "Do", "Forall", "IfThen",
          "SelectCase", "SelectType", "Where", "If", "Function", "Subroutine", "Module", "BlockData"]),
       ("Program", ["Type", "Enum", "Interface", "Associate", "Do", "Forall", "IfThen", "SelectCase",
          "SelectType", "Where", "If", "Function", "Subroutine"]),
       ("Type", []), ("Enum", []), ("Interface", ["Function", "Subroutine"]),
       ("Associate", ["Associate", "Do", "Forall", "IfThen", "SelectCase", "SelectType", "Where", "If"]),
       ("Do", ["Associate", "Do", "Forall", "IfThen", "SelectCase", "SelectType", "Where", "If"]),
       ("Forall", ["Where", "Forall"]),
       ("IfThen", ["Associate", "Do", "Forall", "IfThen", "SelectCase", "SelectType", "Where", "If"]),
       ("SelectCase", ["Associate", "Do", "Forall", "IfThen", "SelectCase", "SelectType", "Where", "If"]),
       ("SelectType", ["Associate", "Do", "Forall", "IfThen", "SelectCase", "SelectType", "Where", "If"]),
       ("Where", ["Where"]), ("If", []),
       ("Function", ["Type", "Enum", "Interface", "Associate", "Do", "Forall", "IfThen", "SelectCase",
          "SelectType", "Where", "If", "Function", "Subroutine"]),
       ("Subroutine", ["Type", "Enum", "Interface", "Associate", "Do", "Forall", "IfThen", "SelectCase",
          "SelectType", "Where", "If", "Function", "Subroutine"]),
       ("Module", ["Type", "Enum", "Interface", "Function", "Subroutine"]),
       ("BlockData", ["Type", "Enum", "Interface"])] := by decide +kernel

def before (ks : List Nat) (a b : String) : Bool :=
  let ia := ks.idxOf (classId tables a)
  let ib := ks.idxOf (classId tables b)
  ia ≥ ks.length || ib ≥ ks.length || ia < ib

/-- first-match-wins facts the model relies on: IF-THEN is tried before the one-line IF (whose regex
    `if\s*\(` also matches an IF-THEN line), the bare prefix line before FUNCTION / SUBROUTINE, the
    block WHERE / FORALL before the one-line forms -/
theorem first_match_order :
    (tables.rows.all fun r => before r.classes "IfThen" "If"
      && before r.classes "SubprogramPrefix" "Function" && before r.classes "SubprogramPrefix" "Subroutine"
      && before r.classes "Integer" "Function"
      && before r.classes "Where" "WhereStmt" || r.cls == "Forall" || r.cls == "Where") = true := by
  decide +kernel

/-- which blocks can read a typed FUNCTION header `<type-spec> function f(..)` (`needsOk`): the type
    declaration class must be offered before `Function`.  The intrinsic types are, wherever `Function` is
    offered; `TypeStmt` (`type(t)`) and `Class` (`class(t)`) are NOT offered by INTERFACE
    (`intrinsic_type_spec + interface_specification`): `type(t) function f(x)` as an interface body is
    rejected by fparser1 (defect, mirrored). -/
theorem typed_header_classes :
    (tables.rows.all fun r => !r.classes.contains (classId tables "Function")
        || (["SubprogramPrefix", "Integer", "Real", "DoublePrecision", "Complex", "DoubleComplex", "Character",
              "Logical", "Byte"].all fun n => decide (r.classes.idxOf (classId tables n)
                < r.classes.idxOf (classId tables "Function")))) = true
    ∧ ((tables.rows.filter fun r => r.classes.contains (classId tables "Function")
          && !(r.classes.contains (classId tables "TypeStmt") && r.classes.contains (classId tables "Class"))).map (·.cls))
        = ["Interface"]
    ∧ (tables.rows.all fun r => r.cls == "Interface" || !r.classes.contains (classId tables "Function")
        || (decide (r.classes.idxOf (classId tables "TypeStmt") < r.classes.idxOf (classId tables "Function"))
            && decide (r.classes.idxOf (classId tables "Class") < r.classes.idxOf (classId tables "Function")))) = true := by
  decide +kernel

/-- translator-checked on the live regexes: no class of a block's list matches the END line the block
    prints (`reEnd` gives such a line no statement class) -/
theorem end_line_quiet : tables.endLineQuiet = true := by decide

theorem top_open : TopOpen tables := by decide

/-- only PROGRAM, MODULE and BLOCK DATA print their header with the base `tostr` (`BLOCKTYPE name`;
    ENUM has its own `tostr` since the repair of `ENUM __ENUM__`), and the default names: unnamed
    constructs and ENUM have the empty name, a PROGRAM without name keeps `__PROGRAM__` -/
theorem base_tostr_rows :
    ((tables.rows.filter (·.baseTostr)).map (·.cls)) = ["Program", "Module", "BlockData"]
    ∧ (tables.rows.map fun r => (r.cls, r.defName)) =
      [("BeginSource", "__BEGINSOURCE__"), ("Program", "__PROGRAM__"), ("Type", "__TYPE__"), ("Enum", ""),
       ("Interface", "__INTERFACE__"), ("Associate", ""), ("Do", ""), ("Forall", ""), ("IfThen", ""),
       ("SelectCase", ""), ("SelectType", ""), ("Where", ""), ("If", "__IF__"),
       ("Function", "__FUNCTION__"), ("Subroutine", "__SUBROUTINE__"), ("Module", "__MODULE__"),
       ("BlockData", "__BLOCKDATA__")] := by decide +kernel

/-- regex facts: the Begin regex of ENUM rejects a `BLOCKTYPE name` header (what fparser1 printed for
    it before the repair), the END regex of ENUM admits no name; `EndWhere` (`end\s*\where…`: `\w` then `here`) accepts
    `end there`, which `EndStatement.process_item` then declares invalid -/
theorem regex_facts :
    (rowNamed "Enum").beginRe.matches "enum __enum__".toList = false
    ∧ (rowNamed "Enum").beginRe.matches "enum, bind(c)".toList = true
    ∧ (rowNamed "Enum").endRe.matches "end enum __enum__".toList = false
    ∧ (rowNamed "Where").endRe.matches "end there".toList = true
    ∧ (rowNamed "Where").endRe.matches "end where".toList = true
    ∧ (rowNamed "IfThen").beginRe.matches "if (a) then".toList = true
    ∧ (rowNamed "If").beginRe.matches "if (a) then".toList = true
    ∧ (rowNamed "Do").beginRe.matches "do10i=1,2".toList = false
    ∧ (rowNamed "Do").beginRe.matches "do 10 i=1,2".toList = true
    ∧ (rowNamed "Subroutine").endRe.matches "end".toList = true
    ∧ (rowNamed "IfThen").endRe.matches "end".toList = false := by decide +kernel

end Fp.One2.Gen
