import FparserModel.SymTab
/-!
# Registry — mirror of `fparser/two/parser.py` (`ParserFactory.create`, `_setup`)

Class objects are numbers (`cid`), class / rule names are numbers (index into the generated
name table) so that the closed statements over the generated facts can be checked by
`decide +kernel`.  `ClassFacts` is what `_setup` (and the copy protocol, see Tree.lean) can
observe of a class object.
-/
namespace Fp.Registry

structure ClassFacts where
  /-- identity of the class object -/
  cid : Nat
  /-- `cls.__name__` -/
  name : Nat
  /-- 0 Fortran2003, 1 Fortran2008 package, 2 C99Preprocessor, 3 utils, 4 other -/
  mod : Nat
  /-- `isinstance(cls, type(Base)) and issubclass(cls, Base)` -/
  isRule : Bool
  /-- `cls.__name__.endswith("Base")` -/
  endsBase : Bool
  /-- `hasattr(cls, "match")` -/
  hasMatch : Bool
  /-- `cls.subclass_names` (`none`: attribute missing) -/
  subs : Option (List Nat)
  /-- `cls.use_names` (`none`: attribute missing or not a list) -/
  uses : Option (List Nat)
  isBlock : Bool
  isScoping : Bool
  /-- `'__new__' in cls.__dict__` -/
  customNew : Bool
  /-- the `__getnewargs__` the class resolves to reads `self.string` -/
  argsNeedString : Bool
  /-- instances get a `.string` attribute -/
  hasString : Bool
  /-- `cls.__new__(cls, *__getnewargs__())` binds and routes `True` to `_deepcopy` -/
  newAccepts : Bool
deriving DecidableEq, Repr, Inhabited

inductive Std where
  | f2003 | f2008
deriving DecidableEq, Repr

/-- everything `create` reads from the two modules -/
structure World where
  /-- all class objects, `cid` = position -/
  classes : List ClassFacts
  /-- `inspect.getmembers(Fortran2003, isclass)` : (member name, cid) -/
  raw03 : List (Nat × Nat)
  /-- `inspect.getmembers(Fortran2008, isclass)` -/
  raw08 : List (Nat × Nat)

/-! ## ordered dict over `Nat` keys -/

def nGet {β} (d : List (Nat × β)) (k : Nat) : Option β :=
  match d with
  | [] => none
  | (k', v) :: r => if k' == k then some v else nGet r k

def nSet {β} (d : List (Nat × β)) (k : Nat) (v : β) : List (Nat × β) :=
  match d with
  | [] => [(k, v)]
  | (k', v') :: r => if k' == k then (k, v) :: r else (k', v') :: nSet r k v

/-- `for x in xs: if x not in acc: acc.append(x)` -/
def appendNew (acc : List Nat) (xs : List Nat) : List Nat :=
  xs.foldl (fun a x => if a.contains x then a else a ++ [x]) acc

/-! ## `create` : class selection -/

/-- `get_module_classes(Fortran2003)` : members whose `__module__` is Fortran2003 -/
def moduleClasses03 (w : World) : List (Nat × Nat) :=
  w.raw03.filter fun m => match w.classes[m.2]? with
    | some c => c.mod == 0
    | none => false

/-- the `(name, cls)` list handed to `_setup` -/
def members (w : World) : Std → List (Nat × Nat)
  | .f2003 => moduleClasses03 w
  | .f2008 =>
    let names08 := w.raw08.map (·.1)
    w.raw08 ++ (moduleClasses03 w).filter (fun m => !names08.contains m.1)

/-! ## `_setup` -/

/-- `base_classes` : `__name__` → class, ordered dict; later same-named classes overwrite -/
def baseClasses (w : World) (ms : List (Nat × Nat)) : List (Nat × ClassFacts) :=
  ms.foldl (fun d m =>
    match w.classes[m.2]? with
    | some c => if c.isRule && !c.endsBase then nSet d c.name c else d
    | none => d) []

/-- `_closest_descendants_with_match(clsname)`.  `fuel` bounds the recursion depth (Python
    would raise `RecursionError` on a cyclic `subclass_names` chain through match-less
    classes; with `fuel > number of classes` every acyclic descent is complete). -/
def closest (bc : List (Nat × ClassFacts)) : Nat → Nat → List Nat
  | 0, _ => []
  | fuel + 1, n =>
    match nGet bc n with
    | none => []
    | some c =>
      if c.hasMatch then [n]
      else (c.subs.getD []).foldl (fun bits m => appendNew bits (closest bc fuel m)) []

/-- `local_subclass_names[cls]` for one class that has `subclass_names` -/
def optNames (bc : List (Nat × ClassFacts)) (fuel : Nat) (subs : List Nat) : List Nat :=
  subs.foldl (fun acc m => appendNew acc (closest bc fuel m)) []

abbrev Reg := List (Nat × List Nat)

/-- the two loops of `_setup` that fill `Base.subclasses` (starting from `{}`) -/
def setupBC (bc : List (Nat × ClassFacts)) : Reg :=
  let fuel := bc.length + 1
  -- local_subclass_names : cid → names
  let localNames : List (Nat × List Nat) :=
    bc.foldl (fun d e => match e.2.subs with
      | none => d
      | some subs => nSet d e.2.cid (optNames bc fuel subs)) []
  bc.foldl (fun reg e =>
    match e.2.subs with
    | none => reg
    | some _ =>
      let names := (nGet localNames e.2.cid).getD []
      let bits := (nGet reg e.1).getD []
      let bits := names.foldl (fun b n => match nGet bc n with
        | some c => b ++ [c.cid]
        | none => b) bits
      nSet reg e.1 bits) []

def setup (w : World) (ms : List (Nat × Nat)) : Reg := setupBC (baseClasses w ms)

/-! ## histories of `create` calls -/

/-- the `std` argument of `create` -/
inductive StdArg where
  | default          -- `None` / `""`
  | std (s : Std)
  | invalid          -- any other value: `ValueError` after the symbol tables were cleared
deriving DecidableEq, Repr

def StdArg.resolve : StdArg → Option Std
  | .default => some .f2003
  | .std s => some s
  | .invalid => none

inductive Ev where
  | create (a : StdArg)
  /-- anything a parse / a user does to the global symbol tables -/
  | symtab (f : SymTab.Tables → SymTab.Tables)

/-- process-global state touched by `create` -/
structure Global where
  reg : Reg := []
  tabs : SymTab.Tables := {}

def step (w : World) (g : Global) : Ev → Global
  | .create a =>
    let g := { g with tabs := g.tabs.clear }          -- SYMBOL_TABLES.clear()
    match a.resolve with
    | some s => { g with reg := setup w (members w s) }  -- Base.subclasses = {} ; refill
    | none => g                                          -- ValueError
  | .symtab f => { g with tabs := f g.tabs }

def run (w : World) (g : Global) (h : List Ev) : Global := h.foldl (step w) g

def registryAfter (w : World) (h : List Ev) : Reg := (run w {} h).reg

/-! ## relations used by the C17 statements -/

/-- the class a 2003 class is replaced by under f2008: the same-named entry of the 2008
    `base_classes` -/
def overriding (bc08 : List (Nat × ClassFacts)) (w : World) (cid : Nat) : Nat :=
  match w.classes[cid]? with
  | none => cid
  | some c => match nGet bc08 c.name with
    | some c' => c'.cid
    | none => cid

def isSubseq : List Nat → List Nat → Bool
  | [], _ => true
  | _ :: _, [] => false
  | a :: as, b :: bs => if a == b then isSubseq as bs else isSubseq (a :: as) bs

end Fp.Registry
