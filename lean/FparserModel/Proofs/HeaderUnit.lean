import FparserModel.Header
import FparserModel.Proofs.IoStmtLayoutCtl
import FparserModel.Proofs.IoStmtLayoutMisc
import FparserModel.Proofs.IoStmtLayoutCombi
import FparserModel.Proofs.IoStmtTotal
import FparserModel.Proofs.IoStmtFixpoint
import Mathlib.Data.List.Basic
/-!
Header slice, package p2 ("unit" statements): `Block_Data_Stmt`, `Language_Binding_Spec`, `Suffix`,
`Prefix`, `Prefix_Spec`, `Dummy_Arg`, the one-keyword statements, `Enum_Def_Stmt`, `Program_Stmt`,
`Module_Stmt`, `Block_Stmt`, `Critical_Stmt`: `*_tostr_match_tokens`, fixpoints, totality.
Helper lemmas carry the tag `u_`.
-/
namespace Fp.Header
open Fp Fp.Splitline Fp.IoStmt

variable {Node : Type}

/-- toy oracle: nodes are texts, every class accepts every text as it is -/
def u_echoH : Oracle Str :=
  { call := fun _ t => .ok t, str := id, head := fun _ => none, rhsStr := fun _ => [],
    heads := fun _ => [], isDataEdit := fun _ => false }

theorem u_echoH_tok : OracleTok u_echoH := by
  intro c t n h
  have : t = n := by simpa [u_echoH] using h
  subst this; rfl

/-! ## helpers -/

theorem u_startsC {c : Char} {s : Str} (h : startsC c s = true) : s = c :: s.drop 1 := by
  cases s with
  | nil => simp [startsC] at h
  | cons d t =>
    have : d = c := by simpa [startsC] using h
    subst this; rfl

theorem u_not_true {b : Bool} (h : ¬ ((!b) = true)) : b = true := by simpa using h

theorem u_isEmpty_false {x : Str} (h : ¬ (x.isEmpty = true)) : x ≠ [] := by
  intro e; subst e; exact h rfl

theorem u_parenEnds {s : Str} (h : parenEnds s = true) :
    s.head? = some '(' ∧ s.getLast? = some ')' := by
  unfold parenEnds at h
  split at h
  · rename_i a b ha hb
    have : a = '(' ∧ b = ')' := by simpa using h
    obtain ⟨rfl, rfl⟩ := this
    exact ⟨ha, hb⟩
  · cases h

/-- keyword + the rest, blanks after the keyword dropped -/
theorem u_kw {kw s : Str} (n : Nat) (hn : kw.length = n) (h : kwIs kw s = true) :
    toks s = toks kw ++ toks (lstrip (s.drop n)) := by
  rw [toks_lstrip, ← hn]; exact toks_of_kwIs h

theorem u_upperC_C {c : Char} (h : upperC c = 'C') : toks [c] = ['C'] := by
  have hs : isSpace c = false := by
    rw [← upperC_space, h]; decide
  simp [toks, Combi.noBlank, hs, upper, h]

/-! ## 1. Block_Data_Stmt -/

theorem u_blockData_tostr_match_tokens (o : Oracle Node) (ho : OracleTok o) (s : Str)
    (items : List (Item Node)) (hm : (planBlockData s).bind (runSlots o) = .ok items) :
    ∃ t, tostrBlockData o items = .ok t ∧ toks t = toks s ∧
      ((∀ i ∈ items, net (i.text o) = 0) → net t = 0) := by
  obtain ⟨slots, hp, hr⟩ := Res.bind_eq_ok hm
  unfold planBlockData at hp
  split at hp
  · cases hp
  rename_i h1
  have h1' := u_kw 5 rfl (u_not_true h1)
  dsimp only at hp
  split at hp
  · cases hp
  rename_i h2
  have h2' := u_kw 4 rfl (u_not_true h2)
  have hS : toks s = toks "BLOCK".toList ++ (toks "DATA".toList ++
      toks (lstrip ((lstrip (s.drop 5)).drop 4))) := by rw [h1', h2']
  split at hp
  · rename_i he
    cases hp
    obtain ⟨i, rfl, hi⟩ := run1 hr
    have := runSlot_none_ok hi; subst this
    refine ⟨_, rfl, ?_, fun _ => by decide⟩
    rw [hS, toks_isEmpty he]; decide
  · cases hp
    obtain ⟨i, rfl, hi⟩ := run1 hr
    have hi' := toks_item_of_child ho hi
    obtain ⟨n, rfl, _⟩ := runSlot_child_ok hi
    refine ⟨"BLOCK DATA ".toList ++ o.str n, rfl, ?_, ?_⟩
    · have k : toks "BLOCK DATA ".toList = toks "BLOCK".toList ++ toks "DATA".toList := by decide
      rw [toks_append, k, hS]
      have : toks (o.str n) = toks (lstrip ((lstrip (s.drop 5)).drop 4)) := hi'
      rw [this, List.append_assoc]
    · intro hb
      have := hb (.node n) (by simp)
      have k : net "BLOCK DATA ".toList = 0 := by decide
      rw [net_append, k]
      simpa [Item.text] using this

example : (planBlockData "block  data x".toList).bind (runSlots u_echoH) = .ok [.node "x".toList] := by
  decide

/-- witness: `blockdatax` is accepted, the name is `x` (keyword and name glued) -/
theorem u_blockData_glued_witness :
    (planBlockData "blockdatax".toList).bind (runSlots u_echoH) = .ok [.node "x".toList] ∧
    tostrBlockData u_echoH [.node "x".toList] = .ok "BLOCK DATA x".toList := by decide

/-! ## 2. Language_Binding_Spec -/

theorem u_languageBinding_tostr_match_tokens (o : Oracle Node) (ho : OracleTok o) (s : Str)
    (items : List (Item Node)) (hm : (planLanguageBinding s).bind (runSlots o) = .ok items) :
    ∃ t, tostrLanguageBinding o items = .ok t ∧ toks t = toks s ∧
      ((∀ i ∈ items, net (i.text o) = 0) → net t = 0) := by
  obtain ⟨slots, hp, hr⟩ := Res.bind_eq_ok hm
  unfold planLanguageBinding at hp
  split at hp
  · cases hp
  rename_i h1
  have h1' := u_kw 4 rfl (u_not_true h1)
  dsimp only at hp
  split at hp
  · cases hp
  rename_i h2
  have h2' : parenEnds (lstrip (s.drop 4)) = true := by
    have := h2; simp only [Bool.or_eq_true, not_or, Bool.not_eq_true', Bool.not_eq_false] at this
    simpa using this.2
  obtain ⟨hh, hl⟩ := u_parenEnds h2'
  have hpar := toks_paren_shape hh hl
  split at hp
  · cases hp
  rename_i c rest hcr
  split at hp
  · cases hp
  rename_i hc
  have hc' : upperC c = 'C' := by simpa using hc
  have hC := u_upperC_C hc'
  have hS0 : toks s = toks "BIND".toList ++ (toks "(".toList ++ ((['C'] ++ toks rest) ++ toks ")".toList)) := by
    rw [h1', hpar, hcr, toks_cons, hC]
  split at hp
  · rename_i he
    cases hp
    obtain ⟨i, rfl, hi⟩ := run1 hr
    have := runSlot_none_ok hi; subst this
    refine ⟨_, rfl, ?_, fun _ => by decide⟩
    rw [hS0, ← toks_lstrip rest, toks_isEmpty he]; decide
  split at hp
  · cases hp
  rename_i h3
  have h3' := u_startsC (u_not_true h3)
  split at hp
  · cases hp
  rename_i h4
  have h4' := u_kw 4 rfl (u_not_true h4)
  split at hp
  · cases hp
  rename_i h5
  have h5' := u_startsC (u_not_true h5)
  cases hp
  obtain ⟨i, rfl, hi⟩ := run1 hr
  have hi' := toks_item_of_child ho hi
  obtain ⟨n, rfl, _⟩ := runSlot_child_ok hi
  refine ⟨"BIND(C, NAME = ".toList ++ o.str n ++ ")".toList, rfl, ?_, ?_⟩
  · have hrest : toks rest = toks ",".toList ++ (toks "NAME".toList ++ (toks "=".toList ++ toks (o.str n))) := by
      have e : toks (o.str n) = _ := hi'
      have a2 : toks (lstrip rest) = toks ",".toList ++ toks (List.drop 1 (lstrip rest)) := by
        conv => lhs; rw [h3']
        rw [consC, toks_append]
      have a5 : toks (lstrip (List.drop 4 (lstrip (List.drop 1 (lstrip rest))))) = toks "=".toList ++
          toks (List.drop 1 (lstrip (List.drop 4 (lstrip (List.drop 1 (lstrip rest)))))) := by
        conv => lhs; rw [h5']
        rw [consE, toks_append]
      rw [e, toks_lstrip, ← a5, ← h4', toks_lstrip, ← a2, toks_lstrip]
    have k : toks "BIND(C, NAME = ".toList = toks "BIND".toList ++ (toks "(".toList ++ (['C'] ++
        (toks ",".toList ++ (toks "NAME".toList ++ toks "=".toList)))) := by decide
    rw [hS0, hrest]
    simp only [toks_append, k, List.append_assoc]
  · intro hb
    have := hb (.node n) (by simp)
    have k1 : net "BIND(C, NAME = ".toList = 1 := by decide
    have k2 : net ")".toList = -1 := by decide
    have k3 : net (o.str n) = 0 := by simpa [Item.text] using this
    simp only [net_append, k1, k2, k3]; rfl

example : (planLanguageBinding "bind ( c , name = 'x' )".toList).bind (runSlots u_echoH)
    = .ok [.node "'x'".toList] := by decide

/-! ## 3. Suffix -/

/-- the core: both branches of `Suffix.match`.  `a` = the tokens of the binding part (possibly
    empty in branch 1), `b` = `RESULT ( name )` -/
theorem u_suffix_core (o : Oracle Node) (ho : OracleTok o) (s : Str)
    (items : List (Item Node)) (hm : (planSuffix s).bind (runSlots o) = .ok items) :
    ∃ t a b, tostrSuffix o items = .ok t ∧
      ((kwIs "RESULT".toList s = true ∧ toks s = b ++ a) ∨
       (kwIs "RESULT".toList s = false ∧ toks s = a ++ b ∧
          ∃ x y, items = [x, .node y] ∧ a = toks (o.str y))) ∧
      toks t = b ++ a ∧
      ((∀ i ∈ items, net (i.text o) = 0) → net t = 0) := by
  obtain ⟨slots, hp, hr⟩ := Res.bind_eq_ok hm
  have kR : toks "RESULT(".toList = toks "RESULT".toList ++ toks "(".toList := by decide
  have kP : toks ") ".toList = toks ")".toList := by decide
  have n1 : net "RESULT(".toList = 1 := by decide
  have n2 : net ") ".toList = -1 := by decide
  have n3 : net ")".toList = -1 := by decide
  unfold planSuffix at hp
  split at hp
  · rename_i hk
    have hk' := u_kw 6 rfl hk
    dsimp only at hp
    split at hp
    · cases hp
    rename_i h1
    have h1' := u_startsC (u_not_true h1)
    split at hp
    · cases hp
    rename_i pre post hcut
    obtain ⟨hline, _⟩ := Combi.cutFirst_spec _ _ _ hcut
    have hpre : pre = '(' :: pre.drop 1 := by
      cases pre with
      | nil => rw [hline] at h1'; simp at h1'
      | cons d p =>
        rw [hline] at h1'
        have : d = '(' := by simpa using h1'
        subst this; rfl
    have hS : toks s = toks "RESULT".toList ++ (toks "(".toList ++ (toks (strip (pre.drop 1)) ++
        (toks ")".toList ++ toks (lstrip post)))) := by
      rw [hk']
      conv => lhs; rw [hline, hpre]
      rw [List.cons_append, consL, toks_append, toks_append, consR, toks_append, toks_strip, toks_lstrip]
    split at hp
    · cases hp
    split at hp
    · cases hp
      obtain ⟨i, j, rfl, hi, hj⟩ := run2 hr
      have hi' := toks_item_of_child ho hi
      have hj' := toks_item_of_child ho hj
      obtain ⟨n, rfl, _⟩ := runSlot_child_ok hi
      obtain ⟨m, rfl, _⟩ := runSlot_child_ok hj
      have ei : toks (o.str n) = _ := hi'
      have ej : toks (o.str m) = _ := hj'
      refine ⟨"RESULT(".toList ++ o.str n ++ ") ".toList ++ o.str m, toks (o.str m),
        toks "RESULT(".toList ++ toks (o.str n) ++ toks ")".toList, rfl, .inl ⟨hk, ?_⟩, ?_, ?_⟩
      · rw [hS, kR, ei, ej]; simp only [List.append_assoc]
      · simp only [toks_append, kP]
      · intro hb
        have b1 : net (o.str n) = 0 := by simpa [Item.text] using hb (.node n) (by simp)
        have b2 : net (o.str m) = 0 := by simpa [Item.text] using hb (.node m) (by simp)
        simp only [net_append, n1, n2, b1, b2]; rfl
    · rename_i he
      have he' : (lstrip post).isEmpty = true := by simpa using he
      cases hp
      obtain ⟨i, j, rfl, hi, hj⟩ := run2 hr
      have hi' := toks_item_of_child ho hi
      obtain ⟨n, rfl, _⟩ := runSlot_child_ok hi
      have := runSlot_none_ok hj; subst this
      have ei : toks (o.str n) = _ := hi'
      refine ⟨"RESULT(".toList ++ o.str n ++ ")".toList, [],
        toks "RESULT(".toList ++ toks (o.str n) ++ toks ")".toList, rfl, .inl ⟨hk, ?_⟩, ?_, ?_⟩
      · rw [hS, kR, ei, toks_isEmpty he']; simp only [List.append_assoc, List.append_nil]
      · simp only [toks_append, List.append_nil]
      · intro hb
        have b1 : net (o.str n) = 0 := by simpa [Item.text] using hb (.node n) (by simp)
        simp only [net_append, n1, n3, b1]; rfl
  · rename_i hk
    have hk' : kwIs "RESULT".toList s = false := by simpa using hk
    split at hp
    · cases hp
    rename_i h1
    obtain ⟨p0, hp0⟩ := endsC_snoc (u_not_true h1)
    split at hp
    · cases hp
    rename_i pre post hcut
    obtain ⟨hs, _⟩ := Combi.cutLast_spec _ _ _ hcut
    have hpost : post = post.dropLast ++ [')'] := by
      rcases List.eq_nil_or_concat post with e | ⟨q, c, e⟩
      · subst e
        rw [hs] at hp0
        have := congrArg List.getLast? hp0
        simp at this
      · subst e
        rw [hs] at hp0
        have := congrArg List.getLast? hp0
        simp only [List.concat_eq_append, ← List.cons_append, ← List.append_assoc,
          List.getLast?_concat, Option.some.injEq] at this
        subst this
        simp
    dsimp only at hp
    split at hp
    · cases hp
    split at hp
    · cases hp
    rename_i h6
    have h6' : upper (lastN 6 (rstrip pre)) = "RESULT".toList := by simpa using h6
    split at hp
    · cases hp
    cases hp
    obtain ⟨i, j, rfl, hi, hj⟩ := run2 hr
    have hi' := toks_item_of_child ho hi
    have hj' := toks_item_of_child ho hj
    obtain ⟨n, rfl, _⟩ := runSlot_child_ok hi
    obtain ⟨m, rfl, _⟩ := runSlot_child_ok hj
    have ei : toks (o.str n) = _ := hi'
    have ej : toks (o.str m) = _ := hj'
    have hpre : toks pre = toks (dropLastN 6 (rstrip pre)) ++ toks "RESULT".toList := by
      rw [← toks_rstrip pre]
      conv => lhs; rw [← List.take_append_drop ((rstrip pre).length - 6) (rstrip pre)]
      rw [toks_append]
      have : toks (List.drop ((rstrip pre).length - 6) (rstrip pre)) = toks "RESULT".toList := by
        rw [← toks_upper]; exact congrArg toks h6'
      rw [this]; rfl
    have hS : toks s = toks (o.str m) ++ (toks "RESULT(".toList ++ toks (o.str n) ++ toks ")".toList) := by
      rw [hs]
      conv => lhs; rw [hpost]
      rw [toks_append, consL, toks_append, toks_append, hpre, ej, toks_rstrip, ei, toks_strip, kR]
      simp only [List.append_assoc]; rfl
    refine ⟨"RESULT(".toList ++ o.str n ++ ") ".toList ++ o.str m, toks (o.str m),
      toks "RESULT(".toList ++ toks (o.str n) ++ toks ")".toList, rfl,
      .inr ⟨hk', hS, _, _, rfl, rfl⟩, ?_, ?_⟩
    · simp only [toks_append, kP]
    · intro hb
      have b1 : net (o.str n) = 0 := by simpa [Item.text] using hb (.node n) (by simp)
      have b2 : net (o.str m) = 0 := by simpa [Item.text] using hb (.node m) (by simp)
      simp only [net_append, n1, n2, b1, b2]; rfl

/- FULL statement (FALSE for the real code, see `u_suffix_reorders_witness`):
   theorem Suffix_tostr_match_tokens … (hm : (planSuffix s).bind (runSlots o) = .ok items) :
     ∃ t, tostrSuffix o items = .ok t ∧ toks t = toks s ∧ (… → net t = 0) -/

/-- `Suffix` in the order `RESULT (r) [binding]`: the tokens are kept -/
theorem u_suffix_tostr_match_tokens_partial (o : Oracle Node) (ho : OracleTok o) (s : Str)
    (items : List (Item Node)) (hk : kwIs "RESULT".toList s = true)
    (hm : (planSuffix s).bind (runSlots o) = .ok items) :
    ∃ t, tostrSuffix o items = .ok t ∧ toks t = toks s ∧
      ((∀ i ∈ items, net (i.text o) = 0) → net t = 0) := by
  obtain ⟨t, a, b, h1, h2, h3, h4⟩ := u_suffix_core o ho s items hm
  refine ⟨t, h1, ?_, h4⟩
  rcases h2 with ⟨_, h⟩ | ⟨h, _⟩
  · rw [h3, h]
  · rw [hk] at h; cases h

/-- `Suffix` in the order `binding RESULT (r)`: the printer puts `RESULT(r)` FIRST: the exact relation -/
theorem u_suffix_tostr_match_reorder (o : Oracle Node) (ho : OracleTok o) (s : Str)
    (items : List (Item Node)) (hk : kwIs "RESULT".toList s = false)
    (hm : (planSuffix s).bind (runSlots o) = .ok items) :
    ∃ t a b, tostrSuffix o items = .ok t ∧ toks s = a ++ b ∧ toks t = b ++ a ∧
      (∃ x y, items = [x, .node y] ∧ a = toks (o.str y)) ∧
      ((∀ i ∈ items, net (i.text o) = 0) → net t = 0) := by
  obtain ⟨t, a, b, h1, h2, h3, h4⟩ := u_suffix_core o ho s items hm
  rcases h2 with ⟨h, _⟩ | ⟨_, h, h'⟩
  · rw [hk] at h; cases h
  · exact ⟨t, a, b, h1, h, h3, h', h4⟩

/-- in all cases the printed tokens are a permutation of the input's (two blocks swapped at most) -/
theorem u_suffix_tostr_match_perm (o : Oracle Node) (ho : OracleTok o) (s : Str)
    (items : List (Item Node)) (hm : (planSuffix s).bind (runSlots o) = .ok items) :
    ∃ t, tostrSuffix o items = .ok t ∧ (toks t).Perm (toks s) ∧
      ((∀ i ∈ items, net (i.text o) = 0) → net t = 0) := by
  obtain ⟨t, a, b, h1, h2, h3, h4⟩ := u_suffix_core o ho s items hm
  refine ⟨t, h1, ?_, h4⟩
  rcases h2 with ⟨_, h⟩ | ⟨_, h, _⟩
  · rw [h3, h]
  · rw [h3, h]; exact List.perm_append_comm

/-- witness: `bind(c) result(r)` is printed `RESULT(r) bind(c)`: the token texts differ -/
theorem u_suffix_reorders_witness :
    (planSuffix "bind(c) result(r)".toList).bind (runSlots u_echoH)
      = .ok [.node "r".toList, .node "bind(c)".toList] ∧
    tostrSuffix u_echoH [.node "r".toList, .node "bind(c)".toList] = .ok "RESULT(r) bind(c)".toList ∧
    toks "RESULT(r) bind(c)".toList ≠ toks "bind(c) result(r)".toList := by decide

example : kwIs "RESULT".toList "result ( r ) bind(c)".toList = true ∧
    (planSuffix "result ( r ) bind(c)".toList).bind (runSlots u_echoH)
      = .ok [.node "r".toList, .node "bind(c)".toList] := by decide
example : kwIs "RESULT".toList "bind(c) result(r)".toList = false := by decide

/-! ## 4. Prefix -/

theorem u_noBlank_self {w : Str} (h : ∀ c ∈ w, isSpace c = false) : Combi.noBlank w = w := by
  unfold Combi.noBlank
  rw [List.filter_eq_self]
  intro c hc; simp [h c hc]

/-- `s.split()` keeps every non-blank character, in order -/
theorem u_splitWsAux_flat : ∀ (s cur : Str), (∀ c ∈ cur, isSpace c = false) →
    Combi.noBlank (splitWsAux s cur).flatten = cur.reverse ++ Combi.noBlank s := by
  intro s
  induction s with
  | nil =>
    intro cur hc
    unfold splitWsAux
    split
    · rename_i he
      have : cur = [] := by simpa using he
      subst this; rfl
    · simp only [List.flatten_cons, List.flatten_nil, List.append_nil]
      rw [u_noBlank_self (by intro c h; exact hc c (by simpa using h))]
      simp [Combi.noBlank]
  | cons c cs ih =>
    intro cur hc
    unfold splitWsAux
    split
    · rename_i hsp
      have e : Combi.noBlank (c :: cs) = Combi.noBlank cs := by simp [Combi.noBlank, hsp]
      split
      · rename_i he
        have : cur = [] := by simpa using he
        subst this
        rw [ih [] (by simp), e]
      · simp only [List.flatten_cons, Combi.noBlank_append]
        rw [ih [] (by simp), e, u_noBlank_self (by intro c h; exact hc c (by simpa using h))]
        simp
    · rename_i hsp
      have hsp' : isSpace c = false := by simpa using hsp
      rw [ih (c :: cur) (by
        intro d hd
        rcases List.mem_cons.1 hd with rfl | h
        · exact hsp'
        · exact hc d h)]
      simp [Combi.noBlank, hsp']

theorem u_toks_splitWs (s : Str) : toks (splitWs s).flatten = toks s := by
  unfold toks splitWs
  rw [u_splitWsAux_flat s [] (by simp)]; rfl

theorem u_toks_flatten : ∀ (l : List Str), toks l.flatten = (l.map toks).flatten
  | [] => rfl
  | a :: l => by simp [toks_append, u_toks_flatten l]

theorem u_toks_join : ∀ (l : List Str), toks (Combi.joinStr [' '] l) = (l.map toks).flatten
  | [] => rfl
  | [a] => by simp [Combi.joinStr]
  | a :: b :: rest => by
    have k : toks [' '] = [] := by decide
    have ih := u_toks_join (b :: rest)
    simp only [Combi.joinStr, toks_append, k, ih, List.map_cons, List.flatten_cons, List.append_nil]

/-- `" ".join(s.split())` has the tokens of `s` -/
theorem u_toks_join_splitWs (s : Str) : toks (Combi.joinStr [' '] (splitWs s)) = toks s := by
  rw [u_toks_join, ← u_toks_flatten, u_toks_splitWs]

theorem u_net_join : ∀ (l : List Str), (∀ x ∈ l, net x = 0) → net (Combi.joinStr [' '] l) = 0
  | [], _ => rfl
  | [a], h => by simpa [Combi.joinStr] using h a (by simp)
  | a :: b :: rest, h => by
    have k : net [' '] = 0 := by decide
    have ih := u_net_join (b :: rest) (fun x hx => h x (List.mem_cons_of_mem _ hx))
    simp only [Combi.joinStr, net_append, k, ih, h a (by simp)]; rfl

/-- the three runs of `Prefix.match` recombine to the word list -/
theorem u_prefixParts {s : Str} {st mid en : List Str} (h : prefixParts s = (st, mid, en)) :
    st ++ mid ++ en = splitWs s := by
  unfold prefixParts at h
  simp only [Prod.mk.injEq] at h
  obtain ⟨rfl, rfl, rfl⟩ := h
  rw [List.append_assoc, ← List.reverse_append, List.takeWhile_append_dropWhile, List.reverse_reverse,
    List.takeWhile_append_dropWhile]

theorem u_run_children {o : Oracle Node} (ho : OracleTok o) (c : ClassId) :
    ∀ (l : List Str) (rest : List Slot) (items : List (Item Node)),
    runSlots o (l.map (Slot.child c) ++ rest) = .ok items →
    ∃ is1 is2, items = is1 ++ is2 ∧ is1.map (fun i => toks (i.text o)) = l.map toks ∧
      runSlots o rest = .ok is2 := by
  intro l
  induction l with
  | nil => intro rest items h; exact ⟨[], items, rfl, rfl, h⟩
  | cons w l ih =>
    intro rest items h
    rw [List.map_cons, List.cons_append] at h
    obtain ⟨i, is, rfl, hi, his⟩ := runSlots_cons_ok h
    obtain ⟨is1, is2, rfl, h1, h2⟩ := ih rest is his
    refine ⟨i :: is1, is2, rfl, ?_, h2⟩
    rw [List.map_cons, List.map_cons, h1, toks_item_of_child ho hi]

theorem u_run_fail (o : Oracle Node) : ∀ (l : List Slot) (items : List (Item Node)),
    runSlots o (l ++ [.fail]) ≠ .ok items := by
  intro l
  induction l with
  | nil => intro items h; simp [runSlots, runSlot] at h
  | cons a l ih =>
    intro items h
    rw [List.cons_append] at h
    obtain ⟨i, is, rfl, _, his⟩ := runSlots_cons_ok h
    exact ih is his

theorem u_ite_ok {c : Prop} [Decidable c] {x slots : List Slot}
    (h : (if c then Res.noMatch else Res.ok x) = Res.ok slots) : x = slots := by
  split at h
  · cases h
  · cases h; rfl

theorem u_prefix_tostr_match_tokens (o : Oracle Node) (ho : OracleTok o) (s : Str)
    (items : List (Item Node))
    (hm : ((planPrefix s).bind (runSlots o)).map (arrangePrefix s) = .ok items) :
    ∃ t, tostrPrefix o items = .ok t ∧ toks t = toks s ∧
      ((∀ i ∈ items, net (i.text o) = 0) → net t = 0) := by
  obtain ⟨items0, h0, harr⟩ := Res.map_eq_ok hm
  obtain ⟨slots, hp, hr⟩ := Res.bind_eq_ok h0
  refine ⟨_, rfl, ?_, ?_⟩
  swap
  · intro hb
    apply u_net_join
    intro x hx
    obtain ⟨i, hi, rfl⟩ := List.mem_map.1 hx
    exact hb i hi
  unfold planPrefix at hp
  unfold arrangePrefix at harr
  generalize hpp : prefixParts s = P at hp harr
  obtain ⟨st, mid, en⟩ := P
  have hparts := u_prefixParts hpp
  dsimp only at hp harr
  split at hp
  · cases hp; exact absurd hr (u_run_fail o _ _)
  split at hp
  · cases hp; exact absurd hr (u_run_fail o _ _)
  have := u_ite_ok hp; subst this
  rw [List.append_assoc] at hr
  obtain ⟨A, R1, rfl, hA, hr1⟩ := u_run_children ho _ st _ _ hr
  obtain ⟨B, D, rfl, hB, hr2⟩ := u_run_children ho _ en.reverse _ _ hr1
  have lenA : st.length = A.length := by simpa using (congrArg List.length hA).symm
  have lenB : en.length = B.length := by simpa using (congrArg List.length hB).symm
  have harr' : items = A ++ D ++ B.reverse := by
    rw [← harr, lenA, lenB, List.take_left, List.drop_left, List.take_left,
      ← List.drop_drop, List.drop_left, List.drop_left]
  have hD : (D.map (fun i => toks (i.text o))).flatten = (mid.map toks).flatten := by
    rw [← u_toks_join mid]
    by_cases he : (Combi.joinStr [' '] mid).isEmpty = true
    · rw [if_pos he] at hr2
      have := runSlots_nil_ok hr2; subst this
      rw [toks_isEmpty he]; rfl
    · rw [if_neg he] at hr2
      obtain ⟨i, rfl, hi⟩ := run1 hr2
      simp [toks_item_of_child ho hi]
  have hB' : B.reverse.map (fun i => toks (i.text o)) = en.map toks := by
    rw [List.map_reverse, hB, List.map_reverse, List.reverse_reverse]
  rw [u_toks_join, List.map_map]
  show (items.map (fun i => toks (i.text o))).flatten = toks s
  rw [harr', List.map_append, List.map_append, List.flatten_append, List.flatten_append, hA, hD, hB',
    ← List.flatten_append, ← List.flatten_append, ← List.map_append, ← List.map_append, hparts,
    ← u_toks_flatten, u_toks_splitWs]

example : ((planPrefix "pure  integer ( kind = 4 ) recursive".toList).bind (runSlots u_echoH)).map
    (arrangePrefix "pure  integer ( kind = 4 ) recursive".toList)
    = .ok [.node "pure".toList, .node "integer ( kind = 4 )".toList, .node "recursive".toList] := by
  decide +kernel

/-- the upper-cased prefix keywords found at both ends of the text (the list `Prefix.match` checks) -/
def u_prefixKws (s : Str) : List Str :=
  ((prefixParts s).1 ++ (prefixParts s).2.2.reverse).map upper

theorem u_run_fail_noMatch {o : Oracle Node} (hto : OracleTotal o) (l : List Slot)
    (hl : ∀ x ∈ l, ∃ c t, x = Slot.child c t) : runSlots o (l ++ [.fail]) = .noMatch := by
  cases h : runSlots o (l ++ [.fail]) with
  | ok items => exact absurd h (u_run_fail o l items)
  | noMatch => rfl
  | raises e =>
    rcases runSlots_raises h with h1 | ⟨c, t, _, h2⟩
    · rcases List.mem_append.1 h1 with h1 | h1
      · obtain ⟨c, t, e⟩ := hl _ h1; cases e
      · simp at h1
    · exact absurd h2 (hto c t e)

/-- a repeated keyword, or ELEMENTAL together with RECURSIVE: no match (after the child calls) -/
theorem u_prefix_rejects (o : Oracle Node) (hto : OracleTotal o) (s : Str)
    (h : hasDup (u_prefixKws s) = true ∨
      ((u_prefixKws s).contains "ELEMENTAL".toList && (u_prefixKws s).contains "RECURSIVE".toList) = true) :
    (planPrefix s).bind (runSlots o) = .noMatch := by
  unfold u_prefixKws at h
  unfold planPrefix
  generalize prefixParts s = P at h ⊢
  obtain ⟨st, mid, en⟩ := P
  dsimp only at h ⊢
  have hcalls : ∀ x ∈ st.map (Slot.child C.Prefix_Spec) ++ en.reverse.map (Slot.child C.Prefix_Spec) ++
      (if (Combi.joinStr [' '] mid).isEmpty then [] else [Slot.child C.Declaration_Type_Spec (Combi.joinStr [' '] mid)]),
      ∃ c t, x = Slot.child c t := by
    intro x hx
    rcases List.mem_append.1 hx with hx | hx
    · rcases List.mem_append.1 hx with hx | hx
      · obtain ⟨w, _, rfl⟩ := List.mem_map.1 hx; exact ⟨_, _, rfl⟩
      · obtain ⟨w, _, rfl⟩ := List.mem_map.1 hx; exact ⟨_, _, rfl⟩
    · split at hx
      · simp at hx
      · rw [List.mem_singleton] at hx
        exact ⟨_, _, hx⟩
  by_cases hd : hasDup (List.map upper (st ++ en.reverse)) = true
  · rw [if_pos hd]; exact u_run_fail_noMatch hto _ hcalls
  · rw [if_neg hd]
    have h2 := h.resolve_left hd
    rw [if_pos h2]; exact u_run_fail_noMatch hto _ hcalls

theorem u_echoH_total : OracleTotal u_echoH := by
  intro c t e h; simp [u_echoH] at h

example : hasDup (u_prefixKws "pure pure".toList) = true := by decide +kernel
example : ((u_prefixKws "elemental real recursive".toList).contains "ELEMENTAL".toList &&
    (u_prefixKws "elemental real recursive".toList).contains "RECURSIVE".toList) = true := by decide +kernel

/-- the keyword set of `Prefix.match` / `Prefix_Spec` -/
theorem u_prefix_keywords_exact (w : Str) :
    isPrefixKw w = true ↔ upper w ∈ ["ELEMENTAL".toList, "IMPURE".toList, "MODULE".toList,
      "PURE".toList, "RECURSIVE".toList] := by
  unfold isPrefixKw prefixKeywords prefixKeywordsS
  simp only [List.map_cons, List.map_nil, List.contains_iff_mem]

/-! ## 5. Prefix_Spec, Dummy_Arg, one-keyword statements, Enum_Def_Stmt -/

theorem u_prefixSpec_tostr_match_tokens (o : Oracle Node) (_ho : OracleTok o) (s : Str)
    (items : List (Item Node)) (hm : (planPrefixSpec s).bind (runSlots o) = .ok items) :
    ∃ t, tostrString o items = .ok t ∧ toks t = toks s ∧
      ((∀ i ∈ items, net (i.text o) = 0) → net t = 0) := by
  obtain ⟨slots, hp, hr⟩ := Res.bind_eq_ok hm
  unfold planPrefixSpec at hp
  split at hp
  · cases hp
    obtain ⟨i, rfl, hi⟩ := run1 hr
    have := runSlot_str_ok hi; subst this
    exact ⟨upper s, rfl, toks_upper s, fun hb => hb (.str (upper s)) (by simp)⟩
  · cases hp

/-- `Prefix_Spec` accepts exactly the five keywords, in any case, nothing around them -/
theorem u_planPrefixSpec_iff (s : Str) :
    planPrefixSpec s = .ok [.str (upper s)] ↔ isPrefixKw s = true := by
  unfold planPrefixSpec isPrefixKw
  split <;> simp_all

example : (planPrefixSpec "Pure".toList).bind (runSlots u_echoH) = .ok [.str "PURE".toList] := by decide

/-- `Dummy_Arg` = `*` (the plan is the literal function of `planOf`) -/
theorem u_dummyArg_tostr_match_tokens (o : Oracle Node) (_ho : OracleTok o) (s : Str)
    (items : List (Item Node))
    (hm : (if s == ['*'] then Res.ok [Slot.str s] else .noMatch).bind (runSlots o) = .ok items) :
    ∃ t, tostrString o items = .ok t ∧ toks t = toks s ∧
      ((∀ i ∈ items, net (i.text o) = 0) → net t = 0) := by
  obtain ⟨slots, hp, hr⟩ := Res.bind_eq_ok hm
  split at hp
  · cases hp
    obtain ⟨i, rfl, hi⟩ := run1 hr
    have := runSlot_str_ok hi; subst this
    exact ⟨s, rfl, rfl, fun hb => hb (.str s) (by simp)⟩
  · cases hp

example : (if "*".toList == ['*'] then Res.ok [Slot.str "*".toList] else .noMatch).bind (runSlots u_echoH)
    = .ok [.str "*".toList] := by decide

/-- `planKeyword`: accepted iff the input EQUALS the keyword up to case -/
theorem u_planKeyword_iff (kw s : Str) : planKeyword kw s = .ok [.str kw] ↔ upper s = kw := by
  unfold planKeyword
  split <;> simp_all

theorem u_planKeyword_noMatch (kw s : Str) (h : upper s ≠ kw) : planKeyword kw s = .noMatch := by
  unfold planKeyword
  split <;> simp_all

/-- Private_Components_Stmt, Binding_Private_Stmt (`PRIVATE`), Sequence_Stmt, Contains_Stmt -/
theorem u_keyword_tostr_match_tokens (o : Oracle Node) (_ho : OracleTok o) (kw s : Str)
    (items : List (Item Node)) (hm : (planKeyword kw s).bind (runSlots o) = .ok items) :
    ∃ t, tostrString o items = .ok t ∧ toks t = toks s ∧
      ((∀ i ∈ items, net (i.text o) = 0) → net t = 0) := by
  obtain ⟨slots, hp, hr⟩ := Res.bind_eq_ok hm
  unfold planKeyword at hp
  split at hp
  · rename_i hk
    have hk' : upper s = kw := by simpa using hk
    cases hp
    obtain ⟨i, rfl, hi⟩ := run1 hr
    have := runSlot_str_ok hi; subst this
    exact ⟨kw, rfl, by rw [← hk', toks_upper], fun hb => hb (.str kw) (by simp)⟩
  · cases hp

example : (planKeyword "CONTAINS".toList "Contains".toList).bind (runSlots u_echoH)
    = .ok [.str "CONTAINS".toList] := by decide

theorem u_planKeywords_iff (kws : List String) (s : Str) :
    planKeywords kws s = .ok [.str (upper s)] ↔ ∃ k ∈ kws, k.toList = upper s := by
  unfold planKeywords
  split
  · rename_i h
    simp only [List.any_eq_true, beq_iff_eq] at h
    simp [h]
  · rename_i h
    simp only [List.any_eq_true, beq_iff_eq] at h
    simp [h]

/-- Binding_Attr, Proc_Component_Attr_Spec -/
theorem u_keywords_tostr_match_tokens (o : Oracle Node) (_ho : OracleTok o) (kws : List String) (s : Str)
    (items : List (Item Node)) (hm : (planKeywords kws s).bind (runSlots o) = .ok items) :
    ∃ t, tostrString o items = .ok t ∧ toks t = toks s ∧
      ((∀ i ∈ items, net (i.text o) = 0) → net t = 0) := by
  obtain ⟨slots, hp, hr⟩ := Res.bind_eq_ok hm
  unfold planKeywords at hp
  split at hp
  · cases hp
    obtain ⟨i, rfl, hi⟩ := run1 hr
    have := runSlot_str_ok hi; subst this
    exact ⟨upper s, rfl, toks_upper s, fun hb => hb (.str (upper s)) (by simp)⟩
  · cases hp

example : (planKeywords bindingAttrKeywords "non_overridable".toList).bind (runSlots u_echoH)
    = .ok [.str "NON_OVERRIDABLE".toList] := by decide

theorem u_noBlank_noSpaces (x : Str) : Combi.noBlank (Combi.noSpaces x) = Combi.noBlank x := by
  unfold Combi.noBlank Combi.noSpaces
  rw [List.filter_filter]
  apply List.filter_congr
  intro c _
  by_cases h : c = ' '
  · subst h; decide
  · simp [h]

theorem u_enumDef_tostr_match_tokens (o : Oracle Node) (_ho : OracleTok o) (s : Str)
    (items : List (Item Node)) (hm : (planEnumDef s).bind (runSlots o) = .ok items) :
    ∃ t, tostrString o items = .ok t ∧ toks t = toks s ∧
      ((∀ i ∈ items, net (i.text o) = 0) → net t = 0) := by
  obtain ⟨slots, hp, hr⟩ := Res.bind_eq_ok hm
  unfold planEnumDef at hp
  split at hp
  · cases hp
  rename_i hk
  have hk' : Combi.noSpaces (upper s) = "ENUM,BIND(C)".toList := by simpa using hk
  cases hp
  obtain ⟨i, rfl, hi⟩ := run1 hr
  have := runSlot_str_ok hi; subst this
  refine ⟨"ENUM, BIND(C)".toList, rfl, ?_, fun _ => by decide⟩
  have : toks s = toks (Combi.noSpaces (upper s)) := by
    rw [← toks_upper s]; unfold toks; rw [u_noBlank_noSpaces]
  rw [this, hk']; decide

example : (planEnumDef "enum , bind ( c )".toList).bind (runSlots u_echoH)
    = .ok [.str "ENUM, BIND(C)".toList] := by decide

/-! ## 6. Program_Stmt / Module_Stmt / Block_Stmt / Critical_Stmt -/

theorem u_program_tostr_match_tokens (o : Oracle Node) (ho : OracleTok o) (s : Str)
    (items : List (Item Node)) (hm : (combiPlan specProgram s).bind (runSlots o) = .ok items) :
    ∃ t, combiStr o specProgram items = .ok t ∧ toks t = toks s ∧
      ((∀ i ∈ items, net (i.text o) = 0) → net t = 0) := by
  obtain ⟨t, h1, h2, h3⟩ := word_tostr_match_tokens o ho "PROGRAM".toList (some C.Program_Name) true s items
    (by decide) hm
  exact ⟨t, h1, h2, fun hb => h3 (bal_of_all hb)⟩

theorem u_module_tostr_match_tokens (o : Oracle Node) (ho : OracleTok o) (s : Str)
    (items : List (Item Node)) (hm : (combiPlan specModule s).bind (runSlots o) = .ok items) :
    ∃ t, combiStr o specModule items = .ok t ∧ toks t = toks s ∧
      ((∀ i ∈ items, net (i.text o) = 0) → net t = 0) := by
  obtain ⟨t, h1, h2, h3⟩ := word_tostr_match_tokens o ho "MODULE".toList (some C.Module_Name) true s items
    (by decide) hm
  exact ⟨t, h1, h2, fun hb => h3 (bal_of_all hb)⟩

example : (combiPlan specProgram "program  p".toList).bind (runSlots u_echoH)
    = .ok [.str "PROGRAM".toList, .node "p".toList] := by decide +kernel
example : (combiPlan specModule "module m".toList).bind (runSlots u_echoH)
    = .ok [.str "MODULE".toList, .node "m".toList] := by decide +kernel

/-- `WORDClsBase.match(KW, None, string)`: only the keyword (blanks around it allowed) -/
theorem u_wordNone {kw s : Str} {cs : List Combi.Slot}
    (h : Combi.wordSplit1 kw none false false s = some cs) :
    cs = [.str kw, .none] ∧ toks s = toks kw := by
  unfold Combi.wordSplit1 at h
  dsimp only at h
  split at h
  · cases h
  rename_i hne
  have hkw : upper ((lstrip s).take kw.length) = upper kw := by simpa using hne
  have hS : toks s = toks kw ++ toks ((lstrip s).drop kw.length) := by
    rw [← toks_lstrip s]
    conv => lhs; rw [← List.take_append_drop kw.length (lstrip s)]
    rw [toks_append, ← toks_upper (List.take kw.length (lstrip s)), hkw, toks_upper]
  split at h
  · rename_i hnil
    simp only [Bool.false_eq_true, if_false, Option.some.injEq] at h
    refine ⟨h.symm, ?_⟩
    rw [hS, hnil]; simp [toks_nil]
  · split at h
    · cases h
    simp only [Bool.false_and, Bool.false_eq_true, if_false, Bool.false_or] at h
    split at h
    · rename_i hemp
      simp only [Option.some.injEq] at h
      refine ⟨h.symm, ?_⟩
      rw [hS, ← toks_lstrip (List.drop _ _), toks_isEmpty hemp]; simp
    · cases h

/-- `Block_Stmt`: accepted only when the text is the keyword `BLOCK`; printed `BLOCK` -/
theorem u_blockStmt_tostr_match_tokens (o : Oracle Node) (s : Str)
    (items : List (Item Node)) (hm : (planBlockStmt s).bind (runSlots o) = .ok items) :
    items = [.str "BLOCK".toList, .str "block:".toList] ∧
    tostrOf .f2008 o C.Block_Stmt items = some (.ok "BLOCK".toList) ∧
    toks "BLOCK".toList = toks s ∧ net "BLOCK".toList = 0 := by
  obtain ⟨slots, hp, hr⟩ := Res.bind_eq_ok hm
  unfold planBlockStmt combiPlan at hp
  cases hsp : specBlockWord.split s with
  | none => rw [hsp] at hp; simp only [ofCombi] at hp; cases hp
  | some cs =>
    have hsp' : Combi.wordSplit1 "BLOCK".toList none false false s = some cs := hsp
    obtain ⟨rfl, hS⟩ := u_wordNone hsp'
    rw [hsp] at hp
    simp only [ofCombi, List.map_cons, ofCombiSlot] at hp
    cases hp
    obtain ⟨i, j, rfl, hi, hj⟩ := run2 hr
    have := runSlot_str_ok hi; subst this
    have := runSlot_str_ok hj; subst this
    exact ⟨rfl, rfl, hS.symm, by decide⟩

/-- `Critical_Stmt` (`combiPlan specCriticalWord`): only the keyword; printed `CRITICAL` -/
theorem u_criticalStmt_tostr_match_tokens (o : Oracle Node) (s : Str)
    (items : List (Item Node)) (hm : (combiPlan specCriticalWord s).bind (runSlots o) = .ok items) :
    items = [.str "CRITICAL".toList, .none] ∧
    tostrOf .f2008 o C.Critical_Stmt items = some (.ok "CRITICAL".toList) ∧
    toks "CRITICAL".toList = toks s ∧ net "CRITICAL".toList = 0 := by
  obtain ⟨cs, hsp, hr⟩ := combiPlan_bind_ok hm
  have hsp' : Combi.wordSplit1 "CRITICAL".toList none false false s = some cs := hsp
  obtain ⟨rfl, hS⟩ := u_wordNone hsp'
  simp only [List.map_cons, List.map_nil, ofCombiSlot] at hr
  obtain ⟨i, j, rfl, hi, hj⟩ := run2 hr
  have := runSlot_str_ok hi; subst this
  have := runSlot_none_ok hj; subst this
  exact ⟨rfl, rfl, hS.symm, by decide⟩

example : (planBlockStmt " Block ".toList).bind (runSlots u_echoH)
    = .ok [.str "BLOCK".toList, .str "block:".toList] := by decide +kernel
example : (combiPlan specCriticalWord "critical".toList).bind (runSlots u_echoH)
    = .ok [.str "CRITICAL".toList, .none] := by decide +kernel

/-! ## 8. totality: the plans raise nothing -/

theorem u_planBlockData_total (s : Str) (e : Exc) : planBlockData s ≠ .raises e := by
  unfold planBlockData
  repeat' (first | split | dsimp only)
  all_goals (intro h; cases h)

theorem u_planLanguageBinding_total (s : Str) (e : Exc) : planLanguageBinding s ≠ .raises e := by
  unfold planLanguageBinding
  repeat' (first | split | dsimp only)
  all_goals (intro h; cases h)

theorem u_planSuffix_total (s : Str) (e : Exc) : planSuffix s ≠ .raises e := by
  unfold planSuffix
  repeat' (first | split | dsimp only)
  all_goals (intro h; cases h)

theorem u_planPrefix_total (s : Str) (e : Exc) : planPrefix s ≠ .raises e := by
  unfold planPrefix
  generalize prefixParts s = P
  obtain ⟨st, mid, en⟩ := P
  dsimp only
  split
  · intro h; cases h
  split
  · intro h; cases h
  repeat' split
  all_goals (intro h; cases h)

theorem u_planPrefixSpec_total (s : Str) (e : Exc) : planPrefixSpec s ≠ .raises e := by
  unfold planPrefixSpec
  split <;> (intro h; cases h)

theorem u_planDummyArg_total (s : Str) (e : Exc) :
    (if s == ['*'] then Res.ok [Slot.str s] else .noMatch) ≠ .raises e := by
  split <;> (intro h; cases h)

theorem u_planKeyword_total (kw s : Str) (e : Exc) : planKeyword kw s ≠ .raises e := by
  unfold planKeyword
  split <;> (intro h; cases h)

theorem u_planKeywords_total (kws : List String) (s : Str) (e : Exc) : planKeywords kws s ≠ .raises e := by
  unfold planKeywords
  split <;> (intro h; cases h)

theorem u_planEnumDef_total (s : Str) (e : Exc) : planEnumDef s ≠ .raises e := by
  unfold planEnumDef
  split <;> (intro h; cases h)

theorem u_planProgram_total (s : Str) (e : Exc) : combiPlan specProgram s ≠ .raises e :=
  combiPlan_not_raises _ s e

theorem u_planModule_total (s : Str) (e : Exc) : combiPlan specModule s ≠ .raises e :=
  combiPlan_not_raises _ s e

theorem u_planCritical_total (s : Str) (e : Exc) : combiPlan specCriticalWord s ≠ .raises e :=
  combiPlan_not_raises _ s e

/-- the `ValueError` branch of `planBlockStmt` (an empty tuple from `WORDClsBase.match`) is dead -/
theorem u_planBlockStmt_total (s : Str) (e : Exc) : planBlockStmt s ≠ .raises e := by
  unfold planBlockStmt combiPlan
  cases hsp : specBlockWord.split s with
  | none => simp only [ofCombi]; intro h; cases h
  | some cs =>
    have hsp' : Combi.wordSplit1 "BLOCK".toList none false false s = some cs := hsp
    obtain ⟨rfl, _⟩ := u_wordNone hsp'
    simp only [ofCombi, List.map_cons, ofCombiSlot]
    intro h; cases h

/-! ## 7. fixpoints (C01) -/

theorem u_planBlockData_printed0 : planBlockData "BLOCK DATA".toList = .ok [.none] := by decide

theorem u_planBlockData_printed (A : Str) (hl : lstrip A = A) (hne : A ≠ []) :
    planBlockData ("BLOCK DATA ".toList ++ A) = .ok [.child C.Block_Data_Name A] := by
  cases A with
  | nil => exact absurd rfl hne
  | cons c A' =>
    have hc : isSpace c = false := Combi.lstrip_self_head hl
    have e1 : lstrip (' ' :: 'D' :: 'A' :: 'T' :: 'A' :: ' ' :: c :: A') = 'D' :: 'A' :: 'T' :: 'A' :: ' ' :: c :: A' := by
      rw [Combi.lstrip_space_cons]; exact Combi.lstrip_cons_nonspace _ (by decide)
    have e2 : lstrip (' ' :: c :: A') = c :: A' := by
      rw [Combi.lstrip_space_cons]; exact Combi.lstrip_cons_nonspace _ hc
    unfold planBlockData
    simp +decide [kwIs, e1, e2]

/-- **Block_Data_Stmt** without a name -/
theorem u_blockData_match_tostr_fixpoint_0 (o : Oracle Node) :
    ∃ t, tostrBlockData o [.none] = .ok t ∧ (planBlockData t).bind (runSlots o) = .ok [.none] :=
  ⟨_, rfl, by rw [u_planBlockData_printed0]; rfl⟩

/-- **Block_Data_Stmt** with a name: the printed name must be left-tight and non-empty -/
theorem u_blockData_match_tostr_fixpoint (o : Oracle Node) (a : Node)
    (hrt : OracleRT o C.Block_Data_Name a)
    (hl : lstrip (o.str a) = o.str a) (hne : o.str a ≠ []) :
    ∃ t, tostrBlockData o [.node a] = .ok t ∧ (planBlockData t).bind (runSlots o) = .ok [.node a] := by
  refine ⟨"BLOCK DATA ".toList ++ o.str a, rfl, ?_⟩
  rw [u_planBlockData_printed _ hl hne]
  simp [runSlots, run_child o hrt]

example : OracleRT u_echoH C.Block_Data_Name "x".toList ∧ lstrip (u_echoH.str "x".toList) = u_echoH.str "x".toList ∧
    u_echoH.str "x".toList ≠ [] :=
  ⟨by show u_echoH.call _ _ = _; decide, by decide, by decide⟩

/-- counter-example without `lstrip`: the name ` x` prints `BLOCK DATA  x`, re-matched as `x` -/
theorem u_blockData_fixpoint_needs_lstrip :
    tostrBlockData u_echoH [.node " x".toList] = .ok "BLOCK DATA  x".toList ∧
    (planBlockData "BLOCK DATA  x".toList).bind (runSlots u_echoH) = .ok [.node "x".toList] := by decide

/-- counter-example without non-emptiness: an empty name prints `BLOCK DATA `, re-matched as nameless -/
theorem u_blockData_fixpoint_needs_nonempty :
    tostrBlockData u_echoH [.node "".toList] = .ok "BLOCK DATA ".toList ∧
    (planBlockData "BLOCK DATA ".toList).bind (runSlots u_echoH) = .ok [.none] := by decide

/-- **Language_Binding_Spec** without NAME -/
theorem u_languageBinding_match_tostr_fixpoint_0 (o : Oracle Node) :
    ∃ t, tostrLanguageBinding o [.none] = .ok t ∧
      (planLanguageBinding t).bind (runSlots o) = .ok [.none] := by
  have : planLanguageBinding "BIND(C)".toList = .ok [.none] := by decide
  exact ⟨_, rfl, by rw [this]; rfl⟩

/-- **Prefix_Spec**: each of the five keywords re-matches as itself -/
theorem u_prefixSpec_match_tostr_fixpoint (o : Oracle Node) (k : Str) (hk : k ∈ prefixKeywords) :
    ∃ t, tostrString o [.str k] = .ok t ∧ (planPrefixSpec t).bind (runSlots o) = .ok [.str k] := by
  refine ⟨k, rfl, ?_⟩
  have h : planPrefixSpec k = .ok [.str k] := by
    simp only [prefixKeywords, prefixKeywordsS, List.map_cons, List.map_nil, List.mem_cons,
      List.not_mem_nil, or_false] at hk
    rcases hk with rfl | rfl | rfl | rfl | rfl <;> decide
  rw [h]; rfl

example : "PURE".toList ∈ prefixKeywords := by decide

end Fp.Header

#print axioms Fp.Header.u_blockData_tostr_match_tokens
#print axioms Fp.Header.u_languageBinding_tostr_match_tokens
#print axioms Fp.Header.u_suffix_core
#print axioms Fp.Header.u_suffix_tostr_match_tokens_partial
#print axioms Fp.Header.u_suffix_tostr_match_reorder
#print axioms Fp.Header.u_suffix_tostr_match_perm
#print axioms Fp.Header.u_suffix_reorders_witness
#print axioms Fp.Header.u_toks_join_splitWs
#print axioms Fp.Header.u_prefix_tostr_match_tokens
#print axioms Fp.Header.u_prefix_rejects
#print axioms Fp.Header.u_prefix_keywords_exact
#print axioms Fp.Header.u_prefixSpec_tostr_match_tokens
#print axioms Fp.Header.u_planPrefixSpec_iff
#print axioms Fp.Header.u_dummyArg_tostr_match_tokens
#print axioms Fp.Header.u_planKeyword_iff
#print axioms Fp.Header.u_planKeyword_noMatch
#print axioms Fp.Header.u_keyword_tostr_match_tokens
#print axioms Fp.Header.u_planKeywords_iff
#print axioms Fp.Header.u_keywords_tostr_match_tokens
#print axioms Fp.Header.u_enumDef_tostr_match_tokens
#print axioms Fp.Header.u_program_tostr_match_tokens
#print axioms Fp.Header.u_module_tostr_match_tokens
#print axioms Fp.Header.u_blockStmt_tostr_match_tokens
#print axioms Fp.Header.u_criticalStmt_tostr_match_tokens
#print axioms Fp.Header.u_planBlockData_total
#print axioms Fp.Header.u_planLanguageBinding_total
#print axioms Fp.Header.u_planSuffix_total
#print axioms Fp.Header.u_planPrefix_total
#print axioms Fp.Header.u_planPrefixSpec_total
#print axioms Fp.Header.u_planDummyArg_total
#print axioms Fp.Header.u_planKeyword_total
#print axioms Fp.Header.u_planKeywords_total
#print axioms Fp.Header.u_planEnumDef_total
#print axioms Fp.Header.u_planProgram_total
#print axioms Fp.Header.u_planModule_total
#print axioms Fp.Header.u_planCritical_total
#print axioms Fp.Header.u_planBlockStmt_total
#print axioms Fp.Header.u_blockData_match_tostr_fixpoint_0
#print axioms Fp.Header.u_blockData_match_tostr_fixpoint
#print axioms Fp.Header.u_blockData_fixpoint_needs_lstrip
#print axioms Fp.Header.u_blockData_fixpoint_needs_nonempty
#print axioms Fp.Header.u_languageBinding_match_tostr_fixpoint_0
#print axioms Fp.Header.u_prefixSpec_match_tostr_fixpoint
