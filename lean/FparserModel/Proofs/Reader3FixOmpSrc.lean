import FparserModel.Proofs.Reader3FixOmp2

/-!
# Reader3FixOmpSrc — every source has a blanked twin (C15, fixed form)

`ompBlank l` = what `get_single_line` makes of the raw line `l` when
`include_omp_conditional_lines` is on (cooked, sentinel blanked). It is a fixed point of `cook`,
so `src.map ompBlank` is a source that, read with the flag OFF, yields the same physical lines:
`srcSim_blank : SrcSim src (src.map ompBlank)`.
-/
namespace Fp.Reader
open Fp

def ompBlank (l : Str) : Str := (replaceSentinelFixed (cook l)).1

/-- no tab, no `\xa0`, no trailing blank: the fixed points of `cook` -/
structure Cooked1 (s : Str) : Prop where
  notab : ∀ c ∈ s, c ≠ '\t'
  noxa0 : ∀ c ∈ s, c ≠ '\xa0'
  last : ∀ y ys, s.reverse = y :: ys → isSpace y = false

theorem expandtabsAux_notab : ∀ (cs : Str) (col : Nat) (acc : Str), (∀ c ∈ cs, c ≠ '\t') →
    expandtabsAux cs col acc = acc.reverse ++ cs
  | [], _, acc, _ => by simp [expandtabsAux]
  | c :: cs, col, acc, h => by
    have hc : (c == '\t') = false := by simpa using h c List.mem_cons_self
    have ht := fun x hx => h x (List.mem_cons_of_mem _ hx)
    unfold expandtabsAux
    simp only [hc, Bool.false_eq_true, if_false]
    split
    · rw [expandtabsAux_notab cs 0 (c :: acc) ht]; simp
    · rw [expandtabsAux_notab cs (col + 1) (c :: acc) ht]; simp

theorem expandtabsAux_mem_notab : ∀ (cs : Str) (col : Nat) (acc : Str), (∀ c ∈ acc, c ≠ '\t') →
    ∀ x ∈ expandtabsAux cs col acc, x ≠ '\t'
  | [], _, acc, h, x, hx => by
    simp only [expandtabsAux, List.mem_reverse] at hx; exact h x hx
  | c :: cs, col, acc, h, x, hx => by
    unfold expandtabsAux at hx
    by_cases hc : (c == '\t') = true
    · simp only [hc, if_true] at hx
      refine expandtabsAux_mem_notab cs _ _ ?_ x hx
      intro y hy
      rcases List.mem_append.mp hy with hy | hy
      · rw [List.eq_of_mem_replicate hy]; decide
      · exact h y hy
    · have hc' : c ≠ '\t' := by simpa using hc
      have hacc : ∀ y ∈ c :: acc, y ≠ '\t' := by
        intro y hy
        rcases List.mem_cons.mp hy with rfl | hy
        · exact hc'
        · exact h y hy
      simp only [hc, Bool.false_eq_true, if_false] at hx
      split at hx
      · exact expandtabsAux_mem_notab cs _ _ hacc x hx
      · exact expandtabsAux_mem_notab cs _ _ hacc x hx

theorem dropWhile_head_not (p : Char → Bool) : ∀ (l : Str) (y : Char) (ys : Str),
    l.dropWhile p = y :: ys → p y = false
  | [], _, _, h => by cases h
  | a :: l, y, ys, h => by
    rw [List.dropWhile_cons] at h
    by_cases ha : p a = true
    · rw [if_pos ha] at h; exact dropWhile_head_not p l y ys h
    · rw [if_neg ha] at h
      simp only [List.cons.injEq] at h
      rw [← h.1]; simpa using ha

theorem rstrip_mem {s : Str} {c : Char} (h : c ∈ rstrip s) : c ∈ s := by
  unfold rstrip at h
  exact List.mem_reverse.mp ((List.dropWhile_sublist isSpace).subset (List.mem_reverse.mp h))

/-- a cooked line is a fixed point of `cook` -/
theorem cook_cooked1 (l : Str) : Cooked1 (cook l) where
  notab := fun c hc => by
    have hm := rstrip_mem hc
    obtain ⟨a, ha, rfl⟩ := List.mem_map.mp hm
    have hat : a ≠ '\t' := expandtabsAux_mem_notab l 0 [] (fun _ h => by cases h) a ha
    by_cases hx : (a == '\xa0') = true
    · simp only [hx, if_true]; decide
    · simp only [hx, Bool.false_eq_true, if_false]; exact hat
  noxa0 := fun c hc => by
    have hm := rstrip_mem hc
    obtain ⟨a, _, rfl⟩ := List.mem_map.mp hm
    by_cases hx : (a == '\xa0') = true
    · simp only [hx, if_true]; decide
    · simp only [hx, Bool.false_eq_true, if_false]; simpa using hx
  last := fun y ys h => by
    unfold cook rstrip at h
    rw [List.reverse_reverse] at h
    exact dropWhile_head_not isSpace _ y ys h

theorem cook_of_cooked1 {s : Str} (h : Cooked1 s) : cook s = s := by
  unfold cook expandtabs
  rw [expandtabsAux_notab s 0 [] h.notab]
  simp only [List.reverse_nil, List.nil_append]
  have hmap : s.map (fun c => if c == '\xa0' then ' ' else c) = s := by
    conv => rhs; rw [← List.map_id s]
    apply List.map_congr_left
    intro c hc
    have : (c == '\xa0') = false := by simpa using h.noxa0 c hc
    simp [this]
  rw [hmap]
  unfold rstrip
  cases hr : s.reverse with
  | nil => simp [List.reverse_eq_nil_iff.mp hr]
  | cons y ys =>
    have hy := h.last y ys hr
    rw [List.dropWhile_cons, if_neg (by simp [hy]), ← hr, List.reverse_reverse]

/-- blanking the sentinel keeps a cooked line cooked -/
theorem blank_cooked1 {c : Str} (h : Cooked1 c) : Cooked1 (replaceSentinelFixed c).1 := by
  unfold replaceSentinelFixed
  by_cases hm : sentinelFixedMatch c = true
  · simp only [hm, if_true]
    match c, h, hm with
    | a :: b :: c2 :: rest, h, _ =>
      refine ⟨?_, ?_, ?_⟩
      · intro x hx
        simp only [List.drop_succ_cons, List.drop_zero, List.mem_cons] at hx
        rcases hx with rfl | rfl | hx
        · decide
        · decide
        · exact h.notab x (by simp only [List.mem_cons]; exact Or.inr (Or.inr hx))
      · intro x hx
        simp only [List.drop_succ_cons, List.drop_zero, List.mem_cons] at hx
        rcases hx with rfl | rfl | hx
        · decide
        · decide
        · exact h.noxa0 x (by simp only [List.mem_cons]; exact Or.inr (Or.inr hx))
      · intro y ys hr
        simp only [List.drop_succ_cons, List.drop_zero, List.reverse_cons, List.append_assoc] at hr
        have hl := h.last
        simp only [List.reverse_cons, List.append_assoc] at hl
        cases hq : rest.reverse with
        | nil =>
          rw [hq] at hr hl
          simp only [List.nil_append, List.cons_append, List.cons.injEq] at hr
          exact hl y [b, a] (by simp [hr.1])
        | cons z zs =>
          rw [hq] at hr hl
          simp only [List.cons_append, List.cons.injEq] at hr
          exact hl y (zs ++ [c2, b, a]) (by simp [hr.1])
    | [], _, hm => simp [sentinelFixedMatch] at hm
    | [_], _, hm => simp [sentinelFixedMatch] at hm
    | [_, _], _, hm => simp [sentinelFixedMatch] at hm
  · simp only [hm, Bool.false_eq_true, if_false]; exact h

theorem cook_ompBlank (l : Str) : cook (ompBlank l) = ompBlank l :=
  cook_of_cooked1 (blank_cooked1 (cook_cooked1 l))

/-- every source has a twin for the flag-off reader -/
theorem srcSim_blank : ∀ src : List Str, SrcSim src (src.map ompBlank)
  | [] => SrcSim.nil
  | l :: ls => SrcSim.cons (by unfold Blanked; exact (cook_ompBlank l).symm) (srcSim_blank ls)

theorem ompSim_blank (r : Rd) (ho : r.omp = true) (hf : r.isFree = false) :
    OmpSim r (flagOff (r.src.map ompBlank) r) :=
  ⟨_, srcSim_blank r.src, rfl, ho, hf⟩

end Fp.Reader
