import FparserModel.Proofs.Norm

/-! `canon` is insensitive to letter case outside character literals -/
namespace Fp.Norm
open Fp

/-- upper-case the text of every token that is not a character literal (operators and labels
    contain no letters; they are left alone) -/
def upTok : Tok → Tok
  | .name s => .name (upper s)
  | .num s => .num (upper s)
  | .boz s => .boz (upper s)
  | .dot s => .dot (upper s)
  | .fch c => .fch (upperC c)
  | t => t

theorem pre1_upTok (t : Tok) : pre1 (upTok t) = pre1 t := by
  cases t <;> simp [upTok, pre1, upper_idem, upperC_idem]

theorem pre_cons (t : Tok) (ts : List Tok) : pre (t :: ts) = pre1 t ++ pre ts := by
  simp [pre]

theorem pre_append (a b : List Tok) : pre (a ++ b) = pre a ++ pre b := by
  simp [pre]

theorem pre_map_upTok (ts : List Tok) : pre (ts.map upTok) = pre ts := by
  induction ts with
  | nil => rfl
  | cons t r ih => simp [pre_cons, pre1_upTok, ih]

theorem upTok_ne_eos {t : Tok} (h : t = .eos → False) : upTok t = .eos → False := by
  cases t <;> simp_all [upTok]

theorem pre_map_fch (s : Str) : pre (s.map .fch) = (upper s).map .fch := by
  induction s with
  | nil => rfl
  | cons c r ih => simp [pre_cons, pre1, ih, upper]

theorem pre_explode_upTok (t : Tok) : pre (explode (upTok t)) = pre (explode t) := by
  cases t with
  | name s => simp only [upTok, explode, tokText, pre_map_fch, upper_idem]
  | num s => simp only [upTok, explode, tokText, pre_map_fch, upper_idem]
  | boz s => simp only [upTok, explode, tokText, pre_map_fch, upper_idem]
  | dot s => simp only [upTok, explode, tokText, pre_map_fch, upper_idem]
  | fch c => simp [upTok, explode, pre, pre1, upperC_idem]
  | _ => rfl

theorem fmtxGo_fmt (x : Bool) (t : Tok) (rest : List Tok) (h : t = .eos → False) :
    fmtxGo x true (t :: rest) = explode t ++ fmtxGo false true rest := by
  cases t <;> first | exact absurd rfl h | (cases x <;> simp [fmtxGo])

theorem fmtxGo_other (x : Bool) (t : Tok) (rest : List Tok) (h : t = .eos → False)
    (h2 : ∀ (l f : Str) (r : List Tok), x = true → t = .label l → rest = .name f :: r → False) :
    fmtxGo x false (t :: rest) = t :: fmtxGo false false rest := by
  cases t with
  | eos => exact absurd rfl h
  | label l =>
    cases x with
    | false => simp [fmtxGo]
    | true =>
      cases rest with
      | nil => simp [fmtxGo]
      | cons t2 r =>
        cases t2 with
        | name f => exact (h2 l f r rfl rfl rfl).elim
        | _ => simp [fmtxGo]
  | _ => cases x <;> simp [fmtxGo]

theorem isFormatKw_upper (f : Str) : isFormatKw (upper f) = isFormatKw f := by
  simp [isFormatKw, upper_idem]

theorem pre_fmtxGo_upTok (b1 b2 : Bool) (ts : List Tok) :
    pre (fmtxGo b1 b2 (ts.map upTok)) = pre (fmtxGo b1 b2 ts) := by
  induction b1, b2, ts using fmtxGo.induct with
  | case1 => rfl
  | case2 x y rest ih =>
    simp only [List.map_cons, upTok, fmtxGo, pre_cons, ih]
  | case3 l f rest hf ih =>
    simp only [List.map_cons, upTok, fmtxGo, isFormatKw_upper, hf, if_true, pre_cons, ih]
    rw [show Tok.name (upper f) = upTok (.name f) from rfl, pre1_upTok]
  | case4 l f rest hf ih =>
    have hf' : isFormatKw f = false := by simpa using hf
    simp only [List.map_cons, upTok, fmtxGo, isFormatKw_upper, hf', Bool.false_eq_true, if_false,
      pre_cons, ih]
    rw [show Tok.name (upper f) = upTok (.name f) from rfl, pre1_upTok]
  | case5 x t rest ht ih =>
    rw [List.map_cons, fmtxGo_fmt x _ _ (upTok_ne_eos ht), fmtxGo_fmt x t rest ht, pre_append,
      pre_append, pre_explode_upTok, ih]
  | case6 x t rest ht h2 ih =>
    have h2' : ∀ (l f : Str) (r : List Tok), x = true → upTok t = .label l →
        rest.map upTok = .name f :: r → False := by
      intro l f r hx hl hr
      cases t <;> simp [upTok] at hl
      subst hl
      cases rest with
      | nil => simp at hr
      | cons t2 r2 =>
        cases t2 <;> simp [upTok] at hr
        exact h2 _ _ _ hx rfl rfl
    rw [List.map_cons, fmtxGo_other x _ _ (upTok_ne_eos ht) h2', fmtxGo_other x t rest ht h2,
      pre_cons, pre_cons, pre1_upTok, ih]

theorem pre_fmtx_upTok (ts : List Tok) : pre (fmtx (ts.map upTok)) = pre (fmtx ts) :=
  pre_fmtxGo_upTok true false ts

/-- token lists that agree up to letter case outside character literals have the same normal
    form, with and without the FORMAT expansion -/
theorem norm_fmtx_of_upTok_eq {a b : List Tok} (h : a.map upTok = b.map upTok) :
    norm (fmtx a) = norm (fmtx b) := by
  have : pre (fmtx a) = pre (fmtx b) := by
    rw [← pre_fmtx_upTok a, ← pre_fmtx_upTok b, h]
  unfold norm
  simp only [this]

theorem norm_of_upTok_eq {a b : List Tok} (h : a.map upTok = b.map upTok) : norm a = norm b := by
  have : pre a = pre b := by rw [← pre_map_upTok a, ← pre_map_upTok b, h]
  unfold norm
  simp only [this]

end Fp.Norm
