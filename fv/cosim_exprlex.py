"""Co-simulation of the string level of model M-C (lean/FparserModel/ExprLex.lean) against the
real `fparser.two.pattern_tools.Pattern.rsplit/lsplit`, `BinaryOpBase.match`, `UnaryOpBase.match`.

  A  tables       `exprlex.table <name>` for every table of Generated/ExprLexTables.lean: the Lean
                  hand scanners replay the tabulated behaviour of the real compiled regexes
                  (exhaustive over all short strings of the per-pattern alphabets);
  B  split-enum   on the same enumerations, the real `Pattern.rsplit(s)`, `Pattern.lsplit(s)` and
                  `Pattern.rsplit(s, is_add=True)` against `rsplitS/lsplitS` (`exprlex.enum`);
  C  split-expr   on the expression texts of `fv.cosim_expr.gen_cases/enum_cases/gen_malformed`
                  (the line returned by the real `string_replace_map`, and every half obtained by
                  splitting it): every pattern, rsplit and lsplit;
  D  step         the real `BinaryOpBase.match(ident, pattern, ident, text, right, exclude)` and
                  `UnaryOpBase.match(pattern, ident, text)` with the identity in place of the
                  operand classes (so the result is `(repmap(lhs), oper, repmap(rhs))`) against
                  `binStepS/unStepS` applied to the line, for every level of the chain;
  E  lexer        `lexExpr(line)` against the depth-0 token words of the generated case
                  (statistics: how many texts are lexable; every lexable one must agree);
  F  parser       `parseSF` on the line (operands opaque) against the token-level `parse` on
                  `lexExpr(line)` (the Lean theorem `parse_string_refines`, tested).

0 disagreements are required in A-D and on the lexable texts of E, F.
Run:  timeout 900 /venv/bin/python -m fv.cosim_exprlex --seed 0 --n 3000
"""
import argparse
import collections
import os
import random
import sys
import time

from fv import repo
from fv import model as fvmodel
from fv import cosim_expr

try:
    from fv import extract_exprlex
except ImportError:          # development copy outside the package
    import extract_exprlex

PATS = {  # Lean Pat name -> pattern_tools attribute
    "power": "power_op", "mult": "mult_op", "add": "add_op", "concat": "concat_op",
    "rel": "rel_op", "not": "not_op", "and": "and_op", "or": "or_op", "equiv": "equiv_op",
    "defined": "defined_binary_op",
}
# the chain: (class, kind, Lean Pat, right, excl)
LEVELS = [
    ("Expr", "bin", "defined", True, True), ("Level_5_Expr", "bin", "equiv", True, False),
    ("Equiv_Operand", "bin", "or", True, False), ("Or_Operand", "bin", "and", True, False),
    ("And_Operand", "un", "not", None, False), ("Level_4_Expr", "bin", "rel", True, False),
    ("Level_3_Expr", "bin", "concat", True, False), ("Level_2_Expr", "bin", "add", True, False),
    ("Level_2_Unary_Expr", "un", "add", None, False), ("Add_Operand", "bin", "mult", True, False),
    ("Mult_Operand", "bin", "power", False, False), ("Level_1_Expr", "un", "defined", None, False),
]


def real():
    repo.activate()
    from fparser.two import pattern_tools as pt
    from fparser.two import utils
    from fparser.common.splitline import string_replace_map
    return pt, utils, string_replace_map


def real_split(pat, mode, s):
    try:
        if mode == "r":
            r = pat.rsplit(s)
        elif mode == "ra":
            r = pat.rsplit(s, is_add=True)
        else:
            r = pat.lsplit(s)
    except AssertionError as exc:
        return "assert %s" % exc
    return None if r is None else tuple(r)


def fmt3(r):
    return "-" if r is None else "|".join(r)


def check_tables(model, out):
    bad = 0
    total = 0
    for name in extract_exprlex.TABLE_NAMES:
        b, n, first = model.ask("exprlex.table", name)
        total += int(n)
        if int(b):
            bad += int(b)
            out.append("table %s: %s mismatches of %s, first %s" % (name, b, n, first))
    return bad, total


def check_enum(model, out):
    pt, _, _ = real()
    bad = 0
    total = 0
    for name, (attr, ctor, alphabet, maxlen) in extract_exprlex.SPLIT_TABLES.items():
        pat = getattr(pt, attr).named()
        ins = list(extract_exprlex.enumerate_inputs(alphabet, maxlen))
        for mode in ("r", "l", "ra"):
            got = model.ask("exprlex.enum", ctor, mode, str(maxlen), "".join(alphabet))[0].split("\n")
            if len(got) != len(ins):
                out.append("enum %s %s: %d lines for %d inputs" % (name, mode, len(got), len(ins)))
                bad += 1
                continue
            for s, g in zip(ins, got):
                want = real_split(pat, mode, s)
                want = want if isinstance(want, str) else fmt3(want)
                total += 1
                if g != want:
                    bad += 1
                    if len(out) < 40:
                        out.append("enum %s mode %s input %r: model %r real %r" % (name, mode, s, g, want))
    return bad, total


def sub_lines(pt, line, limit=40):
    """the line and every half reachable by real rsplit/lsplit with any pattern"""
    seen = []
    todo = [line]
    while todo and len(seen) < limit:
        s = todo.pop()
        if s in seen:
            continue
        seen.append(s)
        for attr in PATS.values():
            pat = getattr(pt, attr).named()
            for r in (pat.rsplit(s), pat.lsplit(s)):
                if r:
                    for h in (r[0], r[2]):
                        if h and h not in seen:
                            todo.append(h)
    return seen


def balanced(case):
    depth = 0
    for tok in case["tokens"]:
        if tok == "(":
            depth += 1
        elif tok == ")":
            depth -= 1
            if depth < 0:
                return False
    return depth == 0


def depth0_words(case):
    """the token words of the case with every parenthesis group collapsed into one operand;
    returns a list of (kind, glued) with kind = operator spelling (upper) | '@' | '@.'
    (None when the parentheses are unbalanced: `string_replace_map` then shows stray
    parentheses as operand text)"""
    if not balanced(case):
        return None
    out = []
    depth = 0
    for w, tok in zip(case["words"], case["tokens"]):
        g = w.startswith("~")
        body = w[1:] if g else w
        if body == "(":
            if depth == 0:
                out.append(("@", g))
            depth += 1
        elif body == ")":
            depth = max(depth - 1, 0)
        elif depth == 0:
            if body.startswith("@."):
                out.append(("@.", g))
            elif body.startswith("@"):
                out.append(("@", g))
            else:
                out.append((body.upper(), g))
    return out


def model_words(reply):
    if reply[0] != "some":
        return None
    out = []
    for w in reply[1].split():
        g = w.startswith("~")
        body = w[1:] if g else w
        if body.startswith("@."):
            out.append(("@.", g))
        elif body.startswith("@"):
            out.append(("@", g))
        else:
            out.append((body.upper(), g))
    return out


def main(argv=None):
    ap = argparse.ArgumentParser(description=__doc__.split("\n")[0])
    ap.add_argument("--seed", type=int, default=0)
    ap.add_argument("--n", type=int, default=3000)
    ap.add_argument("--depth", type=int, default=6)
    ap.add_argument("--exe", default=os.environ.get("FV_MODEL_EXE"))
    ap.add_argument("--show", type=int, default=8)
    ap.add_argument("--no-tables", action="store_true")
    args = ap.parse_args(argv)
    t0 = time.time()
    rng = random.Random(args.seed)
    model = fvmodel.Model(args.exe) if args.exe else fvmodel.get_model()
    pt, utils, srm = real()
    msgs = []
    ok = True

    if not args.no_tables:
        bad, total = check_tables(model, msgs)
        print("A tables: %d inputs, %d mismatches (%.1fs)" % (total, bad, time.time() - t0))
        ok &= bad == 0
        bad, total = check_enum(model, msgs)
        print("B split-enum (rsplit, lsplit, rsplit is_add) on the table enumerations: %d comparisons, "
              "%d disagreements (%.1fs)" % (total, bad, time.time() - t0))
        ok &= bad == 0

    cases = cosim_expr.enum_cases(2)
    cases += cosim_expr.gen_cases(rng, args.n, args.depth)
    cases += cosim_expr.gen_malformed(rng, max(args.n // 4, 200))
    extra = ["a+.x.1.0e-3", "a .x. and .or. c", "a / / b", "a/=b", "a /= b /= c", "a***b", "a//=b",
             "a . and . b", "a.AND.b", ".not.a", ". NOT . a", "-a", "+ a", "a**b**c", "a* *b",
             "a.eq.b.and.c", "a.b.c.d.e", "1.e.2", ".true..and..false.", "a .and.b", "a < = b",
             "a<=b", "a==b", "a===b", "a=b", "", " ", "a", " a + b ", "a+b ", ".x.", "a .x.", ".x. a",
             "a .false. b", ". true . .x. b", "a .eqv. b .neqv. c", "a*b/c", "a//b//c", "x .andalso. y"]
    soup_pieces = ["a", "b1", " ", "  ", " ", "*", "**", "/", "//", "/=", "==", "<=", "<", ">=", ">", "+",
                   "-", ".and.", ".or.", ".not.", ".eq.", ".x.", ". and .", ".true.", "=", ".", "1.5",
                   "(x)", ".eqv.", ".NE.", "and", "\t"]
    for _ in range(args.n):
        extra.append("".join(rng.choice(soup_pieces) for _ in range(rng.randint(1, 8))).strip())
    lines = []
    for c in cases:
        lines.append((c, srm(c["text"])[0]))
    for t in extra:
        lines.append((None, srm(t)[0]))

    # C: rsplit/lsplit on the lines and their halves
    reqs = []
    meta = []
    for _, line in lines:
        for s in sub_lines(pt, line, limit=12):
            for name, attr in PATS.items():
                for mode in ("r", "l"):
                    reqs.append(("exprlex.split", name, mode, s))
                    meta.append((name, attr, mode, s))
    bad = 0
    replies = model.ask_many(reqs)
    for (name, attr, mode, s), rep in zip(meta, replies):
        want = real_split(getattr(pt, attr).named(), mode, s)
        got = None if rep[0] == "none" else tuple(rep[1:4])
        if got != want:
            bad += 1
            if len(msgs) < 40:
                msgs.append("split %s %s %r: model %r real %r" % (name, mode, s, got, want))
    print("C split-expr: %d lines (+halves), %d comparisons, %d disagreements (%.1fs)"
          % (len(lines), len(reqs), bad, time.time() - t0))
    ok &= bad == 0

    # D: BinaryOpBase.match / UnaryOpBase.match with identity operand classes
    ident = lambda s: s  # noqa: E731
    reqs = []
    meta = []
    for case, line in lines:
        text = case["text"] if case is not None else None
        if text is None:
            continue
        for cls, kind, name, right, excl in LEVELS:
            pat = getattr(pt, PATS[name]).named()
            if kind == "bin":
                want = utils.BinaryOpBase.match(
                    ident, pat, ident, text, right=right,
                    exclude_op_pattern=pt.non_defined_binary_op if excl else None)
                reqs.append(("exprlex.bin", name, "1" if right else "0", "1" if excl else "0", line))
            else:
                # the unary classes do not call string_replace_map: the argument is the text
                want = utils.UnaryOpBase.match(pat, ident, text)
                reqs.append(("exprlex.un", name, text))
            meta.append((cls, kind, text, line, want))
    replies = model.ask_many(reqs)
    bad = 0
    nsplit = 0
    for (cls, kind, text, line, want), rep in zip(meta, replies):
        if kind == "bin":
            got = None
            if rep[0] == "some":
                _, repmap = srm(text)
                got = (repmap(rep[1]), rep[2], repmap(rep[3]))
        else:
            got = None if rep[0] == "none" else (rep[1], rep[2])
        if want is not None:
            nsplit += 1
        if got != (tuple(want) if want is not None else None):
            bad += 1
            if len(msgs) < 40:
                msgs.append("step %s %r (line %r): model %r real %r" % (cls, text, line, got, want))
    print("D step: %d (text, class) pairs, real matched %d, %d disagreements (%.1fs)"
          % (len(reqs), nsplit, bad, time.time() - t0))
    ok &= bad == 0

    # E: lexer, F: string parser vs token parser
    replies = model.ask_many([("exprlex.lex", line) for _, line in lines])
    unlex = []
    bad = 0
    nlex = 0
    ncmp = 0
    lexed = []
    for (case, line), rep in zip(lines, replies):
        got = model_words(rep)
        if got is None:
            unlex.append((case["stream"] if case else "extra", case["text"] if case else line, line))
            continue
        nlex += 1
        lexed.append((line, rep[1]))
        if case is None:
            continue
        want = depth0_words(case)
        if want is None:
            continue
        ncmp += 1
        # the first token's flag is conventional
        if got and want:
            got = [(got[0][0], False)] + got[1:]
            want = [(want[0][0], False)] + want[1:]
        if got != want and not cosim_expr.in_lexing_boundary(case):
            bad += 1
            if len(msgs) < 40:
                msgs.append("lex %r (line %r): model %r case %r" % (case["text"], line, got, want))
    per = collections.Counter(u[0] for u in unlex)
    print("E lexer: %d lines, %d lexable, %d unlexable %s, %d compared with the generated "
          "token words, %d disagreements (%.1fs)"
          % (len(lines), nlex, len(unlex), dict(per), ncmp, bad, time.time() - t0))
    for u in unlex[: args.show]:
        print("    unlexable [%s] %r (line %r)" % u)
    ok &= bad == 0

    reqs = []
    fmeta = []
    for line, words in lexed:
        for cls in [lv[0] for lv in LEVELS] + ["Primary"]:
            reqs.append(("exprlex.parse", line, cls))
            reqs.append(("expr", words, cls))
            fmeta.append((line, cls))
    replies = model.ask_many(reqs)
    bad = 0
    acc = 0
    for i, (line, cls) in enumerate(fmeta):
        a, b = replies[2 * i][0], replies[2 * i + 1][0]
        if a != "reject":
            acc += 1
        if a != b:
            bad += 1
            if len(msgs) < 40:
                msgs.append("parse %s %r: string %r token %r" % (cls, line, a, b))
    print("F parser: %d lexable lines x 13 classes, string-level parser == token-level parser on all "
          "but %d (%d accepted) (%.1fs)" % (len(lexed), bad, acc, time.time() - t0))
    ok &= bad == 0

    for m in msgs[:40]:
        print("   ", m)
    print("RESULT:", "PASS" if ok else "FAIL")
    model.close()
    return 0 if ok else 1


if __name__ == "__main__":
    sys.exit(main())
