import FparserModel.Proofs.PrimaryFix
import FparserModel.Proofs.PrimaryLit
/-!
Property (b) of the `Primary` slice for the remaining `NumberBase` classes: parse → print → parse gives the
same node (`X_match_tostr_fixpoint`), UNCONDITIONAL for

    Signed_Int_Literal_Constant, Logical_Literal_Constant, Real_Literal_Constant, Signed_Real_Literal_Constant

(and `Int_Literal_Constant` again as an instance of the generic theorem `number_fixpoint`).

Technique: a simulation `Sim r rest x y` (`x = p ++ r`, `y = upper p ++ rest`) between the scanned text
`x = value ++ r` and the printed text `y = upper value ++ rest` (`rest = ""` or `_kind`).  Every value scanner
that stops at or before `r` on `x` makes the same steps on `y` (the character tests are invariant under
`upperC`, the printed remainder `rest` stops every scanner).  The value may contain tabs (`1\t.\t5`,
`1.\t_k` has the value `1.\t`): they are kept by `match` and by `tostr`, and re-scanned identically.
-/
namespace Fp.Primary
open Fp Fp.Splitline
open Fp.IoStmt (Res Exc Slot Item Oracle Std runSlots runSlot echoO)
open Fp.IoStmt

variable {Node : Type}

/-! ## characters -/

theorem upperC_pred (P : Char → Bool)
    (h : ∀ n, n < 123 → 97 ≤ n → P (Char.ofNat (n - 32)) = P (Char.ofNat n)) (c : Char) :
    P (upperC c) = P c := by
  unfold upperC
  split
  · rename_i hc
    have h1 : 97 ≤ c.toNat := hc.1
    have h2 : c.toNat ≤ 122 := hc.2
    have := h c.toNat (by omega) h1
    rwa [Char.ofNat_toNat] at this
  · rfl

theorem upperC_isDigit (c : Char) : isDigit (upperC c) = isDigit c := upperC_pred isDigit (by decide) c
theorem upperC_isAlpha (c : Char) : isAlpha (upperC c) = isAlpha c := upperC_pred isAlpha (by decide) c
theorem upperC_dot (c : Char) : (upperC c == '.') = (c == '.') := upperC_pred (· == '.') (by decide) c
theorem upperC_plus (c : Char) : (upperC c == '+') = (c == '+') := upperC_pred (· == '+') (by decide) c
theorem upperC_minus (c : Char) : (upperC c == '-') = (c == '-') := upperC_pred (· == '-') (by decide) c
theorem upperC_blank (c : Char) : (upperC c != ' ') = (c != ' ') := upperC_pred (· != ' ') (by decide) c

theorem drop_takeWhile_len (P : Char → Bool) : ∀ l : Str, l.drop (l.takeWhile P).length = l.dropWhile P
  | [] => rfl
  | c :: l => by
    by_cases h : P c = true <;> simp [h, drop_takeWhile_len P l]

theorem suffix_antisymm {a b : Str} (h1 : a <:+ b) (h2 : b <:+ a) : a = b :=
  h1.eq_of_length (Nat.le_antisymm h1.length_le h2.length_le)

/-! ## the simulation -/

/-- `x = p ++ r` and `y = upper p ++ rest` : the same consumed text up to case, in front of the two
    remainders -/
def Sim (r rest x y : Str) : Prop := ∃ p, x = p ++ r ∧ y = upper p ++ rest

/-- the printed remainder: nothing, or `_kind` -/
def NB (rest : Str) : Prop := ∀ c ∈ rest.head?, c = '_'

theorem NB_nil : NB [] := by intro c hc; simp at hc
theorem NB_us (k : Str) : NB ('_' :: k) := by intro c hc; simp at hc; exact hc.symm

variable {r rest : Str}

theorem Sim.cons_inv {x y : Str} {c : Char} (h : Sim r rest (c :: x) y) (hs : r <:+ x) :
    ∃ y', y = upperC c :: y' ∧ Sim r rest x y' := by
  obtain ⟨p, hp, rfl⟩ := h
  cases p with
  | nil =>
    simp only [List.nil_append] at hp
    subst hp
    have := hs.length_le
    rw [List.length_cons] at this
    omega
  | cons d p =>
    simp only [List.cons_append, List.cons.injEq] at hp
    obtain ⟨rfl, rfl⟩ := hp
    exact ⟨upper p ++ rest, rfl, p, rfl, rfl⟩

theorem Sim.self_inv {y : Str} (h : Sim r rest r y) : y = rest := by
  obtain ⟨p, hp, rfl⟩ := h
  have : p = [] := by
    have := congrArg List.length hp
    rw [List.length_append] at this
    exact List.eq_nil_of_length_eq_zero (by omega)
  subst this
  rfl

theorem Sim.of_suffix {x : Str} (h : r <:+ x) : Sim r rest x (upper (takePre x r) ++ rest) :=
  ⟨takePre x r, (takePre_append h).symm, rfl⟩

/-- `dropWhile`/`takeWhile` of a test that does not see the case and refuses the head of `rest` -/
theorem Sim.dropWhile (P : Char → Bool) (hP : ∀ c, P (upperC c) = P c)
    (hrest : ∀ c ∈ rest.head?, P c = false) {x y : Str} (h : Sim r rest x y)
    (hs : r <:+ x.dropWhile P) :
    Sim r rest (x.dropWhile P) (y.dropWhile P) ∧ y.takeWhile P = upper (x.takeWhile P) := by
  obtain ⟨p, rfl, rfl⟩ := h
  induction p with
  | nil =>
    have hr : r.dropWhile P = r ∧ r.takeWhile P = [] := by
      cases r with
      | nil => simp
      | cons c r' =>
        by_cases hc : P c = true
        · exfalso
          rw [List.nil_append, List.dropWhile_cons_of_pos hc] at hs
          have := (hs.trans (List.dropWhile_suffix P)).length_le
          rw [List.length_cons] at this
          omega
        · simp [hc]
    have hy : rest.dropWhile P = rest ∧ rest.takeWhile P = [] := by
      cases rest with
      | nil => simp
      | cons c r' =>
        have := hrest c (by simp)
        simp [this]
    simp only [List.nil_append, upper, List.map_nil, hr.1, hr.2, hy.1, hy.2]
    exact ⟨⟨[], rfl, rfl⟩, trivial⟩
  | cons c p ih =>
    by_cases hc : P c = true
    · have hc' : P (upperC c) = true := by rw [hP]; exact hc
      have e1 : (c :: p ++ r).dropWhile P = (p ++ r).dropWhile P := List.dropWhile_cons_of_pos hc
      have e2 : (upper (c :: p) ++ rest).dropWhile P = (upper p ++ rest).dropWhile P :=
        List.dropWhile_cons_of_pos hc'
      have e3 : (c :: p ++ r).takeWhile P = c :: (p ++ r).takeWhile P := List.takeWhile_cons_of_pos hc
      have e4 : (upper (c :: p) ++ rest).takeWhile P = upperC c :: (upper p ++ rest).takeWhile P :=
        List.takeWhile_cons_of_pos hc'
      rw [e1] at hs
      obtain ⟨i1, i2⟩ := ih hs
      rw [e1, e2, e3, e4, i2]
      exact ⟨i1, rfl⟩
    · have hc' : ¬ P (upperC c) = true := by rw [hP]; exact hc
      have e1 : (c :: p ++ r).dropWhile P = c :: p ++ r := List.dropWhile_cons_of_neg hc
      have e2 : (upper (c :: p) ++ rest).dropWhile P = upper (c :: p) ++ rest :=
        List.dropWhile_cons_of_neg hc'
      have e3 : (c :: p ++ r).takeWhile P = [] := List.takeWhile_cons_of_neg hc
      have e4 : (upper (c :: p) ++ rest).takeWhile P = [] := List.takeWhile_cons_of_neg hc'
      rw [e1, e2, e3, e4]
      exact ⟨⟨c :: p, rfl, rfl⟩, rfl⟩

/-! ## the scanners commute with the simulation -/

theorem NB.not_space (hn : NB rest) : ∀ c ∈ rest.head?, isSpace c = false := by
  intro c hc; rw [hn c hc]; decide
theorem NB.not_digit (hn : NB rest) : ∀ c ∈ rest.head?, isDigit c = false := by
  intro c hc; rw [hn c hc]; decide
theorem NB.not_alpha (hn : NB rest) : ∀ c ∈ rest.head?, isAlpha c = false := by
  intro c hc; rw [hn c hc]; decide

theorem skipWs_sim (hn : NB rest) {x y : Str} (h : Sim r rest x y) (hs : r <:+ skipWs x) :
    Sim r rest (skipWs x) (skipWs y) :=
  (h.dropWhile isSpace upperC_space hn.not_space hs).1

theorem optSign_other {c : Char} (t : Str) (h1 : (c == '+') = false) (h2 : (c == '-') = false) :
    optSign (c :: t) = c :: t := by
  unfold optSign
  split
  · rename_i e; cases e; simp at h1
  · rename_i e; cases e; simp at h2
  · rfl

theorem optSign_NB (hn : NB rest) : optSign rest = rest := by
  cases rest with
  | nil => rfl
  | cons c t =>
    have := hn c (by simp)
    subst this
    rfl

theorem optSign_sim (hn : NB rest) {x y : Str} (h : Sim r rest x y) (hs : r <:+ optSign x) :
    Sim r rest (optSign x) (optSign y) := by
  obtain ⟨p, rfl, rfl⟩ := h
  cases p with
  | nil =>
    have e : optSign r = r := suffix_antisymm (optSign_suffix r) hs
    simp only [List.nil_append, upper, List.map_nil, e, optSign_NB hn]
    exact ⟨[], rfl, rfl⟩
  | cons c p =>
    by_cases h1 : c = '+'
    · subst h1
      exact ⟨p, rfl, rfl⟩
    by_cases h2 : c = '-'
    · subst h2
      exact ⟨p, rfl, rfl⟩
    have e1 : (c == '+') = false := by simpa using h1
    have e2 : (c == '-') = false := by simpa using h2
    have e3 : optSign (c :: p ++ r) = c :: p ++ r := optSign_other _ e1 e2
    have e4 : optSign (upper (c :: p) ++ rest) = upper (c :: p) ++ rest :=
      optSign_other _ (by rw [upperC_plus]; exact e1) (by rw [upperC_minus]; exact e2)
    rw [e3, e4]
    exact ⟨c :: p, rfl, rfl⟩

theorem digits1_NB (hn : NB rest) : digits1 rest = none := by
  cases rest with
  | nil => rfl
  | cons c t =>
    have := hn c (by simp)
    subst this
    rfl

theorem digits1_sim (hn : NB rest) {x y x1 : Str} (h : Sim r rest x y) (hd : digits1 x = some x1)
    (hs : r <:+ x1) : ∃ y1, digits1 y = some y1 ∧ Sim r rest x1 y1 := by
  unfold digits1 at hd
  split at hd
  · rename_i c x'
    split at hd
    · rename_i hc
      cases hd
      rw [List.dropWhile_cons_of_pos hc] at hs ⊢
      have hs' : r <:+ x' := hs.trans (List.dropWhile_suffix _)
      obtain ⟨y', rfl, h'⟩ := h.cons_inv hs'
      have hc' : isDigit (upperC c) = true := by rw [upperC_isDigit]; exact hc
      refine ⟨y'.dropWhile isDigit, ?_, (h'.dropWhile isDigit upperC_isDigit hn.not_digit hs).1⟩
      unfold digits1
      simp only [hc', if_true, List.dropWhile_cons_of_pos hc']
    · cases hd
  · cases hd

theorem digits1_none_sim (hn : NB rest) {x y : Str} (h : Sim r rest x y) (hd : digits1 x = none) :
    digits1 y = none := by
  obtain ⟨p, rfl, rfl⟩ := h
  cases p with
  | nil => exact digits1_NB hn
  | cons c p =>
    have hc : isDigit c = false := by
      cases hcd : isDigit c with
      | false => rfl
      | true => simp [digits1, hcd] at hd
    show digits1 (upperC c :: (upper p ++ rest)) = none
    simp [digits1, upperC_isDigit, hc]

theorem expPart_NB (hn : NB rest) : expPart rest = none := by
  cases rest with
  | nil => rfl
  | cons c t =>
    have := hn c (by simp)
    subst this
    rfl

theorem expPart_sim (hn : NB rest) {x y x1 : Str} (h : Sim r rest x y) (he : expPart x = some x1)
    (hs : r <:+ x1) : ∃ y1, expPart y = some y1 ∧ Sim r rest x1 y1 := by
  unfold expPart at he
  split at he
  · rename_i c x'
    split at he
    · rename_i hc
      have a3 : r <:+ skipWs (optSign (skipWs x')) := hs.trans (digits1_suffix he)
      have a2 : r <:+ optSign (skipWs x') := a3.trans (skipWs_suffix _)
      have a1 : r <:+ skipWs x' := a2.trans (optSign_suffix _)
      have a0 : r <:+ x' := a1.trans (skipWs_suffix _)
      obtain ⟨y', rfl, h0⟩ := h.cons_inv a0
      have h1 := skipWs_sim hn h0 a1
      have h2 := optSign_sim hn h1 a2
      have h3 := skipWs_sim hn h2 a3
      obtain ⟨y1, hy, h4⟩ := digits1_sim hn h3 he hs
      refine ⟨y1, ?_, h4⟩
      unfold expPart
      simp only [Norm.upperC_idem]
      rw [if_pos hc]
      exact hy
    · cases he
  · cases he

theorem digits1_not_dot {t y1 : Str} (h : digits1 ('.' :: t) = some y1) : False := by
  simp [digits1, show isDigit '.' = false by decide] at h

/-- the second alternative of `significand` evaluated -/
theorem significand_eval {y y1 y2 : Str} (h1 : digits1 y = some y1) (h2 : skipWs y1 = '.' :: y2) :
    significand y = (match digits1 (skipWs y2) with | some r4 => some r4 | none => some y2) := by
  unfold significand
  split
  · exact (digits1_not_dot h1).elim
  · rw [h1]
    dsimp only
    rw [h2]
    rfl

theorem significand_none_of {y y1 y2 : Str} (h1 : digits1 y = some y1)
    (h2 : expPart (skipWs y1) = some y2) : significand y = none := by
  unfold significand
  split
  · exact (digits1_not_dot h1).elim
  · rw [h1]
    dsimp only
    split
    · rename_i r2 e
      rw [e] at h2
      simp [expPart, show upperC '.' = '.' by decide] at h2
    · rfl

theorem significand_sim (hn : NB rest) {x y x1 : Str} (h : Sim r rest x y)
    (hg : significand x = some x1) (hs : r <:+ skipWs x1) :
    ∃ y1, significand y = some y1 ∧ Sim r rest x1 y1 := by
  unfold significand at hg
  split at hg
  · rename_i x'
    have a2 : r <:+ x1 := hs.trans (skipWs_suffix _)
    have a1 : r <:+ skipWs x' := a2.trans (digits1_suffix hg)
    have a0 := a1.trans (skipWs_suffix _)
    obtain ⟨y', rfl, h0⟩ := h.cons_inv a0
    have h1 := skipWs_sim hn h0 a1
    obtain ⟨y1, hy, h2⟩ := digits1_sim hn h1 hg a2
    refine ⟨y1, ?_, h2⟩
    rw [show upperC '.' = '.' by decide]
    unfold significand
    exact hy
  · split at hg
    · cases hg
    · rename_i r1 hd1
      split at hg
      · rename_i r2 h2eq
        dsimp only at hg
        have b2 : r <:+ skipWs r2 := by
          split at hg
          · rename_i r4 h4
            cases hg
            exact (hs.trans (skipWs_suffix _)).trans (digits1_suffix h4)
          · cases hg; exact hs
        have b1 : r <:+ r2 := b2.trans (skipWs_suffix _)
        have b0 : r <:+ skipWs r1 := by rw [h2eq]; exact b1.trans (List.suffix_cons _ _)
        obtain ⟨y1, hy1, s1⟩ := digits1_sim hn h hd1 (b0.trans (skipWs_suffix _))
        have s2 := skipWs_sim hn s1 b0
        rw [h2eq] at s2
        obtain ⟨y2, hy2, s3⟩ := s2.cons_inv b1
        rw [show upperC '.' = '.' by decide] at hy2
        have s4 := skipWs_sim hn s3 b2
        rw [significand_eval hy1 hy2]
        split at hg
        · rename_i r4 h4
          cases hg
          obtain ⟨y4, hy4, s5⟩ := digits1_sim hn s4 h4 (hs.trans (skipWs_suffix _))
          exact ⟨y4, by rw [hy4], s5⟩
        · rename_i h4
          cases hg
          rw [digits1_none_sim hn s4 h4]
          exact ⟨y2, rfl, s3⟩
      · cases hg

/-- **the real value** : scanned up to `r` on `x`, it is scanned up to `rest` on the printed text -/
theorem realValue_sim (hn : NB rest) {x y : Str} (h : Sim r rest x y) (hv : realValue x = some r) :
    realValue y = some rest := by
  unfold realValue at hv
  split at hv
  · rename_i r0 hsig
    dsimp only at hv
    have key : r <:+ skipWs r0 := by
      split at hv
      · rename_i r'' he
        cases hv
        exact expPart_suffix he
      · cases hv; exact List.suffix_refl _
    obtain ⟨y0, hy0, h0⟩ := significand_sim hn h hsig key
    have h1 := skipWs_sim hn h0 key
    unfold realValue
    rw [hy0]
    dsimp only
    split at hv
    · rename_i r'' he
      cases hv
      obtain ⟨y1, hy1, h2⟩ := expPart_sim hn h1 he (List.suffix_refl _)
      have := h2.self_inv
      subst this
      rw [hy1]
    · injection hv with hv
      rw [hv] at h1
      have := h1.self_inv
      rw [this, expPart_NB hn]
  · split at hv
    · rename_i r1 hd1
      have a1 : r <:+ skipWs r1 := expPart_suffix hv
      have a0 := a1.trans (skipWs_suffix _)
      obtain ⟨y1, hy1, h1⟩ := digits1_sim hn h hd1 a0
      have h2 := skipWs_sim hn h1 a1
      obtain ⟨y2, hy2, h3⟩ := expPart_sim hn h2 hv (List.suffix_refl _)
      have := h3.self_inv
      subst this
      unfold realValue
      rw [significand_none_of hy1 hy2, hy1]
      exact hy2
    · cases hv

theorem logicalValue_dot (r : Str) : logicalValue ('.' :: r) =
    (if upper ((skipWs r).takeWhile isAlpha) == "TRUE".toList ||
        upper ((skipWs r).takeWhile isAlpha) == "FALSE".toList then
      match skipWs ((skipWs r).drop ((skipWs r).takeWhile isAlpha).length) with
      | '.' :: r2 => some r2
      | _ => none
    else none) := rfl

/-- **the logical value** -/
theorem logicalValue_sim (hn : NB rest) {x y : Str} (h : Sim r rest x y) (hv : logicalValue x = some r) :
    logicalValue y = some rest := by
  unfold logicalValue at hv
  split at hv
  · rename_i x0
    dsimp only at hv
    split at hv
    · rename_i hw
      split at hv
      · rename_i r2 h2
        cases hv
        rw [drop_takeWhile_len] at h2
        have a3 : r <:+ skipWs ((skipWs x0).dropWhile isAlpha) := by rw [h2]; exact List.suffix_cons _ _
        have a2 := a3.trans (skipWs_suffix _)
        have a1 := a2.trans (List.dropWhile_suffix _)
        have a0 := a1.trans (skipWs_suffix _)
        obtain ⟨y0, rfl, h0⟩ := h.cons_inv a0
        have h1 := skipWs_sim hn h0 a1
        obtain ⟨h2', htw⟩ := h1.dropWhile isAlpha upperC_isAlpha hn.not_alpha a2
        have h3 := skipWs_sim hn h2' a3
        rw [h2] at h3
        obtain ⟨y3, hy3, h4⟩ := h3.cons_inv (List.suffix_refl _)
        have := h4.self_inv
        subst this
        rw [show upperC '.' = '.' by decide] at hy3 ⊢
        rw [logicalValue_dot, drop_takeWhile_len, htw, Norm.upper_idem, if_pos hw, hy3]
        rfl
      · cases hv
    · cases hv
  · cases hv

/-! ## NumberBase, generic -/

theorem kindTail_kindSuffix {k : Option Str} (hk : ∀ k', k = some k' → isKindParam k' = true) :
    kindTail (kindSuffix k) = some k := by
  cases k with
  | none => rfl
  | some k =>
    have hk := hk k rfl
    have h2 : skipWs ('_' :: k) = '_' :: k := by simp [skipWs, isSpace]
    simp only [kindSuffix, kindTail, h2, (isKindParam_head hk).1, hk, if_true]

theorem NB_kindSuffix (k : Option Str) : NB (kindSuffix k) := by
  cases k with
  | none => exact NB_nil
  | some k => exact NB_us k

theorem mem_takePre {x r : Str} {c : Char} (h : c ∈ takePre x r) : c ∈ x := List.mem_of_mem_take h

/-- **NumberBase** : every scanner of the shape "value scanner `val`, then the kind tail" whose value scanner
    commutes with the simulation has the parse → print → parse fixpoint -/
theorem number_fixpoint (val : Str → Option Str) (scan : Str → Option (Str × Option Str))
    (hscan : ∀ s, scan s = match val s with
      | none => none
      | some r => (kindTail r).map fun k => (takePre s r, k))
    (hsuf : ∀ s r, val s = some r → r <:+ s)
    (hsim : ∀ r rest x y, NB rest → Sim r rest x y → val x = some r → val y = some rest)
    (o : Oracle Node) (s : Str) (items : List (Item Node)) (t : Str)
    (hm : (planNumber scan s).bind (runSlots o) = .ok items) (ht : tostrNumber o items = .ok t) :
    (planNumber scan t).bind (runSlots o) = .ok items := by
  obtain ⟨v, k, hv, hi, ht'⟩ := planNumber_exact scan o s items hm
  rw [ht'] at ht
  rw [← kindSuffix_eq] at ht
  injection ht with ht
  subst ht
  rw [hscan] at hv
  split at hv
  · cases hv
  · rename_i r hr
    obtain ⟨hk, rfl⟩ := scan_inv hv
    have hkp := (kindTail_content hk).2
    have hsf := hsuf _ _ hr
    have hval := hsim r (kindSuffix k) _ _ (NB_kindSuffix k) (Sim.of_suffix hsf) hr
    -- the printed text has no blank
    have hns : Combi.noSpaces (upper (takePre (Combi.noSpaces s) r) ++ kindSuffix k)
        = upper (takePre (Combi.noSpaces s) r) ++ kindSuffix k := by
      apply noSpaces_of
      intro c hc
      rcases List.mem_append.1 hc with hc | hc
      · simp only [upper, List.mem_map] at hc
        obtain ⟨d, hd, rfl⟩ := hc
        rw [upperC_blank]
        have := mem_takePre hd
        unfold Combi.noSpaces at this
        exact (List.mem_filter.1 this).2
      · cases k with
        | none => simp [kindSuffix] at hc
        | some k =>
          rcases List.mem_cons.1 hc with rfl | hc
          · decide
          · exact (isKindParam_head (hkp k rfl)).2.1 c hc
    have hsc : scan (upper (takePre (Combi.noSpaces s) r) ++ kindSuffix k)
        = some (upper (takePre (Combi.noSpaces s) r), k) := by
      rw [hscan, hval]
      dsimp only
      rw [kindTail_kindSuffix hkp, takePre_append_right]
      rfl
    unfold planNumber
    rw [hns, hsc, hi]
    cases k with
    | none => simp only [Norm.upper_idem]; rfl
    | some k => simp only [Norm.upper_idem]; rfl

/-! ## the classes -/

/-- **Signed_Int_Literal_Constant** (unconditional) -/
theorem Signed_Int_Literal_Constant_match_tostr_fixpoint (o : Oracle Node) (s : Str) (items : List (Item Node))
    (t : Str) (hm : (planSignedIntLit s).bind (runSlots o) = .ok items) (ht : tostrNumber o items = .ok t) :
    (planSignedIntLit t).bind (runSlots o) = .ok items := by
  refine number_fixpoint (fun s => digits1 (skipWs (optSign s))) scanSignedInt (fun _ => rfl) ?_ ?_ o s items t hm ht
  · intro s r h
    exact (digits1_suffix h).trans ((skipWs_suffix _).trans (optSign_suffix _))
  · intro r rest x y hn h hv
    have a1 : r <:+ skipWs (optSign x) := digits1_suffix hv
    have a0 := a1.trans (skipWs_suffix _)
    obtain ⟨y1, hy1, h1⟩ := digits1_sim hn (skipWs_sim hn (optSign_sim hn h a0) a1) hv (List.suffix_refl _)
    have := h1.self_inv
    subst this
    exact hy1

/-- **Logical_Literal_Constant** (unconditional) -/
theorem Logical_Literal_Constant_match_tostr_fixpoint (o : Oracle Node) (s : Str) (items : List (Item Node))
    (t : Str) (hm : (planLogicalLit s).bind (runSlots o) = .ok items) (ht : tostrNumber o items = .ok t) :
    (planLogicalLit t).bind (runSlots o) = .ok items :=
  number_fixpoint logicalValue scanLogical (fun _ => rfl) (fun _ _ h => logicalValue_suffix h)
    (fun _ _ _ _ hn h hv => logicalValue_sim hn h hv) o s items t hm ht

/-- **Real_Literal_Constant** (unconditional) -/
theorem Real_Literal_Constant_match_tostr_fixpoint (o : Oracle Node) (s : Str) (items : List (Item Node))
    (t : Str) (hm : (planRealLit s).bind (runSlots o) = .ok items) (ht : tostrNumber o items = .ok t) :
    (planRealLit t).bind (runSlots o) = .ok items :=
  number_fixpoint realValue scanReal (fun _ => rfl) (fun _ _ h => realValue_suffix h)
    (fun _ _ _ _ hn h hv => realValue_sim hn h hv) o s items t hm ht

/-- **Signed_Real_Literal_Constant** (unconditional) -/
theorem Signed_Real_Literal_Constant_match_tostr_fixpoint (o : Oracle Node) (s : Str) (items : List (Item Node))
    (t : Str) (hm : (planSignedRealLit s).bind (runSlots o) = .ok items) (ht : tostrNumber o items = .ok t) :
    (planSignedRealLit t).bind (runSlots o) = .ok items := by
  refine number_fixpoint (fun s => realValue (skipWs (optSign s))) scanSignedReal (fun _ => rfl) ?_ ?_
    o s items t hm ht
  · intro s r h
    exact (realValue_suffix h).trans ((skipWs_suffix _).trans (optSign_suffix _))
  · intro r rest x y hn h hv
    have a1 : r <:+ skipWs (optSign x) := realValue_suffix hv
    have a0 := a1.trans (skipWs_suffix _)
    exact realValue_sim hn (skipWs_sim hn (optSign_sim hn h a0) a1) hv

/-! ## non-vacuity: hypotheses and conclusion on concrete texts (tabs inside the value included) -/

example : (planSignedIntLit "+ 1_8".toList).bind (runSlots echoO) = .ok [.str "+1".toList, .str "8".toList] ∧
    tostrNumber echoO [.str "+1".toList, .str "8".toList] = .ok "+1_8".toList ∧
    (planSignedIntLit "+1_8".toList).bind (runSlots echoO) = .ok [.str "+1".toList, .str "8".toList] := by
  decide +kernel

example : (planLogicalLit ".true._k".toList).bind (runSlots echoO) = .ok [.str ".TRUE.".toList, .str "k".toList] ∧
    tostrNumber echoO [.str ".TRUE.".toList, .str "k".toList] = .ok ".TRUE._k".toList ∧
    (planLogicalLit ".TRUE._k".toList).bind (runSlots echoO) = .ok [.str ".TRUE.".toList, .str "k".toList] := by
  decide +kernel

example : (planRealLit "1.0e-3_wp".toList).bind (runSlots echoO) = .ok [.str "1.0E-3".toList, .str "wp".toList] ∧
    tostrNumber echoO [.str "1.0E-3".toList, .str "wp".toList] = .ok "1.0E-3_wp".toList ∧
    (planRealLit "1.0E-3_wp".toList).bind (runSlots echoO) = .ok [.str "1.0E-3".toList, .str "wp".toList] := by
  decide +kernel

example : (planSignedRealLit "- 2.5d+3".toList).bind (runSlots echoO) = .ok [.str "-2.5D+3".toList, .none] ∧
    tostrNumber echoO [.str "-2.5D+3".toList, .none] = .ok "-2.5D+3".toList ∧
    (planSignedRealLit "-2.5D+3".toList).bind (runSlots echoO) = .ok [.str "-2.5D+3".toList, .none] := by
  decide +kernel

/-- the value keeps its tabs (`1.<TAB>_k` has the value `1.<TAB>`, `1<TAB>.<TAB>5e<TAB>2` is one value): the
    printed text carries them and is re-scanned to the same node -/
theorem real_tab_witness :
    (planRealLit "1.\t_k".toList).bind (runSlots echoO) = .ok [.str "1.\t".toList, .str "k".toList] ∧
    tostrNumber echoO [.str "1.\t".toList, .str "k".toList] = .ok "1.\t_k".toList ∧
    (planRealLit "1\t.\t5e\t2".toList).bind (runSlots echoO) = .ok [.str "1\t.\t5E\t2".toList, .none] ∧
    (planRealLit "1\t.\t5E\t2".toList).bind (runSlots echoO) = .ok [.str "1\t.\t5E\t2".toList, .none] := by
  decide +kernel

#print axioms number_fixpoint
#print axioms Signed_Int_Literal_Constant_match_tostr_fixpoint
#print axioms Logical_Literal_Constant_match_tostr_fixpoint
#print axioms Real_Literal_Constant_match_tostr_fixpoint
#print axioms Signed_Real_Literal_Constant_match_tostr_fixpoint
#print axioms real_tab_witness

end Fp.Primary
