import FparserModel.Proofs.CppUnique

/-! # Cpp slice: the printed node has the content of the line (modulo blanks) -/
namespace Fp.Cpp
open Fp

theorem noSp_of_word {w : Str} (h : ∀ c ∈ w, isWord c = true) : squash w = w :=
  squash_of_noSp fun c hc => isWord_not_space (h c hc)

theorem squash_hash (t : Str) : squash ('#' :: t) = '#' :: squash t :=
  squash_cons_ns _ (by decide)

theorem squash_shape {l w line : Str} (h : shape l = some (w, line)) :
    squash l = '#' :: (w ++ squash line) := by
  obtain ⟨a, g, h1, h2, h3, _, h5⟩ := shape_elim h
  rw [h1, squash_append, squash_allSp h2, List.nil_append, squash_hash, squash_append,
    squash_allSp h3, List.nil_append, squash_append, noSp_of_word h5]

theorem squash_hashKw {kw s rest : Str} (hk : KW kw) (h : hashKw kw s = some rest) :
    squash s = '#' :: (kw ++ squash rest) := by
  obtain ⟨g, h1, h2, _⟩ := hashKw_elim h
  rw [h1, squash_hash, squash_append, squash_allSp h2, List.nil_append, squash_append,
    noSp_of_word hk.2]

theorem render_word_some {c : Cls} (hc : kwsOf c ≠ []) (kw t : Str) :
    render (.word c kw (some t)) = kw ++ ' ' :: t := by
  cases c <;> first | rfl | exact absurd rfl hc

theorem render_word_none {c : Cls} (hc : requireCls c = false) (kw : Str) :
    render (.word c kw none) = kw := by
  cases c <;> first | rfl | exact absurd hc (by decide)

theorem squash_sp_cons (t : Str) : squash (' ' :: t) = squash t :=
  squash_cons_sp _ (by decide)

/-- what a keyword-driven class returns, in terms of the shape of the line -/
theorem word_result {c : Cls} {l : Str} {n : Node} (hc : kwsOf c ≠ []) (h : matchCls c l = some n) :
    ∃ w line, w ∈ kwsOf c ∧ shape l = some (w, line) ∧
      ((n = .word c ('#' :: w) none ∧ requireCls c = false ∧ allSp line) ∨
       (∃ t, n = .word c ('#' :: w) (some t) ∧ t = strip line ∧ t ≠ [] ∧
          (identArg w = true → absMacroName t = true))) := by
  obtain ⟨w, line, hw, hs⟩ := matchCls_word_shape hc h
  refine ⟨w, line, hw, hs, ?_⟩
  rw [matchCls_word_eval hs hw] at h
  obtain ⟨v, a, hx, hn⟩ := mkWord_some h
  obtain ⟨hv, hrest⟩ := wordTail_elim hx
  simp only at hv hrest
  subst hv
  rcases hrest with ⟨ha, hr, hsp⟩ | ⟨t, ha, ht, _⟩
  · left; subst ha; exact ⟨hn, hr, hsp⟩
  · right
    subst ha
    obtain ⟨h1, h2, h3⟩ := argOf_some ht
    exact ⟨t, hn, by rw [h1, strip_lstrip], h2, h3⟩

theorem content_word {c : Cls} {l : Str} {n : Node} (hc : kwsOf c ≠ []) (h : matchCls c l = some n) :
    squash (render n) = squash l := by
  obtain ⟨w, line, _, hs, hcase⟩ := word_result hc h
  rw [squash_shape hs]
  have hk := (shape_elim hs).choose_spec.choose_spec.2.2.2.2
  rcases hcase with ⟨hn, hr, hsp⟩ | ⟨t, hn, ht, _, _⟩
  · rw [hn, render_word_none hr, squash_hash, noSp_of_word hk, squash_allSp hsp, List.append_nil]
  · rw [hn, render_word_some hc, List.cons_append, squash_hash, squash_append, noSp_of_word hk,
      squash_sp_cons, ht, squash_strip]

theorem squash_nil : squash [] = [] := rfl
theorem squash_one_dq : squash ['"'] = ['"'] := by decide
theorem squash_one_gt : squash ['>'] = ['>'] := by decide

/-- the `#include` line used angle brackets (which the node does not remember) -/
def angleInclude (l : Str) : Bool := (matchInclude l).isSome && (squash l).getLast? == some '>'

theorem fileName_ne_nil {f : Str} (h : fileName f = true) : f ≠ [] := by
  intro h0; subst h0; cases h

theorem include_result {l : Str} {n : Node} (h : matchCls .includeStmt l = some n) :
    ∃ f, n = .include f ∧ fileName f = true ∧
      (squash l = '#' :: (kInclude ++ '"' :: (squash f ++ ['"'])) ∨
       squash l = '#' :: (kInclude ++ '<' :: (squash f ++ ['>']))) := by
  have hne := matchCls_ne_nil h
  rw [matchInclude_eq l hne] at h
  split at h
  · cases h
  · rename_i rest hr
    cases hx : includeArg (strip rest) with
    | none => rw [hx] at h; cases h
    | some f =>
      rw [hx] at h
      simp only [Option.map_some, Option.some.injEq] at h
      obtain ⟨hf, hq⟩ := includeArg_elim hx
      refine ⟨f, h.symm, hf, ?_⟩
      have e : squash l = '#' :: (kInclude ++ squash (strip rest)) := by
        rw [← squash_strip l, squash_hashKw KW_include hr, squash_strip]
      rcases hq with hq | hq
      · left; rw [e, hq, squash_cons_ns _ (by decide), squash_append, squash_one_dq]
      · right; rw [e, hq, squash_cons_ns _ (by decide), squash_append, squash_one_gt]

theorem render_include (f : Str) : render (.include f) = "#include \"".toList ++ f ++ ['"'] := rfl
theorem render_macro (n : Str) (pl d : Option Str) : render (.macro n pl d) =
    "#define ".toList ++ n ++ pl.getD [] ++ (if d.isSome then [' '] else []) ++ d.getD [] := rfl
theorem render_linemarker (kw : Str) (a : Option Str) :
    render (.word .linemarkerStmt kw a) = lstrip kw := rfl

theorem squash_render_include (f : Str) :
    squash (render (.include f)) = '#' :: (kInclude ++ '"' :: (squash f ++ ['"'])) := by
  rw [render_include]
  rw [squash_append, squash_append, squash_one_dq]
  have : squash "#include \"".toList = '#' :: (kInclude ++ ['"']) := by decide
  rw [this]; simp

theorem squash_render_macro (n : Str) (pl d : Option Str) :
    squash (render (.macro n pl d)) =
      '#' :: (kDefine ++ (squash n ++ (squash (pl.getD []) ++ squash (d.getD [])))) := by
  rw [render_macro]
  rw [squash_append, squash_append, squash_append, squash_append]
  have : squash (if d.isSome = true then [' '] else []) = [] := by
    split <;> decide
  have e : squash "#define ".toList = '#' :: kDefine := by decide
  rw [this, List.append_nil, e]; simp

theorem content_macro {l : Str} {n : Node} (h : matchCls .macroStmt l = some n) :
    squash (render n) = squash l := by
  have hne := matchCls_ne_nil h
  rw [matchMacro_eq l hne] at h
  split at h
  · cases h
  · rename_i rest hr
    have e : squash l = '#' :: (kDefine ++ squash (strip rest)) := by
      rw [← squash_strip l, squash_hashKw KW_define hr, squash_strip]
    rw [e]
    have hm := macroArg_elim h
    generalize strip rest = rhs at hm
    induction hm with
    | bare name hn => rw [squash_render_macro]; simp [squash_nil]
    | plain name defn hn hb hne hp =>
      rw [squash_render_macro, squash_optTokens, squash_append]; simp [squash_nil]
    | params name pl after hn hh hl hi =>
      rw [squash_render_macro, squash_optTokens, squash_append, squash_append]; simp

theorem content_linemarker {l : Str} {n : Node} (h : matchCls .linemarkerStmt l = some n) :
    squash (render n) = squash l := by
  rw [(matchLinemarker_elim h).1, render_linemarker, squash_lstrip, squash_chompNl]

theorem content_null {l : Str} {n : Node} (h : matchCls .nullStmt l = some n) :
    squash (render n) = squash l := by
  obtain ⟨hs, hn⟩ := matchNull_iff.mp h
  rw [hn, ← squash_strip l, hs]; rfl

theorem angleInclude_false_of_cls {c : Cls} {l : Str} {n : Node} (h : matchCls c l = some n)
    (hc : c ≠ .includeStmt) : angleInclude l = false := by
  unfold angleInclude
  cases hi : matchInclude l with
  | none => rfl
  | some m =>
    have : matchCls .includeStmt l = some m := hi
    exact absurd (accept_unique h this) hc

/-- per class: the printed node is the line without its blanks, unless the line is an
`#include <…>` -/
theorem content_cls {c : Cls} {l : Str} {n : Node} (h : matchCls c l = some n)
    (ha : angleInclude l = false) : squash (render n) = squash l := by
  cases c
  case elseStmt => rw [(matchElse_elim h).1]; rfl
  case endifStmt => rw [(matchEndif_elim h).1]; rfl
  case includeStmt =>
    obtain ⟨f, hn, _, hq⟩ := include_result h
    rw [hn, squash_render_include]
    rcases hq with hq | hq
    · exact hq.symm
    · exfalso
      have h1 : (matchInclude l).isSome = true := by
        have : matchInclude l = some n := h
        rw [this]; rfl
      have h2 : (squash l).getLast? = some '>' := by
        rw [hq, show '#' :: (kInclude ++ '<' :: (squash f ++ ['>'])) = ('#' :: (kInclude ++ '<' :: squash f)) ++ ['>'] by simp,
          getLast?_append_ne (by simp)]; rfl
      simp [angleInclude, h1, h2] at ha
  case macroStmt => exact content_macro h
  case linemarkerStmt => exact content_linemarker h
  case nullStmt => exact content_null h
  all_goals exact content_word (by simp [kwsOf]) h

end Fp.Cpp
