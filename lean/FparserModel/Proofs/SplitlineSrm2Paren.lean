import FparserModel.Props.SplitlineSrm
/-!
# Phase 3 of `string_replace_map` seen by the parenthesis reader  — serves C02 / C08

What the expression model relies on, proved for ALL inputs (for a discipline with a separate
reverse map for groups, `separateParenMap = true`, which is /repo HEAD):

* `srm_hides` / `srm_hides_closed` / `srm_hides_open` : the tokenised text is `pjoin (srmItems ..)`
  where `srmItems` (computable) matches the items of `splitparen` one by one (`HidAll`): plain items
  and `(\w*)` groups verbatim, any other group as `opener ++ F2PY_EXPR_TUPLE_n ++ closer`; for the
  reader `sstep` every group of the tokenised text is well-formed and is `(\w*)` modulo blanks, and
  the reader ends in the same state as before phase 3 (`srm_unmatched_opener_iff`).
* `srm_resplit` : the observational form, `splitparen r.text = srmItems ..` — via the
  characterisation of the outputs of `splitparen` (`Canon`, `splitparen_canon`,
  `splitparen_resplit : Canon items → splitparen (pjoin items) = items`).
* `srm_stray_closer_at` / `srm_stray_closer_visible` : a closer met at depth 0 (un-escaped,
  outside quotes) lies in a plain item, is copied verbatim, and is still a stray closer of the
  tokenised text (`StrayCloser`, Boolean companion `strayCloserB`, `strayCloserB_iff`).

Nothing is left unproved in this file.
-/
namespace Fp.Splitline
open Fp

/-! ## (a) placeholders are made of word characters, which are inert for the reader -/

theorem digit_isWord (k : Nat) (h : k < 10) : isWord (Char.ofNat (48 + k)) = true := by
  have : ∀ k : Fin 10, isWord (Char.ofNat (48 + k.val)) = true := by decide
  exact this ⟨k, h⟩

theorem digit_isDigit (k : Nat) (h : k < 10) : isDigit (Char.ofNat (48 + k)) = true := by
  have : ∀ k : Fin 10, isDigit (Char.ofNat (48 + k.val)) = true := by decide
  exact this ⟨k, h⟩

theorem natDigitsAux_digits (fuel n : Nat) (acc : Str) :
    ∃ ds, natDigitsAux fuel n acc = ds ++ acc ∧ (fuel ≠ 0 → ds ≠ []) ∧
      ∀ c ∈ ds, isDigit c = true ∧ isWord c = true := by
  induction fuel generalizing n acc with
  | zero => exact ⟨[], rfl, by simp, by simp⟩
  | succ f ih =>
    have hlt : n % 10 < 10 := Nat.mod_lt _ (by decide)
    unfold natDigitsAux
    simp only
    split
    · exact ⟨[Char.ofNat (48 + n % 10)], rfl, by simp, by
        intro c hc
        simp only [List.mem_singleton] at hc
        subst hc
        exact ⟨digit_isDigit _ hlt, digit_isWord _ hlt⟩⟩
    · obtain ⟨ds, h1, _, h3⟩ := ih (n / 10) (Char.ofNat (48 + n % 10) :: acc)
      refine ⟨ds ++ [Char.ofNat (48 + n % 10)], by rw [h1]; simp, by simp, ?_⟩
      intro c hc
      rcases List.mem_append.1 hc with hc | hc
      · exact h3 c hc
      · simp only [List.mem_singleton] at hc
        subst hc
        exact ⟨digit_isDigit _ hlt, digit_isWord _ hlt⟩

/-- `str(n)` is a non-empty string of decimal digits -/
theorem natStr_digits (n : Nat) : natStr n ≠ [] ∧ ∀ c ∈ natStr n, isDigit c = true ∧ isWord c = true := by
  obtain ⟨ds, h1, h2, h3⟩ := natDigitsAux_digits (n + 1) n []
  unfold natStr
  rw [h1]
  simp only [List.append_nil]
  exact ⟨h2 (by simp), h3⟩

theorem exprKey_word (n : Nat) : ∀ c ∈ exprKey n, isWord c = true := by
  intro c hc
  unfold exprKey at hc
  rcases List.mem_append.1 hc with hc | hc
  · have : exprPrefix.all isWord = true := by decide
    exact List.all_eq_true.1 this c hc
  · exact ((natStr_digits n).2 c hc).2

theorem exprKey_simple (n : Nat) : isSimple (exprKey n) = true := by
  unfold isSimple
  exact List.all_eq_true.2 (exprKey_word n)

/-- a word character is none of the characters the reader `sstep` reacts to -/
theorem word_inert (c : Char) (h : isWord c = true) :
    c ≠ '\\' ∧ c ≠ '\'' ∧ c ≠ '"' ∧ closerOf defaultPairs c = none ∧ c ≠ ')' ∧ c ≠ ']' ∧
    isSpace c = false := by
  have h1 : c ≠ '\\' := by intro e; subst e; exact absurd h (by decide)
  have h2 : c ≠ '\'' := by intro e; subst e; exact absurd h (by decide)
  have h3 : c ≠ '"' := by intro e; subst e; exact absurd h (by decide)
  have h4 : c ≠ '(' := by intro e; subst e; exact absurd h (by decide)
  have h5 : c ≠ '[' := by intro e; subst e; exact absurd h (by decide)
  have h6 : c ≠ ')' := by intro e; subst e; exact absurd h (by decide)
  have h7 : c ≠ ']' := by intro e; subst e; exact absurd h (by decide)
  refine ⟨h1, h2, h3, ?_, h6, h7, ?_⟩
  · simp [closerOf, defaultPairs, h4, h5]
  · cases hs : isSpace c with
    | false => rfl
    | true =>
      exfalso
      unfold isSpace at hs
      simp only [Bool.or_eq_true, beq_iff_eq] at hs
      rcases hs with ((((((((hs | hs) | hs) | hs) | hs) | hs) | hs) | hs) | hs) | hs <;>
        (subst hs; exact absurd h (by decide))

/-- `strip()` of a `\w*` text is the text itself -/
theorem dropWhile_space_word (s : Str) (h : ∀ c ∈ s, isWord c = true) : s.dropWhile isSpace = s := by
  cases s with
  | nil => rfl
  | cons c cs =>
    have := (word_inert c (h c (by simp))).2.2.2.2.2.2
    simp [this]

theorem strip_word (s : Str) (h : ∀ c ∈ s, isWord c = true) : strip s = s := by
  unfold strip lstrip rstrip
  rw [dropWhile_space_word s.reverse (by intro c hc; exact h c (List.mem_reverse.1 hc))]
  rw [List.reverse_reverse]
  exact dropWhile_space_word s h

theorem strip_exprKey (n : Nat) : strip (exprKey n) = exprKey n := strip_word _ (exprKey_word n)

/-! ## (b) a group and its re-wrapped image are read alike -/

/-- the clean reader state: not escaped, outside quotes, depth 0 -/
theorem Scan.default_eq : ({} : Scan) = ⟨false, none, []⟩ := rfl

theorem sstep_push' (pairs : List (Char × Char)) (s : Scan) (o : Char)
    (h0 : s.stack = []) (h1 : (sstep pairs s o).stack ≠ []) :
    ∃ cl, closerOf pairs o = some cl ∧ s = ⟨false, none, []⟩ ∧
      sstep pairs s o = ⟨false, none, [cl]⟩ := by
  obtain ⟨nb, inq, stack⟩ := s
  simp only at h0
  subst h0
  unfold sstep at h1 ⊢
  repeat' split at h1
  all_goals simp_all

theorem sstep_pop' (pairs : List (Char × Char)) (s : Scan) (c : Char)
    (h0 : s.stack ≠ []) (h1 : (sstep pairs s c).stack = []) :
    s = ⟨false, none, [c]⟩ ∧ sstep pairs s c = ⟨false, none, []⟩ := by
  obtain ⟨nb, inq, stack⟩ := s
  unfold sstep at h1 ⊢
  repeat' split at h1
  all_goals simp_all

theorem closer_default (o cl : Char) (h : closerOf defaultPairs o = some cl) : cl = ')' ∨ cl = ']' := by
  simp only [closerOf, defaultPairs] at h
  split at h
  · left; exact (Option.some.inj h).symm
  · split at h
    · right; exact (Option.some.inj h).symm
    · exact absurd h (by simp)

theorem sstep_word (cl c : Char) (hcl : cl = ')' ∨ cl = ']') (hc : isWord c = true) :
    sstep defaultPairs ⟨false, none, [cl]⟩ c = ⟨false, none, [cl]⟩ := by
  obtain ⟨h1, h2, h3, h4, h5, h6, _⟩ := word_inert c hc
  have h7 : c ≠ cl := by rcases hcl with rfl | rfl <;> assumption
  unfold sstep
  simp [h1, h2, h3, h4, h7]

theorem srun_word (cl : Char) (key : Str) (hcl : cl = ')' ∨ cl = ']')
    (hk : ∀ c ∈ key, isWord c = true) :
    srun defaultPairs ⟨false, none, [cl]⟩ key = ⟨false, none, [cl]⟩ ∧
    openB defaultPairs ⟨false, none, [cl]⟩ key = true := by
  induction key with
  | nil => exact ⟨rfl, rfl⟩
  | cons c key ih =>
    have hc := sstep_word cl c hcl (hk c (by simp))
    have := ih (fun c h => hk c (by simp [h]))
    simp [openB, hc, this]

theorem sstep_close (cl : Char) (hcl : cl = ')' ∨ cl = ']') :
    sstep defaultPairs ⟨false, none, [cl]⟩ cl = ⟨false, none, []⟩ := by
  rcases hcl with rfl | rfl <;> decide

/-- a well-formed group starts and ends in the CLEAN reader state (the push of its opener and
    the pop at its closer only happen un-escaped and outside quotes) -/
theorem parenOK_run (pairs : List (Char × Char)) (s : Scan) (t : Str) (h : parenOK pairs s t) :
    ∃ o mid cl, t = o :: (mid ++ [cl]) ∧ closerOf pairs o = some cl ∧ s = {} ∧
      sstep pairs {} o = ⟨false, none, [cl]⟩ ∧ srun pairs s t = {} := by
  obtain ⟨h0, t', c, rfl, hne, hop, hfin⟩ := h
  cases t' with
  | nil => exact absurd rfl hne
  | cons o mid =>
    simp [openB] at hop
    have hne1 : (sstep pairs s o).stack ≠ [] := by simpa using hop.1
    obtain ⟨cl, hcl, hs, hstep⟩ := sstep_push' pairs s o h0 hne1
    have hb := srun_bottom pairs _ mid hne1 hop.2
    have hne2 : (srun pairs (sstep pairs s o) mid).stack ≠ [] := by
      intro h; rw [h, hstep] at hb; simp at hb
    have hfin' : (sstep pairs (srun pairs (sstep pairs s o) mid) c).stack = [] := by
      simpa [srun_append] using hfin
    obtain ⟨hp1, hp2⟩ := sstep_pop' pairs _ c hne2 hfin'
    rw [hp1, hstep] at hb
    simp at hb
    subst hb
    refine ⟨o, mid, c, by simp, hcl, hs, ?_, ?_⟩
    · rw [← hstep, hs]
    · simp [srun_append, hp2]

theorem rewrap_shape (o cl : Char) (mid key : Str) :
    rewrap (o :: (mid ++ [cl])) key = o :: (key ++ [cl]) := by
  have : (o :: (mid ++ [cl])).getLast? = some cl := by
    rw [← List.cons_append, List.getLast?_concat]
  simp [rewrap, this]

theorem interior_shape (o cl : Char) (key : Str) : interior (o :: (key ++ [cl])) = key := by
  simp [interior]

/-- **rewrap_ok**: replacing the interior of a well-formed group by a `\w*` key gives a
    well-formed group that leaves the reader in the same (clean) state -/
theorem rewrap_ok (s : Scan) (t key : Str) (h : parenOK defaultPairs s t)
    (hk : ∀ c ∈ key, isWord c = true) :
    srun defaultPairs s (rewrap t key) = srun defaultPairs s t ∧
    parenOK defaultPairs s (rewrap t key) ∧ interior (rewrap t key) = key ∧
    ∃ o mid cl, t = o :: (mid ++ [cl]) ∧ rewrap t key = o :: (key ++ [cl]) ∧
      closerOf defaultPairs o = some cl := by
  obtain ⟨o, mid, cl, rfl, hcl, hs, hstep, hrun⟩ := parenOK_run defaultPairs s t h
  subst hs
  have hcl' := closer_default o cl hcl
  obtain ⟨hw1, hw2⟩ := srun_word cl key hcl' hk
  have hnew : srun defaultPairs {} (o :: (key ++ [cl])) = {} := by
    rw [srun_cons, hstep, srun_snoc, hw1, sstep_close cl hcl']
  rw [rewrap_shape, interior_shape]
  refine ⟨by rw [hnew, hrun], ⟨rfl, o :: key, cl, rfl, by simp, ?_, by rw [hnew]⟩, rfl,
    o, mid, cl, rfl, rfl, hcl⟩
  simp [openB, hstep, hw2]

/-! ## (c) the image of an item list under phase 3 -/

/-- `it'` is what phase 3 may put in the text for the item `it`: a plain item and a group whose
    trimmed interior is `\w*` are copied; any other group keeps its first and last character
    around a placeholder `F2PY_EXPR_TUPLE_n` -/
def HidRel : PItem → PItem → Prop
  | .plain s, .plain s' => s' = s
  | .paren s, .paren s' =>
      (isSimple (strip (interior s)) = true ∧ s' = s) ∨
      (isSimple (strip (interior s)) = false ∧ ∃ n, s' = rewrap s (exprKey n))
  | _, _ => False

/-- `HidRel` item by item (`List.Forall₂ HidRel`) -/
inductive HidAll : List PItem → List PItem → Prop
  | nil : HidAll [] []
  | cons {a b : PItem} {l l' : List PItem} : HidRel a b → HidAll l l' → HidAll (a :: l) (b :: l')

theorem HidAll.append {a a' b b' : List PItem} (h1 : HidAll a a') (h2 : HidAll b b') :
    HidAll (a ++ b) (a' ++ b') := by
  induction h1 with
  | nil => exact h2
  | cons h _ ih => exact .cons h ih

theorem HidAll.length_eq {a a' : List PItem} (h : HidAll a a') : a'.length = a.length := by
  induction h with
  | nil => rfl
  | cons _ _ ih => simp [ih]

/-- every value of the reverse map of groups is a placeholder `F2PY_EXPR_TUPLE_n` -/
def RevOK (m : Map) : Prop := ∀ t k, m.get? t = some k → ∃ n, k = exprKey n

theorem RevOK_nil : RevOK [] := by intro t k h; simp [Map.get?] at h

theorem Map.get?_set_cases (m : Map) (a v t k : Str) (h : (m.set a v).get? t = some k) :
    k = v ∨ m.get? t = some k := by
  induction m with
  | nil =>
    simp only [Map.set, Map.get?] at h
    split at h
    · left; exact (Option.some.inj h).symm
    · exact absurd h (by simp)
  | cons p m ih =>
    obtain ⟨k0, v0⟩ := p
    simp only [Map.set] at h
    split at h
    · simp only [Map.get?] at h ⊢
      split at h
      · left; exact (Option.some.inj h).symm
      · right; simp_all
    · simp only [Map.get?] at h ⊢
      split at h
      · right; simp_all
      · rcases ih h with h' | h'
        · left; exact h'
        · right; simp_all

theorem RevOK_set (m : Map) (a : Str) (n : Nat) (h : RevOK m) : RevOK (m.set a (exprKey n)) := by
  intro t k hk
  rcases Map.get?_set_cases m a _ t k hk with rfl | h'
  · exact ⟨n, rfl⟩
  · exact h t k h'

theorem phase1Step_revParen (d : Discipline) (st : SrmState) (it : Seg) :
    (phase1Step d st it).1.revParen = st.revParen := by
  unfold phase1Step
  repeat' split
  all_goals rfl

theorem phase1_revParen (d : Discipline) (st : SrmState) (segs : List Seg) :
    (phase1 d st segs).1.revParen = st.revParen := by
  induction segs generalizing st with
  | nil => rfl
  | cons x xs ih => simp [phase1, ih, phase1Step_revParen]

theorem phase2Step_revParen (acc : SrmState × Str) (found : Str) :
    (phase2Step acc found).1.revParen = acc.1.revParen := by
  unfold phase2Step
  simp only
  split <;> rfl

theorem phase2_revParen (st : SrmState) (t : Str) : (phase2 st t).1.revParen = st.revParen := by
  unfold phase2
  generalize expConsts t = l
  have : ∀ acc : SrmState × Str, (l.foldl phase2Step acc).1.revParen = acc.1.revParen := by
    induction l with
    | nil => intro acc; rfl
    | cons x xs ih => intro acc; rw [List.foldl_cons, ih, phase2Step_revParen]
  exact this _

/-- the item phase 3 puts in the text for `it` (computable) -/
def imgItem (d : Discipline) (st : SrmState) : PItem → PItem
  | .plain s => .plain s
  | .paren s => .paren (phase3Step d st (.paren s)).2

/-- the item list whose join is the text produced by phase 3 (computable) -/
def phase3Img (d : Discipline) : SrmState → List PItem → List PItem
  | _, [] => []
  | st, it :: r => imgItem d st it :: phase3Img d (phase3Step d st it).1 r

theorem imgItem_str (d : Discipline) (st : SrmState) (it : PItem) :
    (imgItem d st it).str = (phase3Step d st it).2 := by
  cases it with
  | plain s => rfl
  | paren s => rfl

theorem phase3Img_join (d : Discipline) (st : SrmState) (items : List PItem) :
    pjoin (phase3Img d st items) = (phase3 d st items).2 := by
  induction items generalizing st with
  | nil => rfl
  | cons it items ih => simp [phase3Img, phase3, ih, imgItem_str]

theorem phase3Img_append (d : Discipline) (st : SrmState) (a b : List PItem) :
    phase3Img d st (a ++ b) = phase3Img d st a ++ phase3Img d (phase3 d st a).1 b := by
  induction a generalizing st with
  | nil => rfl
  | cons x a ih => simp [phase3Img, phase3, ih]

theorem phase3Img_length (d : Discipline) (st : SrmState) (a : List PItem) :
    (phase3Img d st a).length = a.length := by
  induction a generalizing st with
  | nil => rfl
  | cons x a ih => simp [phase3Img, ih]

theorem phase3Step_image (d : Discipline) (hd : d.separateParenMap = true) (st : SrmState)
    (hinv : RevOK st.revParen) (it : PItem) :
    HidRel it (imgItem d st it) ∧ RevOK (phase3Step d st it).1.revParen := by
  cases it with
  | plain s => exact ⟨rfl, hinv⟩
  | paren s =>
    unfold imgItem phase3Step
    simp only [hd, if_true]
    cases hs : isSimple (strip (interior s)) with
    | true => exact ⟨Or.inl ⟨hs, rfl⟩, hinv⟩
    | false =>
      simp only [Bool.not_false, if_true]
      split
      · next key hk =>
        obtain ⟨n, rfl⟩ := hinv _ _ hk
        exact ⟨Or.inr ⟨hs, n, rfl⟩, hinv⟩
      · exact ⟨Or.inr ⟨hs, _, rfl⟩, RevOK_set _ _ _ hinv⟩

/-- **phase3_image**: the text produced by phase 3 is the join of `phase3Img`, an item list
    related to the input item by item -/
theorem phase3_image (d : Discipline) (hd : d.separateParenMap = true) (st : SrmState)
    (hinv : RevOK st.revParen) (items : List PItem) :
    HidAll items (phase3Img d st items) := by
  induction items generalizing st with
  | nil => exact .nil
  | cons it items ih =>
    obtain ⟨h2, h3⟩ := phase3Step_image d hd st hinv it
    exact .cons h2 (ih _ h3)

/-- the state handed to phase 3 inside `string_replace_map` -/
def phase2State (d : Discipline) (l : Str) (lower : Bool) : SrmState :=
  let r1 := phase1 d {} (splitquote l none lower).1
  (phase2 r1.1 r1.2).1

theorem phase2State_revOK (d : Discipline) (l : Str) (lower : Bool) :
    RevOK (phase2State d l lower).revParen := by
  unfold phase2State
  simp only [phase2_revParen, phase1_revParen]
  exact RevOK_nil

theorem srm_text (d : Discipline) (l : Str) (lower : Bool) (r : SrmResult)
    (hr : stringReplaceMapWith d l lower = some r) :
    r.text = (phase3 d (phase2State d l lower) (splitparen (phase2Text d l lower))).2 := by
  unfold stringReplaceMapWith at hr
  simp only at hr
  split at hr
  · exact absurd hr (by simp)
  · rw [← Option.some.inj hr]; rfl

/-- the items of the tokenised text: the phase-3 images of the items of `splitparen` -/
def srmItems (d : Discipline) (l : Str) (lower : Bool) : List PItem :=
  phase3Img d (phase2State d l lower) (splitparen (phase2Text d l lower))

theorem srm_text_items (d : Discipline) (l : Str) (lower : Bool) (r : SrmResult)
    (hr : stringReplaceMapWith d l lower = some r) : r.text = pjoin (srmItems d l lower) := by
  rw [srm_text d l lower r hr, srmItems, phase3Img_join]

theorem srmItems_hid (d : Discipline) (hd : d.separateParenMap = true) (l : Str) (lower : Bool) :
    HidAll (splitparen (phase2Text d l lower)) (srmItems d l lower) :=
  phase3_image d hd _ (phase2State_revOK d l lower) _

/-! ### transfer of well-formedness along `HidRel` -/

/-- the groups are well-formed (nothing is asked of the plain items) -/
def pOK (pairs : List (Char × Char)) (s : Scan) : PItem → Prop
  | .plain _ => True
  | .paren t => parenOK pairs s t

def parensOK (pairs : List (Char × Char)) : Scan → List PItem → Prop
  | _, [] => True
  | s, it :: r => pOK pairs s it ∧ parensOK pairs (srun pairs s it.str) r

theorem itemOK_pOK (pairs : List (Char × Char)) (s : Scan) (it : PItem) (h : itemOK pairs s it) :
    pOK pairs s it := by
  cases it with
  | plain t => trivial
  | paren t => exact h

theorem itemsOK_parensOK (pairs : List (Char × Char)) (s : Scan) (l : List PItem)
    (h : itemsOK pairs s l) : parensOK pairs s l := by
  induction l generalizing s with
  | nil => trivial
  | cons it l ih => exact ⟨itemOK_pOK pairs s it h.1, ih _ h.2⟩

theorem parensOK_append (pairs : List (Char × Char)) (s : Scan) (a b : List PItem) :
    parensOK pairs s (a ++ b) ↔ parensOK pairs s a ∧ parensOK pairs (srun pairs s (pjoin a)) b := by
  induction a generalizing s with
  | nil => simp [parensOK]
  | cons x a ih => simp [parensOK, ih, srun_append, and_assoc]

theorem hid_item (s : Scan) (it it' : PItem) (h : HidRel it it') (hp : pOK defaultPairs s it) :
    srun defaultPairs s it'.str = srun defaultPairs s it.str ∧ pOK defaultPairs s it' ∧
    (itemOK defaultPairs s it → itemOK defaultPairs s it') ∧
    (∀ x, it' = .paren x → isSimple (strip (interior x)) = true) := by
  cases it with
  | plain t =>
    cases it' with
    | plain t' =>
      have : t' = t := h
      subst this
      exact ⟨rfl, trivial, id, by intro x hx; cases hx⟩
    | paren t' => exact absurd h id
  | paren t =>
    cases it' with
    | plain t' => exact absurd h id
    | paren t' =>
      rcases h with ⟨hs, rfl⟩ | ⟨_, n, rfl⟩
      · exact ⟨rfl, hp, id, by intro x hx; cases hx; exact hs⟩
      · obtain ⟨h1, h2, h3, _⟩ := rewrap_ok s t (exprKey n) hp (exprKey_word n)
        refine ⟨h1, h2, fun _ => h2, ?_⟩
        intro x hx
        cases hx
        rw [h3, strip_exprKey]
        exact exprKey_simple n

theorem hid_transfer (s : Scan) (items items' : List PItem)
    (hrel : HidAll items items') (hp : parensOK defaultPairs s items) :
    parensOK defaultPairs s items' ∧
    srun defaultPairs s (pjoin items') = srun defaultPairs s (pjoin items) ∧
    (itemsOK defaultPairs s items → itemsOK defaultPairs s items') ∧
    (∀ x, PItem.paren x ∈ items' → isSimple (strip (interior x)) = true) := by
  induction hrel generalizing s with
  | nil => exact ⟨trivial, rfl, id, by simp⟩
  | @cons it it' r r' h _ ih =>
    obtain ⟨h1, h2, h3, h4⟩ := hid_item s it it' h hp.1
    obtain ⟨i1, i2, i3, i4⟩ := ih (srun defaultPairs s it.str) hp.2
    refine ⟨⟨h2, by rw [h1]; exact i1⟩, ?_, ?_, ?_⟩
    · simp only [pjoin_cons, srun_append, h1, i2]
    · intro hok
      exact ⟨h3 hok.1, by rw [h1]; exact i3 hok.2⟩
    · intro x hx
      rcases List.mem_cons.1 hx with hx | hx
      · exact h4 x hx.symm
      · exact i4 x hx

theorem HidAll.append_inv {a b c : List PItem} (h : HidAll (a ++ b) c) :
    ∃ a' b', c = a' ++ b' ∧ HidAll a a' ∧ HidAll b b' := by
  induction a generalizing c with
  | nil => exact ⟨[], c, rfl, .nil, h⟩
  | cons x a ih =>
    cases h with
    | cons hx hr =>
      obtain ⟨a', b', rfl, h1, h2⟩ := ih hr
      exact ⟨_ :: a', b', rfl, .cons hx h1, h2⟩

theorem HidAll.plain_inv {t : Str} {c : List PItem} (h : HidAll [.plain t] c) : c = [.plain t] := by
  cases h with
  | @cons _ b _ _ hx hr =>
    cases hr
    cases b with
    | plain t' => have : t' = t := hx; rw [this]
    | paren t' => exact absurd hx id

/-- the groups of `splitparen` are always well-formed (with or without an unmatched opener) -/
theorem splitparen_parensOK (t : Str) : parensOK defaultPairs {} (splitparen t) := by
  by_cases h : (srun defaultPairs {} t).stack = []
  · exact itemsOK_parensOK _ _ _ (splitparen_closed t defaultPairs h)
  · obtain ⟨body, u, hsp, hok, _⟩ := splitparen_open t defaultPairs h
    rw [hsp, parensOK_append]
    exact ⟨itemsOK_parensOK _ _ _ hok, trivial, trivial⟩

/-! ## RESULT 1 : the groups of the tokenised text -/

/-- **srm_hides**: (for a discipline that keeps a separate reverse map for groups, as /repo HEAD
    does) the tokenised text is the join of the item list `srmItems`, which matches the items of
    `splitparen` one by one: plain items verbatim, `(\w*)` groups verbatim, any other group as
    `opener ++ F2PY_EXPR_TUPLE_n ++ closer`.  For the reader `sstep` every group of `srmItems` is
    well-formed (starts at depth 0 in the clean state, returns to depth 0 exactly at its last
    character), every group is `(\w*)` modulo blanks, and the reader ends in the SAME state as
    on the text before phase 3. -/
theorem srm_hides (d : Discipline) (hd : d.separateParenMap = true) (l : Str) (lower : Bool)
    (r : SrmResult) (hr : stringReplaceMapWith d l lower = some r) :
    r.text = pjoin (srmItems d l lower) ∧
      HidAll (splitparen (phase2Text d l lower)) (srmItems d l lower) ∧
      parensOK defaultPairs {} (srmItems d l lower) ∧
      (∀ x, PItem.paren x ∈ srmItems d l lower → isSimple (strip (interior x)) = true) ∧
      srun defaultPairs {} r.text = srun defaultPairs {} (phase2Text d l lower) := by
  have h1 := srm_text_items d l lower r hr
  have h2 := srmItems_hid d hd l lower
  obtain ⟨t1, t2, _, t4⟩ := hid_transfer {} _ _ h2 (splitparen_parensOK _)
  refine ⟨h1, h2, t1, t4, ?_⟩
  rw [h1, t2, splitparen_join']

/-- tokenisation neither creates nor removes an unmatched opener -/
theorem srm_unmatched_opener_iff (d : Discipline) (hd : d.separateParenMap = true) (l : Str)
    (lower : Bool) (r : SrmResult) (hr : stringReplaceMapWith d l lower = some r) :
    UnmatchedOpener defaultPairs r.text ↔ UnmatchedOpener defaultPairs (phase2Text d l lower) := by
  obtain ⟨_, _, _, _, h⟩ := srm_hides d hd l lower r hr
  unfold UnmatchedOpener
  rw [h]

/-- **srm_hides_closed**: no unmatched opener — ALL items of the tokenised text are well-formed:
    the groups as above, and every plain item stays at depth 0 -/
theorem srm_hides_closed (d : Discipline) (hd : d.separateParenMap = true) (l : Str) (lower : Bool)
    (r : SrmResult) (hr : stringReplaceMapWith d l lower = some r)
    (hno : ¬ UnmatchedOpener defaultPairs (phase2Text d l lower)) :
    r.text = pjoin (srmItems d l lower) ∧
      HidAll (splitparen (phase2Text d l lower)) (srmItems d l lower) ∧
      itemsOK defaultPairs {} (srmItems d l lower) ∧
      (∀ x, PItem.paren x ∈ srmItems d l lower → isSimple (strip (interior x)) = true) := by
  have h2 := srmItems_hid d hd l lower
  have hok := splitparen_closed (phase2Text d l lower) defaultPairs
    (by simpa [UnmatchedOpener] using hno)
  obtain ⟨_, _, t3, t4⟩ := hid_transfer {} _ _ h2 (itemsOK_parensOK _ _ _ hok)
  exact ⟨srm_text_items d l lower r hr, h2, t3 hok, t4⟩

/-- **srm_hides_open**: an unmatched opener — the same for all items but the last, which is the
    verbatim plain tail from the outermost unmatched opener on -/
theorem srm_hides_open (d : Discipline) (hd : d.separateParenMap = true) (l : Str) (lower : Bool)
    (r : SrmResult) (hr : stringReplaceMapWith d l lower = some r)
    (hop : UnmatchedOpener defaultPairs (phase2Text d l lower)) :
    ∃ body tail body', splitparen (phase2Text d l lower) = body ++ [.plain tail] ∧
      srmItems d l lower = body' ++ [.plain tail] ∧
      r.text = pjoin body' ++ tail ∧ HidAll body body' ∧ itemsOK defaultPairs {} body' ∧
      (∀ x, PItem.paren x ∈ body' → isSimple (strip (interior x)) = true) ∧
      tail ≠ [] ∧ (srun defaultPairs {} (pjoin body')).stack = [] ∧
      openB defaultPairs (srun defaultPairs {} (pjoin body')) tail = true := by
  have h1 := srm_text_items d l lower r hr
  have h2 := srmItems_hid d hd l lower
  obtain ⟨body, tail, hsp, hok, hne, hst, hopn⟩ := splitparen_open (phase2Text d l lower) defaultPairs hop
  rw [hsp] at h2
  obtain ⟨body', tl', he, hb, htl⟩ := h2.append_inv
  have := htl.plain_inv
  subst this
  obtain ⟨_, t2, t3, t4⟩ := hid_transfer {} _ _ hb (itemsOK_parensOK _ _ _ hok)
  refine ⟨body, tail, body', hsp, he, ?_, hb, t3 hok, t4, hne, by rw [t2]; exact hst, by rw [t2]; exact hopn⟩
  rw [h1, he]
  simp [PItem.str]

/-! ## RESULT 2 : a stray closer stays visible -/

/-- `c`, read after `pre`, is a closer of `pairs` met at depth 0, un-escaped and outside quotes -/
def StrayAt (pairs : List (Char × Char)) (pre : Str) (c : Char) : Prop :=
  pairs.any (fun p => p.2 == c) = true ∧ closerOf pairs c = none ∧ c ≠ '\\' ∧ isQuote c = false ∧
    srun pairs {} pre = ({} : Scan)

/-- the text has a closer that closes nothing -/
def StrayCloser (pairs : List (Char × Char)) (t : Str) : Prop :=
  ∃ pre c post, t = pre ++ c :: post ∧ StrayAt pairs pre c

theorem append_eq_split {α : Type} (l1 l2 pre post : List α) (c : α)
    (h : l1 ++ l2 = pre ++ c :: post) :
    (∃ a, pre = l1 ++ a ∧ l2 = a ++ c :: post) ∨ (∃ v, l1 = pre ++ c :: v ∧ post = v ++ l2) := by
  induction l1 generalizing pre with
  | nil => exact Or.inl ⟨pre, rfl, h⟩
  | cons x l1 ih =>
    cases pre with
    | nil =>
      simp only [List.cons_append, List.nil_append, List.cons.injEq] at h
      exact Or.inr ⟨l1, by rw [h.1]; rfl, h.2.symm⟩
    | cons y pre =>
      simp only [List.cons_append, List.cons.injEq] at h
      obtain ⟨rfl, h⟩ := h
      rcases ih pre h with ⟨a, rfl, h2⟩ | ⟨v, rfl, h2⟩
      · exact Or.inl ⟨a, rfl, h2⟩
      · exact Or.inr ⟨v, rfl, h2⟩

theorem openB_prefix (pairs : List (Char × Char)) (s : Scan) (a b : Str)
    (h : openB pairs s (a ++ b) = true) (ha : a ≠ []) : (srun pairs s a).stack ≠ [] := by
  induction a generalizing s with
  | nil => exact absurd rfl ha
  | cons x a ih =>
    simp [openB] at h
    cases a with
    | nil => simpa using h.1
    | cons y a => exact ih _ h.2 (by simp)

/-- a character read in the clean state that is not an opener cannot lie inside a group -/
theorem not_in_paren (s : Scan) (t pre v : Str) (c : Char) (hp : parenOK defaultPairs s t)
    (ht : t = pre ++ c :: v) (hc : closerOf defaultPairs c = none)
    (hs : srun defaultPairs s pre = {}) : False := by
  cases pre with
  | nil =>
    obtain ⟨o, mid, cl, ht', hcl⟩ := parenOK_shape defaultPairs s t hp
    rw [ht] at ht'
    simp only [List.nil_append, List.cons.injEq] at ht'
    rw [ht'.1, hcl] at hc
    exact absurd hc (by simp)
  | cons y pre =>
    obtain ⟨_, t', cl, ht', _, hop, _⟩ := hp
    have h1 : t' = (y :: pre) ++ (c :: v).dropLast := by
      have : t.dropLast = t' := by rw [ht']; simp
      rw [← this, ht, List.dropLast_append_of_ne_nil (by simp)]
    rw [h1] at hop
    have := openB_prefix defaultPairs s _ _ hop (by simp)
    rw [hs] at this
    exact this rfl

/-- walk along the items to the one holding the stray closer: it is a PLAIN item (copied
    verbatim by phase 3), and the reader reaches it in the same state in the image -/
theorem stray_walk (c : Char) (post : Str) (hc : closerOf defaultPairs c = none)
    (items items' : List PItem) (hrel : HidAll items items') (s : Scan) (pre : Str)
    (hp : parensOK defaultPairs s items) (hj : pjoin items = pre ++ c :: post)
    (hs : srun defaultPairs s pre = {}) :
    ∃ A u v B A' B', items = A ++ .plain (u ++ c :: v) :: B ∧
      items' = A' ++ .plain (u ++ c :: v) :: B' ∧ HidAll A A' ∧ HidAll B B' ∧
      pre = pjoin A ++ u ∧ post = v ++ pjoin B ∧
      srun defaultPairs s (pjoin A' ++ u) = {} := by
  induction hrel generalizing s pre with
  | nil => simp at hj
  | @cons it it' r r' h hr ih =>
    obtain ⟨h1, _, _, _⟩ := hid_item s it it' h hp.1
    rw [pjoin_cons] at hj
    rcases append_eq_split _ _ _ _ _ hj with ⟨a, rfl, h2⟩ | ⟨v, h2, rfl⟩
    · rw [srun_append] at hs
      obtain ⟨A, u, v, B, A', B', e1, e2, e3, e4, e5, e6, e7⟩ := ih _ a hp.2 h2 hs
      refine ⟨it :: A, u, v, B, it' :: A', B', by rw [e1]; rfl, by rw [e2]; rfl, .cons h e3, e4,
        by rw [e5]; simp, e6, ?_⟩
      rw [pjoin_cons, List.append_assoc, srun_append, h1]
      exact e7
    · cases it with
      | paren t => exact (not_in_paren s t pre v c hp.1 h2 hc hs).elim
      | plain t =>
        cases it' with
        | paren t' => exact absurd h id
        | plain t' =>
          have e : t' = t := h
          have e' : t = pre ++ c :: v := h2
          subst e
          subst e'
          exact ⟨[], pre, v, r, [], r', rfl, rfl, .nil, hr, rfl, rfl, hs⟩

/-- **srm_stray_closer_at**: a closer met at depth 0 (un-escaped, outside quotes) in the text
    reaching `splitparen` lies in a PLAIN item `u ++ c :: v`; phase 3 copies that item verbatim
    between the phase-3 images `A'`, `B'` of the items before and after it, and the reader still
    meets `c` in the clean state at depth 0 -/
theorem srm_stray_closer_at (d : Discipline) (hd : d.separateParenMap = true) (l : Str)
    (lower : Bool) (r : SrmResult) (hr : stringReplaceMapWith d l lower = some r)
    (pre post : Str) (c : Char) (ht : phase2Text d l lower = pre ++ c :: post)
    (hst : StrayAt defaultPairs pre c) :
    ∃ A u v B A' B', splitparen (phase2Text d l lower) = A ++ .plain (u ++ c :: v) :: B ∧
      srmItems d l lower = A' ++ .plain (u ++ c :: v) :: B' ∧
      A' = phase3Img d (phase2State d l lower) A ∧
      B' = phase3Img d (phase3 d (phase2State d l lower) A).1 B ∧
      HidAll A A' ∧ HidAll B B' ∧ pre = pjoin A ++ u ∧ post = v ++ pjoin B ∧
      r.text = (pjoin A' ++ u) ++ c :: (v ++ pjoin B') ∧
      StrayAt defaultPairs (pjoin A' ++ u) c := by
  have h1 := srm_text_items d l lower r hr
  have h2 := srmItems_hid d hd l lower
  obtain ⟨g1, g2, g3, g4, g5⟩ := hst
  obtain ⟨A, u, v, B, A', B', e1, e2, e3, e4, e5, e6, e7⟩ :=
    stray_walk c post g2 _ _ h2 {} pre (splitparen_parensOK _)
      (by rw [splitparen_join', ht]) g5
  have e2' : srmItems d l lower = phase3Img d (phase2State d l lower) A ++
      .plain (u ++ c :: v) :: phase3Img d (phase3 d (phase2State d l lower) A).1 B := by
    rw [srmItems, e1, phase3Img_append]
    simp [phase3Img, imgItem, phase3Step]
  have hinj := List.append_inj (e2.symm.trans e2')
    (by rw [phase3Img_length]; exact e3.length_eq)
  have eA : A' = phase3Img d (phase2State d l lower) A := hinj.1
  have eB : B' = phase3Img d (phase3 d (phase2State d l lower) A).1 B := by
    have := hinj.2
    simp only [List.cons.injEq, true_and] at this
    exact this
  refine ⟨A, u, v, B, A', B', e1, e2, eA, eB, e3, e4, e5, e6, ?_, g1, g2, g3, g4, e7⟩
  rw [h1, e2]
  simp [PItem.str]

/-- **srm_stray_closer_visible**: a stray closer of the text reaching `splitparen` is a stray
    closer of the tokenised text -/
theorem srm_stray_closer_visible (d : Discipline) (hd : d.separateParenMap = true) (l : Str)
    (lower : Bool) (r : SrmResult) (hr : stringReplaceMapWith d l lower = some r)
    (h : StrayCloser defaultPairs (phase2Text d l lower)) : StrayCloser defaultPairs r.text := by
  obtain ⟨pre, c, post, ht, hst⟩ := h
  obtain ⟨A, u, v, B, A', B', _, _, _, _, _, _, _, _, e, hs⟩ :=
    srm_stray_closer_at d hd l lower r hr pre post c ht hst
  exact ⟨_, c, _, e, hs⟩

/-! ## RESULT 1, observational form : re-splitting the tokenised text gives `srmItems` -/

theorem scan_stack (st : PState) : st.scan.stack = st.stack := rfl

/-- the four ways `parenStep` moves between depth 0 and depth > 0 -/
theorem parenStep_cases (pairs : List (Char × Char)) (st : PState) (c : Char) :
    (st.stack = [] → (parenStep pairs st c).stack = [] →
      (parenStep pairs st c).items = st.items ∧ (parenStep pairs st c).cur = c :: st.cur) ∧
    (st.stack = [] → (parenStep pairs st c).stack ≠ [] →
      (parenStep pairs st c).items = .plain st.cur.reverse :: st.items ∧
      (parenStep pairs st c).cur = [c]) ∧
    (st.stack ≠ [] → (parenStep pairs st c).stack ≠ [] →
      (parenStep pairs st c).items = st.items ∧ (parenStep pairs st c).cur = c :: st.cur) ∧
    (st.stack ≠ [] → (parenStep pairs st c).stack = [] →
      (parenStep pairs st c).items = .paren (c :: st.cur).reverse :: st.items ∧
      (parenStep pairs st c).cur = []) := by
  unfold parenStep
  repeat' split
  all_goals simp_all [List.isEmpty_iff]

theorem flatB_stack (pairs : List (Char × Char)) (s : Scan) (t : Str)
    (h : flatB pairs s t = true) : s.stack = [] := by
  cases t with
  | nil => simpa [flatB] using h
  | cons c t => simp [flatB] at h; exact h.1

theorem flatB_end (pairs : List (Char × Char)) (s : Scan) (t : Str)
    (h : flatB pairs s t = true) : (srun pairs s t).stack = [] := by
  induction t generalizing s with
  | nil => simpa [flatB] using h
  | cons c t ih => simp [flatB] at h; exact ih _ h.2

theorem fold_flat (pairs : List (Char × Char)) (t : Str) (st : PState)
    (h : flatB pairs st.scan t = true) :
    (t.foldl (parenStep pairs) st).items = st.items ∧
    (t.foldl (parenStep pairs) st).cur = t.reverse ++ st.cur ∧
    (t.foldl (parenStep pairs) st).stack = [] := by
  induction t generalizing st with
  | nil => exact ⟨rfl, rfl, flatB_stack pairs _ _ h⟩
  | cons c t ih =>
    have h0 : st.stack = [] := flatB_stack pairs _ _ h
    have h' : flatB pairs (parenStep pairs st c).scan t = true := by
      rw [parenStep_scan]; simp [flatB] at h; exact h.2
    have h1 : (parenStep pairs st c).stack = [] := flatB_stack pairs _ _ h'
    obtain ⟨e1, e2⟩ := (parenStep_cases pairs st c).1 h0 h1
    obtain ⟨i1, i2, i3⟩ := ih _ h'
    exact ⟨by simp [i1, e1], by simp [i2, e2], i3⟩

theorem fold_open (pairs : List (Char × Char)) (t : Str) (st : PState) (h0 : st.stack ≠ [])
    (h : openB pairs st.scan t = true) :
    (t.foldl (parenStep pairs) st).items = st.items ∧
    (t.foldl (parenStep pairs) st).cur = t.reverse ++ st.cur ∧
    (t.foldl (parenStep pairs) st).stack ≠ [] := by
  induction t generalizing st with
  | nil => exact ⟨rfl, rfl, h0⟩
  | cons c t ih =>
    simp [openB] at h
    have h1 : (parenStep pairs st c).stack ≠ [] := by
      rw [← scan_stack, parenStep_scan]; simpa using h.1
    have h' : openB pairs (parenStep pairs st c).scan t = true := by
      rw [parenStep_scan]; exact h.2
    obtain ⟨e1, e2⟩ := (parenStep_cases pairs st c).2.2.1 h0 h1
    obtain ⟨i1, i2, i3⟩ := ih _ h1 h'
    exact ⟨by simp [i1, e1], by simp [i2, e2], i3⟩

/-- reading a well-formed group: the pending plain text and the group are emitted -/
theorem fold_group (pairs : List (Char × Char)) (g : Str) (st : PState)
    (h : parenOK pairs st.scan g) :
    (g.foldl (parenStep pairs) st).items = .paren g :: .plain st.cur.reverse :: st.items ∧
    (g.foldl (parenStep pairs) st).cur = [] ∧ (g.foldl (parenStep pairs) st).stack = [] := by
  obtain ⟨h0, t', c, rfl, hne, hop, hfin⟩ := h
  cases t' with
  | nil => exact absurd rfl hne
  | cons o mid =>
    simp [openB] at hop
    have h1 : (parenStep pairs st o).stack ≠ [] := by
      rw [← scan_stack, parenStep_scan]; simpa using hop.1
    have h' : openB pairs (parenStep pairs st o).scan mid = true := by
      rw [parenStep_scan]; exact hop.2
    obtain ⟨e1, e2⟩ := (parenStep_cases pairs st o).2.1 h0 h1
    obtain ⟨i1, i2, i3⟩ := fold_open pairs mid _ h1 h'
    have hfold : ((o :: mid) ++ [c]).foldl (parenStep pairs) st
        = parenStep pairs (mid.foldl (parenStep pairs) (parenStep pairs st o)) c := by
      simp [List.foldl_append]
    have h3 : (parenStep pairs (mid.foldl (parenStep pairs) (parenStep pairs st o)) c).stack = [] := by
      rw [← hfold, ← scan_stack, foldl_scan]; exact hfin
    obtain ⟨f1, f2⟩ := (parenStep_cases pairs _ c).2.2.2 i3 h3
    rw [hfold]
    refine ⟨?_, f2, h3⟩
    rw [f1, i1, i2, e1, e2]; simp

/-- `(ParenString, str)*` read backwards, on the kinds of the items -/
def kindsOK : List Bool → Bool
  | [] => true
  | true :: false :: r => kindsOK r
  | _ => false

/-- the reversed item list is `(paren, plain)*`, i.e. the list is `(plain, paren)*` -/
def pairsRev (l : List PItem) : Bool := kindsOK (l.map PItem.isParen)

theorem fold_pairs (pairs : List (Char × Char)) : ∀ (rl : List PItem), pairsRev rl = true →
    itemsOK pairs {} rl.reverse →
    ((pjoin rl.reverse).foldl (parenStep pairs) {}).items = rl ∧
    ((pjoin rl.reverse).foldl (parenStep pairs) {}).cur = [] ∧
    ((pjoin rl.reverse).foldl (parenStep pairs) {}).stack = []
  | [], _, _ => ⟨rfl, rfl, rfl⟩
  | .paren g :: .plain p :: r, hp, hok => by
    have hp' : pairsRev r = true := hp
    have hrev : (PItem.paren g :: .plain p :: r).reverse = (r.reverse ++ [.plain p]) ++ [.paren g] := by
      simp
    rw [hrev] at hok ⊢
    rw [itemsOK_snoc, itemsOK_snoc] at hok
    obtain ⟨⟨hok1, hokp⟩, hokg⟩ := hok
    obtain ⟨i1, i2, i3⟩ := fold_pairs pairs r hp' hok1
    simp only [pjoin_append, pjoin_cons, pjoin_nil, PItem.str, List.append_nil, List.foldl_append]
    have hsc1 : ((pjoin r.reverse).foldl (parenStep pairs) {}).scan = srun pairs {} (pjoin r.reverse) := by
      rw [foldl_scan]; rfl
    generalize (pjoin r.reverse).foldl (parenStep pairs) {} = st1 at i1 i2 i3 hsc1
    have hflat : flatB pairs st1.scan p = true := by rw [hsc1]; exact hokp
    obtain ⟨j1, j2, _⟩ := fold_flat pairs p st1 hflat
    have hg : parenOK pairs (p.foldl (parenStep pairs) st1).scan g := by
      rw [foldl_scan, hsc1, ← srun_append]
      simpa [PItem.str, itemOK] using hokg
    obtain ⟨k1, k2, k3⟩ := fold_group pairs g _ hg
    refine ⟨?_, k2, k3⟩
    rw [k1, j1, j2, i1, i2]; simp
  | [.plain _], hp, _ => by simp [pairsRev, kindsOK, PItem.isParen] at hp
  | [.paren _], hp, _ => by simp [pairsRev, kindsOK, PItem.isParen] at hp
  | .plain _ :: _ :: _, hp, _ => by simp [pairsRev, kindsOK, PItem.isParen] at hp
  | .paren _ :: .paren _ :: _, hp, _ => by simp [pairsRev, kindsOK, PItem.isParen] at hp

/-- shape invariant of the `splitparen` loop -/
def shapeInv (st : PState) : Prop :=
  (st.stack = [] → pairsRev st.items = true) ∧
  (st.stack ≠ [] → ∃ p r, st.items = .plain p :: r ∧ pairsRev r = true)

theorem shapeInv_step (pairs : List (Char × Char)) (st : PState) (c : Char) (h : shapeInv st) :
    shapeInv (parenStep pairs st c) := by
  obtain ⟨c1, c2, c3, c4⟩ := parenStep_cases pairs st c
  by_cases h0 : st.stack = [] <;> by_cases h1 : (parenStep pairs st c).stack = []
  · obtain ⟨e1, _⟩ := c1 h0 h1
    exact ⟨fun _ => by rw [e1]; exact h.1 h0, fun hh => absurd h1 hh⟩
  · obtain ⟨e1, _⟩ := c2 h0 h1
    exact ⟨fun hh => absurd hh h1, fun _ => ⟨_, _, e1, h.1 h0⟩⟩
  · obtain ⟨e1, _⟩ := c4 h0 h1
    obtain ⟨p, r, hp, hr⟩ := h.2 h0
    exact ⟨fun _ => by rw [e1, hp]; exact hr, fun hh => absurd h1 hh⟩
  · obtain ⟨e1, _⟩ := c3 h0 h1
    exact ⟨fun hh => absurd hh h1, fun _ => by rw [e1]; exact h.2 h0⟩

theorem shapeInv_foldl (pairs : List (Char × Char)) (l : Str) (st : PState) (h : shapeInv st) :
    shapeInv (l.foldl (parenStep pairs) st) := by
  induction l generalizing st with
  | nil => exact h
  | cons c cs ih => exact ih _ (shapeInv_step pairs st c h)

/-- the possible outputs of `splitparen`: `(plain, group)*` followed by nothing or a non-empty
    plain item (all well-formed), or — unmatched opener — by a plain item and the open tail -/
def Canon (pairs : List (Char × Char)) (items : List PItem) : Prop :=
  (∃ rl last, items = rl.reverse ++ last ∧ pairsRev rl = true ∧ itemsOK pairs {} items ∧
      (last = [] ∨ ∃ u, u ≠ [] ∧ last = [.plain u])) ∨
  (∃ rl p u, items = rl.reverse ++ [.plain p, .plain u] ∧ pairsRev rl = true ∧
      itemsOK pairs {} (rl.reverse ++ [.plain p]) ∧ u ≠ [] ∧
      (srun pairs {} (pjoin (rl.reverse ++ [.plain p]))).stack = [] ∧
      openB pairs (srun pairs {} (pjoin (rl.reverse ++ [.plain p]))) u = true)

theorem splitparen_canon (pairs : List (Char × Char)) (t : Str) : Canon pairs (splitparen t pairs) := by
  have hsh := shapeInv_foldl pairs t {} ⟨fun _ => rfl, fun h => absurd rfl h⟩
  have inv := PInv_foldl pairs t {} (PInv_init pairs)
  have hsc := foldl_scan pairs t {}
  by_cases h : (srun pairs {} t).stack = []
  · left
    have hok := splitparen_closed t pairs h
    unfold splitparen at hok ⊢
    generalize t.foldl (parenStep pairs) {} = st at hsh inv hsc hok
    have hst : st.stack = [] := by rw [← scan_stack, hsc]; exact h
    unfold parenFinish at hok ⊢
    split
    · next hc =>
      simp only [hc, if_true] at hok
      exact ⟨st.items, [], by simp, hsh.1 hst, hok, Or.inl rfl⟩
    · next hc =>
      simp only [hc] at hok
      refine ⟨st.items, [.plain st.cur.reverse], by simp, hsh.1 hst, hok, Or.inr ⟨_, ?_, rfl⟩⟩
      simpa [List.isEmpty_iff] using hc
  · right
    unfold splitparen
    generalize t.foldl (parenStep pairs) {} = st at hsh inv hsc
    have hst : st.stack ≠ [] := by rw [← scan_stack, hsc]; exact h
    obtain ⟨a, b, dd⟩ := inv.opn hst
    obtain ⟨p, r, hp, hr⟩ := hsh.2 hst
    have hi := inv.items
    have hrev : st.items.reverse = r.reverse ++ [.plain p] := by rw [hp]; simp
    rw [hrev] at a dd hi
    refine ⟨r, p, st.cur.reverse, ?_, hr, hi, by simpa using b, a, dd⟩
    unfold parenFinish
    have : st.cur.isEmpty = false := by
      cases hcur : st.cur with
      | nil => exact absurd hcur b
      | cons _ _ => rfl
    simp [this, hp]

/-- **splitparen_resplit**: `splitparen` is the identity (after `join`) on its possible outputs -/
theorem splitparen_resplit (pairs : List (Char × Char)) (items : List PItem)
    (h : Canon pairs items) : splitparen (pjoin items) pairs = items := by
  rcases h with ⟨rl, last, rfl, hp, hok, hl⟩ | ⟨rl, p, u, rfl, hp, hok, hne, hst, hop⟩
  · rcases hl with rfl | ⟨u, hne, rfl⟩
    · simp only [List.append_nil] at hok ⊢
      obtain ⟨i1, i2, _⟩ := fold_pairs pairs rl hp hok
      unfold splitparen parenFinish
      simp [i1, i2]
    · rw [itemsOK_snoc] at hok
      obtain ⟨i1, i2, _⟩ := fold_pairs pairs rl hp hok.1
      have hsc1 : ((pjoin rl.reverse).foldl (parenStep pairs) {}).scan
          = srun pairs {} (pjoin rl.reverse) := by rw [foldl_scan]; rfl
      unfold splitparen
      simp only [pjoin_append, pjoin_cons, pjoin_nil, PItem.str, List.append_nil, List.foldl_append]
      generalize (pjoin rl.reverse).foldl (parenStep pairs) {} = st1 at i1 i2 hsc1
      obtain ⟨j1, j2, _⟩ := fold_flat pairs u st1 (by rw [hsc1]; exact hok.2)
      unfold parenFinish
      simp [j1, j2, i1, i2, hne]
  · rw [itemsOK_snoc] at hok
    obtain ⟨i1, i2, _⟩ := fold_pairs pairs rl hp hok.1
    have hsc1 : ((pjoin rl.reverse).foldl (parenStep pairs) {}).scan
        = srun pairs {} (pjoin rl.reverse) := by rw [foldl_scan]; rfl
    cases u with
    | nil => exact absurd rfl hne
    | cons o tail =>
      unfold splitparen
      simp only [pjoin_append, pjoin_cons, pjoin_nil, PItem.str, List.append_nil,
        List.foldl_append, List.foldl_cons] at hst hop ⊢
      generalize (pjoin rl.reverse).foldl (parenStep pairs) {} = st1 at i1 i2 hsc1
      obtain ⟨j1, j2, j3⟩ := fold_flat pairs p st1 (by rw [hsc1]; exact hok.2)
      have hsc2 : (p.foldl (parenStep pairs) st1).scan = srun pairs {} (pjoin rl.reverse ++ p) := by
        rw [foldl_scan, hsc1, srun_append]
      generalize p.foldl (parenStep pairs) st1 = st2 at j1 j2 j3 hsc2
      rw [← hsc2] at hop
      simp [openB] at hop
      have h1 : (parenStep pairs st2 o).stack ≠ [] := by
        rw [← scan_stack, parenStep_scan]; simpa using hop.1
      have h' : openB pairs (parenStep pairs st2 o).scan tail = true := by
        rw [parenStep_scan]; exact hop.2
      obtain ⟨e1, e2⟩ := (parenStep_cases pairs st2 o).2.1 j3 h1
      obtain ⟨k1, k2, _⟩ := fold_open pairs tail _ h1 h'
      unfold parenFinish
      simp [k1, k2, e1, e2, j1, j2, i1, i2]

/-! ### `Canon` is stable under `HidAll` -/

theorem HidAll.reverse {a a' : List PItem} (h : HidAll a a') : HidAll a.reverse a'.reverse := by
  induction h with
  | nil => exact .nil
  | cons hx _ ih =>
    rw [List.reverse_cons, List.reverse_cons]
    exact ih.append (.cons hx .nil)

theorem HidRel.kind {a b : PItem} (h : HidRel a b) : b.isParen = a.isParen := by
  cases a <;> cases b <;> first | rfl | exact absurd h id

theorem HidAll.kinds {a a' : List PItem} (h : HidAll a a') :
    a'.map PItem.isParen = a.map PItem.isParen := by
  induction h with
  | nil => rfl
  | cons hx _ ih => simp [hx.kind, ih]

theorem HidAll.nil_inv {c : List PItem} (h : HidAll [] c) : c = [] := by cases h; rfl

theorem HidAll.plain2_inv {p u : Str} {c : List PItem} (h : HidAll [.plain p, .plain u] c) :
    c = [.plain p, .plain u] := by
  cases h with
  | @cons _ b _ _ hx hr =>
    have := hr.plain_inv
    subst this
    cases b with
    | plain t' => have : t' = p := hx; rw [this]
    | paren t' => exact absurd hx id

theorem Canon_hid (items items' : List PItem) (hc : Canon defaultPairs items)
    (h : HidAll items items') : Canon defaultPairs items' := by
  rcases hc with ⟨rl, last, rfl, hp, hok, hl⟩ | ⟨rl, p, u, rfl, hp, hok, hne, hst, hop⟩
  · left
    obtain ⟨_, _, t3, _⟩ := hid_transfer {} _ _ h (itemsOK_parensOK _ _ _ hok)
    obtain ⟨a', last', rfl, ha, hlast⟩ := h.append_inv
    refine ⟨a'.reverse, last', by simp, ?_, t3 hok, ?_⟩
    · have := ha.reverse.kinds
      rw [List.reverse_reverse] at this
      unfold pairsRev at hp ⊢
      rw [this]; exact hp
    · rcases hl with rfl | ⟨u, hne, rfl⟩
      · exact Or.inl hlast.nil_inv
      · exact Or.inr ⟨u, hne, hlast.plain_inv⟩
  · right
    obtain ⟨a', b', rfl, ha, hb⟩ := h.append_inv
    have := hb.plain2_inv
    subst this
    have ha1 : HidAll (rl.reverse ++ [.plain p]) (a' ++ [.plain p]) := ha.append (.cons rfl .nil)
    obtain ⟨_, t2, t3, _⟩ := hid_transfer {} _ _ ha1 (itemsOK_parensOK _ _ _ hok)
    refine ⟨a'.reverse, p, u, by simp, ?_, by simpa using t3 hok, hne, ?_, ?_⟩
    · have := ha.reverse.kinds
      rw [List.reverse_reverse] at this
      unfold pairsRev at hp ⊢
      rw [this]; exact hp
    · rw [List.reverse_reverse, t2]; exact hst
    · rw [List.reverse_reverse, t2]; exact hop

/-- **srm_resplit**: re-splitting the tokenised text yields exactly `srmItems` — the reader
    `splitparen` sees in the tokenised text the same items as before phase 3, the groups with
    their interiors replaced -/
theorem srm_resplit (d : Discipline) (hd : d.separateParenMap = true) (l : Str) (lower : Bool)
    (r : SrmResult) (hr : stringReplaceMapWith d l lower = some r) :
    splitparen r.text = srmItems d l lower := by
  rw [srm_text_items d l lower r hr]
  exact splitparen_resplit defaultPairs _
    (Canon_hid _ _ (splitparen_canon defaultPairs _) (srmItems_hid d hd l lower))

/-! ## a Boolean companion of `StrayCloser` -/

def strayScan (pairs : List (Char × Char)) : Scan → Str → Bool
  | _, [] => false
  | s, c :: t =>
    (decide (s = ({} : Scan)) && pairs.any (fun p => p.2 == c) && (closerOf pairs c).isNone &&
      (c != '\\') && !isQuote c) || strayScan pairs (sstep pairs s c) t

def strayCloserB (pairs : List (Char × Char)) (t : Str) : Bool := strayScan pairs {} t

theorem strayScan_iff (pairs : List (Char × Char)) (s : Scan) (t : Str) :
    strayScan pairs s t = true ↔ ∃ pre c post, t = pre ++ c :: post ∧
      pairs.any (fun p => p.2 == c) = true ∧ closerOf pairs c = none ∧ c ≠ '\\' ∧
      isQuote c = false ∧ srun pairs s pre = ({} : Scan) := by
  induction t generalizing s with
  | nil => simp [strayScan]
  | cons c t ih =>
    constructor
    · intro h
      simp only [strayScan, Bool.or_eq_true, Bool.and_eq_true, decide_eq_true_eq,
        Option.isNone_iff_eq_none, bne_iff_ne, ne_eq, Bool.not_eq_true'] at h
      rcases h with ⟨⟨⟨⟨h1, h2⟩, h3⟩, h4⟩, h5⟩ | h
      · exact ⟨[], c, t, rfl, h2, h3, h4, h5, by rw [h1]; rfl⟩
      · obtain ⟨pre, c', post, rfl, g1, g2, g3, g4, g5⟩ := (ih _).1 h
        exact ⟨c :: pre, c', post, rfl, g1, g2, g3, g4, g5⟩
    · rintro ⟨pre, c', post, ht, g1, g2, g3, g4, g5⟩
      simp only [strayScan, Bool.or_eq_true, Bool.and_eq_true, decide_eq_true_eq,
        Option.isNone_iff_eq_none, bne_iff_ne, ne_eq, Bool.not_eq_true']
      cases pre with
      | nil =>
        simp only [List.nil_append, List.cons.injEq] at ht
        obtain ⟨rfl, rfl⟩ := ht
        exact Or.inl ⟨⟨⟨⟨g5, g1⟩, g2⟩, g3⟩, g4⟩
      | cons x pre =>
        simp only [List.cons_append, List.cons.injEq] at ht
        obtain ⟨rfl, rfl⟩ := ht
        exact Or.inr ((ih _).2 ⟨pre, c', post, rfl, g1, g2, g3, g4, g5⟩)

theorem strayCloserB_iff (pairs : List (Char × Char)) (t : Str) :
    strayCloserB pairs t = true ↔ StrayCloser pairs t := by
  unfold strayCloserB StrayCloser StrayAt
  exact strayScan_iff pairs {} t

instance (pairs : List (Char × Char)) (t : Str) : Decidable (StrayCloser pairs t) :=
  decidable_of_iff _ (strayCloserB_iff pairs t)

instance (pairs : List (Char × Char)) (pre : Str) (c : Char) : Decidable (StrayAt pairs pre c) := by
  unfold StrayAt; exact inferInstance

/-! ## non-vacuity -/

-- the hypothesis on the discipline: /repo HEAD
example : discipline.separateParenMap = true := rfl
example : Discipline.repaired.separateParenMap = true := rfl

-- (a)
example : exprKey 12 = "F2PY_EXPR_TUPLE_12".toList := by decide
example : natStr 0 = "0".toList ∧ natStr 907 = "907".toList := by decide
-- (b) `rewrap_ok` : a well-formed group, a `\w*` key
example : parenOK defaultPairs {} "( (1+2)*3)".toList :=
  ⟨rfl, "( (1+2)*3".toList, ')', by decide, by decide, by decide, by decide⟩
example : ∀ c ∈ exprKey 3, isWord c = true := by decide
example : rewrap "[a, (b)]".toList (exprKey 3) = "[F2PY_EXPR_TUPLE_3]".toList := by decide
-- (c) `RevOK`, `HidRel`, `HidAll`
example : RevOK [("a+b".toList, exprKey 1), ("c".toList, exprKey 2)] := by
  intro t k h
  simp only [Map.get?] at h
  split at h
  · exact ⟨1, (Option.some.inj h).symm⟩
  · split at h
    · exact ⟨2, (Option.some.inj h).symm⟩
    · exact absurd h (by simp)
example : HidAll [.plain "f".toList, .paren "(a+b)".toList, .plain [], .paren "( i )".toList]
    [.plain "f".toList, .paren "(F2PY_EXPR_TUPLE_1)".toList, .plain [], .paren "( i )".toList] :=
  .cons rfl (.cons (Or.inr ⟨by decide, 1, by decide⟩) (.cons rfl (.cons (Or.inl ⟨by decide, rfl⟩) .nil)))

-- RESULT 1: hypotheses and an instance of the conclusion
example : (stringReplaceMapWith discipline "x = f(a+b, (c)) * g(i) + h( j )".toList false).isSome
    = true := by decide +kernel
example : ¬ UnmatchedOpener defaultPairs
    (phase2Text discipline "x = f(a+b, (c)) * g(i) + h( j )".toList false) := by decide +kernel
example : srmItems discipline "x = f(a+b, (c)) * g(i) + h( j )".toList false
    = [.plain "x = f".toList, .paren "(F2PY_EXPR_TUPLE_1)".toList, .plain " * g".toList,
       .paren "(i)".toList, .plain " + h".toList, .paren "( j )".toList] := by decide +kernel
-- `srm_hides_open`: the closed group before the unmatched opener is hidden, the tail is verbatim
example : UnmatchedOpener defaultPairs (phase2Text discipline "x = f(a+b) + g(c+d".toList false) ∧
    (stringReplaceMapWith discipline "x = f(a+b) + g(c+d".toList false).isSome = true ∧
    srmItems discipline "x = f(a+b) + g(c+d".toList false
      = [.plain "x = f".toList, .paren "(F2PY_EXPR_TUPLE_1)".toList, .plain " + g".toList,
         .plain "(c+d".toList] := by decide +kernel
-- the hypothesis `separateParenMap = true` is needed for `HidRel`: the legacy code could put a
-- STRING placeholder into a group (the item is still `(\w*)`, but it is not an EXPR_TUPLE key)
example : srmItems .legacy "x = '(a+b)' // f(a+b)".toList false
    = [.plain "x = '_F2PY_STRING_CONSTANT_1_' // f".toList,
       .paren "(_F2PY_STRING_CONSTANT_1_)".toList] := by decide +kernel

-- RESULT 2
example : StrayAt defaultPairs "x = a+b".toList ')' := by decide
example : (stringReplaceMapWith discipline "x = a+b) * (c+d)".toList false).isSome = true := by
  decide +kernel
example : StrayCloser defaultPairs (phase2Text discipline "x = a+b) * (c+d)".toList false) := by
  decide +kernel
example : StrayCloser defaultPairs "x = a+b) * (F2PY_EXPR_TUPLE_1)".toList := by decide +kernel
example : srmItems discipline "x = a+b) * (c+d)".toList false
    = [.plain "x = a+b) * ".toList, .paren "(F2PY_EXPR_TUPLE_1)".toList] := by decide +kernel
-- a closer inside quotes, after a backslash, or closing a group is NOT a stray closer
example : ¬ StrayCloser defaultPairs "f(a) // ')' \\)".toList := by decide +kernel
-- a mismatched closer at depth 0 is one
example : StrayCloser defaultPairs "a] + (b)".toList := by decide +kernel

-- observational form: `Canon` and the re-split
example : Canon defaultPairs [.plain "a".toList, .paren "(b)".toList, .plain "c".toList] := by
  have : splitparen "a(b)c".toList = [.plain "a".toList, .paren "(b)".toList, .plain "c".toList] := by
    decide
  rw [← this]; exact splitparen_canon _ _
example : Canon defaultPairs [.plain "a".toList, .plain "(b(c)".toList] := by
  have : splitparen "a(b(c)".toList = [.plain "a".toList, .plain "(b(c)".toList] := by decide
  rw [← this]; exact splitparen_canon _ _
example : splitparen "x = f(F2PY_EXPR_TUPLE_1) * g(i) + h( j )".toList
    = srmItems discipline "x = f(a+b, (c)) * g(i) + h( j )".toList false := by decide +kernel

#print axioms rewrap_ok
#print axioms phase3_image
#print axioms srm_hides
#print axioms srm_unmatched_opener_iff
#print axioms srm_hides_closed
#print axioms srm_hides_open
#print axioms srm_stray_closer_at
#print axioms srm_stray_closer_visible
#print axioms strayCloserB_iff
#print axioms splitparen_canon
#print axioms splitparen_resplit
#print axioms srm_resplit

end Fp.Splitline
