import FparserModel.Proofs.ReaderStep

/-!
# ReaderCpp — preprocessor directive lines (property C14)

A line whose first non-blank character is `#` is a `CppDirective`. While the right-stripped line
ends with a backslash the backslash is removed, the next physical line is fetched with
`get_single_line` and appended verbatim (nothing is stripped from its left, trailing blanks in
front of a backslash are dropped with the `rstrip`). The item's text is the `strip` of the
concatenation, its span runs from the first to the last physical line.
-/
namespace Fp.Reader
open Fp

/-- text of a directive spread over `line :: ps` (before the final `strip`) -/
def joinCpp : Str → List Str → Str
  | line, [] => line
  | line, p :: ps => (rstrip line).dropLast ++ joinCpp p ps

/-- every piece but the last ends (after `rstrip`) with a backslash, the last one does not -/
def CppCont : Str → List Str → Prop
  | line, [] => (rstrip line).getLast? ≠ some '\\'
  | line, p :: ps => (rstrip line).getLast? = some '\\' ∧ CppCont p ps

theorem cppLoop_run : ∀ (ps : List Str) (line acc : Str) (s fuel : Nat) (r r' : Rd),
    Reads r ps r' → CppCont line ps → ps.length + 1 ≤ fuel →
    cppLoop fuel line acc s r = (mkCpp (acc ++ joinCpp line ps) s r'.linecount, r')
  | [], line, acc, s, fuel, r, r', hr, hc, hf => by
    cases hr
    cases fuel with
    | zero => simp at hf
    | succ fuel =>
      unfold cppLoop
      have : ((rstrip line).getLast? == some '\\') = false := by
        cases h : (rstrip line).getLast? == some '\\' with
        | false => rfl
        | true => exact absurd (by simpa using h) hc
      simp only [this, Bool.false_eq_true, if_false, joinCpp]
  | p :: ps, line, acc, s, fuel, r, r', hr, hc, hf => by
    cases hr with
    | cons hg hr' =>
      rename_i r1
      cases fuel with
      | zero => simp at hf
      | succ fuel =>
        unfold cppLoop
        have : ((rstrip line).getLast? == some '\\') = true := by simp [hc.1]
        simp only [this, if_true, hg]
        rw [cppLoop_run ps p (acc ++ (rstrip line).dropLast) s fuel r1 r' hr' hc.2
          (by simp only [List.length_cons] at hf; omega)]
        simp only [joinCpp, List.append_assoc]

theorem mem_dropWhile_of_not (p : Char → Bool) (c : Char) : ∀ l : Str, c ∈ l → p c = false →
    c ∈ l.dropWhile p
  | [], h, _ => by cases h
  | a :: l, h, hc => by
    rw [List.dropWhile_cons]
    by_cases ha : p a = true
    · rw [if_pos ha]
      rcases List.mem_cons.mp h with rfl | h
      · rw [hc] at ha; cases ha
      · exact mem_dropWhile_of_not p c l h hc
    · rw [if_neg ha]; exact h

theorem mem_rstrip {s : Str} {c : Char} (hc : c ∈ s) (hn : isSpace c = false) : c ∈ rstrip s := by
  unfold rstrip
  exact List.mem_reverse.mpr (mem_dropWhile_of_not _ c _ (List.mem_reverse.mpr hc) hn)

theorem mem_dropLast_of_ne {a b : Char} : ∀ {l : Str}, l.getLast? = some b → a ∈ l → a ≠ b →
    a ∈ l.dropLast
  | [], _, ha, _ => by cases ha
  | [x], hl, ha, hab => by
    simp only [List.getLast?_singleton, Option.some.injEq] at hl
    simp only [List.mem_singleton] at ha
    exact absurd (ha.trans hl) hab
  | x :: y :: l, hl, ha, hab => by
    rw [List.getLast?_cons_cons] at hl
    rw [List.dropLast_cons₂]
    rcases List.mem_cons.mp ha with rfl | ha
    · exact List.mem_cons_self
    · exact List.mem_cons_of_mem _ (mem_dropLast_of_ne hl ha hab)

theorem hash_mem_joinCpp (p0 : Str) (ps : List Str) (hh : '#' ∈ p0) (hc : CppCont p0 ps) :
    '#' ∈ joinCpp p0 ps := by
  cases ps with
  | nil => exact hh
  | cons p ps =>
    simp only [joinCpp]
    exact List.mem_append_left _ (mem_dropLast_of_ne hc.1 (mem_rstrip hh (by decide)) (by decide))

theorem hash_mem_of_startsWith {p0 : Str} (hh : startsWith (lstrip p0) ['#'] = true) : '#' ∈ p0 := by
  unfold startsWith lstrip at hh
  cases hd : List.dropWhile isSpace p0 with
  | nil => rw [hd] at hh; simp at hh
  | cons y ys =>
    rw [hd] at hh
    simp only [List.length_cons, List.length_nil, Nat.zero_add, List.take_succ_cons, List.take_zero,
      beq_iff_eq, List.cons.injEq, and_true] at hh
    subst hh
    exact (List.dropWhile_sublist isSpace).subset (by rw [hd]; exact List.mem_cons_self)

/-- C14 `cpp_line_item`, any reader state and either source form: a `#` line with `ps.length`
    backslash continuations yields exactly ONE `CppDirective` whose text is the stripped
    `joinCpp`, spanning from the first to the last physical line; the reader state afterwards is
    the state after exactly `1 + ps.length` `get_single_line` calls. -/
theorem getSourceItem_cpp (r0 r1 r' : Rd) (p0 : Str) (ps : List Str)
    (hg : getSingleLine r0 = (some p0, r1)) (hh : startsWith (lstrip p0) ['#'] = true)
    (hr : Reads r1 ps r') (hc : CppCont p0 ps) :
    getSourceItem r0 = (.ok (.cpp (strip (joinCpp p0 ps)) r1.linecount r'.linecount), r') := by
  have hmem := hash_mem_of_startsWith hh
  have hne : (p0 != []) = true := by
    cases p0 with
    | nil => cases hmem
    | cons _ _ => rfl
  unfold getSourceItem
  simp only [hg, hne, hh, Bool.and_self, if_true]
  rw [cppLoop_run ps p0 [] r1.linecount _ r1 r' hr hc (by have := hr.measure; omega)]
  unfold mkCpp
  simp only [List.nil_append, strip_ne_nil (hash_mem_joinCpp p0 ps hmem hc) (by decide), if_false]

/-- free-form instance with the explicit final state: exactly the `1 + ls.length` lines of the
    directive are consumed -/
theorem getSourceItem_cpp_free (r : Rd) (l0 : Str) (ls rest : List Str)
    (h1 : r.filo = []) (h2 : r.closed = false) (h3 : r.isFree = true)
    (hsrc : r.src = l0 :: (ls ++ rest)) (hh : startsWith (lstrip (cook l0)) ['#'] = true)
    (hc : CppCont (cook l0) (ls.map cook)) :
    getSourceItem r =
      (.ok (.cpp (strip (joinCpp (cook l0) (ls.map cook))) (r.linecount + 1) (r.linecount + 1 + ls.length)),
       { r with src := rest, linecount := r.linecount + 1 + ls.length,
                linesRev := ((l0 :: ls).map cook).reverse ++ r.linesRev }) := by
  have hg := getSingleLine_free r l0 (ls ++ rest) h1 h2 h3 hsrc
  have hr := Reads.free ls rest { r with src := ls ++ rest, linecount := r.linecount + 1,
                                          linesRev := cook l0 :: r.linesRev } rfl h1 h2 h3
  have := getSourceItem_cpp r _ _ (cook l0) (ls.map cook) hg hh hr hc
  rw [this]
  simp only [List.map_cons, List.reverse_cons, List.append_assoc, List.singleton_append]

end Fp.Reader
