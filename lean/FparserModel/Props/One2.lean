import FparserModel.Proofs.One2End

/-!
# Properties of fparser1's block parser over the generated tables (C19, block / END-line level)

For EVERY table `T`, item list, fuel-free:

* `parse1_fuel`                        — (d) the model's fuel never rejects an input
* `parse1_preserves_statements`        — (b) the printed lines are the tree items in order (ids), the
                                          tree items are a sublist of the input, every input item that is
                                          not droppable (comment / bare prefix line / type declaration of a single name)
                                          is in the tree exactly once, and a printed statement line carries
                                          its input item unchanged
* `fill_preserves`                     — the same for every block (`fill`), rest included
* `print1_parse1_fixpoint_partial`     — (a) C19 fixpoint at block / END-line level under the exact
                                          hypotheses `nothing dropped` and `restep`
* `end_print_only_opener`, `end_completion_idem` — (c)
* witnesses (`Gen.tables`, replayed on the real code by `fv/cosim_one2.py`):
  `unnamed_program_two_rounds_witness`, `interface_blank_not_reparsable_witness` (the full statement of
  (a) is still false),
  `single_typing_decl_dropped_witness` (the exception of (b) is real), `typing_twice_assertion_witness`,
  `typed_function_in_interface_witness` (valid program rejected);
  regression witnesses for repaired defects: `enum_roundtrip_regression` (cc438ae),
  `typing_decl_kept_regression` (dbd6721)

The full statement of (a),
    `parse1 T ic is = .ok t → ∃ t', parse1 T ic (items T (print1 T t)) = .ok t' ∧ print1 T t' = print1 T t`,
is FALSE for the live tables: the two witnesses above (before cc438ae also ENUM).
-/
namespace Fp.One2
open Fp

variable (T : Tables)

/-- (d) -/
theorem parse1_fuel (ic : Bool) (is : List Item) : parse1 T ic is ≠ .error .fuel := by
  unfold parse1
  split
  · rename_i e he
    intro h; simp at h; subst h
    exact fill_fuel T ic _ _ _ (Nat.lt_succ_self _) he
  · simp

/-- every block: tree items ++ unread items ⊑ input, equal on the non-droppable items -/
theorem fill_preserves (ic : Bool) (f : Nat) (c : Ctx) (ls : List Item) (t : Forest)
    (rest : List Item) (h : fill T ic f c ls = .ok (t, rest)) :
    (flat t ++ rest).Sublist ls ∧
      (flat t ++ rest).filter (fun it => !droppable T it) = ls.filter (fun it => !droppable T it) :=
  fill_sublist T ic f c ls t rest h

/-- (b) nothing is invented, duplicated or reordered; only droppable items can be missing -/
theorem parse1_preserves_statements (ic : Bool) (is : List Item) (t : Forest) (hT : TopOpen T)
    (h : parse1 T ic is = .ok t) :
    (print1 T t).map PLine.id = (flat t).map (·.id)
      ∧ (flat t).Sublist is
      ∧ (flat t).filter (fun it => !droppable T it) = is.filter (fun it => !droppable T it)
      ∧ ∀ it k, PLine.stmt it k ∈ print1 T t → it ∈ is := by
  unfold parse1 at h
  split at h
  · simp at h
  · rename_i t' rest hf
    simp at h; subst h
    have hr := fill_top_rest T ic hT _ _ _ _ _ rfl hf
    subst hr
    obtain ⟨h1, h2⟩ := fill_sublist T ic _ _ _ _ _ hf
    simp only [List.append_nil] at h1 h2
    exact ⟨pr_ids T _ _, h1, h2, fun it k hm => h1.subset (pr_stmt_mem T _ _ it k hm)⟩

/-- (a) partial: if the first round dropped nothing and every printed END line and `BLOCKTYPE name`
    header is, read again in its block, treated as in the first round (`restep`, decidable), then the
    printed source parses again and prints to the same lines. -/
theorem print1_parse1_fixpoint_partial (ic : Bool) (is : List Item) (t : Forest)
    (h : parse1 T ic is = .ok t) (hkeep : (flat t).length = is.length)
    (hr : restep T topCtx t = true) :
    ∃ t', parse1 T ic (items T (print1 T t)) = .ok t' ∧ print1 T t' = print1 T t := by
  unfold parse1 at h
  split at h
  · simp at h
  · rename_i t0 rest hf
    simp at h; subst h
    obtain ⟨h1, _⟩ := fill_sublist T ic _ _ _ _ _ hf
    have hl := h1.length_le
    simp at hl
    have hrest : rest = [] := by
      cases rest with
      | nil => rfl
      | cons a l => simp at hl; omega
    subst hrest
    have hx : flat t0 ++ [] = is := h1.eq_of_length (by simp [hkeep])
    have := fill_sim T ic _ _ _ _ _ hf hx hr [] LRelL.nil
    refine ⟨tr T topCtx t0, ?_, pr_tr T t0 topCtx⟩
    unfold parse1
    have hlen : (items T (print1 T t0)).length = is.length := by
      simp [items, print1, pr_length, hkeep]
    rw [hlen]
    simp only [List.append_nil] at this
    simp [print1, this]

/-- (c) the printed END line is a function of the block (its opener) alone -/
theorem end_print_only_opener (c : Ctx) (it it' : Item) (nx : Forest) (h1 : it.id = it'.id)
    (h2 : it.label = it'.label) : pr T c (.endl it nx) = pr T c (.endl it' nx) := by
  simp [pr, h1, h2]

/-- (c) completing an END line twice is completing it once: the tree of the re-read lines prints the
    same lines (every tree, no hypothesis) -/
theorem end_completion_idem (c : Ctx) (t : Forest) : pr T c (tr T c t) = pr T c t := pr_tr T t c

/-- sufficient syntactic condition for `restep` at an END line (live tables, IF-THEN blocks; the
    other `end\s*KW\s*\w*\Z` END classes alike, `Proofs/One2End.lean`): the END name
    (`construct_name or name`) is a word the reader hands back unchanged. -/
theorem restep_end_if (c : Ctx) (it : Item) (hrow : c.row = 8) (hn : PlainName (endName c))
    (hw : (endName c).all isWord = true) :
    step Gen.tables c (reEnd it.id it.label (endText Gen.tables c)) = .close :=
  if_end_restep c it hrow hn hw

example : PlainName (endName { row := 8, cname := "foo".toList }) ∧
    (endName { row := 8, cname := "foo".toList }).all isWord = true :=
  ⟨⟨by decide, by decide⟩, by decide⟩

/-- the same for an ENUM definition (row 3; it has no name since cc438ae): `END ENUM` closes it again -/
theorem restep_end_enum (c : Ctx) (it : Item) (hrow : c.row = 3) (hn : endName c = []) :
    step Gen.tables c (reEnd it.id it.label (endText Gen.tables c)) = .close :=
  enum_end_restep c it hrow hn

example : endName { row := 3 } = [] := by decide

/-! ## non-vacuity and witnesses over the live tables -/

open Gen in
def cid (n : String) : Nat := classId tables n

def mk (id : Nat) (text : String) (cands : List String := []) (label : Option Nat := none)
    (cname : String := "") (oname : String := "") : Item :=
  { id := id, label := label, cname := cname.toList, text := text.toList, cands := cands.map cid,
    oname := oname.toList }

/-- subroutine s / foo: if (a) then / x = 1 / do 10 i=1,2 / 10 continue / end if foo / end -/
def exSrc : List Item :=
  [mk 1 "subroutine s" (oname := "s"), mk 2 "if (a) then" (cname := "foo"),
   mk 3 "x = 1" ["GeneralAssignment"], mk 4 "do 10 i=1,2",
   mk 5 "continue" ["Continue"] (label := some 10), mk 6 "end if foo", mk 7 "end"]

def treeOf (is : List Item) : Forest :=
  match parse1 Gen.tables true is with
  | .ok t => t
  | .error _ => .nil

def showRes : Except Err Forest → String
  | .ok t => "ok" ++ showForest t
  | .error (.nopattern id r) => "nopattern " ++ toString id ++ " " ++ (rowAt Gen.tables r).cls
  | .error (.assertion id) => "assertion " ++ toString id
  | .error .fuel => "fuel"

def isOk : Except Err Forest → Bool
  | .ok _ => true
  | .error _ => false

theorem ok_treeOf (is : List Item) (h : isOk (parse1 Gen.tables true is) = true) :
    parse1 Gen.tables true is = .ok (treeOf is) := by
  unfold treeOf
  cases hp : parse1 Gen.tables true is with
  | ok t => rfl
  | error e => rw [hp] at h; simp [isOk] at h

def linesOf (is : List Item) : List String := (print1 Gen.tables (treeOf is)).map (showPLine Gen.tables)

example : TopOpen Gen.tables := by decide
example : showForest (treeOf exSrc) = " (1 (2 3 (4 5) 6) 7)" := by decide +kernel
example : linesOf exSrc = ["1;B;Subroutine;s;;", "2;B;IfThen;;foo;", "3;S;GeneralAssignment",
    "4;B;Do;;;", "5;S;Continue", "6;E;END IF foo", "7;E;END SUBROUTINE s"] := by decide +kernel
example : (flat (treeOf exSrc)).length = exSrc.length ∧ restep Gen.tables topCtx (treeOf exSrc) = true := by
  decide +kernel
example : ∃ t', parse1 Gen.tables true (items Gen.tables (print1 Gen.tables (treeOf exSrc))) = .ok t'
    ∧ print1 Gen.tables t' = print1 Gen.tables (treeOf exSrc) :=
  print1_parse1_fixpoint_partial Gen.tables true exSrc (treeOf exSrc)
    (ok_treeOf exSrc (by decide +kernel))
    (by decide +kernel) (by decide +kernel)

/-- shared DO label, missing END at end of input: accepted (warning only) and a fixpoint -/
def exShared : List Item :=
  [mk 1 "subroutine s" (oname := "s"), mk 2 "do 10 i=1,2", mk 3 "do 10 j=1,2",
   mk 4 "x = 1" ["GeneralAssignment"], mk 5 "continue" ["Continue"] (label := some 10),
   mk 6 "if (a) then", mk 7 "x = 2" ["GeneralAssignment"]]
example : showForest (treeOf exShared) = " (1 (2 (3 4) 5) (6 7))" := by decide +kernel
example : restep Gen.tables topCtx (treeOf exShared) = true := by decide +kernel

/-- errors: END with a wrong name, bare END inside IF, unknown statement -/
example : showRes (parse1 Gen.tables true [mk 1 "subroutine s" (oname := "s"), mk 2 "end subroutine q"])
    = "nopattern 2 Subroutine" := by decide +kernel
example : showRes (parse1 Gen.tables true [mk 1 "subroutine s" (oname := "s"), mk 2 "if (a) then",
    mk 3 "end"]) = "nopattern 3 IfThen" := by decide +kernel

/-- regression (dbd6721): `function f(x) / integer f, g / f = 1 / end function`: the declaration that
    types the function stays in the tree for `g` (before the repair the whole statement was ignored and
    the declaration of `g` lost); nothing is dropped, and the print is a fixpoint. -/
def exTyping : List Item :=
  [mk 1 "function f(x)" (oname := "f"),
   { mk 2 "integer f, g" ["Integer"] with decls := ["f".toList, "g".toList] },
   mk 3 "f = 1" ["GeneralAssignment"], mk 4 "end function"]
theorem typing_decl_kept_regression :
    showForest (treeOf exTyping) = " (1 2 3 4)" ∧ (flat (treeOf exTyping)).length = exTyping.length
    ∧ restep Gen.tables topCtx (treeOf exTyping) = true := by
  decide +kernel
example : ∃ t', parse1 Gen.tables true (items Gen.tables (print1 Gen.tables (treeOf exTyping))) = .ok t'
    ∧ print1 Gen.tables t' = print1 Gen.tables (treeOf exTyping) :=
  print1_parse1_fixpoint_partial Gen.tables true exTyping (treeOf exTyping)
    (ok_treeOf exTyping (by decide +kernel)) (by decide +kernel) (by decide +kernel)

/-- `(b)`-exception, still real: `function f(x) / integer f / f = 1 / end function`: a declaration of
    the function name alone becomes the function's type (printed in the header `INTEGER FUNCTION f(x)`)
    and is not a statement of the tree; the item is `droppable`. -/
def exTypingOnly : List Item :=
  [mk 1 "function f(x)" (oname := "f"),
   { mk 2 "integer f" ["Integer"] with decls := ["f".toList] },
   mk 3 "f = 1" ["GeneralAssignment"], mk 4 "end function"]
theorem single_typing_decl_dropped_witness :
    showForest (treeOf exTypingOnly) = " (1 3 4)"
    ∧ (flat (treeOf exTypingOnly)).length + 1 = exTypingOnly.length
    ∧ (exTypingOnly.map (droppable Gen.tables)) = [false, true, false, false] := by
  decide +kernel

/-- typing the function twice: `assert self.parent.typedecl is None` escapes (AssertionError), also when
    the first declaration stayed in the tree -/
theorem typing_twice_assertion_witness :
    showRes (parse1 Gen.tables true
      [mk 1 "function f(x)" (oname := "f"),
       { mk 2 "integer f, g" ["Integer"] with decls := ["f".toList, "g".toList] },
       { mk 3 "real f" ["Real"] with decls := ["f".toList] }, mk 4 "end function"]) = "assertion 3" := by
  decide +kernel

/-- regression (cc438ae): `subroutine s / enum, bind(c) / enumerator :: a / end enum / end subroutine`:
    ENUM has no name and its own header (before the repair: `ENUM __ENUM__ … END ENUM __ENUM__`, rejected
    by the second round); the END line is `END ENUM`, `restep` holds and the print is a fixpoint. -/
def exEnum : List Item :=
  [mk 1 "subroutine s" (oname := "s"), mk 2 "enum, bind(c)", mk 3 "enumerator :: a" ["Enumerator"],
   mk 4 "end enum", mk 5 "end subroutine"]
theorem enum_roundtrip_regression :
    linesOf exEnum = ["1;B;Subroutine;s;;", "2;B;Enum;;;", "3;S;Enumerator", "4;E;END ENUM",
      "5;E;END SUBROUTINE s"]
    ∧ restep Gen.tables topCtx (treeOf exEnum) = true
    ∧ linesOf (items Gen.tables (print1 Gen.tables (treeOf exEnum))) = linesOf exEnum := by
  decide +kernel
example : ∃ t', parse1 Gen.tables true (items Gen.tables (print1 Gen.tables (treeOf exEnum))) = .ok t'
    ∧ print1 Gen.tables t' = print1 Gen.tables (treeOf exEnum) :=
  print1_parse1_fixpoint_partial Gen.tables true exEnum (treeOf exEnum)
    (ok_treeOf exEnum (by decide +kernel)) (by decide +kernel) (by decide +kernel)

/-- defect of fparser1 (open, mirrored): a FUNCTION header typed with a derived type is read everywhere
    except as an interface body: `subroutine s / interface g / type(t) function f(x) / end function f /
    end interface / end subroutine s` → "no parse pattern" in the Interface block (its class list offers
    the intrinsic type declarations only, `Gen.typed_header_classes`); with `integer function f(x)` the
    same source is accepted. -/
def exIfaceFn (needs : List String) : List Item :=
  [mk 1 "subroutine s" (oname := "s"), mk 2 "interface g" (oname := "g"),
   { mk 3 "function f(x)" (oname := "f") with typedHdr := true, needs := needs.map cid },
   mk 4 "end function f", mk 5 "end interface", mk 6 "end subroutine s"]
theorem typed_function_in_interface_witness :
    showRes (parse1 Gen.tables true (exIfaceFn ["TypeStmt"])) = "nopattern 3 Interface"
    ∧ showRes (parse1 Gen.tables true (exIfaceFn ["Class"])) = "nopattern 3 Interface"
    ∧ showRes (parse1 Gen.tables true (exIfaceFn ["Integer"])) = "ok (1 (2 (3 4) 5) 6)"
    ∧ showRes (parse1 Gen.tables true (exIfaceFn ["SubprogramPrefix", "Character"])) = "ok (1 (2 (3 4) 5) 6)"
    ∧ showRes (parse1 Gen.tables true
        [{ mk 1 "function f(x)" (oname := "f") with typedHdr := true, needs := [cid "TypeStmt"] },
         mk 2 "end function f"]) = "ok (1 2)" := by
  decide +kernel

/-- C19 defect (open): a generic spec written with a blank, `interface assignment (=)` … `end interface`:
    printed `END INTERFACE assignment (=)`; the second round compares the END name after removing blanks
    with the kept name and rejects the line.  The statement of the fixpoint theorem is false. -/
def exInterface : List Item :=
  [mk 1 "subroutine s" (oname := "s"), mk 2 "interface assignment (=)" (oname := "assignment (=)"),
   mk 3 "module procedure f" ["ModuleProcedure"], mk 4 "end interface", mk 5 "end subroutine s"]
theorem interface_blank_not_reparsable_witness :
    linesOf exInterface = ["1;B;Subroutine;s;;", "2;B;Interface;assignment (=);;", "3;S;ModuleProcedure",
      "4;E;END INTERFACE assignment (=)", "5;E;END SUBROUTINE s"]
    ∧ restep Gen.tables topCtx (treeOf exInterface) = false
    ∧ showRes (parse1 Gen.tables true (items Gen.tables (print1 Gen.tables (treeOf exInterface))))
        = "nopattern 4 Interface" := by
  decide +kernel

/-- C19 defect (open): `program / x=1 / end` (unnamed main program): printed `PROGRAM __PROGRAM__ …
    END PROGRAM __PROGRAM__`, second round prints `PROGRAM __program__ … END PROGRAM __program__`
    (`get_line()` lower-cases the invented name): a fixpoint only after TWO rounds. -/
def exProgram : List Item := [mk 1 "program", mk 2 "x=1" ["GeneralAssignment"], mk 3 "end"]
def round2 (is : List Item) : List Item := items Gen.tables (print1 Gen.tables (treeOf is))
theorem unnamed_program_two_rounds_witness :
    linesOf exProgram = ["1;B;Program;__PROGRAM__;;PROGRAM __PROGRAM__", "2;S;GeneralAssignment",
      "3;E;END PROGRAM __PROGRAM__"]
    ∧ linesOf (round2 exProgram) = ["1;B;Program;__program__;;PROGRAM __program__",
      "2;S;GeneralAssignment", "3;E;END PROGRAM __program__"]
    ∧ linesOf (round2 (round2 exProgram)) = linesOf (round2 exProgram)
    ∧ restep Gen.tables topCtx (treeOf exProgram) = false := by
  decide +kernel

end Fp.One2
