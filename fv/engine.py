"""Case execution engine: runs a property module's cases in a process pool with a
per-case alarm, folds results into a Report."""
import importlib
import multiprocessing as mp
import os
import signal
import time
import traceback

NPROC = int(os.environ.get("VERIF_JOBS", "0")) or min(16, os.cpu_count() or 4)
CASE_TIMEOUT = 120


class CaseTimeout(BaseException):
    """BaseException on purpose: the code under test catches Exception in places"""


class InputTimeout(BaseException):
    pass


def time_limited(fn, secs):
    """run fn() under its own alarm of `secs` seconds (the per-case alarm is re-armed
    afterwards with what was left of it); raises InputTimeout"""
    def _h(signum, frame):
        raise InputTimeout()
    old_h = signal.signal(signal.SIGALRM, _h)
    left = signal.alarm(int(secs))
    t0 = time.time()
    try:
        return fn()
    finally:
        signal.alarm(0)
        signal.signal(signal.SIGALRM, old_h)
        if left:
            signal.alarm(max(1, int(left - (time.time() - t0))))


def _alarm(signum, frame):
    raise CaseTimeout()


def _worker(arg):
    modname, case = arg
    mod = importlib.import_module(modname)
    if os.environ.get("FV_FAULTHANDLER"):
        import faulthandler
        faulthandler.register(signal.SIGUSR1, file=open("/tmp/fv_fault_%d.txt" % os.getpid(), "w"), all_threads=False)
    signal.signal(signal.SIGALRM, _alarm)
    signal.alarm(int(case.get("_timeout", CASE_TIMEOUT)))
    t0 = time.time()
    try:
        res = mod.run_case(case)
    except CaseTimeout:
        res = {"findings": [{"signature": ("slow:" + str(case.get("kind"))) if case.get("kind") == "scale" else "harness:timeout",
                             "what": "case exceeded %ss" % case.get("_timeout", CASE_TIMEOUT),
                             "replay": {"case": case}, "timeout": True}]}
    except InputTimeout:
        res = {"findings": [{"signature": "harness:timeout", "what": "an input-level time limit fired outside its guard",
                             "replay": {"case": case}, "timeout": True}]}
    except BaseException as e:  # noqa: BLE001  harness bug, not a property violation.  BaseException:
        # a SystemExit (the reader's error() calls sys.exit) that reaches this point would
        # otherwise end the pool worker and lose the task, and the parent would wait for ever
        res = {"harness_error": "%s: %s\n%s" % (type(e).__name__, e, traceback.format_exc()[-1500:]), "case": case}
    finally:
        signal.alarm(0)
    res.setdefault("findings", [])
    res["_wall"] = time.time() - t0
    res["_case"] = case
    return res


def _worker_chunk(args):
    return [_worker(a) for a in args]


def run_cases(modname, cases, rep, nproc=None, chunksize=1):
    """cases: list of JSON-serialisable dicts.  The module's run_case(case) returns
       {key, nontrivial, sample, counts:{name:n}, findings:[{signature, what, replay, no_input?}],
        known:[signature…]}"""
    nproc = nproc or NPROC
    harness_errors = []
    timeouts = 0
    results = []
    if not cases:
        return results
    ctx = mp.get_context("fork")
    args = [(modname, c) for c in cases]
    if nproc == 1 or len(cases) == 1:
        it = map(_worker, args)
        pool = None
    else:
        pool = ctx.Pool(min(nproc, len(cases)))
        chunks = [args[i:i + chunksize] for i in range(0, len(args), chunksize)]
        it = pool.imap_unordered(_worker_chunk, chunks)
    # a worker that dies (killed, crashed interpreter) loses its task: never wait for ever
    stall = max([int(c.get("_timeout", CASE_TIMEOUT)) for c in cases]) * max(1, chunksize) + 120

    def _results():
        if pool is None:
            yield from it
            return
        while True:
            try:
                yield from it.next(timeout=stall)
            except StopIteration:
                return
            except mp.TimeoutError:
                harness_errors.append({"harness_error": "no result for %d s: a worker process died and its case was lost "
                                                        "(%d of %d cases returned)" % (stall, len(results) + len(harness_errors), len(cases))})
                pool.terminate()
                return
    try:
        for res in _results():
            if "harness_error" in res:
                harness_errors.append(res)
                continue
            for k, n in (res.get("counts") or {}).items():
                rep.count(k, n)
            if "keys" in res:
                # a batch: the module reports one key per non-trivial item it evaluated
                rep.evaluations += 1
                rep.distinct.update(res["keys"])
                if res.get("sample") is not None and len(rep.samples) < 6:
                    rep.samples.append(res["sample"])
            else:
                rep.case(res.get("key", res["_case"]), res.get("nontrivial", True), res.get("sample"))
            for f in res["findings"]:
                if f.get("timeout"):
                    timeouts += 1
                rep.violation(f["signature"], f["what"], f.get("replay", {"case": res["_case"]}), f.get("no_input", False))
            results.append(res)
    finally:
        if pool is not None:
            pool.close()
            pool.join()
    if harness_errors:
        rep.notes.append("harness errors: %d" % len(harness_errors))
        rep.coverage["harness_errors"] = [h["harness_error"][-600:] for h in harness_errors[:3]]
        rep.harness_errors = getattr(rep, "harness_errors", 0) + len(harness_errors)
    return results
