"""Co-simulation of the combinator models (lean/FparserModel/Combi.lean) against the real
`fparser.two.utils` combinators, with the REAL child classes as oracle, plus the direct leaf
round-trip oracle for all rule classes.

For every generic class (fv/extract_combi.py: `match` is `return <Base>.match(consts, string)`,
inherited `tostr`) and every sample string:

* the real `cls.match(string)` runs with `Base.__new__` wrapped, recording the DIRECT child calls
  `(child class, string handed over, matched / NoMatchError / other exception, object)`;
* the compiled model returns its SPLIT - which sub-strings it hands to which child class, in
  call order (`combi`), or the keyword alternatives (WORDClsBase list), or the text it hands to
  the regex (String/Number bases);
* the harness executes the split fail-fast against the recording and requires: the same child
  calls in the same order with the same strings, the same outcome (tuple / None / NoMatchError /
  exception type), and item-wise the same tuple (None / str / the object the k-th call returned);
* when the class accepts, `str(node)` is compared with the model's `tostr` of the same items
  (children by their printed text).

Leaf round trip (all classes, generic or hand-written): for every sample the class accepts,
`t1 = str(cls(text))`, `cls(t1)` must succeed with `str(...) == t1` and an equal `repr`.
Failures are C01 leaf findings (reported per class with the shortest failing input); they do not
affect the exit code.  Exit 1 on a model/real disagreement.

Samples: literal first arguments of `ClassName("...")` calls in /repo/src/fparser/two/tests
(`ast`, with `tcls = ClassName` aliases resolved), plus `(type(node).__name__, str(node))` for
every node of the trees of `--n` generated programs (`fv.gen.gen_program`), plus layout variants
of those (blank padding, case).

    timeout 1800 /venv/bin/python -m fv.cosim_combi --seed 0 --n 300
"""
import argparse
import ast
import collections
import json
import os
import random
import signal
import sys

from fv import repo
from fv import extract_combi
from fv import model as fvmodel

repo.activate()

from fparser.two import utils as U                     # noqa: E402
from fparser.two.parser import ParserFactory           # noqa: E402

TESTS = os.path.join(repo.REPO, "src", "fparser", "two", "tests")


# ------------------------------------------------------------------------------- samples

def harvest_tests(names):
    """{class name: set(strings)} from the repo's own tests"""
    out = collections.defaultdict(set)
    for root, _, files in os.walk(TESTS):
        for f in sorted(files):
            if not f.endswith(".py"):
                continue
            try:
                tree = ast.parse(open(os.path.join(root, f), encoding="utf-8").read())
            except (SyntaxError, UnicodeDecodeError):
                continue
            scopes = [n for n in ast.walk(tree) if isinstance(n, (ast.FunctionDef, ast.Module))]
            for sc in scopes:
                alias = []          # (lineno, alias name, class name)
                for n in ast.walk(sc):
                    if isinstance(n, ast.Assign) and len(n.targets) == 1 \
                            and isinstance(n.targets[0], ast.Name):
                        v = n.value
                        cname = v.id if isinstance(v, ast.Name) else (
                            v.attr if isinstance(v, ast.Attribute) else None)
                        if cname in names:
                            alias.append((n.lineno, n.targets[0].id, cname))
                alias.sort()
                for n in ast.walk(sc):
                    if not (isinstance(n, ast.Call) and n.args
                            and isinstance(n.args[0], ast.Constant)
                            and isinstance(n.args[0].value, str)):
                        continue
                    fn = n.func
                    cname = fn.id if isinstance(fn, ast.Name) else (
                        fn.attr if isinstance(fn, ast.Attribute) else None)
                    if cname is None:
                        continue
                    if cname not in names:
                        best = None
                        for ln, a, c in alias:
                            if a == cname and ln <= n.lineno:
                                best = c
                        cname = best
                    if cname in names:
                        out[cname].add(n.args[0].value)
    return out


def harvest_generated(seed, n):
    """{class name: set(strings)} from the trees of generated programs"""
    from fv import gen, real
    out = collections.defaultdict(set)
    parsed = 0
    for i in range(n):
        try:
            p = gen.gen_program(seed * 100003 + i, std="f2008")
            src = p.text()
        except Exception:  # noqa: BLE001
            continue
        o = real.try_parse(src, std="f2008")
        if o.kind != "tree":
            continue
        parsed += 1
        for node in U.walk(o.tree):
            if isinstance(node, U.Base) and not isinstance(node, U.BlockBase):
                try:
                    s = str(node)
                except Exception:  # noqa: BLE001
                    continue
                if "\n" not in s and len(s) < 400:
                    out[type(node).__name__].add(s)
    return out, parsed


def variants(rng, s):
    """layout variants of a printed text: padding, case, blanks around punctuation"""
    vs = [" " + s, s + " ", "  " + s + "  ", s.lower(), s.upper()]
    for ch in ",():=":
        if ch in s:
            vs.append(s.replace(ch, " " + ch + " "))
            vs.append(s.replace(ch + " ", ch).replace(" " + ch, ch))
    rng.shuffle(vs)
    return vs[:4]


def mutants(rng, s, k=6):
    """adversarial neighbours: a character dropped / inserted / doubled (brackets, quotes,
    separators, placeholder-looking text, exponent constants)"""
    out = []
    ins = ["(", ")", "=", ":", ",", "'", '"', "/", "*", "[", "]", " ", "::", "%", "x", "1.e5",
           "F2PY_EXPR_TUPLE_1", "'a,b'", "(a,b)", "(:)", "\t", "_"]
    for _ in range(k):
        r = rng.random()
        if s and r < 0.35:
            i = rng.randrange(len(s))
            out.append(s[:i] + s[i + 1:])
        elif r < 0.85:
            i = rng.randrange(len(s) + 1)
            out.append(s[:i] + rng.choice(ins) + s[i:])
        elif s:
            i = rng.randrange(len(s))
            out.append(s[:i] + s[i] + s[i:])
    return out


class CaseTimeout(Exception):
    """the real parser did not finish within CASE_SECONDS on one sample"""


CASE_SECONDS = 10


def _alarm(signum, frame):
    raise CaseTimeout()


class time_limit:
    def __enter__(self):
        self.old = signal.signal(signal.SIGALRM, _alarm)
        signal.setitimer(signal.ITIMER_REAL, CASE_SECONDS)

    def __exit__(self, *a):
        signal.setitimer(signal.ITIMER_REAL, 0)
        signal.signal(signal.SIGALRM, self.old)
        return False


# ------------------------------------------------------------------------------- recording

class Recorder:
    """wraps Base.__new__; records the calls made at depth 1"""

    def __init__(self):
        self.depth = 0
        self.calls = []
        self.orig = None

    def __enter__(self):
        self.orig = U.Base.__dict__["__new__"]
        orig = self.orig.__func__ if isinstance(self.orig, staticmethod) else self.orig
        rec = self

        def new(cls, string, parent_cls=None, _deepcopy=False):
            rec.depth += 1
            top = rec.depth == 1
            try:
                try:
                    r = orig(cls, string, parent_cls, _deepcopy)
                except U.NoMatchError:
                    if top:
                        rec.calls.append((cls, string, "nomatch", None))
                    raise
                except Exception as e:  # noqa: BLE001
                    if top:
                        rec.calls.append((cls, string, "exc:" + type(e).__name__, None))
                    raise
                if top:
                    rec.calls.append((cls, string, "ok", r))
                return r
            finally:
                rec.depth -= 1

        U.Base.__new__ = new
        return self

    def __exit__(self, *a):
        U.Base.__new__ = self.orig
        return False


def real_match(cls, text):
    """-> (outcome, result tuple or None, calls); outcome = tuple|none|nomatch|exc:<Type>"""
    with Recorder() as rec:
        try:
            r = cls.match(text)
            if r is None:
                out = "none"
            elif isinstance(r, tuple):
                out = "tuple"
            else:
                out = "other:" + type(r).__name__
        except U.NoMatchError:
            r, out = None, "nomatch"
        except Exception as e:  # noqa: BLE001
            r, out = None, "exc:" + type(e).__name__
    return out, r, rec.calls


# ------------------------------------------------------------------------------- model side

def parse_slots(fields, pos):
    """fields[pos:] = none | some n slot* -> (slots or None, new pos)"""
    if fields[pos] == "none":
        return None, pos + 1
    n = int(fields[pos + 1])
    pos += 2
    slots = []
    for _ in range(n):
        k = fields[pos]
        if k in ("N", "X", "F"):
            slots.append((k,))
            pos += 1
        elif k == "S":
            slots.append(("S", fields[pos + 1]))
            pos += 2
        elif k == "C":
            slots.append(("C", int(fields[pos + 1]), fields[pos + 2]))
            pos += 3
        else:
            raise ValueError("bad slot " + k)
    return slots, pos


def run_slots(slots, calls, k, ids):
    """execute a split against the recorded calls from index k.
    -> (outcome, items, k', problem)   outcome = tuple|nomatch|exc:<T>|none"""
    items = []
    for sl in slots:
        if sl[0] == "N":
            items.append(None)
        elif sl[0] == "S":
            items.append(sl[1])
        elif sl[0] == "X":
            return "exc:TypeError", None, k, None
        elif sl[0] == "F":
            return "none", None, k, None
        else:
            if k >= len(calls):
                return None, None, k, "model makes call #%d %s(%r), real made %d calls" % (
                    k, sl[1], sl[2], len(calls))
            cls, string, how, obj = calls[k]
            if ids.get(cls) != sl[1] or string != sl[2]:
                return None, None, k, "call #%d: model %s(%r) real %s(%r)" % (
                    k, sl[1], sl[2], ids.get(cls), string)
            k += 1
            if how == "nomatch":
                return "nomatch", None, k, None
            if how != "ok":
                return how, None, k, None
            items.append(obj)
    return "tuple", items, k, None


def same_items(model_items, real_items):
    if len(model_items) != len(real_items):
        return False
    for a, b in zip(model_items, real_items):
        if isinstance(a, U.Base) or isinstance(b, U.Base):
            if a is not b:
                return False
        elif a != b:
            return False
    return True


def norm_outcome(o):
    # a `return None` and a NoMatchError are both "no match" for the caller (Base.__new__),
    # but they are different events: keep them apart
    return o


class Checker:
    def __init__(self, mdl, rows, ctx):
        self.m = mdl
        self.rows = rows
        self.ctx = ctx
        self.ids = ctx.ids
        self.regex = [p for _, p in ctx.regex]
        self.stats = collections.Counter()
        self.per_base = collections.Counter()
        self.per_base_accept = collections.Counter()
        self.bad = []

    def disagree(self, row, text, msg):
        self.stats["disagree"] += 1
        if len(self.bad) < 40:
            self.bad.append("%s %r: %s" % (row["key"], text, msg))

    def check(self, row, cls, text):
        sp = row["spec"]
        base = sp["pybase"]
        self.per_base[base] += 1
        self.stats["cases"] += 1
        out, res, calls = real_match(cls, text)
        if sp["base"] == "string":
            return self.check_string(row, cls, text, out, res)
        if sp["base"] == "number":
            return self.check_number(row, cls, text, out, res)
        try:
            f = self.m.ask("combi", str(row["id"]), text)
        except RuntimeError as e:
            return self.disagree(row, text, "model error %s" % e)
        if f[0] == "nospec":
            return self.disagree(row, text, "driver has no spec for this class (stale build?)")
        if f[0] == "split":
            slots, _ = parse_slots(f, 1)
            if slots is None:
                mo, items, k, prob = "none", None, 0, None
            else:
                mo, items, k, prob = run_slots(slots, calls, 0, self.ids)
        elif f[0] == "alts":
            pos, k, mo, items, prob = 1, 0, "none", None, None
            while pos < len(f):
                slots, pos = parse_slots(f, pos)
                if slots is None:
                    continue
                o2, it2, k, prob = run_slots(slots, calls, k, self.ids)
                if prob:
                    break
                if o2 == "tuple":
                    mo, items = o2, it2
                    break
                if o2 == "nomatch" or o2 == "none":
                    continue          # `except NoMatchError: obj = None`
                mo = o2               # another exception escapes
                break
        else:
            return self.disagree(row, text, "unexpected reply %r" % f[:1])
        if prob:
            return self.disagree(row, text, prob)
        if k != len(calls):
            return self.disagree(row, text, "real made %d child calls, model %d: %r" % (
                len(calls), k, [(c.__name__, s) for c, s, _, _ in calls]))
        if mo != out:
            return self.disagree(row, text, "outcome model=%s real=%s" % (mo, out))
        if out == "tuple":
            real_items = list(res[1]) if sp["base"] == "seq" else list(res)
            if sp["base"] == "seq" and res[0] != sp["sep"]:
                return self.disagree(row, text, "separator %r" % (res[0],))
            if not same_items(items, real_items):
                return self.disagree(row, text, "items model=%r real=%r" % (items, real_items))
            self.per_base_accept[base] += 1
            self.check_str(row, cls, text, real_items)
        self.stats["agree"] += 1

    def check_str(self, row, cls, text, real_items):
        """str(node) vs the model's tostr on the same items"""
        try:
            obj = cls(text)
            s = str(obj)
        except Exception as e:  # noqa: BLE001
            # e.g. BracketBase.tostr InternalError; compare with model none
            s = None
        if obj is not None and type(obj) is not cls:
            return      # the match went to a subclass: a different printer
        fields = []
        for it in real_items:
            if it is None:
                fields.append("N")
            elif isinstance(it, str):
                fields += ["S", it]
            else:
                fields += ["T", str(it)]
        f = self.m.ask("combi_str", str(row["id"]), *fields)
        ms = f[1] if f[0] == "some" else None
        self.stats["tostr"] += 1
        if ms != s:
            self.disagree(row, text, "tostr model=%r real=%r" % (ms, s))

    def check_string(self, row, cls, text, out, res):
        sp = row["spec"]
        f = self.m.ask("combi", str(row["id"]), text)
        if f[0] != "string":
            return self.disagree(row, text, "unexpected reply %r" % f[:1])
        x, lit_ok, res_ids = f[1], f[2] == "1", [int(i) for i in f[3].split(",") if i]
        ok = lit_ok or any(bool(self.regex[i].match(x)) for i in res_ids)
        mo = "tuple" if ok else "none"
        if mo != out:
            return self.disagree(row, text, "outcome model=%s real=%s (x=%r)" % (mo, out, x))
        if ok:
            if tuple(res) != (x,):
                return self.disagree(row, text, "result model=%r real=%r" % ((x,), res))
            self.per_base_accept[sp["pybase"]] += 1
            g = self.m.ask("combi_str", str(row["id"]), "S", x)
            try:
                s = str(cls(text))
            except Exception:  # noqa: BLE001
                s = None
            if s is not None and (g[0] != "some" or g[1] != s):
                return self.disagree(row, text, "tostr model=%r real=%r" % (g, s))
        self.stats["agree"] += 1

    def check_number(self, row, cls, text, out, res):
        sp = row["spec"]
        pre = {"id": lambda t: t, "strip": str.strip, "upper": str.upper}[sp["pre"]]
        xpy = pre(text).replace(" ", "")
        m = self.regex[sp["re"]].match(xpy)
        if m is None:
            f = self.m.ask("combi", str(row["id"]), text)
            mo = "none"
            items = None
        else:
            d = m.groupdict()
            kind = d.get("kind_param")
            f = self.m.ask("combi", str(row["id"]), text, d["value"],
                           "1" if kind is not None else "0", kind or "")
            mo = "tuple"
            items = (f[3], kind)
        if f[0] != "number" or f[1] != xpy:
            return self.disagree(row, text, "regex input model=%r python=%r" % (f[1:2], xpy))
        if mo != out:
            return self.disagree(row, text, "outcome model=%s real=%s" % (mo, out))
        if items is not None:
            if tuple(res) != items:
                return self.disagree(row, text, "items model=%r real=%r" % (items, res))
            self.per_base_accept[sp["pybase"]] += 1
            fields = ["S", items[0]] + (["N"] if items[1] is None else ["S", items[1]])
            g = self.m.ask("combi_str", str(row["id"]), *fields)
            try:
                s = str(cls(text))
            except Exception:  # noqa: BLE001
                s = None
            if s is not None and (g[0] != "some" or g[1] != s):
                return self.disagree(row, text, "tostr model=%r real=%r" % (g, s))
        self.stats["agree"] += 1


# ------------------------------------------------------------------------------- leaf oracle

def leaf_roundtrip(cls, text):
    """-> None (not accepted / fine) or a failure description"""
    try:
        a = cls(text)
    except U.NoMatchError:
        return "reject", None
    except Exception as e:  # noqa: BLE001
        return "crash", "%s(%r) raises %s: %s" % (cls.__name__, text, type(e).__name__, str(e)[:80])
    if a is None:
        return "reject", None
    try:
        t1 = str(a)
        r1 = repr(a)
    except Exception as e:  # noqa: BLE001
        return "fail", "str/repr of %s(%r) raises %s" % (cls.__name__, text, type(e).__name__)
    try:
        b = cls(t1)
    except U.NoMatchError:
        return "fail", "printed text %r (from %r) is rejected" % (t1, text)
    except Exception as e:  # noqa: BLE001
        return "fail", "printed text %r (from %r) raises %s" % (t1, text, type(e).__name__)
    t2 = str(b)
    if t2 != t1:
        return "fail", "%r -> %r -> %r" % (text, t1, t2)
    if repr(b) != r1:
        return "fail", "%r -> %r: repr %s != %s" % (text, t1, r1[:120], repr(b)[:120])
    return "ok", None


# ------------------------------------------------------------------------------- main

def run(seed, n, exe=None, verbose=False, max_per_class=400):
    rng = random.Random(seed)
    rows, regex_labels, ctx = extract_combi.extract()
    classes = dict(extract_combi.all_classes())
    by_key = {r["key"]: r for r in rows}
    names = {r["name"] for r in rows}

    # is the compiled table the one of the live tree?
    gen_json = os.path.join(os.path.dirname(os.path.dirname(exe or fvmodel.EXE)), "..", "..",
                            "FparserModel", "Generated", "combi.json")
    stale = False
    try:
        old = json.load(open(os.path.normpath(gen_json)))
        stale = old["classes"] != json.loads(json.dumps(rows))
    except (OSError, ValueError, KeyError):
        pass

    samples = harvest_tests(names)
    n_test = sum(len(v) for v in samples.values())
    gsamples, parsed = harvest_generated(seed, n)
    n_gen = 0
    for k, v in gsamples.items():
        new = v - samples[k]
        n_gen += len(new)
        samples[k] |= new
    # layout variants of the generic classes' samples
    for r in rows:
        if r["kind"] == "generic":
            base = sorted(samples.get(r["name"], ()))
            rng.shuffle(base)
            for s in base[:60]:
                samples[r["name"]] |= set(variants(rng, s))
                samples[r["name"]] |= set(mutants(rng, s))
    # cross-feeding: samples of the other classes with the same base
    by_base = collections.defaultdict(list)
    for r in rows:
        if r["kind"] == "generic":
            by_base[r["spec"]["pybase"]].append(r["name"])
    pool = {b: sorted(set().union(*[samples.get(nm, set()) for nm in nms]))
            for b, nms in by_base.items()}
    for r in rows:
        if r["kind"] == "generic":
            pl = pool[r["spec"]["pybase"]]
            if pl:
                samples[r["name"]] |= set(rng.sample(pl, min(25, len(pl))))

    mdl = fvmodel.Model(exe) if exe else fvmodel.get_model()
    try:
        mdl.ask("combi", "0", "x")
    except RuntimeError as e:
        print("the compiled driver has no `combi` command (%s): add `import FpDriver.Combi` and "
              "`FpDriver.Combi.handle` to lean/FpDriver.lean and rebuild" % e)
        return 1, {}, {}, None
    chk = Checker(mdl, rows, ctx)
    leaf = collections.Counter()
    leaf_fail = collections.defaultdict(list)
    leaf_crash = collections.defaultdict(list)
    shadowed = {r["name"] for r in rows if r["std"] == "f2008"}

    for std in ("f2008", "f2003"):
        ParserFactory().create(std=std)
        for r in rows:
            key = r["key"]
            if std == "f2008" and r["std"] == "f2003" and r["name"] in shadowed:
                continue
            if std == "f2003" and not (r["std"] == "f2003" and r["name"] in shadowed):
                continue
            cls = classes[key]
            texts = sorted(samples.get(r["name"], ()))
            if len(texts) > max_per_class:
                rng2 = random.Random(seed * 7 + r["id"])
                texts = sorted(rng2.sample(texts, max_per_class))
            for t in texts:
                try:
                    from fparser.two.symbol_table import SYMBOL_TABLES
                    SYMBOL_TABLES.clear()
                except Exception:  # noqa: BLE001
                    pass
                try:
                    with time_limit():
                        if r["kind"] == "generic":
                            chk.check(r, cls, t)
                        how, msg = ("skip", None)
                        if r["kind"] in ("generic", "hand", "other_base"):
                            how, msg = leaf_roundtrip(cls, t)
                except CaseTimeout:
                    how, msg = "crash", "%s(%r) does not finish within %d s" % (
                        cls.__name__, t, CASE_SECONDS)
                if how != "skip":
                    leaf[how] += 1
                    if how == "fail":
                        leaf_fail[key].append((len(t), t, msg))
                    elif how == "crash":
                        leaf_crash[key].append((len(t), t, msg))
                    if verbose and how in ("fail", "crash"):
                        print("  [%s] %s %s" % (how, key, msg), flush=True)
    ParserFactory().create(std="f2003")

    per, kinds = extract_combi.counts(rows)
    print("combinator co-simulation  seed=%d n=%d" % (seed, n))
    print("samples: %d strings from the repo tests, %d from %d generated programs (+ layout variants)"
          % (n_test, n_gen, parsed))
    if stale:
        print("WARNING: Generated/combi.json differs from the live extraction (rebuild the model)")
    print("generic classes per base (cases run / accepted by the real match):")
    for b in extract_combi.BASES:
        print("  %-18s classes %3d   cases %6d   accepted %6d" % (
            b, per.get(b, 0), chk.per_base.get(b, 0), chk.per_base_accept.get(b, 0)))
    print("  total generic %d, hand-written %d, other generic bases %d" % (
        kinds.get("generic", 0), kinds.get("hand", 0), kinds.get("other_base", 0)))
    covered = {r["key"] for r in rows if r["kind"] == "generic" and samples.get(r["name"])}
    print("  generic classes with at least one sample: %d / %d" % (len(covered), kinds.get("generic", 0)))
    print("model/real: cases %d  agree %d  DISAGREE %d  (tostr comparisons %d)" % (
        chk.stats["cases"], chk.stats["agree"], chk.stats["disagree"], chk.stats["tostr"]))
    for b in chk.bad:
        print("  DISAGREE " + b)
    print("leaf round trip (all classes): accepted-and-stable %d  FAIL %d  crash %d  rejected %d" % (
        leaf["ok"], leaf["fail"], leaf["crash"], leaf["reject"]))
    if leaf_fail:
        print("classes whose leaf round trip fails on an accepted input (shortest input):")
        for key in sorted(leaf_fail):
            fl = sorted(leaf_fail[key])
            kind = by_key[key]["kind"]
            print("  %-40s [%s] %d inputs   %s" % (key, kind, len(fl), fl[0][2]))
    if leaf_crash:
        print("classes raising something other than NoMatchError (shortest input):")
        for key in sorted(leaf_crash):
            fl = sorted(leaf_crash[key])
            print("  %-40s %d inputs   %s" % (key, len(fl), fl[0][2]))
    return chk.stats["disagree"], leaf_fail, leaf_crash, chk


def main(argv=None):
    ap = argparse.ArgumentParser()
    ap.add_argument("--seed", type=int, default=0)
    ap.add_argument("--n", type=int, default=300)
    ap.add_argument("--exe", default=os.environ.get("FV_MODEL_EXE"))
    ap.add_argument("-v", action="store_true")
    a = ap.parse_args(argv)
    if argv is None and os.environ.get("PYTHONHASHSEED") != "0":
        # the sample sets are built from Python sets of strings: pin the hash seed so that a run
        # (and a failure) is reproducible
        env = dict(os.environ, PYTHONHASHSEED="0")
        os.execve(sys.executable, [sys.executable, "-m", "fv.cosim_combi"] + sys.argv[1:], env)
    bad, _, _, _ = run(a.seed, a.n, exe=a.exe, verbose=a.v)
    return 1 if bad else 0


if __name__ == "__main__":
    sys.exit(main())
