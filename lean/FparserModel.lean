import FparserModel.Py
import FparserModel.Wire
import FparserModel.Splitline
import FparserModel.SourceInfo
import FparserModel.Generated.TokenLex
import FparserModel.Props.Splitline
import FparserModel.Props.SplitlineSrm
import FparserModel.Props.SourceInfo
