import FparserModel.Proofs.SplitlineQuote
import FparserModel.Proofs.SplitlineState
import FparserModel.Proofs.SplitlineBalance
/-!
# Properties of the tokeniser (`common/splitline.py`)  — serves C02, C04, C05, C08

All statements are for every input string (no size bound).
-/
namespace Fp.Splitline
open Fp

/-! ## (a) `splitquote` loses nothing -/

/-- **splitquote_join**: the segments of `splitquote(line, stopchar)` concatenate to `line`,
    whatever the incoming quote state. -/
theorem splitquote_join (l : Str) (stop : Option Char) :
    ((splitquote l stop).1.map Seg.str).flatten = l :=
  splitquote_join' l stop

/-- continuation lines: threading the returned `stopchar` through the next line keeps every
    character of both lines (the C04/C05 "continued character literal" mechanism). -/
theorem splitquote_continuation_join (a b : Str) (stop : Option Char) :
    ((splitquote a stop).1.map Seg.str).flatten
      ++ ((splitquote b (splitquote a stop).2).1.map Seg.str).flatten = a ++ b := by
  rw [splitquote_join, splitquote_join]

/-! ## (b) the returned `stopchar` is the state of the quote automaton -/

/-- **splitquote_state**: the second component of `splitquote` is the state reached by the
    character-at-a-time automaton `qstep` (outside / inside `q` / pending `q`, doubled
    delimiter = escape), for any incoming state and either value of `lower`. -/
theorem splitquote_state (l : Str) (stop : Option Char) (lower : Bool) :
    (splitquote l stop lower).2 = quoteStateAfter stop l :=
  splitquote_state' l stop lower

/-- the cut `a | b` separates the two characters of a doubled (escaped) delimiter -/
def CutsDoubled (stop : Option Char) (a b : Str) : Prop :=
  ∃ q, qrun (qinit stop) a = .pending q ∧ b.head? = some q

/-- **quoteStateAfter_append**: reading `a ++ b` = reading `a`, then `b` from the state left by
    `a`, for every cut that does not separate a doubled delimiter. -/
theorem quoteStateAfter_append (stop : Option Char) (a b : Str) (h : ¬ CutsDoubled stop a b) :
    quoteStateAfter stop (a ++ b) = quoteStateAfter (quoteStateAfter stop a) b := by
  unfold quoteStateAfter
  rw [qrun_append]
  cases hs : qrun (qinit stop) a with
  | outside => rfl
  | inLit q => rfl
  | pending q =>
    have : b.head? ≠ some q := fun hb => h ⟨q, hs, hb⟩
    exact qfinal_pending q b this

/-- **the excluded cut, exactly**: if `a` ends on the first half of a doubled `q` and `b = q :: b'`
    starts with the second half, then
    * uncut, the pair is an escape and reading continues INSIDE the literal;
    * cut, the first half closes the literal at the end of `a` (state `none`), and the second
      half re-opens a literal iff `q` is a quotation character. -/
theorem quoteStateAfter_append_doubled (stop : Option Char) (a b' : Str) (q : Char)
    (h : qrun (qinit stop) a = .pending q) :
    quoteStateAfter stop (a ++ q :: b') = quoteStateAfter (some q) b' ∧
    quoteStateAfter stop a = none ∧
    quoteStateAfter (quoteStateAfter stop a) (q :: b')
      = if isQuote q then quoteStateAfter (some q) b' else quoteStateAfter none b' := by
  unfold quoteStateAfter
  rw [qrun_append, h]
  refine ⟨by simp [qstep, qinit], rfl, ?_⟩
  by_cases hq : isQuote q <;> simp [qfinal, qinit, qstep, hq]

/-- hence, when the incoming state is a real quotation character (the only values `splitquote`
    itself ever returns), the state composes over EVERY cut — what differs at the excluded cut
    is only the segmentation (one literal is reported as two adjacent `String`s, see the
    witness below). -/
theorem quoteStateAfter_append_quote (stop : Option Char) (a b : Str)
    (hq : ∀ q, stop = some q → isQuote q = true) :
    quoteStateAfter stop (a ++ b) = quoteStateAfter (quoteStateAfter stop a) b := by
  unfold quoteStateAfter
  rw [qrun_append]
  apply qfinal_qrun_requote
  intro q hp
  have : (qinit stop).quoteOnly := by
    cases stop with
    | none => trivial
    | some c => exact hq c rfl
  have := qrun_quoteOnly _ a this
  rw [hp] at this; exact this

/-- `splitquote` only ever returns `none` or a quotation character when started that way -/
theorem splitquote_state_isQuote (l : Str) (stop : Option Char) (lower : Bool)
    (hq : ∀ q, stop = some q → isQuote q = true) :
    ∀ q, (splitquote l stop lower).2 = some q → isQuote q = true := by
  intro q h
  rw [splitquote_state] at h
  unfold quoteStateAfter at h
  have h0 : (qinit stop).quoteOnly := by
    cases stop with
    | none => trivial
    | some c => exact hq c rfl
  have := qrun_quoteOnly _ l h0
  cases hs : qrun (qinit stop) l with
  | outside => rw [hs] at h; simp [qfinal] at h
  | inLit c => rw [hs] at h this; simp [qfinal] at h; subst h; exact this
  | pending c => rw [hs] at h; simp [qfinal] at h

-- non-vacuity / witnesses
example : splitquote "a = 'it''s' // \"x".toList none
    = ([.plain "a = ".toList, .quoted "'it''s'".toList, .plain " // ".toList, .quoted "\"x".toList],
       some '"') := by decide
example : ¬ CutsDoubled none "a = 'it".toList "''s'".toList := by
  rintro ⟨q, h, _⟩
  have : qrun (qinit none) "a = 'it".toList = .inLit '\'' := by decide
  rw [this] at h; cases h
example : CutsDoubled none "a = 'it'".toList "'s'".toList := ⟨'\'', by decide, by decide⟩
/-- at the excluded cut the state still composes (quotation character) … -/
example : quoteStateAfter none "a = 'it''s'".toList
    = quoteStateAfter (quoteStateAfter none "a = 'it'".toList) "'s'".toList := by decide
/-- … but the ONE literal `'it''s'` comes back as TWO `String` segments `'it'` and `'s'` -/
example : (splitquote "a = 'it'".toList none).1 ++ (splitquote "'s'".toList (splitquote "a = 'it'".toList none).2).1
    = [.plain "a = ".toList, .quoted "'it'".toList, .quoted "'s'".toList] := by decide
/-- with a `stopchar` that is not a quotation character the state does NOT compose there -/
example : quoteStateAfter (some 'x') "xx".toList = some 'x' ∧
    quoteStateAfter (quoteStateAfter (some 'x') "x".toList) "x".toList = none := by decide

/-! ## (c) `splitparen` -/

/-- **splitparen_join**: the items concatenate to the line. -/
theorem splitparen_join (l : Str) (pairs : List (Char × Char)) :
    ((splitparen l pairs).map PItem.str).flatten = l :=
  splitparen_join' l pairs

/-- the line has an unmatched opener for the reader `sstep` (which skips backslash-escaped
    characters and quoted text, and ignores closers that do not match the innermost opener) -/
def UnmatchedOpener (pairs : List (Char × Char)) (l : Str) : Prop := (srun pairs {} l).stack ≠ []

instance (pairs : List (Char × Char)) (l : Str) : Decidable (UnmatchedOpener pairs l) :=
  inferInstanceAs (Decidable ((srun pairs {} l).stack ≠ []))

/-- **splitparen_balanced**, what the code REALLY does:
    1. no unmatched opener: every `ParenString` item starts at depth 0, stays at depth ≥ 1 on
       every proper prefix and returns to depth 0 exactly at its last character (`parenOK`);
       every plain item stays at depth 0 throughout (`flatB`) — so an unmatched or mismatched
       CLOSER is just a character of a plain item (or of the group it sits in);
    2. an unmatched opener: the same holds for all items but the last, and the last item is
       ONE PLAIN item running from the outermost unmatched opener to the end of the line
       (groups that are closed inside that tail are NOT reported as `ParenString`s). -/
theorem splitparen_balanced (l : Str) (pairs : List (Char × Char)) :
    (¬ UnmatchedOpener pairs l → itemsOK pairs {} (splitparen l pairs)) ∧
    (UnmatchedOpener pairs l →
      ∃ body t, splitparen l pairs = body ++ [.plain t] ∧ itemsOK pairs {} body ∧ t ≠ [] ∧
        (srun pairs {} (pjoin body)).stack = [] ∧
        openB pairs (srun pairs {} (pjoin body)) t = true) :=
  ⟨fun h => splitparen_closed l pairs (by simpa [UnmatchedOpener] using h),
   fun h => splitparen_open l pairs h⟩

/-- a well-formed `ParenString` is `opener … its own closer` -/
theorem splitparen_paren_shape (pairs : List (Char × Char)) (s : Scan) (t : Str)
    (h : itemOK pairs s (.paren t)) :
    ∃ o mid cl, t = o :: (mid ++ [cl]) ∧ closerOf pairs o = some cl :=
  parenOK_shape pairs s t h

-- non-vacuity / witnesses
example : splitparen "a( (1+2)*3) = b(x)".toList
    = [.plain "a".toList, .paren "( (1+2)*3)".toList, .plain " = b".toList, .paren "(x)".toList] := by
  decide
example : ¬ UnmatchedOpener defaultPairs "a( (1+2)*3) = b(x)".toList := by decide
/-- a leading group yields an EMPTY plain item first (`['', '(a)', '', '(b)']`) -/
example : splitparen "(a)(b)".toList
    = [.plain [], .paren "(a)".toList, .plain [], .paren "(b)".toList] := by decide
/-- unmatched opener: the tail is one plain item, the closed inner group is not reported -/
example : UnmatchedOpener defaultPairs "a(b(c)".toList ∧
    splitparen "a(b(c)".toList = [.plain "a".toList, .plain "(b(c)".toList] := by decide
/-- unmatched / mismatched closers are silently kept: in a plain item, or inside a group -/
example : splitparen "a)b(c]d)".toList = [.plain "a)b".toList, .paren "(c]d)".toList] := by decide
/-- a backslash hides the next character from the reader, a quote hides up to its partner
    (no doubled-quote rule here: `''` closes and re-opens) -/
example : splitparen "f(\\)) g(')')".toList
    = [.plain "f".toList, .paren "(\\))".toList, .plain " g".toList, .paren "(')')".toList] := by decide

end Fp.Splitline
