import FparserModel.Proofs.Block3Match

/-!
# M-D proofs, part 12 (C16): the other `match` methods, `Base.__new__`, and `eval`
-/
namespace Fp.Block

variable {env : Env} {S : Cls → Bool}

theorem manyLoop_G {f : F} (hf : FT env S f) {c : Cls} {k : Nat} {rc : List Tree} {s : St}
    {content : List Tree} {s' : St}
    (heq : manyLoop f c k rc s = (.tuple content, s')) (hB : B s' = B s) :
    ∃ new, content = (new ++ rc).reverse ∧ Gain s s' (skL env.tbl new.reverse) := by
  induction k generalizing rc s with
  | zero => simp [manyLoop] at heq
  | succ k ih =>
    simp only [manyLoop] at heq
    split at heq
    · simp at heq
    · rename_i s1 h1
      split at heq
      · simp at heq
      · simp only [Prod.mk.injEq, MRes.tuple.injEq] at heq
        obtain ⟨rfl, rfl⟩ := heq
        have hc := callCatch_F hf.base h1 hB
        simp only at hc
        exact ⟨[], by simp, by simpa [skL] using Gain.of_symEq hc⟩
    · rename_i t s1 h1
      have l1 : LogExt s s1 := by have := callCatch_rel hf.base.log c s; rw [h1] at this; exact this
      have l2 : LogExt s1 s' := by
        have := manyLoop_rel (L env) hf.base.log c k (t :: rc) s1; rw [heq] at this; exact this
      have m1 := B_mono l1; have m2 := B_mono l2
      have g1 := hf.spec _ _ _ _ (callCatch_tree h1) (by omega) t rfl
      obtain ⟨new, hn, g2⟩ := ih heq (by omega)
      refine ⟨new ++ [t], by simp [hn], ?_⟩
      simpa [skL_append, skL] using g1.trans g2

theorem seqNR_G {f : F} (hf : FT env S f) {cs : List Cls} {rc : List Tree} {s : St}
    {content : List Tree} {s' : St}
    (heq : seqNR env.tbl.quirks f cs rc s = (.tuple content, s')) (hB : B s' = B s) :
    ∃ new, content = (new ++ rc).reverse ∧ Gain s s' (skL env.tbl new.reverse) := by
  induction cs generalizing rc s with
  | nil =>
    simp only [seqNR, Prod.mk.injEq, MRes.tuple.injEq] at heq
    obtain ⟨rfl, rfl⟩ := heq
    exact ⟨[], by simp, by simpa [skL] using Gain.refl s⟩
  | cons c cs ih =>
    simp only [seqNR] at heq
    split at heq
    · split at heq
      · simp at heq
      · simp at heq
      · rename_i t s1 h1
        have l1 : LogExt s s1 := by
          have := callCatch_rel hf.base.log c s; rw [h1] at this; exact this
        have l2 : LogExt s1 s' := by
          have := seqNR_log env hf.base.log env.tbl.quirks cs (t :: rc) s1
          rw [heq] at this; exact this
        have m1 := B_mono l1; have m2 := B_mono l2
        have g1 := hf.spec _ _ _ _ (callCatch_tree h1) (by omega) t rfl
        obtain ⟨new, hn, g2⟩ := ih heq (by omega)
        refine ⟨new ++ [t], by simp [hn], ?_⟩
        simpa [skL_append, skL] using g1.trans g2
    · split at heq
      · simp at heq
      · simp at heq
      · rename_i t s1 h1
        have l1 : LogExt s s1 := by have := hf.base.log c s; rw [h1] at this; exact this
        have l2 : LogExt s1 s' := by
          have := seqNR_log env hf.base.log env.tbl.quirks cs (t :: rc) s1
          rw [heq] at this; exact this
        have m1 := B_mono l1; have m2 := B_mono l2
        have g1 := hf.spec _ _ _ _ h1 (by omega) t rfl
        obtain ⟨new, hn, g2⟩ := ih heq (by omega)
        refine ⟨new ++ [t], by simp [hn], ?_⟩
        simpa [skL_append, skL] using g1.trans g2

/-! ### `Program.match` -/

theorem fallback_classes (hd : Discipline env S) (main0 : Cls) :
    ∀ c ∈ blockClasses env (fallbackCfg main0), S c = false := by
  intro c hc
  unfold blockClasses fallbackCfg at hc
  simp only [List.nil_append, Option.toList_none, List.append_nil, List.mem_append,
    List.mem_cons, List.not_mem_nil, or_false] at hc
  rcases hc with (h | h) | h
  · split at h
    · simp only [List.mem_singleton] at h; rw [h]; exact hd.directive
    · cases h
  · rcases h with h | h
    · rw [h]; exact hd.comment
    · rw [h]; exact hd.includeStmt
  · rw [h]; exact hd.cppFn

/-- the fall-back `BlockBase.match(Main_Program0, [], None, reader)` -/
theorem fallback_G (hd : Discipline env S) {f : F} (hf : FT env S f) {fuel : Nat} {main0 : Cls}
    (hm : S main0 = false) {s : St} {c0 : List Tree} {s' : St}
    (heq : blockMatch env f fuel (fallbackCfg main0) s = (.tuple c0, s')) (hB : B s' = B s) :
    Gain s s' (skL env.tbl c0) := by
  obtain ⟨g, hp⟩ := blockMatch_G hd hf (fallback_classes hd main0)
    (fun h => by simp [fallbackCfg] at h) heq hB
  have hall := hp (fun sc hsc => by
    simp only [fallbackCfg, Option.toList_some, List.mem_singleton] at hsc; rw [hsc]; exact hm)
  simp only [blockSk, fallbackCfg, Option.isSome_some, if_true] at g
  rwa [skStart_plain hall] at g

theorem unitStep_G (hd : Discipline env S) {f : F} (hf : FT env S f) {fuel : Nat}
    {unit main0 : Cls} (hm : S main0 = false) {rc : List Tree} {s : St} {rc1 : List Tree} {s' : St}
    (heq : unitStep env f fuel unit main0 rc s = (.go rc1, s')) (hB : B s' = B s) :
    ∃ new, rc1 = new ++ rc ∧ Gain s s' (skL env.tbl new.reverse) := by
  unfold unitStep at heq
  split at heq
  · rename_i e s1 h1
    have l1 : LogExt s s1 := by have := hf.base.log unit s; rw [h1] at this; exact this
    have m1 := B_mono l1
    split at heq
    · rename_i hc
      simp only [Bool.and_eq_true, beq_iff_eq] at hc
      obtain ⟨rfl, hq⟩ := hc
      have df : B (s1.ev (Ev.ghost Ghost.fallback)) = B s1 := B_ev_ok _ _ rfl
      generalize hb : blockMatch env f fuel (fallbackCfg main0) (s1.ev (Ev.ghost Ghost.fallback))
        = br at heq
      obtain ⟨r2, s2⟩ := br
      have l2 : LogExt (s1.ev (Ev.ghost Ghost.fallback)) s2 := by
        have := blockMatch_rel (L env) hf.base.log fuel (fallbackCfg main0)
          (s1.ev (Ev.ghost Ghost.fallback))
        rw [hb] at this; exact this
      have m2 := B_mono l2
      cases r2 with
      | tuple c0 =>
        simp only [Prod.mk.injEq, UnitStep.go.injEq] at heq
        obtain ⟨rfl, rfl⟩ := heq
        have e1 : SymEq s s1 := hf.base.spec _ _ _ _ h1 (by omega)
        have g := fallback_G hd hf hm hb (by omega)
        refine ⟨c0.reverse, rfl, ?_⟩
        simp only [List.reverse_reverse]
        exact Gain.pre (e1.trans (SymEq.of_sym rfl)) g
      | none => simp at heq
      | raise e2 => simp at heq
    · simp at heq
  · rename_i o s1 hne h1
    simp only [Prod.mk.injEq, UnitStep.go.injEq] at heq
    obtain ⟨rfl, rfl⟩ := heq
    cases o with
    | none =>
      have := hf.base.spec _ _ _ _ h1 hB
      simp only at this
      exact ⟨[], by simp [pushTree], by simpa [skL] using Gain.of_symEq this⟩
    | tree t =>
      have g := hf.spec _ _ _ _ h1 hB t rfl
      exact ⟨[t], by simp [pushTree], by simpa [skL] using g⟩
    | raise e => exact (hne e rfl).elim

theorem programLoop_G (hd : Discipline env S) {f : F} (hf : FT env S f) {unit main0 : Cls}
    (hm : S main0 = false) {fuel k : Nat} {rc : List Tree} {s : St} {rc' : List Tree} {s' : St}
    (heq : programLoop env f unit main0 fuel k rc s = (.done rc', s')) (hB : B s' = B s) :
    ∃ new, rc' = new ++ rc ∧ Gain s s' (skL env.tbl new.reverse) := by
  induction k generalizing rc s with
  | zero => simp [programLoop] at heq
  | succ k ih =>
    simp only [programLoop] at heq
    split at heq
    · rename_i r1 s1 h1
      exfalso
      simp only [Prod.mk.injEq] at heq
      obtain ⟨rfl, rfl⟩ := heq
      unfold unitStep at h1
      split at h1
      · split at h1
        · split at h1 <;> simp at h1
        · simp at h1
      · simp at h1
    · rename_i rc1 s1 h1
      have l1 : LogExt s s1 := by
        have := unitStep_rel (L env) hf.base.log fuel unit main0 rc s; rw [h1] at this; exact this
      have m1 := B_mono l1
      split at heq
      · simp at heq
      · rename_i rc2 s2 h2
        have ss2 : SS s1 s2 := by
          have := addCID_ss (env := env) fuel rc1 s1; rw [h2] at this; exact this
        have l2 : LogExt s1 s2 := by
          have := addCID_rel (L env) fuel rc1 s1; rw [h2] at this; exact this
        have m2 := B_mono l2
        obtain ⟨newl, hnl, hleaf⟩ := addCID_E h2
        have hskl : skL env.tbl newl.reverse = [] :=
          skL_leaves (fun x hx => hleaf x (by simpa using hx))
        split at heq
        · rename_i s3 h3
          simp only [Prod.mk.injEq, PRes.done.injEq] at heq
          obtain ⟨rfl, rfl⟩ := heq
          have ss3 : SS s2 s3 := by have := ss_prim.get s2; rw [h3] at this; exact this
          have l3 : LogExt s2 s3 := by have := logExt_prim.get s2; rw [h3] at this; exact this
          have m3 := B_mono l3
          obtain ⟨new, hn, g⟩ := unitStep_G hd hf hm h1 (by omega)
          refine ⟨newl ++ new, by simp [hnl, hn], ?_⟩
          simpa [skL_append, hskl] using (g.post_ss ss2).post_ss ss3
        · rename_i it s3 h3
          have l3 : LogExt s2 (s3.put it) := by
            have := (L env).peek s2; rw [h3] at this; exact this
          have m3 := B_mono l3
          have ss3 : SS s2 (s3.put it) := by
            have := peek_prim ss_prim.toPrimOK0 s2; rw [h3] at this; exact this
          have l4 : LogExt (s3.put it) s' := by
            have := programLoop_rel (L env) hf.base.log unit main0 fuel k rc2 (s3.put it)
            rw [heq] at this; exact this
          have m4 := B_mono l4
          obtain ⟨new, hn, g⟩ := unitStep_G hd hf hm h1 (by omega)
          obtain ⟨new2, hn2, g2⟩ := ih heq (by omega)
          refine ⟨new2 ++ newl ++ new, by simp [hn2, hnl, hn], ?_⟩
          have := ((g.post_ss ss2).post_ss ss3).trans g2
          simpa [skL_append, hskl] using this

theorem programMatch_G (hd : Discipline env S) {f : F} (hf : FT env S f) {fuel : Nat}
    {unit main0 : Cls} (hm : S main0 = false) {s : St} {content : List Tree} {s' : St}
    (heq : programMatch env f fuel unit main0 s = (.tuple content, s')) (hB : B s' = B s) :
    Gain s s' (skL env.tbl content) := by
  unfold programMatch at heq
  split at heq
  · simp at heq
  · rename_i rc0 s1 h1
    have ss1 : SS s s1 := by
      have := addCID_ss (env := env) fuel [] s; rw [h1] at this; exact this
    have l1 : LogExt s s1 := by
      have := addCID_rel (L env) fuel [] s; rw [h1] at this; exact this
    have m1 := B_mono l1
    obtain ⟨new0, hn0, hleaf0⟩ := addCID_E h1
    simp only [List.append_nil] at hn0
    have hsk0 : skL env.tbl rc0.reverse = [] := by
      rw [hn0]; exact skL_leaves (fun x hx => hleaf0 x (by simpa using hx))
    split at heq
    · rename_i rc s2 h2
      simp only [Prod.mk.injEq, MRes.tuple.injEq] at heq
      obtain ⟨rfl, rfl⟩ := heq
      have l2 : LogExt s1 s2 := by
        have := programLoop_rel (L env) hf.base.log unit main0 fuel fuel rc0 s1
        rw [h2] at this; exact this
      have m2 := B_mono l2
      obtain ⟨new, hn, g⟩ := programLoop_G hd hf hm h2 (by omega)
      rw [hn]
      simpa [skL_append, hsk0] using Gain.pre_ss ss1 g
    · simp at heq
    · rename_i rc e s2 h2
      have l2 : LogExt s1 s2 := by
        have := programLoop_rel (L env) hf.base.log unit main0 fuel fuel rc0 s1
        rw [h2] at this; exact this
      have m2 := B_mono l2
      split at heq
      · rename_i hc
        simp only [Bool.and_eq_true, beq_iff_eq, Bool.not_eq_true'] at hc
        obtain ⟨rfl, hq⟩ := hc
        generalize hs3 : ghostIf (!rc.isEmpty) Ghost.progDrop (s2.ev (Ev.ghost Ghost.fallback)) = s3
          at heq
        have l3 : LogExt s3 s' := by
          have := blockMatch_rel (L env) hf.base.log fuel (fallbackCfg main0) s3
          rw [heq] at this; exact this
        have m3 := B_mono l3
        have df : B (s2.ev (Ev.ghost Ghost.fallback)) = B s2 := B_ev_ok _ _ rfl
        cases hrc : rc with
        | cons t0 rc1 =>
          exfalso
          subst hrc
          simp only [List.isEmpty_cons, Bool.not_false, ghostIf, if_true] at hs3
          subst hs3
          have : B ((s2.ev (Ev.ghost Ghost.fallback)).ev (Ev.ghost Ghost.progDrop)) = B s2 + 1 := by
            rw [B_ev_bad _ _ rfl, df]
          omega
        | nil =>
          subst hrc
          simp only [List.isEmpty_nil, Bool.not_true, ghostIf, Bool.false_eq_true, if_false] at hs3
          subst hs3
          have hinv0 : rc0 = [] → SymEq s s1 := fun _ => SymEq.of_sym ss1
          have hp := programLoop_F hf.base hinv0 h2 (by omega)
          have hp' : SymEq s s2 :=
            (hp : (env.tbl.quirks.programContinues = true ∨ ([] : List Tree) = []) → SymEq s s2)
              (Or.inr rfl)
          have e2 : SymEq s (s2.ev (Ev.ghost Ghost.fallback)) := hp'.trans (SymEq.of_sym rfl)
          exact Gain.pre e2 (fallback_G hd hf hm heq (by omega))
      · simp at heq

/-! ### `Base.__new__` -/

theorem altLoop_G {g : G} (hg : GT env S g) {ds pc : List Cls} {s0 s : St} {t : Tree}
    {pc' : List Cls} {s' : St} (h0 : SymEq s0 s)
    (heq : altLoop env g ds pc s = (.tree t, pc', s')) (hB : B s' = B s) :
    Gain s0 s' (scopeSkeleton env.tbl t) := by
  induction ds generalizing pc s with
  | nil =>
    simp only [altLoop, blankRule] at heq
    split at heq <;> simp at heq
  | cons d ds ih =>
    simp only [altLoop] at heq
    split at heq
    · exact ih h0 heq hB
    · split at heq
      · rename_i t1 pc1 s1 h1
        simp only [Prod.mk.injEq, Outcome.tree.injEq] at heq
        obtain ⟨rfl, rfl, rfl⟩ := heq
        exact Gain.pre h0 (hg.spec _ _ _ _ _ _ h1 hB _ rfl)
      · rename_i pc1 s1 h1
        have l1 : LogExt s s1 := by have := hg.base.log d pc s; rw [h1] at this; exact this
        have l2 : LogExt s1 s' := by
          have := altLoop_rel (L env) hg.base.log ds pc1 s1; rw [heq] at this; exact this
        have m1 := B_mono l1; have m2 := B_mono l2
        have : SymEq s s1 := (hg.base.spec _ _ _ _ _ _ h1).rel (by omega)
        exact ih (h0.trans this) heq (by omega)
      · rename_i pc1 s1 h1
        have l1 : LogExt s s1 := by have := hg.base.log d pc s; rw [h1] at this; exact this
        have l2 : LogExt s1 s' := by
          have := altLoop_rel (L env) hg.base.log ds pc1 s1; rw [heq] at this; exact this
        have m1 := B_mono l1; have m2 := B_mono l2
        have : SymEq s s1 := (hg.base.spec _ _ _ _ _ _ h1).rel (by omega)
        exact ih (h0.trans this) heq (by omega)
      · simp at heq

theorem finish_G {g : G} (hg : GT env S g) {c : Cls} {subs : List Cls} {r : MRes} {s s1 : St}
    {pc : List Cls} {t : Tree} {pc' : List Cls} {s' : St}
    (hr : MSpecF s r s1) (hl : LogExt s s1)
    (hG : ∀ content, r = .tuple content → B s1 = B s →
      Gain s s1 (scopeSkeleton env.tbl (.node c content)))
    (heq : finish env g c subs (r, s1) pc = (.tree t, pc', s')) (hB : B s' = B s) :
    Gain s s' (scopeSkeleton env.tbl t) := by
  unfold finish at heq
  split at heq
  · rename_i content sa hh
    simp only [Prod.mk.injEq] at hh
    obtain ⟨rfl, rfl⟩ := hh
    simp only [Prod.mk.injEq, Outcome.tree.injEq] at heq
    obtain ⟨rfl, _, rfl⟩ := heq
    exact hG content rfl hB
  · rename_i sa hh
    simp only [Prod.mk.injEq] at hh
    obtain ⟨rfl, rfl⟩ := hh
    have l2 : LogExt s1 s' := by
      have := altLoop_rel (L env) hg.base.log subs pc s1; rw [heq] at this; exact this
    have m1 := B_mono hl; have m2 := B_mono l2
    have h1 : SymEq s s1 := hr.rel (by omega)
    exact altLoop_G hg h1 heq (by omega)
  · rename_i sa hh
    simp only [Prod.mk.injEq] at hh
    obtain ⟨rfl, rfl⟩ := hh
    have l2 : LogExt s1 s' := by
      have := altLoop_rel (L env) hg.base.log subs pc s1; rw [heq] at this; exact this
    have m1 := B_mono hl; have m2 := B_mono l2
    have h1 : SymEq s s1 := hr.rel (by omega)
    exact altLoop_G hg h1 heq (by omega)
  · simp at heq

/-- the success side for every class of the table -/
theorem eval_Tspec (hd : Discipline env S) (fuel : Nat) :
    ∀ c pc s o pc' s', eval env fuel c pc s = (o, pc', s') → TSpec env.tbl s o s' := by
  induction fuel with
  | zero =>
    intro c pc s o pc' s' heq
    simp only [eval] at heq; inj3 heq; intro _ t h; cases h
  | succ fuel ih =>
    intro c pc s o pc' s' heq hB t ho
    subst ho
    have hgt : GT env S (eval env fuel) := ⟨eval_F env fuel, eval_pl hd fuel, ih⟩
    have hf : FT env S (fresh (eval env fuel)) := fresh_T hgt
    -- a statement: nothing changed
    have hleafcase : isLeafT t → Gain s s' (scopeSkeleton env.tbl t) := by
      intro hl
      have := (eval_F env (fuel + 1)).spec c pc s _ _ _ heq hB
      simp only at this
      rw [sk_leaf hl]
      exact Gain.of_symEq (this hl)
    simp only [eval] at heq
    split at heq
    · exact hleafcase (leafNew_E heq t rfl)
    · exact altLoop_G hgt (SymEq.refl s) heq hB
    · rename_i cfg subs hk
      have hk' : cfgOf (env.tbl.kind c) = some cfg := by rw [hk]; rfl
      generalize hb : blockMatch env (fresh (eval env fuel)) fuel cfg s = br at heq
      obtain ⟨r, s1⟩ := br
      refine finish_G hgt (blockMatch_F hf.base hb)
        (by have := blockMatch_rel (L env) hf.base.log fuel cfg s; rw [hb] at this; exact this)
        ?_ heq hB
      intro content hr hB1
      subst hr
      have := (blockMatch_G hd hf (hd.blockClasses hk') (hd.hook c cfg hk') hb hB1).1
      simpa [scopeSkeleton, hk, blockSk] using this
    · rename_i item subs hk
      generalize hb : manyLoop (fresh (eval env fuel)) item fuel [] s = br at heq
      obtain ⟨r, s1⟩ := br
      refine finish_G hgt (fun hB' => manyLoop_F env hf.base (fun _ => SymEq.refl s) hb hB')
        (by have := manyLoop_rel (L env) hf.base.log item fuel [] s; rw [hb] at this; exact this)
        ?_ heq hB
      intro content hr hB1
      subst hr
      obtain ⟨new, hn, g⟩ := manyLoop_G hf hb hB1
      simp only [List.append_nil] at hn
      subst hn
      simpa [scopeSkeleton, hk] using g
    · rename_i cs subs hk
      generalize hb : seqNR env.tbl.quirks (fresh (eval env fuel)) cs [] s = br at heq
      obtain ⟨r, s1⟩ := br
      refine finish_G hgt (fun hB' => seqNR_F env hf.base (fun _ => SymEq.refl s) hb hB')
        (by have := seqNR_log env hf.base.log env.tbl.quirks cs [] s; rw [hb] at this; exact this)
        ?_ heq hB
      intro content hr hB1
      subst hr
      obtain ⟨new, hn, g⟩ := seqNR_G hf hb hB1
      simp only [List.append_nil] at hn
      subst hn
      simpa [scopeSkeleton, hk] using g
    · rename_i cfg scope subs hk
      have hk' : cfgOf (env.tbl.kind c) = some cfg := by rw [hk]; rfl
      generalize hb : main0Match env (fresh (eval env fuel)) fuel cfg scope s = br at heq
      obtain ⟨r, s1⟩ := br
      refine finish_G hgt (main0Match_F hf.base hb)
        (by have := main0Match_rel (L env) hf.base.log fuel cfg scope s; rw [hb] at this; exact this)
        ?_ heq hB
      intro content hr hB1
      subst hr
      have := main0Match_G hd hf (hd.blockClasses hk') (hd.hook c cfg hk') hb hB1
      simpa [scopeSkeleton, hk, blockSk] using this
    · rename_i unit main0 subs hk
      have hm : S main0 = false := hd.main0 c unit main0 subs hk
      generalize hb : programMatch env (fresh (eval env fuel)) fuel unit main0 s = br at heq
      obtain ⟨r, s1⟩ := br
      generalize hfin : finish env (eval env fuel) c subs (r, s1) [c] = fr at heq
      obtain ⟨o1, pc1, s2⟩ := fr
      simp only [Prod.mk.injEq] at heq
      obtain ⟨ho, _, hs⟩ := heq
      have ho1 : o1 = .tree t := by
        cases o1 with
        | none => cases ho
        | tree t' => exact ho
        | raise e => cases e <;> cases ho
      subst ho1
      simp only [programConvert, programExit] at hs
      subst hs
      refine finish_G hgt (programMatch_F hf.base hb)
        (by have := programMatch_rel (L env) hf.base.log fuel unit main0 s
            rw [hb] at this; exact this)
        ?_ hfin hB
      intro content hr hB1
      subst hr
      have := programMatch_G hd hf hm hb hB1
      simpa [scopeSkeleton, hk] using this
    · simp only [Prod.mk.injEq] at heq
      exact hleafcase (commentNew_E (s' := (commentNew env s).2) rfl t heq.1)
    · simp only [Prod.mk.injEq] at heq
      exact hleafcase (directiveNew_E (s' := (directiveNew env s).2) rfl t heq.1)
    · rename_i cs _
      simp only [Prod.mk.injEq] at heq
      exact hleafcase (cppNew_E (s' := (cppNew env cs s).2) rfl t heq.1)

theorem eval_T (hd : Discipline env S) (fuel : Nat) : GT env S (eval env fuel) :=
  ⟨eval_F env fuel, eval_pl hd fuel, eval_Tspec hd fuel⟩

end Fp.Block
