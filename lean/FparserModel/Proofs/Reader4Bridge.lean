import FparserModel.Proofs.ReaderChunks
import FparserModel.Props.Splitline

/-!
# Reader4Bridge — the reader's private copy of `splitquote` IS the tokeniser's `splitquote`

`ReaderSrm.lean` carries its own mirror of `_next_quote` / `splitquote` (written before the
tokeniser slice existed). Here the two are proved equal, so that the tokeniser theorems
(`splitquote_join`, `splitquote_state`, `quoteStateAfter_append_quote`) apply to the quote state
that `handle_inline_comment` threads through the continuation lines of a statement.
-/
namespace Fp.Reader
open Fp
open Fp.Splitline (QState qstep qrun qinit qfinal quoteStateAfter)

def convSeg : Fp.Splitline.Seg → Seg
  | .plain s => .plain s
  | .quoted s => .quoted s

@[simp] theorem convSeg_str (s : Fp.Splitline.Seg) : (convSeg s).str = s.str := by
  cases s <;> rfl

theorem spanPlain_eq (l : Str) : spanPlain l = Fp.Splitline.spanPlain l := by
  induction l with
  | nil => rfl
  | cons c cs ih =>
    unfold spanPlain Fp.Splitline.spanPlain
    rw [ih]; rfl

theorem spanLit_eq (q : Char) (l : Str) : spanLit q l = Fp.Splitline.spanLit q l := by
  fun_induction Fp.Splitline.spanLit q l <;> simp_all [spanLit]

theorem splitLoop_eq (n : Nat) (l : Str) :
    splitLoop n l = ((Fp.Splitline.splitLoop false n l).1.map convSeg,
                     (Fp.Splitline.splitLoop false n l).2) := by
  induction n generalizing l with
  | zero => rfl
  | succ n ih =>
    rw [Fp.Splitline.splitLoop_succ, splitLoop]
    cases l with
    | nil => simp
    | cons c cs =>
      simp only [List.isEmpty_cons, Bool.false_eq_true, if_false, reduceCtorEq]
      rw [spanPlain_eq]
      rcases Fp.Splitline.spanPlain (c :: cs) with ⟨p, r⟩
      cases r with
      | nil => simp [convSeg, Fp.Splitline.lw]
      | cons q body =>
        simp only [spanLit_eq]
        cases Fp.Splitline.spanLit q body with
        | none => cases p <;> simp [convSeg, Fp.Splitline.lw]
        | some lr => cases p <;> simp [convSeg, Fp.Splitline.lw, ih]

theorem splitquote_eq (l : Str) (q : Option Char) :
    splitquote l q = ((Fp.Splitline.splitquote l q false).1.map convSeg,
                      (Fp.Splitline.splitquote l q false).2) := by
  unfold splitquote Fp.Splitline.splitquote
  cases q with
  | none => simp only [splitLoop_eq]
  | some c =>
    simp only [spanLit_eq]
    cases Fp.Splitline.spanLit c l with
    | none => simp [convSeg]
    | some lr => simp [convSeg, splitLoop_eq]

/-- the reader's `splitquote` returns the state of the quote automaton (`splitquote_state`) -/
theorem splitquote_snd (l : Str) (q : Option Char) : (splitquote l q).2 = quoteStateAfter q l := by
  rw [splitquote_eq]; exact Fp.Splitline.splitquote_state l q false

/-- … and loses no character (`splitquote_join`) -/
theorem splitquote_flat (l : Str) (q : Option Char) :
    ((splitquote l q).1.map Seg.str).flatten = l := by
  rw [splitquote_eq]
  have := Fp.Splitline.splitquote_join l q
  simpa [List.map_map, Function.comp_def] using this

theorem splitLoop_flat (n : Nat) (l : Str) (h : l.length < n) :
    ((splitLoop n l).1.map Seg.str).flatten = l := by
  rw [splitLoop_eq]
  have := Fp.Splitline.splitLoop_join n l h
  simpa [List.map_map, Function.comp_def, Fp.Splitline.segsJoin] using this

end Fp.Reader
