import FparserModel.Expr
import FparserModel.Generated.ExprLevels

/-!
# Tie of model M-C to the repository

`Generated/ExprLevels.lean` is rewritten by `fv/extract_expr.py` from the REAL classes on
every run (match arguments, operator patterns, `right`, exclude pattern, `Base.subclasses`
order, for both standards). These obligations stop building when the repository's precedence
table no longer equals the table the model (and every theorem about it) uses.
-/
namespace Fp.Expr

theorem levels_tie_f2003 : Generated.exprLevels2003 = levels := by decide
theorem levels_tie_f2008 : Generated.exprLevels2008 = levels := by decide

/-- the table is well formed: one row per class, in chain order -/
theorem levels_rows : levels.map (·.lv) =
    [.expr, .l5, .equivOp, .orOp, .andOp, .l4, .l3, .l2, .l2u, .addOp, .multOp, .l1, .prim] := by
  decide

end Fp.Expr
