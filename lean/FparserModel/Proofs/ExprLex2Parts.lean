import FparserModel.Proofs.ExprLex2Half
import FparserModel.Props.ExprLex

/-! the halves of a split line re-lex to the halves of its segments -/
set_option linter.unusedSimpArgs false
set_option linter.unusedVariables false
namespace Fp.ExprLex
open Fp Fp.Expr

theorem noNe_append (A B : List Seg) : noNe (A ++ B) = (noNe A && noNe B) := by simp [noNe]

theorem noNe_mapFirst (f : Str → Str) (sg : List Seg) : noNe (mapFirst f sg) = noNe sg := by
  cases sg with
  | nil => rfl
  | cons x r => cases x <;> simp [mapFirst, noNe]

theorem noNe_mapLast (f : Str → Str) : ∀ (sg : List Seg), noNe (mapLast f sg) = noNe sg
  | [] => rfl
  | [.gap s] => by simp [mapLast, noNe]
  | [.word _ _] => rfl
  | x :: y :: rest => by
    have := noNe_mapLast f (y :: rest)
    simp only [mapLast, noNe, List.all_cons] at this ⊢
    rw [this]

theorem lastOr_some_of_ne {p : Option Char} {t : Str} (h : t ≠ []) :
    ∃ c, lastOr p t = some c ∧ t.getLast? = some c := by
  obtain ⟨c, hc⟩ := getLast_some_of_ne h
  exact ⟨c, by simp [lastOr, hc], hc⟩

/-- what a split of a checked line leaves for the two sides -/
theorem split_parts (sg L R : List Seg) (k : TK) (m : Str) (hsg : sg = L ++ .word k m :: R)
    (ha : alt sg = true) (hc : chkA none sg [] = true) :
    (alt L = true ∧ chkA none L [] = true) ∧
    (alt R = true ∧ ∃ p, chkA p R [] = true ∧ ∀ c, p = some c → bndc c (flat R)) := by
  subst hsg
  obtain ⟨haL, haR⟩ := alt_split L k m R ha
  rw [chkA_append] at hc
  simp only [Bool.and_eq_true] at hc
  refine ⟨⟨haL, chkA_cut L none _ hc.1⟩, haR, _, chkA_tail hc.2, ?_⟩
  intro c hcc
  have hw := hc.2
  simp only [chkA, Bool.and_eq_true, List.append_nil] at hw
  have hm : m ≠ [] := (segOK_word (segC_word_parts hw.1).1).1
  obtain ⟨c', h1, h2⟩ := lastOr_some_of_ne (p := lastOr none (flat L)) hm
  simp only [Seg.text] at hcc
  rw [h1] at hcc
  cases hcc
  exact word_adj hw.1 h2

theorem bndc_rstrip {c : Char} {x : Str} (h : bndc c x) : bndc c (rstrip x) := by
  by_cases hr : rstrip x = []
  · rw [hr]; exact ⟨fun _ => rfl, fun _ => rfl⟩
  · obtain ⟨b, hx, _⟩ := rstrip_decomp x
    rw [hx] at h
    unfold bndc at h
    rw [headIs_app_ne _ _ hr, headIs_app_ne _ _ hr] at h
    exact h

/-- `lstrip` of a part (with any look-behind that respects the boundary condition) -/
theorem relex_part_lstrip (R : List Seg) (p : Option Char) (ha : alt R = true)
    (hc : chkA p R [] = true) (hp : ∀ c, p = some c → bndc c (flat R)) :
    ∃ R', lexSegs (lstrip (flat R)) = some R' ∧
      (∀ g, toksOf (g && !startsBlank (flat R)) R' = toksOf g R) ∧ noNe R' = noNe R := by
  obtain ⟨h1, h2, h3, h4⟩ := relex_lstrip R p ha hc hp
  refine ⟨mapFirst lstrip R, ?_, h4, noNe_mapFirst _ _⟩
  rw [← h3]; exact lexSegs_of_canon _ h1 h2

/-- `strip` of a part -/
theorem relex_part_strip (R : List Seg) (p : Option Char) (ha : alt R = true)
    (hc : chkA p R [] = true) (hp : ∀ c, p = some c → bndc c (flat R)) :
    ∃ R', lexSegs (strip (flat R)) = some R' ∧
      (∀ g, toksOf (g && !startsBlank (flat R)) R' = toksOf g R) ∧ noNe R' = noNe R := by
  obtain ⟨a1, a2, a3, a4⟩ := relex_rstrip R p ha hc
  have hp' : ∀ c, p = some c → bndc c (flat (mapLast rstrip R)) := by
    intro c hcc; rw [a3]; exact bndc_rstrip (hp c hcc)
  obtain ⟨R', b1, b2, b3⟩ := relex_part_lstrip (mapLast rstrip R) p a1 a2 hp'
  rw [a3] at b1 b2
  refine ⟨R', b1, ?_, by rw [b3, noNe_mapLast]⟩
  intro g
  by_cases hr : rstrip (flat R) = []
  · -- the text is blank
    have hall : allBlank (flat R) = true := (rstrip_nil_iff _).mp hr
    have hR : toksOf g R = [] := (toksOf_nil_iff R g (chkA_words hc)).mpr hall
    have := b2 g
    rw [a4, hR] at this
    rw [hR]
    have hstrip : lstrip (rstrip (flat R)) = [] := by rw [hr]; rfl
    rw [hstrip] at b1
    have : R' = [.gap []] := by
      have h0 : lexSegs [] = some [.gap []] := by decide
      rw [h0] at b1; cases b1; rfl
    subst this
    simp [toksOf, strip, lstrip, rstrip]
  · rw [← startsBlank_rstrip _ hr, b2 g, a4]

end Fp.ExprLex
