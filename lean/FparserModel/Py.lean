/-!
# Py — mirrors of the Python `str` operations used by fparser, over `List Char`

ASCII domain (see DESIGN.md §3): Python's Unicode-aware `isspace/lower/\w` are modelled
only for ASCII plus the `\xa0` special case handled by the reader itself.
Everything here is total and computable; no Mathlib.
-/
namespace Fp

abbrev Str := List Char

/-- Python `str.isspace` for one ASCII character (space, \t \n \r \v \f, and FS/GS/RS/US). -/
def isSpace (c : Char) : Bool :=
  c == ' ' || c == '\t' || c == '\n' || c == '\r' || c == '\x0b' || c == '\x0c'
  || c == '\x1c' || c == '\x1d' || c == '\x1e' || c == '\x1f'

def lstrip (s : Str) : Str := s.dropWhile isSpace
def rstrip (s : Str) : Str := (s.reverse.dropWhile isSpace).reverse
def strip (s : Str) : Str := lstrip (rstrip s)

/-- regex `\w` on ASCII -/
def isWord (c : Char) : Bool := c.isAlphanum || c == '_'
def isDigit (c : Char) : Bool := c.isDigit
def isAlpha (c : Char) : Bool := c.isAlpha

def lowerC (c : Char) : Char := if 'A' ≤ c ∧ c ≤ 'Z' then Char.ofNat (c.toNat + 32) else c
def upperC (c : Char) : Char := if 'a' ≤ c ∧ c ≤ 'z' then Char.ofNat (c.toNat - 32) else c
def lower (s : Str) : Str := s.map lowerC
def upper (s : Str) : Str := s.map upperC

def startsWith (s p : Str) : Bool := s.take p.length == p
def endsWith (s p : Str) : Bool := p.length ≤ s.length && s.drop (s.length - p.length) == p

/-- `s.find(c)` for a single character -/
def find (s : Str) (c : Char) : Option Nat := s.findIdx? (· == c)
/-- `s.rfind(c)` for a single character -/
def rfind (s : Str) (c : Char) : Option Nat :=
  match s.reverse.findIdx? (· == c) with
  | some i => some (s.length - 1 - i)
  | none => none

/-- index of first occurrence of substring `sub` in `s` at or after position `i` -/
def findSubFrom (s sub : Str) : Nat → Nat → Option Nat
  | 0, _ => none
  | fuel+1, i =>
    if i + sub.length > s.length then none
    else if (s.drop i).take sub.length == sub then some i
    else findSubFrom s sub fuel (i+1)

def findSub (s sub : Str) : Option Nat := findSubFrom s sub (s.length + 1) 0
def containsSub (s sub : Str) : Bool := (findSub s sub).isSome

/-- `str.expandtabs()` with tab size 8 on a single line -/
def expandtabsAux : Str → Nat → Str → Str
  | [], _, acc => acc.reverse
  | c :: cs, col, acc =>
    if c == '\t' then
      let n := 8 - col % 8
      expandtabsAux cs (col + n) (List.replicate n ' ' ++ acc)
    else expandtabsAux cs (col + 1) (c :: acc)
def expandtabs (s : Str) : Str := expandtabsAux s 0 []

/-- `s.replace(old, new, 1)` : first occurrence only -/
def replaceFirst (s old new : Str) : Str :=
  match findSub s old with
  | none => s
  | some i => s.take i ++ new ++ s.drop (i + old.length)

/-- `s.split(sep)` for a single character separator -/
def splitOnChar (s : Str) (sep : Char) : List Str :=
  let rec go : Str → Str → List Str → List Str
    | [], cur, acc => (cur.reverse :: acc).reverse
    | c :: cs, cur, acc => if c == sep then go cs [] (cur.reverse :: acc) else go cs (c :: cur) acc
  go s [] []

def natToStr (n : Nat) : Str := (toString n).toList

/-- parse a non-empty all-digit string -/
def digitsToNat (s : Str) : Nat := s.foldl (fun n c => n * 10 + (c.toNat - '0'.toNat)) 0

end Fp
