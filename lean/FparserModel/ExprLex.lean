import FparserModel.Py
import FparserModel.Expr

/-!
# M-C/lex — the STRING level of the fparser2 expression chain            (serves C03)

`FparserModel/Expr.lean` models `BinaryOpBase.match` / `UnaryOpBase.match` over TOKENS. The real
code works on strings: it calls `string_replace_map(string)` and then `Pattern.rsplit` /
`Pattern.lsplit` (pattern_tools.py 151-193) with the operator regular expressions of
pattern_tools.py 420-455. This file models that step on the text produced by
`string_replace_map` (the *line*: parenthesised groups, quoted strings and signed-exponent
literals are placeholders made of word characters, i.e. parts of opaque operands):

* `matchAt p prev s`   one hand scanner per operator regex: "does the regex match at the head of
                       `s` when the character before is `prev`" (look-behind / look-ahead,
                       optional blanks inside dotted words, `re.I`), result = length of the match;
* `splitAll`           `compiled.split(string)` for a pattern with one capturing group (`.named()`);
* `rsplitS`/`lsplitS`  `Pattern.rsplit` / `Pattern.lsplit`, branch for branch, including the
                       `"" in t[1:-1]` rejection and the (dead: no caller passes it) `is_add` branch;
* `binStepS`/`unStepS` the part of `BinaryOpBase.match` / `UnaryOpBase.match` between
                       `string_replace_map` and the constructor calls;
* `lexExpr`            a *checked* tokeniser: cut the line at operator tokens (maximal munch),
                       everything between two operator tokens is one opaque operand, and CHECK that
                       every operator regex sees exactly these tokens (`checkSegs`); `none` when some
                       regex would match across the token structure (see Props/ExprLex.lean for the
                       list of real-code surprises this detects).

ASCII domain as in Py.lean (`\s` = `Fp.isSpace`, `[A-Z]` with re.I = ASCII letters).
No Mathlib. Everything total and computable.
-/
namespace Fp.ExprLex
open Fp Fp.Expr

/-! ## the operator patterns -/

/-- classification of the (upper-cased) letters of a dotted word -/
inductive DC where
  | logical | rel (i : Nat) | not | and | or | eqv | neqv | other
deriving DecidableEq, Repr

def dotClass (w : Str) : DC :=
  if w == ['T','R','U','E'] || w == ['F','A','L','S','E'] then .logical
  else if w == ['E','Q'] then .rel 0 else if w == ['N','E'] then .rel 1
  else if w == ['L','T'] then .rel 2 else if w == ['L','E'] then .rel 3
  else if w == ['G','T'] then .rel 4 else if w == ['G','E'] then .rel 5
  else if w == ['N','O','T'] then .not else if w == ['A','N','D'] then .and
  else if w == ['O','R'] then .or else if w == ['E','Q','V'] then .eqv
  else if w == ['N','E','Q','V'] then .neqv
  else .other

/-- the operator patterns of pattern_tools.py used by the expression classes -/
inductive Pat where
  | power | mult | add | concat | rel | not | and | or | equiv | defined
deriving DecidableEq, Repr

def allPats : List Pat := [.power, .mult, .add, .concat, .rel, .not, .and, .or, .equiv, .defined]

def dropSp (s : Str) : Str := s.dropWhile isSpace

/-- which dotted words the regular expression of a pattern spells -/
def DC.inPat : DC → Pat → Bool
  | _, .defined => true
  | .rel _, .rel => true
  | .not, .not => true
  | .and, .and => true
  | .or, .or => true
  | .eqv, .equiv => true
  | .neqv, .equiv => true
  | _, _ => false

/-- `[.]\s*[A-Z]+\s*[.]` (re.I) at the head of `s`: the letters upper-cased and the length of the
match. Blanks, letters and `.` are disjoint classes, so the greedy match is the only one. -/
def dotWord : Str → Option (Str × Nat)
  | '.' :: r =>
    let r1 := dropSp r
    let w := r1.takeWhile isAlpha
    let r2 := r1.dropWhile isAlpha
    let r3 := dropSp r2
    match r3 with
    | '.' :: _ => if w = [] then none else some (upper w, r.length - r3.length + 2)
    | _ => none
  | _ => none

/-- `[.]\s*W\s*[.]` for the words `W` of pattern `q` -/
def dotIn (q : Pat) (s : Str) : Option Nat :=
  match dotWord s with
  | some (w, n) => if (dotClass w).inPat q then some n else none
  | none => none

def headIs (s : Str) (c : Char) : Bool :=
  match s with
  | x :: _ => x == c
  | [] => false

/-- does the regular expression of `p` match at the head of `s`, the previous character of the
subject string being `prev` (`none` = start of string)? Result: the length of the match (≥ 1). -/
def matchAt (p : Pat) (prev : Option Char) (s : Str) : Option Nat :=
  match p with
  | .power =>                                   -- (?<![*])[*]{2}(?![*])
    match s with
    | '*' :: '*' :: r => if prev == some '*' || headIs r '*' then none else some 2
    | _ => none
  | .mult =>                                    -- (?<![*])[*](?![*])|(?<![/])[/](?![/])
    match s with
    | '*' :: r => if prev == some '*' || headIs r '*' then none else some 1
    | '/' :: r => if prev == some '/' || headIs r '/' then none else some 1
    | _ => none
  | .add =>                                     -- [+-]
    match s with
    | c :: _ => if c == '+' || c == '-' then some 1 else none
    | [] => none
  | .concat =>                                  -- (?<![/])[/]\s*[/](?![/])
    match s with
    | '/' :: r =>
      if prev == some '/' then none
      else
        let r1 := dropSp r
        match r1 with
        | '/' :: r2 => if headIs r2 '/' then none else some (r.length - r1.length + 2)
        | _ => none
    | _ => none
  | .rel =>                                     -- [.]\s*EQ\s*[.]|…|[=]{2}|/[=]|[<][=]|[<]|[>][=]|[>]
    match s with
    | '.' :: _ => dotIn .rel s
    | '=' :: '=' :: _ => some 2
    | '/' :: '=' :: _ => some 2
    | '<' :: '=' :: _ => some 2
    | '<' :: _ => some 1
    | '>' :: '=' :: _ => some 2
    | '>' :: _ => some 1
    | _ => none
  | .not => dotIn .not s
  | .and => dotIn .and s
  | .or => dotIn .or s
  | .equiv => dotIn .equiv s
  | .defined => dotIn .defined s

/-- `non_defined_binary_op.match(s)` (prefix match at position 0): some intrinsic operator or a
logical literal starts the string. (The optional kind suffix of the literal cannot change the
yes/no answer.) -/
def nonDefinedMatch (s : Str) : Bool :=
  [Pat.power, .mult, .add, .concat, .rel, .not, .and, .or, .equiv].any
      (fun q => (matchAt q none s).isSome)
    || (match dotWord s with
        | some (w, _) => dotClass w == .logical
        | none => false)

/-! ## `re.split` with one capturing group -/

/-- `compiled.split(string)`: `[s0, m1, s1, …, mn, sn]`. State: previous character, rest of the
subject, number of characters that still belong to the current match, current piece (reversed). -/
def scan (p : Pat) : Option Char → Str → Nat → Str → List Str
  | _, [], _, cur => [cur.reverse]
  | _, c :: cs, k+1, cur =>
    if k = 0 then (c :: cur).reverse :: scan p (some c) cs 0 []
    else scan p (some c) cs k (c :: cur)
  | prev, c :: cs, 0, cur =>
    match matchAt p prev (c :: cs) with
    | some (n+1) =>
      cur.reverse :: (if n = 0 then [c] :: scan p (some c) cs 0 [] else scan p (some c) cs n [c])
    | _ => scan p (some c) cs 0 (c :: cur)

def splitAll (p : Pat) (s : Str) : List Str := scan p none s 0 []

/-! ## `abs_real_literal_constant` (only used by the `is_add` branch of `rsplit`) -/

def digits1 (s : Str) : Option Str :=
  match s with
  | c :: _ => if c.isDigit then some (s.dropWhile Char.isDigit) else none
  | [] => none

def isExpLetter (c : Char) : Bool := c == 'e' || c == 'd' || c == 'E' || c == 'D'

/-- `[ED]\s*([+-])?\s*\d+` at the head: the rest after it -/
def expPart (s : Str) : Option Str :=
  match s with
  | c :: r =>
    if isExpLetter c then
      let r1 := dropSp r
      let r2 := match r1 with
        | x :: r' => if x == '+' || x == '-' then r' else r1
        | [] => r1
      digits1 (dropSp r2)
    else none
  | [] => none

/-- `(_\s*(\d+|[A-Z][\w$]*))?\Z` -/
def kindToEnd (s : Str) : Bool :=
  match s with
  | [] => true
  | '_' :: r =>
    match dropSp r with
    | c :: r' =>
      (c.isDigit && r'.all Char.isDigit) || (isAlpha c && r'.all (fun x => isWord x || x == '$'))
    | [] => false
  | _ => false

/-- `(\d+\s*[.]\s*(\d+)?|[.]\s*\d+)` at the head: the rest after it -/
def sigPart (s : Str) : Option Str :=
  match s with
  | '.' :: r => digits1 (dropSp r)
  | _ =>
    match digits1 s with
    | some r =>
      match dropSp r with
      | '.' :: r2 => some ((dropSp r2).dropWhile Char.isDigit)
      | _ => none
    | none => none

/-- `abs_real_literal_constant.match(s)` -/
def absRealLit (s : Str) : Bool :=
  (match sigPart s with
   | some r =>
     let r1 := dropSp r
     kindToEnd (dropSp (match expPart r1 with | some r2 => r2 | none => r1))
   | none => false)
  ||
  (match digits1 s with
   | some r =>
     match expPart (dropSp r) with
     | some r2 => kindToEnd (dropSp r2)
     | none => false
   | none => false)

/-! ## `Pattern.rsplit` / `Pattern.lsplit` -/

def joinS (l : List Str) : Str := l.flatten

/-- the list `t` of `rsplit` after the `is_add` adjustment -/
def rsplitPieces (p : Pat) (s : Str) (isAdd : Bool) : List Str :=
  let t := splitAll p s
  if isAdd then
    let n := (joinS (t.drop (t.length - 3))).filter (· != ' ')
    if absRealLit n then t.take (t.length - 3) ++ [n] else t
  else t

/-- `Pattern.rsplit` before the three `.strip()` calls: `("".join(t[:-2]), t[-2], t[-1])` -/
def rsplitRaw (p : Pat) (s : Str) (isAdd : Bool := false) : Option (Str × Str × Str) :=
  let t := rsplitPieces p s isAdd
  if t.length < 3 then none
  else if ((t.drop 1).dropLast).any (· == []) then none
  else some (joinS (t.take (t.length - 2)), (t.drop (t.length - 2)).headD [], t.getLastD [])

/-- `Pattern.rsplit(string, is_add)` (the `assert` cannot fail: `t[-2]` is always a match) -/
def rsplitS (p : Pat) (s : Str) (isAdd : Bool := false) : Option (Str × Str × Str) :=
  (rsplitRaw p s isAdd).map fun (l, o, r) => (strip l, strip o, strip r)

/-- `Pattern.lsplit` before the `.strip()` calls: `(t[0], t[1], "".join(t[2:]))` -/
def lsplitRaw (p : Pat) (s : Str) : Option (Str × Str × Str) :=
  let t := splitAll p s
  if t.length < 3 then none
  else some (t.headD [], (t.drop 1).headD [], joinS (t.drop 2))

/-- `Pattern.lsplit(string)` -/
def lsplitS (p : Pat) (s : Str) : Option (Str × Str × Str) :=
  (lsplitRaw p s).map fun (l, o, r) => (strip l, strip o, strip r)

/-! ## the string-level match steps (on the line returned by `string_replace_map`) -/

/-- `BinaryOpBase.match` between `string_replace_map` and the two constructor calls:
`(lhs, oper.replace(" ", ""), rhs)`; `none` = `return None` -/
def binStepS (q : Pat) (right excl : Bool) (line : Str) : Option (Str × Str × Str) :=
  match (if right then rsplitS q line else lsplitS q line) with
  | none => none
  | some (l, o, r) =>
    let lhs := rstrip l
    let rhs := lstrip r
    let oper := upper o
    if lhs = [] ∨ rhs = [] then none
    else if excl && nonDefinedMatch oper then none
    else some (lhs, oper.filter (· != ' '), rhs)

/-- `UnaryOpBase.match` up to the constructor call: `(op, rhs)` -/
def unStepS (q : Pat) (s : Str) : Option (Str × Str) :=
  match matchAt q none s with
  | none => none
  | some n =>
    let rhs := lstrip (s.drop n)
    if rhs = [] then none else some (upper (rstrip (s.take n)), rhs)

/-! ## the checked tokeniser -/

/-- kinds of operator words -/
inductive TK where
  | dotted (name : Str)       -- `.name.` (name upper-cased): operator or logical literal
  | pow | mul | div | concat | plus | minus | eq | ne | lt | le | gt | ge
deriving DecidableEq, Repr

/-- maximal-munch operator word at the head of `s`, with its length -/
def tokAt : Str → Option (TK × Nat)
  | '.' :: r => (dotWord ('.' :: r)).map fun wn => (.dotted wn.1, wn.2)
  | '*' :: '*' :: _ => some (.pow, 2)
  | '*' :: _ => some (.mul, 1)
  | '/' :: '/' :: _ => some (.concat, 2)
  | '/' :: '=' :: _ => some (.ne, 2)
  | '/' :: _ => some (.div, 1)
  | '+' :: _ => some (.plus, 1)
  | '-' :: _ => some (.minus, 1)
  | '=' :: '=' :: _ => some (.eq, 2)
  | '<' :: '=' :: _ => some (.le, 2)
  | '<' :: _ => some (.lt, 1)
  | '>' :: '=' :: _ => some (.ge, 2)
  | '>' :: _ => some (.gt, 1)
  | _ => none

/-- a segment of the line: the text between two operator words (operand with its surrounding
blanks, possibly empty) or an operator word -/
inductive Seg where
  | gap (s : Str)
  | word (k : TK) (s : Str)
deriving DecidableEq, Repr

def Seg.text : Seg → Str
  | .gap s => s
  | .word _ s => s

def flat (sg : List Seg) : Str := (sg.map Seg.text).flatten

/-- cut the line into segments (`fuel` ≥ length + 1) -/
def segsF : Nat → Str → Str → List Seg
  | 0, _, gap => [.gap gap.reverse]
  | _, [], gap => [.gap gap.reverse]
  | fuel+1, c :: cs, gap =>
    match tokAt (c :: cs) with
    | some (k, n) => .gap gap.reverse :: .word k ((c :: cs).take n) :: segsF fuel ((c :: cs).drop n) []
    | none => segsF fuel cs (c :: gap)

def segs (s : Str) : List Seg := segsF (s.length + 1) s []

/-- the patterns that must match an operator word (exactly, at its first character) -/
def inCls : TK → Pat → Bool
  | .dotted w, q => (dotClass w).inPat q
  | .pow, .power => true
  | .mul, .mult => true
  | .div, .mult => true
  | .concat, .concat => true
  | .plus, .add => true
  | .minus, .add => true
  | .eq, .rel => true | .ne, .rel => true | .lt, .rel => true
  | .le, .rel => true | .gt, .rel => true | .ge, .rel => true
  | _, _ => false

/-- no match of `q` starts at any character of `text` (context: `prev` before, `after` behind) -/
def noHit (q : Pat) : Option Char → Str → Str → Bool
  | _, [], _ => true
  | prev, c :: t, after => (matchAt q prev (c :: t ++ after)).isNone && noHit q (some c) t after

def lastOr (prev : Option Char) (s : Str) : Option Char :=
  match s.getLast? with
  | some c => some c
  | none => prev

def startsBlank (s : Str) : Bool := match s with | c :: _ => isSpace c | [] => false
def endsBlank (s : Str) : Bool := match s.getLast? with | some c => isSpace c | none => false

/-- The one tolerated overlap: `mult_op` (`(?<![/])[/](?![/])`) matches the `/` of `/=`. -/
def tolerated (k : TK) (q : Pat) : Bool := k == .ne && q == .mult

/-- every operator regex sees the segment as the token model does. (An operand must not begin
with `=`: no primary does, and it is what remains when `mult_op` cuts a `/=` in two.) -/
def segOK (prev : Option Char) (sg : Seg) (after : Str) : Bool :=
  match sg with
  | .gap s => (allPats.all fun q => noHit q prev s after) && !headIs (dropSp s) '='
  | .word k s =>
    s != [] &&
    (allPats.all fun q =>
      if inCls k q then matchAt q prev (s ++ after) == some s.length
      else if tolerated k q then true
      else noHit q prev s after) &&
    (match k with
     | .dotted w => nonDefinedMatch (upper (strip s)) == (dotClass w != .other)
     | _ => true) &&
    (match tokAt s with
     | some (k', _) => k' == k
     | none => false) &&
    !startsBlank s && !endsBlank s

def checkSegs (prev : Option Char) : List Seg → Bool
  | [] => true
  | sg :: rest => segOK prev sg (flat rest) && checkSegs (lastOr prev sg.text) rest

/-- injective numbering of operand texts -/
def idOf (s : Str) : Nat := s.foldl (fun n c => n * 1114112 + (c.toNat + 1)) 0

/-- the token of an operator word; `g` = glued to the previous token -/
def tokOf (k : TK) (g : Bool) : T :=
  match k with
  | .dotted w =>
    match dotClass w with
    | .logical => .atom (idOf w) true g
    | .rel i => .op (.rel i true) g
    | .not => .op .not g
    | .and => .op .and g
    | .or => .op .or g
    | .eqv => .op .eqv g
    | .neqv => .op .neqv g
    | .other => .op (.dot (numOf w)) g
  | .pow => .op .pow g | .mul => .op .mul g | .div => .op .div g | .concat => .op .concat g
  | .plus => .op .plus g | .minus => .op .minus g
  | .eq => .op (.rel 0 false) g | .ne => .op (.rel 1 false) g | .lt => .op (.rel 2 false) g
  | .le => .op (.rel 3 false) g | .gt => .op (.rel 4 false) g | .ge => .op (.rel 5 false) g

/-- tokens of a segment list. `g` = "no blank since the previous token" (for the first token:
the flag it is to carry). -/
def toksOf (g : Bool) : List Seg → List T
  | [] => []
  | .gap s :: rest =>
    let body := strip s
    if body = [] then toksOf (g && s == []) rest
    else .atom (idOf body) false (g && !startsBlank s) :: toksOf (!endsBlank s) rest
  | .word k _ :: rest => tokOf k g :: toksOf true rest

/-- the checked segmentation of a line -/
def lexSegs (s : Str) : Option (List Seg) :=
  let sg := segs s
  if flat sg = s ∧ checkSegs none sg = true then some sg else none

/-- tokens of a line, the first token carrying the glue flag `g0` -/
def lexFrom (g0 : Bool) (s : Str) : Option (List T) := (lexSegs s).map (toksOf g0)

/-- **the tokenisation of an expression text after `string_replace_map`** -/
def lexExpr (s : Str) : Option (List T) := lexFrom false s

/-! ## the string-level steps instrumented with the glue flags of the token model

The flags never influence control flow; erasing them gives `binStepS` / `unStepS`. -/

def opTok (m : Str) (g : Bool) : Option T :=
  match tokAt m with
  | some (k, _) => some (tokOf k g)
  | none => none

/-- `binStepS` returning the operator as a token and the glue flag for the first token of `rhs` -/
def binStepI (q : Pat) (right excl : Bool) (g0 : Bool) (line : Str) : Option (Str × T × Str × Bool) :=
  match (if right then rsplitRaw q line else lsplitRaw q line) with
  | none => none
  | some (rl, m, rr) =>
    let lhs := rstrip (strip rl)
    let rhs := lstrip (strip rr)
    let oper := upper (strip m)
    if lhs = [] ∨ rhs = [] then none
    else if excl && nonDefinedMatch oper then none
    else match opTok m ((if rl = [] then g0 else true) && !endsBlank rl) with
      | some o => some (lhs, o, rhs, !startsBlank rr)
      | none => none

def unStepI (q : Pat) (g0 : Bool) (s : Str) : Option (T × Str × Bool) :=
  match matchAt q none s with
  | none => none
  | some n =>
    let rhs := lstrip (s.drop n)
    if rhs = [] then none
    else match opTok (s.take n) g0 with
      | some o => some (o, rhs, !startsBlank (s.drop n))
      | none => none

def patOf : OpCls → Option Pat
  | .defined => some .defined | .equiv => some .equiv | .or => some .or | .and => some .and
  | .not => some .not | .rel => some .rel | .concat => some .concat | .add => some .add
  | .mult => some .mult | .power => some .power | .none => none

/-- a single opaque operand: the line is one non-blank gap, or one logical literal -/
def primS (g0 : Bool) (s : Str) : Option Ex :=
  match lexFrom g0 s with
  | some [.atom i d g] => some (.atom i d g)
  | _ => none

/-- `cls.match(line)` on strings for the row of the level table (operands opaque: the
`Parenthesis` alternative of `Primary` re-enters through `string_replace_map`, which is not
part of this layer) -/
def matchStepS (rec : Lv → Bool → Str → Option Ex) (row : Row) (g0 : Bool) (s : Str) : Option Ex :=
  match row.kind, patOf row.cls, row.lhs, row.rhs with
  | .binL, some q, some lhs, some rhs =>
    match binStepI q true row.excl g0 s with
    | some (sl, o, sr, gr) =>
      match rec rhs gr sr with
      | some R => match rec lhs g0 sl with
        | some L => some (.bin o L R)
        | none => none
      | none => none
    | none => none
  | .binR, some q, some lhs, some rhs =>
    match binStepI q false row.excl g0 s with
    | some (sl, o, sr, gr) =>
      match rec lhs g0 sl with
      | some L => match rec rhs gr sr with
        | some R => some (.bin o L R)
        | none => none
      | none => none
    | none => none
  | .unary, some q, _, some rhs =>
    match unStepI q g0 s with
    | some (o, sr, gr) =>
      match rec rhs gr sr with
      | some R => some (.un o R)
      | none => none
    | none => none
  | .prim, _, _, _ => primS g0 s
  | _, _, _, _ => none

/-- `Base.__new__(cls, line)` on strings -/
def parseSF : Nat → Lv → Bool → Str → Option Ex
  | 0, _, _, _ => none
  | fuel+1, k, g0, s =>
    match matchStepS (parseSF fuel) (rowOf k) g0 s with
    | some e => some e
    | none =>
      match (rowOf k).next with
      | some k' => parseSF fuel k' g0 s
      | none => none

end Fp.ExprLex
