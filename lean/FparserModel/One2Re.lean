import FparserModel.Py

/-!
# One2Re — the regular expressions of fparser1's Begin/End statement classes

`Re` is the fragment of Python's `re` syntax used by the `match` attributes of the
`BeginStatement` / `EndStatement` subclasses of `fparser/one/block_statements.py`; the translator
`fv/extract_one2.py` turns `re._parser.parse(pattern)` of every LIVE class into an `Re` term
(`Generated/One2Tables.lean`).  `Re.m` is a backtracking matcher in continuation-passing style
(`re.match`: anchored at the start only).  All lines reach the classes lower-cased
(`Line.get_line()`), all patterns are lower-case: `re.I` is a no-op and literals compare exactly.
No Mathlib.
-/
namespace Fp.One2
open Fp

/-- character classes -/
inductive CC
  | lit (c : Char)      -- a literal character
  | nlit (c : Char)     -- `[^c]`
  | space               -- `\s`
  | word                -- `\w`
  | digit               -- `\d`
  | any                 -- `.`
  deriving DecidableEq, Repr, Inhabited

def isSp (c : Char) : Bool :=
  c == ' ' || c == '\t' || c == '\n' || c == '\r' || c == '\x0b' || c == '\x0c'

def CC.test : CC → Char → Bool
  | .lit c, d => c == d
  | .nlit c, d => c != d
  | .space, d => isSp d
  | .word, d => isWord d
  | .digit, d => isDigit d
  | .any, d => d != '\n'

inductive Re
  | eps
  | str (s : Str)            -- literal text
  | chr (c : CC)             -- one character of a class
  | many (c : CC)            -- `[c]*`
  | many1 (c : CC)           -- `[c]+`
  | seq (a b : Re)
  | alt (a b : Re)
  | opt (a : Re)             -- `(?:a)?`
  | star (a : Re)            -- `(?:a)*` (general)
  | eoi                      -- `\Z`
  | eol                      -- `$`
  | nwl                      -- `\b` after a word character: no word character follows
  | unsupported              -- a construct outside the fragment: never matches (obligations fail)
  deriving DecidableEq, Repr, Inhabited

/-- literal text then continuation -/
def strK : Str → (Str → Bool) → Str → Bool
  | [], k, s => k s
  | _ :: _, _, [] => false
  | c :: l, k, d :: s => c == d && strK l k s

/-- `[p]*` (all splits tried, longest first) then continuation -/
def manyK (p : Char → Bool) (k : Str → Bool) : Str → Bool
  | [] => k []
  | c :: s => (p c && manyK p k s) || k (c :: s)

/-- general star: at most `n` iterations, each must consume input -/
def starK (am : (Str → Bool) → Str → Bool) (k : Str → Bool) : Nat → Str → Bool
  | 0, s => k s
  | n + 1, s => am (fun s' => s'.length < s.length && starK am k n s') s || k s

/-- `r.m k s`: some prefix of `s` matches `r` and the continuation accepts the rest -/
def Re.m : Re → (Str → Bool) → Str → Bool
  | .eps, k, s => k s
  | .str l, k, s => strK l k s
  | .chr c, k, s => match s with
    | d :: t => c.test d && k t
    | [] => false
  | .many c, k, s => manyK c.test k s
  | .many1 c, k, s => match s with
    | d :: t => c.test d && manyK c.test k t
    | [] => false
  | .seq a b, k, s => a.m (fun s' => b.m k s') s
  | .alt a b, k, s => a.m k s || b.m k s
  | .opt a, k, s => a.m k s || k s
  | .star a, k, s => starK (fun k' s' => a.m k' s') k s.length s
  | .eoi, k, s => s.isEmpty && k s
  | .eol, k, s => (s.isEmpty || s == ['\n']) && k s
  | .nwl, k, s => (match s with
    | d :: _ => !isWord d
    | [] => true) && k s
  | .unsupported, _, _ => false

/-- `re.compile(p).match(s)` is not `None` -/
def Re.matches (r : Re) (s : Str) : Bool := r.m (fun _ => true) s

/-- `str.replace(" ", "")` -/
def noBlanks (s : Str) : Str := s.filter (· != ' ')

/-- one row per `BeginStatement` subclass that occurs in a class list (plus `BeginSource`) -/
structure BlockRow where
  cls : String            -- Begin class name
  id : Nat                -- its index in `classNames`
  classes : List Nat      -- `get_classes()` (free-form mode filter applied), indices in `classNames`
  endCls : String         -- `end_stmt_cls.__name__` ("" = none: `If`)
  beginBt : String        -- `blocktype` of the Begin class (class name lower-cased unless overridden)
  endBt : String          -- `blocktype` of the End class (class name [3:] lower-cased unless overridden)
  defName : String        -- class attribute `name`, else the `"__" + BLOCKTYPE + "__"` of `__init__`
  baseTostr : Bool        -- `tostr` is `BeginStatement.tostr` (`BLOCKTYPE name`)
  beginPat : String
  endPat : String
  beginRe : Re
  endRe : Re
  deriving Repr, Inhabited

structure Tables where
  classNames : List String
  rows : List BlockRow          -- rows[0] = BeginSource
  fingerprints : List (String × String)   -- (qualified method, sha1 of its source)
  endLineQuiet : Bool           -- translator-checked: no statement class matches a printed END line
  deriving Repr, Inhabited

end Fp.One2
