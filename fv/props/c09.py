"""C09 — a parse is a function of its input, not of earlier parses."""
import itertools
import json
import os
import random
import subprocess
import sys
from fv import real, gen, engine, findings, common
from fv.props import util

RULE = ("histories over {create(f2003), create(f2008), parse(valid_i), parse(invalid_j)}: exhaustive up to length 3 (quick) / 4 "
        "(thorough) over a 8-letter alphabet, random beyond; oracle: result(h; create(s); parse(x)) == result in a FRESH interpreter "
        "process (tree repr with synthetic BLOCK names renumbered, printed text), and after every failing parse current scope is "
        "None and str(SYMBOL_TABLES) is what it was before that parse. non-trivial = history contains a failing parse or a change "
        "of standard")
ASSUMPTIONS = ["reference results come from a fresh /venv/bin/python process per (standard, source)"]
TIE_MODULES = ["FparserModel.Registry", "FparserModel.SymTab", "FparserModel.Block", "FparserModel.Generated.Classes2008"]

VALID = [
    "module m1\n  integer :: sin\ncontains\n  subroutine s1(a)\n    real :: a\n    block\n      integer :: k\n      k = 1\n    end block\n    a = cos(a)\n  end subroutine s1\nend module m1\n",
    "program p2\n  use m1\n  implicit none\n  real :: x(10)\n  x = abs(x) + max(1.0, 2.0)\n  if (x(1) > 0) then\n    x = 1\n  end if\ncontains\n  function f2(y)\n    real :: y, f2\n    f2 = y\n  end function f2\nend program p2\n",
    "subroutine s3\n  do 10 i = 1, 3\n  do 10 j = 1, 3\n10 x = i + j\n  print *, 'done'\nend subroutine s3\n",
]
VALID_F08_ONLY = {0}
INVALID = [
    "module bad1\ncontains\n  subroutine q\n    integer :: abs\n    @@ garbage\n  end subroutine q\nend module bad1\n",
    "program bad2\n  integer :: a\n  a = sin(1.0, 2.0)\nend program bad2\n",
    "integer :: a\nif (a) then\nend if foo\nend\n",
    "subroutine bad4\n  real :: cos\n  outer: do i = 1, 2\n  end do inner\nend subroutine bad4\n",
    "subroutine ok5\n  integer :: tan\nend subroutine ok5\n@@ garbage after a complete unit\n",
]

VALID.append("subroutine ok5\n  y = tan(z) + abs(w)\nend subroutine ok5\nsubroutine q\n  y = abs(w)\nend subroutine q\n")
# parses abandoned by the reader's error() (SystemExit) while a scoping unit is still open
INVALID.append("module m5\n  integer :: sin\ncontains\n  subroutine a5\n    integer :: tan\n  end subroutine b5\nend module m5\n")
INVALID.append("subroutine s6\n  real :: tan\n  oops:\nend subroutine s6\n")
VALID.append("program p7\n  x = sin(1.0) + tan(2.0)\nend program p7\n")
# keyword=value lists whose admissible keywords differ between the standards (class-level
# tables that a parse under one standard must not leave changed for the other)
VALID.append("program p8\n  type t8\n    real, pointer :: v(:)\n  end type t8\n  open (unit = 10, file = 'f.dat', status = 'old')\n"
             "  allocate (a(10), stat = ierr)\n  close (unit = 10, status = 'keep')\n  inquire (unit = 10, opened = lo)\nend program p8\n")
VALID.append("program p9\n  open (newunit = lun, file = 'f.dat')\nend program p9\n")
# the same physical lines (character literal, code behind it, trailing comment) read again and
# again in one process: nothing the tokeniser hands out may be shared between readers
VALID.append("subroutine s11\n  print *, \"total:   \", f(a,   b)\n  x = 'a  b' // g( 1 )\nend subroutine s11\n")
VALID.append("subroutine s11\n  print *, \"total: \", f(a, b)\n  x = 'a b' // g(1)\nend subroutine s11\n")
VALID.append("subroutine s10(total)\n  print *, 'total is', total ! in metres\n  write (*, '(a)') 'x ! y', total ! it's\n"
             "  total = len('a''b') + 1 ! \"q\nend subroutine s10\n")
VALID_F08_ONLY.add(6)

LETTERS = ["c03", "c08", "v0", "v1", "v2", "v3", "v4", "v5", "v6", "v7", "v8", "v9", "i0", "i1", "i2", "i3", "i4", "i5", "i6"]


def _table_names(txt):
    return set(l.strip() for l in txt.split("\n")[2:] if l.strip())


def completed_units_tables(src, std):
    """names of the top-level tables of the program units that are complete before the
    first error of `src` (found with the parser itself on prefixes of the source)"""
    from fparser.two.symbol_table import SYMBOL_TABLES
    lines = src.split("\n")
    best = set()
    for k in range(len(lines), 0, -1):
        pre = "\n".join(lines[:k]) + "\n"
        real.get_parser(std, force=True)
        o = real.try_parse(pre, std=std, free=True)
        if o.kind == "tree":
            best = _table_names(str(SYMBOL_TABLES))
            break
    return best

_REF = r'''
import sys, json
sys.path.insert(0, %(verif)r)
from fv import real, treeutil
std, src = json.loads(sys.stdin.read())
o = real.try_parse(src, std=std, free=True)
print(json.dumps({"kind": o.kind, "repr": real.canon_repr(o.tree) if o.tree is not None else None,
                  "str": str(o.tree) if o.tree is not None else None,
                  "err": str(o.exc) if o.exc is not None else None}))
'''


def fresh(std, src):
    env = dict(os.environ)
    r = subprocess.run([common.PY, "-c", _REF % {"verif": common.VERIF}], input=json.dumps([std, src]),
                       capture_output=True, text=True, timeout=120, cwd=common.VERIF, env=env)
    if r.returncode != 0:
        return {"kind": "crash", "err": r.stderr[-500:], "repr": None, "str": None}
    return json.loads(r.stdout.strip().splitlines()[-1])


def observe(std, src):
    o = real.try_parse(src, std=std, free=True)
    return {"kind": o.kind, "repr": real.canon_repr(o.tree) if o.tree is not None else None,
            "str": str(o.tree) if o.tree is not None else None, "err": str(o.exc) if o.exc is not None else None}


def source_of(letter):
    return VALID[int(letter[1])] if letter[0] == "v" else INVALID[int(letter[1])]


def run_case(case):
    refs = case["refs"]
    res = {"key": case["hist"] + [case["final"]], "counts": {}, "findings": [], "nontrivial": False}
    from fparser.two.parser import ParserFactory
    from fparser.two.symbol_table import SYMBOL_TABLES
    cur = None
    # a process-wide first create so that `parse` before any create in the history is defined
    real.get_parser("f2008", force=True)
    cur = "f2008"
    hist = case["hist"]
    for k, letter in enumerate(hist):
        if letter[0] == "c":
            cur = "f2003" if letter == "c03" else "f2008"
            real.get_parser(cur, force=True)
            if k:
                res["nontrivial"] = True
            continue
        src = source_of(letter)
        before_tables = str(SYMBOL_TABLES)
        o = real.try_parse(src, std=cur, free=True) if False else None
        # parse with the CURRENT parser without re-creating it
        p = real._parsers[cur]
        r = real.make_reader(src, free=True)
        kind = "tree"
        try:
            p(r)
        except real.U.FortranSyntaxError:
            kind = "syntax"
        except SystemExit:
            kind = "exit"
        except Exception as e:  # noqa: BLE001
            kind = "other:" + type(e).__name__
        res["counts"]["step:" + kind] = res["counts"].get("step:" + kind, 0) + 1
        if kind != "tree":
            res["nontrivial"] = True
            after = str(SYMBOL_TABLES)
            if SYMBOL_TABLES.current_scope is not None:
                sig = "scope-left-open:%s" % kind
                known = findings.classify("C09", src, {"kind": kind, "what": "scope"})
                res["findings"].append({"signature": known or sig,
                                        "what": "after failing parse (%s) of %r current scope is %r" % (kind, src[:60], SYMBOL_TABLES.current_scope.name),
                                        "replay": {"case": case, "step": k}})
            # tables of the failed parse must not remain: compare with the tables before the parse
            # (a parse starts by clearing nothing; entries of EARLIER successful parses legitimately stay)
            if after != before_tables:
                known = None
                new = _table_names(after) - _table_names(before_tables)
                if new and _table_names(before_tables) <= _table_names(after):
                    keep_parser = cur
                    if new <= completed_units_tables(src, cur):
                        known = "pred:tables_of_completed_units_remain"
                    real.get_parser(keep_parser, force=True)
                res["findings"].append({"signature": known or ("tables-left:%s:%s" % (kind, letter)),
                                        "what": "failing parse (%s) of %r left symbol tables: before %r after %r" % (kind, src[:60], before_tables[-80:], after[-120:]),
                                        "replay": {"case": case, "step": k}})
    # final: create(s); parse(x)   -- or, for "nocreate" cases (history = create(s) followed
    # by failing parses only), parse(x) with the SAME parser: a failed parse must be traceless
    s, x = case["final"]
    if case.get("nocreate"):
        p = real._parsers[cur]
        r = real.make_reader(source_of(x), free=True)
        try:
            t = p(r)
            got = {"kind": "tree", "repr": real.canon_repr(t), "str": str(t)}
        except real.U.FortranSyntaxError as e:
            got = {"kind": "syntax", "repr": None, "str": None}
        except SystemExit:
            got = {"kind": "exit", "repr": None, "str": None}
        s = cur
    else:
        real.get_parser(s, force=True)
        got = observe(s, source_of(x))
    ref = refs["%s|%s" % (s, x)]
    for f in ("kind", "repr", "str"):
        if got[f] != ref[f]:
            res["findings"].append({"signature": "history-dependent:%s:%s/%s" % (f, s, x),
                                    "what": "after history %s, %sparse(%s) gives %s %r but a fresh process gives %r" % (
                                        hist, "" if case.get("nocreate") else "create(%s); " % s, x, f, str(got[f])[:150], str(ref[f])[:150]),
                                    "replay": {"case": case}})
            break
    res["sample"] = {"history": hist, "final": case["final"]}
    return res


def cases(tier, seed, refs):
    out = []
    maxlen = 3 if tier != "thorough" else 4
    finals = [("f2003", "v1"), ("f2008", "v0"), ("f2008", "v1"), ("f2003", "v2"), ("f2008", "i0"), ("f2003", "i2"), ("f2008", "v4"), ("f2003", "v4"), ("f2003", "v6"), ("f2003", "v5"), ("f2008", "v6"), ("f2003", "v6"), ("f2008", "v7"), ("f2003", "v7"), ("f2008", "v8"), ("f2003", "v8"), ("f2008", "v9"), ("f2003", "v9")]
    rng = random.Random(seed)
    k = 0
    for n in range(0, maxlen + 1):
        for h in itertools.product(LETTERS, repeat=n):
            if n == 3 and tier != "thorough" and rng.random() > 0.25:
                continue
            if n == 4 and rng.random() > 0.12:
                continue
            out.append({"hist": list(h), "final": list(finals[k % len(finals)]), "refs": refs})
            k += 1
    inv = [l for l in LETTERS if l[0] == "i"]
    val = [l for l in LETTERS if l[0] == "v"]
    for c in ("c03", "c08"):
        std = "f2003" if c == "c03" else "f2008"
        for n in (1, 2):
            for h in itertools.product(inv, repeat=n):
                for x in val:
                    if std == "f2003" and int(x[1]) in VALID_F08_ONLY:
                        continue
                    out.append({"hist": [c] + list(h), "final": [std, x], "refs": refs, "nocreate": True})
    for _ in range(util.tier_n(tier, 60, 600)):
        n = rng.randint(4, 8)
        out.append({"hist": [rng.choice(LETTERS) for _ in range(n)], "final": list(rng.choice(finals)), "refs": refs})
    return out


def block_ghosts(rep):
    """block model on the recorded oracle of every source of the alphabet: the model's
    boundary events (scope leaks) must not occur on a failing parse"""
    for s_ in ("f2003", "f2008"):
        for x in LETTERS:
            if x[0] == "c" or (s_ == "f2003" and x[0] == "v" and int(x[1]) in VALID_F08_ONLY):
                continue
            fs, info = util.block_cosim(source_of(x), std=s_)
            for f in fs:
                rep.violation(f["signature"], f["what"], f["replay"], True)
            bad = set(info.get("ghost") or []) & {"scopeLeak", "main0Leak", "emptyScopeName"}
            if bad and str(info.get("outcome", "")).startswith(("raise:Syntax", "none", "tree")):
                rep.violation("model-scope-leak:%s" % sorted(bad), "block model logs %s on %r" % (sorted(bad), source_of(x)[:60]),
                              {"source": source_of(x), "std": s_})
            rep.count("block-cosim")


def run(tier, rep, st):
    block_ghosts(rep)
    refs = {}
    for s in ("f2003", "f2008"):
        for x in LETTERS:
            if x[0] != "c":
                refs["%s|%s" % (s, x)] = fresh(s, source_of(x))
    rep.coverage["fresh_process_references"] = len(refs)
    engine.run_cases(__name__, cases(tier, rep.seed, refs), rep, chunksize=8)
