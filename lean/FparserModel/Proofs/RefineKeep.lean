import FparserModel.Proofs.RefineChunks

/-!
# RefineKeep — a free-form reader keeps its options (`ignore_comments`, include directories)

`KeepIC r r'`: format flag, `ignore_comments` and the include directories are unchanged.  Every
operation on the free-form path of `_next` satisfies it (same case analysis as `ReaderFree.lean`).
Consequence for chunk layouts: every item the reader delivers may be put back at every state
the reader goes through (`chunk_returnable`).
-/
namespace Fp.Reader
open Fp

structure KeepIC (r r' : Rd) : Prop where
  free : r'.isFree = r.isFree
  ic : r'.ignoreComments = r.ignoreComments
  dirs : r'.includeDirs = r.includeDirs

theorem KeepIC.refl (r : Rd) : KeepIC r r := ⟨rfl, rfl, rfl⟩
theorem KeepIC.trans {a b c : Rd} (h1 : KeepIC a b) (h2 : KeepIC b c) : KeepIC a c :=
  ⟨h2.free.trans h1.free, h2.ic.trans h1.ic, h2.dirs.trans h1.dirs⟩
theorem KeepIC.setFifo (r : Rd) (f : List Item) : KeepIC r { r with fifo := f } := ⟨rfl, rfl, rfl⟩

theorem getSingleLine_keepIC (r : Rd) : KeepIC r (getSingleLine r).2 := by
  unfold getSingleLine
  cases hf : r.filo with
  | cons l f => exact ⟨rfl, rfl, rfl⟩
  | nil =>
    simp only []
    by_cases hc : r.closed = true
    · simp only [hc, if_true]; exact ⟨rfl, rfl, rfl⟩
    · have hc' : r.closed = false := by simpa using hc
      simp only [hc', Bool.false_eq_true, if_false]
      cases pull (r.omp && !r.isFree) (r.ignoreComments && !r.isFree) r.src r.linecount r.linesRev with
      | mk o rest1 =>
        obtain ⟨src', lc', ls'⟩ := rest1
        cases o <;> exact ⟨rfl, rfl, rfl⟩

theorem cppLoop_keepIC : ∀ (fuel : Nat) (line acc : Str) (s : Nat) (r : Rd),
    KeepIC r (cppLoop fuel line acc s r).2
  | 0, _, _, _, r => by simp only [cppLoop]; exact KeepIC.refl r
  | fuel + 1, line, acc, s, r => by
    unfold cppLoop
    simp only []
    split
    · have hg := getSingleLine_keepIC r
      cases hq : getSingleLine r with
      | mk o r' =>
        rw [hq] at hg
        cases o with
        | none => exact hg
        | some l2 => exact hg.trans (cppLoop_keepIC fuel l2 _ s r')
    · exact KeepIC.refl r

theorem freeLoop_keepIC (hadOmp : Bool) : ∀ (fuel : Nat) (line : Option Str) (started : Bool) (acc : Str)
    (q : Option Char) (label : Option Nat) (name : Option Str) (endl : Nat) (r : Rd),
    KeepIC r (freeLoop hadOmp fuel line started acc q label name endl r).r
  | 0, _, _, _, _, _, _, _, r => by simp only [freeLoop]; exact KeepIC.refl r
  | fuel + 1, none, _, _, _, _, _, _, r => by simp only [freeLoop]; exact KeepIC.refl r
  | fuel + 1, some line0, started, acc, q, label, name, endl, r => by
    unfold freeLoop
    simp only []
    generalize (if hadOmp = true then (replaceSentinelFreeCont line0).1 else line0) = line
    split
    · have ha := KeepIC.setFifo r (r.fifo ++ [Item.comment (lstrip line) r.linecount r.linecount false])
      generalize ({ r with fifo := r.fifo ++ [Item.comment (lstrip line) r.linecount r.linecount false] } : Rd) = r1
        at ha ⊢
      exact (ha.trans (getSingleLine_keepIC r1)).trans (freeLoop_keepIC hadOmp fuel _ _ _ _ _ _ _ _)
    · split
      · exact (getSingleLine_keepIC r).trans (freeLoop_keepIC hadOmp fuel _ _ _ _ _ _ _ _)
      · generalize freeStep started line r.linecount q label name = stp
        have ha := KeepIC.setFifo r (r.fifo ++ stp.h.comments)
        generalize ({ r with fifo := r.fifo ++ stp.h.comments } : Rd) = r1 at ha ⊢
        split
        · exact (ha.trans (getSingleLine_keepIC r1)).trans (freeLoop_keepIC hadOmp fuel _ _ _ _ _ _ _ _)
        · exact ha

theorem freeItem_keepIC (r : Rd) (line : Str) (hadOmp : Bool) (s : Nat) :
    KeepIC r (freeItem r line hadOmp s).2 := by
  unfold freeItem
  have hl := freeLoop_keepIC hadOmp (r.src.length + r.filo.length + 2) (some line) false [] none none none
    r.linecount r
  generalize freeLoop hadOmp (r.src.length + r.filo.length + 2) (some line) false [] none none none
    r.linecount r = o at hl
  simp only []
  split
  · exact hl
  · split
    · exact hl
    · split
      · exact hl
      · split
        · exact hl.trans (KeepIC.setFifo _ _)
        · exact hl

theorem getSourceItem_keepIC (r : Rd) (hf : r.isFree = true) : KeepIC r (getSourceItem r).2 := by
  unfold getSourceItem
  have hg := getSingleLine_keepIC r
  cases hq : getSingleLine r with
  | mk o r1 =>
    rw [hq] at hg
    cases o with
    | none => exact hg
    | some line0 =>
      simp only [] at hg ⊢
      have h1 : r1.isFree = true := by rw [hg.free]; exact hf
      by_cases c0 : (line0 != [] && startsWith (lstrip line0) ['#']) = true
      · simp only [c0, if_true]
        exact hg.trans (cppLoop_keepIC _ _ _ _ _)
      · simp only [c0, Bool.false_eq_true, if_false, h1, Bool.not_true]
        exact hg.trans (freeItem_keepIC _ _ _ _)

theorem popOrRead_keepIC (r : Rd) (hf : r.isFree = true) : KeepIC r (popOrRead r).2 := by
  unfold popOrRead
  cases r.fifo with
  | nil => exact getSourceItem_keepIC r hf
  | cons x f => exact KeepIC.setFifo r f

theorem nextRaw_keepIC : ∀ (fuel : Nat) (r : Rd), r.isFree = true → KeepIC r (nextRaw fuel r).2
  | 0, r, _ => KeepIC.refl r
  | fuel + 1, r, hf => by
    unfold nextRaw
    have hp := popOrRead_keepIC r hf
    generalize popOrRead r = p at hp ⊢
    simp only []
    cases p.1 with
    | ok it =>
      simp only []
      split
      · exact hp.trans (nextRaw_keepIC fuel p.2 (by rw [hp.free]; exact hf))
      · exact hp
    | stop => exact hp
    | err => exact hp
    | exit => exact hp
    | unsup => exact hp

theorem next1Loop_keepIC : ∀ (fuel : Nat) (r : Rd), r.isFree = true → KeepIC r (next1Loop fuel r).2
  | 0, r, _ => KeepIC.refl r
  | fuel + 1, r, hf => by
    unfold next1Loop
    have hp := nextRaw_keepIC (nextRawFuel r) r hf
    generalize nextRaw (nextRawFuel r) r = p at hp ⊢
    simp only []
    cases p.1 with
    | ok it =>
      simp only []
      cases hq : splitSemicolon it p.2 with
      | none =>
        simp only []
        exact hp.trans (next1Loop_keepIC fuel p.2 (by rw [hp.free]; exact hf))
      | some q =>
        simp only []
        obtain ⟨f, hst⟩ := splitSemicolon_state it p.2 q hq
        rw [hst]
        exact hp.trans (KeepIC.setFifo _ _)
    | stop => exact hp
    | err => exact hp
    | exit => exact hp
    | unsup => exact hp

/-- `_next` of a free-form reader leaves format, `ignore_comments` and include directories alone -/
theorem next1_keepIC (r : Rd) (hf : r.isFree = true) : KeepIC r (next1 r).2 :=
  next1Loop_keepIC _ r hf

/-- every prefix of a run of `_next` calls ends in a reader with the same options -/
theorem Steps.prefix {r r' : Rd} {xs : List Item} (hs : Steps r xs r') (hf : r.isFree = true) :
    ∀ k, k ≤ xs.length → ∃ rk, Steps r (xs.take k) rk ∧ KeepIC r rk := by
  induction hs with
  | nil r => intro k _; exact ⟨r, by simpa using Steps.nil r, KeepIC.refl r⟩
  | @cons r0 r1 r2 x xs h _ ih =>
    intro k hk
    cases k with
    | zero => exact ⟨r0, by simpa using Steps.nil r0, KeepIC.refl r0⟩
    | succ k =>
      have hk1 : KeepIC r0 r1 := by
        have := next1_keepIC r0 hf; rw [h] at this; exact this
      obtain ⟨rk, h1, h2⟩ := ih (by rw [hk1.free]; exact hf) k (by simpa using hk)
      exact ⟨rk, by simpa using Steps.cons h h1, hk1.trans h2⟩

/-- an item that `_next` does not filter may be put back at any reader with these options -/
theorem returnable_of (fs : Fs) (r : Rd) (x : Item) (hk : (x.isComment && r.ignoreComments) = false)
    (hs : NoSemi x) (hn : NoInc x) : returnable fs r x = true := by
  unfold returnable
  rw [hk]
  cases hv : x.lineView with
  | none => rfl
  | some v =>
    obtain ⟨text, l, n, s, e⟩ := v
    have h1 := hs text l n s e hv
    have h2 := hn text l n s e hv
    have h1' : ¬ (';' ∈ (stringReplaceMap text true).1) := by simpa using h1
    simp [h1', h2]

theorem chunkItems_keep_nosemi (ic o : Bool) : ∀ (cs : List Chunk) (lc : Nat), (∀ c ∈ cs, c.ok o) →
    ∀ x ∈ chunkItems ic lc cs, (x.isComment && ic) = false ∧ NoSemi x
  | [], _, _, x, hx => by cases hx
  | c :: cs, lc, hok, x, hx => by
    simp only [chunkItems, List.mem_append, List.mem_filter, List.mem_cons] at hx
    rcases hx with ⟨hx, hk⟩ | hx
    · refine ⟨by simp only [keep, Bool.not_eq_true'] at hk; exact hk, ?_⟩
      rcases hx with rfl | hx
      · exact (hok c List.mem_cons_self).nosemi lc
      · have hc := (hok c List.mem_cons_self).comments lc x hx
        cases x with
        | comment t s e b => exact NoSemi.comment _ _ _ _
        | line _ _ _ _ _ => cases hc
        | synerr _ _ _ => cases hc
        | cpp _ _ _ => cases hc
    · exact chunkItems_keep_nosemi ic o cs _ (fun d hd => hok d (List.mem_cons_of_mem _ hd)) x hx

/-- the `_next` run of a chunk source (what `drains_chunks` turns into a drain) -/
theorem steps_chunks (o : Bool) (cs : List Chunk) (r : Rd)
    (hok : ∀ c ∈ cs, c.ok o) (h0 : r.omp = o) (hfifo : r.fifo = []) (h1 : r.filo = [])
    (h2 : r.closed = false) (h3 : r.isFree = true) (hsrc : r.src = srcOf cs) :
    ∃ rm, Steps r (chunkItems r.ignoreComments r.linecount cs) rm := by
  have hend := endState_fields cs r [] hfifo (by simpa using hsrc)
  have hafter : After (endState r cs []) 1 (.stop, { endState r cs [] with closed := true }) :=
    After_eof _ (by rw [hend]; exact hfifo) (by rw [hend]; exact h1) (by rw [hend]; exact h2)
      (by rw [hend])
  obtain ⟨rm, k, hsteps, _, _⟩ := runs_chunks o cs r [] _ hok h0 hfifo h1 h2 h3 (by simpa using hsrc)
    ⟨endState r cs [], 1, Steps.nil _, hafter, by simp [nextRawFuel]⟩
  exact ⟨rm, hsteps⟩

/-- CHUNK LAYOUTS: at every chain the reader goes through, every item it delivers may be put
    back — the hypothesis of `block_run_represented` -/
theorem chunk_returnable (d : Nat) (fs : Fs) (o : Bool) (cs : List Chunk) (r : Rd)
    (hok : ∀ c ∈ cs, c.ok o) (h0 : r.omp = o) (hfifo : r.fifo = []) (h1 : r.filo = [])
    (h2 : r.closed = false) (h3 : r.isFree = true) (hsrc : r.src = srcOf cs)
    (hni : ∀ x ∈ chunkItems r.ignoreComments r.linecount cs, NoInc x) :
    ∀ k zs hw r', k ≤ (chunkItems r.ignoreComments r.linecount cs).length →
      getN (d + 1) fs k [r] = some (zs, hw) → innermost hw = some r' →
      ∀ x ∈ chunkItems r.ignoreComments r.linecount cs, returnable fs r' x = true := by
  intro k zs hw r' hk hg hi x hx
  obtain ⟨rm, hsteps⟩ := steps_chunks o cs r hok h0 hfifo h1 h2 h3 hsrc
  obtain ⟨rk, hsk, hkeep⟩ := hsteps.prefix h3 k hk
  have hgn := getN_of_steps d fs hsk (fun y hy => hni y (List.mem_of_mem_take hy))
  rw [List.length_take, Nat.min_eq_left hk, hg] at hgn
  simp only [Option.some.injEq, Prod.mk.injEq] at hgn
  rw [hgn.2] at hi
  simp only [innermost, Option.some.injEq] at hi
  subst hi
  obtain ⟨hkp, hns⟩ := chunkItems_keep_nosemi r.ignoreComments o cs r.linecount hok x hx
  exact returnable_of fs rk x (by rw [hkeep.ic]; exact hkp) hns (hni x hx)

end Fp.Reader
