import FparserModel.SymGlue
import FparserModel.Proofs.SymTab
/-!
What one table records: lemmas about `ModuleUse.__init__` / `update`, `add_use_symbols`,
`add_data_symbol` and `SymbolTable.lookup` restricted to one table.  No Mathlib.
-/
namespace Fp.SymGlue
open Fp Fp.SymTab

/-- `name` is recorded in this table: a data symbol, or a symbol of one of its module uses -/
def hasName (l : Local) (n : Str) : Bool :=
  dHas l.syms n || l.mods.any (fun m => m.2.symbols.contains n)

/-- this table has a module use with a wildcard import -/
def hasWild (l : Local) : Bool := l.mods.any (fun m => m.2.wildcard)

theorem lookupHere_isSome (l : Local) (n : Str) : (l.lookupHere n).isSome = hasName l n := by
  unfold Local.lookupHere hasName dHas
  cases hd : dGet l.syms n with
  | some s => simp
  | none =>
    cases hf : l.mods.find? (fun m => m.2.symbols.contains n) with
    | none =>
      have := List.find?_eq_none.1 hf
      have h2 : l.mods.any (fun m => m.2.symbols.contains n) = false := by
        rw [List.any_eq_false]; intro x hx; simpa using this x hx
      rw [h2]; rfl
    | some m =>
      have hm := List.mem_of_find?_eq_some hf
      have hp := List.find?_some hf
      have h2 : l.mods.any (fun m => m.2.symbols.contains n) = true := by
        rw [List.any_eq_true]; exact ⟨m, hm, hp⟩
      rw [h2]; rfl

theorem wildHere_isEmpty (l : Local) : l.wildHere.isEmpty = !hasWild l := by
  unfold Local.wildHere hasWild
  induction l.mods with
  | nil => rfl
  | cons m r ih =>
    cases hw : m.2.wildcard with
    | true => simp [List.filter, hw]
    | false => simpa [List.filter, hw] using ih

/-! ## sets -/

theorem foldl_addMissing_mem (names : List Str) : ∀ (acc : List Str) (x : Str),
    x ∈ names.foldl (fun acc x => if acc.contains x then acc else acc ++ [x]) acc ↔ x ∈ acc ∨ x ∈ names := by
  induction names with
  | nil => intro acc x; simp
  | cons a r ih =>
    intro acc x
    simp only [List.foldl_cons, ih]
    by_cases hc : acc.contains a = true
    · have : a ∈ acc := by simpa using hc
      simp only [hc, ↓reduceIte, List.mem_cons]
      grind
    · simp only [hc, Bool.false_eq_true, ↓reduceIte, List.mem_append, List.mem_singleton, List.mem_cons]
      grind

theorem mem_addMissing (syms names : List Str) (x : Str) :
    x ∈ addMissing syms names ↔ x ∈ syms ∨ x ∈ names := foldl_addMissing_mem names syms x

theorem mem_sOfList (a : List Str) (x : Str) : x ∈ sOfList a ↔ x ∈ a := by
  unfold sOfList
  simpa using foldl_addMissing_mem a [] x

theorem sOfList_eq_nil (a : List Str) : sOfList a = [] ↔ a = [] := by
  constructor
  · intro h
    cases a with
    | nil => rfl
    | cons x r =>
      have : x ∈ sOfList (x :: r) := (mem_sOfList _ _).2 (by simp)
      rw [h] at this; simp at this
  · intro h; subst h; rfl

theorem mem_storeSymbols : ∀ (es : List (Str × Option Str)) (syms : List Str) (l2m : List (Str × Str))
    (x : Str), x ∈ (storeSymbols syms l2m es).1 ↔ x ∈ syms ∨ x ∈ es.map (fun e => lower e.1) := by
  intro es
  induction es with
  | nil => intro syms l2m x; simp [storeSymbols]
  | cons e r ih =>
    intro syms l2m x
    obtain ⟨loc, orig⟩ := e
    simp only [storeSymbols, ih, List.map_cons, List.mem_cons]
    by_cases hc : syms.contains (lower loc) = true
    · have : lower loc ∈ syms := by simpa using hc
      simp only [hc, ↓reduceIte]
      grind
    · simp only [hc, Bool.false_eq_true, ↓reduceIte, List.mem_append, List.mem_singleton]
      grind

/-! ## ModuleUse -/

/-- the lower-cased local names handed to `add_use_symbols` -/
def useNames (only : Option (List (Str × Option Str))) (rename : Option (List (Str × Str))) : List Str :=
  (only.getD []).map (fun e => lower e.1) ++ (rename.getD []).map (fun e => lower e.1)

theorem new_wildcard (name : Str) (only : Option (List (Str × Option Str)))
    (rename : Option (List (Str × Str))) : (ModUse.new name only rename).wildcard = only.isNone := by
  unfold ModUse.new
  cases only with
  | none => cases rename with
    | none => rfl
    | some r => cases r <;> rfl
  | some ol => cases rename with
    | none => rfl
    | some r => cases r <;> rfl

theorem new_name (name : Str) (only : Option (List (Str × Option Str)))
    (rename : Option (List (Str × Str))) : (ModUse.new name only rename).name = lower name := by
  unfold ModUse.new
  cases only with
  | none => cases rename with
    | none => rfl
    | some r => cases r <;> rfl
  | some ol => cases rename with
    | none => rfl
    | some r => cases r <;> rfl

theorem mem_new_symbols (name : Str) (only : Option (List (Str × Option Str)))
    (rename : Option (List (Str × Str))) (x : Str) :
    x ∈ (ModUse.new name only rename).symbols ↔ x ∈ useNames only rename := by
  unfold ModUse.new useNames
  cases only with
  | none =>
    cases rename with
    | none => simp
    | some r =>
      cases r with
      | nil => simp
      | cons a as =>
        simp only [mem_storeSymbols, Option.getD_none, List.map_nil, List.nil_append, Option.getD_some,
          List.map_map]
        simp [Function.comp]
  | some ol =>
    cases rename with
    | none => simp [mem_storeSymbols]
    | some r =>
      cases r with
      | nil => simp [mem_storeSymbols]
      | cons a as =>
        simp only [mem_storeSymbols, Option.getD_some, List.map_map, List.mem_append]
        simp [Function.comp]

/-- every element of `only_list` / `rename_list` (the properties of the new `ModuleUse`) is one
    of its symbols -/
theorem new_sets_sub (name : Str) (only : Option (List (Str × Option Str)))
    (rename : Option (List (Str × Str))) (x : Str) :
    (x ∈ (ModUse.new name only rename).onlySet.getD [] ∨ x ∈ (ModUse.new name only rename).renameSet.getD [])
      ↔ x ∈ useNames only rename := by
  unfold ModUse.new useNames
  cases only with
  | none =>
    cases rename with
    | none => simp
    | some r =>
      cases r with
      | nil => simp
      | cons a as => simp [mem_sOfList]
  | some ol =>
    cases rename with
    | none => simp [mem_sOfList]
    | some r =>
      cases r with
      | nil => simp [mem_sOfList]
      | cons a as => simp [mem_sOfList]

theorem update_wildcard (a b : ModUse) : (a.update b).wildcard = (a.wildcard || b.wildcard) := by
  unfold ModUse.update
  cases b.onlySet with
  | none => cases b.renameSet with
    | none => rfl
    | some r => cases r <;> rfl
  | some o => cases o with
    | nil => cases b.renameSet with
      | none => rfl
      | some r => cases r <;> rfl
    | cons x xs => cases b.renameSet with
      | none => rfl
      | some r => cases r <;> rfl

theorem mem_update_symbols (a b : ModUse) (x : Str) :
    x ∈ (a.update b).symbols ↔ x ∈ a.symbols ∨ x ∈ b.onlySet.getD [] ∨ x ∈ b.renameSet.getD [] := by
  unfold ModUse.update
  cases ho : b.onlySet with
  | none => cases hr : b.renameSet with
    | none => simp
    | some r => cases r with
      | nil => simp
      | cons y ys => simp [mem_addMissing]
  | some o => cases o with
    | nil => cases hr : b.renameSet with
      | none => simp
      | some r => cases r with
        | nil => simp
        | cons y ys => simp [mem_addMissing]
    | cons z zs => cases hr : b.renameSet with
      | none => simp [mem_addMissing]
      | some r => cases r with
        | nil => simp [mem_addMissing]
        | cons y ys => simp [mem_addMissing, or_assoc]

/-! ## upsert into an ordered dict -/

theorem any_dSet_none {β} (Q : β → Bool) : ∀ (d : List (Str × β)) (k : Str) (v : β),
    dGet d k = none → (dSet d k v).any (fun e => Q e.2) = (d.any (fun e => Q e.2) || Q v) := by
  intro d
  induction d with
  | nil => intro k v _; simp [dSet]
  | cons e r ih =>
    intro k v h
    obtain ⟨k', v'⟩ := e
    by_cases hk : k' = k
    · simp [dGet, hk] at h
    · simp only [dGet, hk, ↓reduceIte] at h
      simp [dSet, hk, ih k v h, Bool.or_assoc]

theorem any_dSet_some {β} (Q : β → Bool) : ∀ (d : List (Str × β)) (k : Str) (old v : β),
    dGet d k = some old → (Q old = true → Q v = true) →
    (dSet d k v).any (fun e => Q e.2) = (d.any (fun e => Q e.2) || Q v) := by
  intro d
  induction d with
  | nil => intro k old v h; simp [dGet] at h
  | cons e r ih =>
    intro k old v h hq
    obtain ⟨k', v'⟩ := e
    by_cases hk : k' = k
    · simp only [dGet, hk, ↓reduceIte, Option.some.injEq] at h
      subst h
      simp only [dSet, hk, ↓reduceIte, List.any_cons]
      cases h1 : Q v' <;> cases h2 : Q v <;> simp_all
    · simp only [dGet, hk, ↓reduceIte] at h
      simp [dSet, hk, ih k old v h hq, Bool.or_assoc]

/-! ## `add_use_symbols` on one table -/

theorem addUse_syms (l : Local) (mod : Str) (only : Option (List (Str × Option Str)))
    (rename : Option (List (Str × Str))) : (l.addUseSymbols mod only rename).syms = l.syms := by
  simp only [Local.addUseSymbols]
  split <;> rfl

theorem addUse_flags (l : Local) (mod : Str) (only : Option (List (Str × Option Str)))
    (rename : Option (List (Str × Str))) :
    (l.addUseSymbols mod only rename).checking = l.checking
    ∧ (l.addUseSymbols mod only rename).submod = l.submod
    ∧ (l.addUseSymbols mod only rename).name = l.name := by
  simp only [Local.addUseSymbols]
  split <;> exact ⟨rfl, rfl, rfl⟩

theorem mem_of_dGet {β} : ∀ (d : List (Str × β)) (k : Str) (v : β), dGet d k = some v → ∃ k', (k', v) ∈ d := by
  intro d
  induction d with
  | nil => intro k v h; simp [dGet] at h
  | cons e r ih =>
    intro k v h
    obtain ⟨k', v'⟩ := e
    by_cases hk : k' = k
    · simp only [dGet, hk, ↓reduceIte, Option.some.injEq] at h
      exact ⟨k', by simp [h]⟩
    · simp only [dGet, hk, ↓reduceIte] at h
      obtain ⟨k2, hk2⟩ := ih k v h
      exact ⟨k2, by simp [hk2]⟩

theorem addUse_mods_none (l : Local) (mod : Str) (only : Option (List (Str × Option Str)))
    (rename : Option (List (Str × Str)))
    (h : dGet l.mods (ModUse.new mod only rename).name = none) :
    (l.addUseSymbols mod only rename).mods
      = dSet l.mods (ModUse.new mod only rename).name (ModUse.new mod only rename) := by
  simp only [Local.addUseSymbols, h]

theorem addUse_mods_some (l : Local) (mod : Str) (only : Option (List (Str × Option Str)))
    (rename : Option (List (Str × Str))) (old : ModUse)
    (h : dGet l.mods (ModUse.new mod only rename).name = some old) :
    (l.addUseSymbols mod only rename).mods
      = dSet l.mods (ModUse.new mod only rename).name (old.update (ModUse.new mod only rename)) := by
  simp only [Local.addUseSymbols, h]

theorem contains_iff_mem (a : List Str) (x : Str) : a.contains x = true ↔ x ∈ a := by simp

theorem bool_eq_of_iff {a b : Bool} (h : a = true ↔ b = true) : a = b := by
  cases a <;> cases b <;> simp_all

/-- **what a USE statement records**: afterwards exactly the names recorded before plus the
    lower-cased local names of the statement are found in this table -/
theorem addUse_hasName (l : Local) (mod : Str) (only : Option (List (Str × Option Str)))
    (rename : Option (List (Str × Str))) (n : Str) :
    hasName (l.addUseSymbols mod only rename) n = (hasName l n || (useNames only rename).contains n) := by
  unfold hasName
  rw [addUse_syms]
  have key : (l.addUseSymbols mod only rename).mods.any (fun m => m.2.symbols.contains n)
      = (l.mods.any (fun m => m.2.symbols.contains n) || (useNames only rename).contains n) := by
    cases hg : dGet l.mods (ModUse.new mod only rename).name with
    | none =>
      rw [addUse_mods_none l mod only rename hg]
      rw [any_dSet_none (fun m : ModUse => m.symbols.contains n) _ _ _ hg]
      congr 1
      exact bool_eq_of_iff (by rw [contains_iff_mem, contains_iff_mem, mem_new_symbols])
    | some old =>
      rw [addUse_mods_some l mod only rename old hg]
      rw [any_dSet_some (fun m : ModUse => m.symbols.contains n) _ _ old _ hg]
      · -- `old.update use` holds the old symbols and the new ones
        have hiff : (old.update (ModUse.new mod only rename)).symbols.contains n = true ↔
            (old.symbols.contains n = true ∨ (useNames only rename).contains n = true) := by
          simp only [contains_iff_mem, mem_update_symbols, new_sets_sub]
        -- the old entry is one of `l.mods`
        have hold : old.symbols.contains n = true → l.mods.any (fun m => m.2.symbols.contains n) = true := by
          intro h
          rw [List.any_eq_true]
          obtain ⟨k, hk⟩ := mem_of_dGet _ _ _ hg
          exact ⟨(k, old), hk, h⟩
        apply bool_eq_of_iff
        simp only [Bool.or_eq_true]
        constructor
        · rintro (h | h)
          · exact Or.inl h
          · rcases hiff.1 h with h' | h'
            · exact Or.inl (hold h')
            · exact Or.inr h'
        · rintro (h | h)
          · exact Or.inl h
          · exact Or.inr (hiff.2 (Or.inr h))
      · intro h
        simp only [contains_iff_mem, mem_update_symbols] at h ⊢
        exact Or.inl h
  rw [key, Bool.or_assoc]

theorem addUse_hasWild (l : Local) (mod : Str) (only : Option (List (Str × Option Str)))
    (rename : Option (List (Str × Str))) :
    hasWild (l.addUseSymbols mod only rename) = (hasWild l || only.isNone) := by
  unfold hasWild
  cases hg : dGet l.mods (ModUse.new mod only rename).name with
  | none =>
    rw [addUse_mods_none l mod only rename hg]
    rw [any_dSet_none (fun m : ModUse => m.wildcard) _ _ _ hg, new_wildcard]
  | some old =>
    rw [addUse_mods_some l mod only rename old hg]
    rw [any_dSet_some (fun m : ModUse => m.wildcard) _ _ old _ hg]
    · rw [update_wildcard, new_wildcard]
      have hold : old.wildcard = true → l.mods.any (fun m => m.2.wildcard) = true := by
        intro h
        rw [List.any_eq_true]
        obtain ⟨k, hk⟩ := mem_of_dGet _ _ _ hg
        exact ⟨(k, old), hk, h⟩
      apply bool_eq_of_iff
      simp only [Bool.or_eq_true]
      constructor
      · rintro (h | h | h)
        · exact Or.inl h
        · exact Or.inl (hold h)
        · exact Or.inr h
      · rintro (h | h)
        · exact Or.inl h
        · exact Or.inr (Or.inr h)
    · intro h; rw [update_wildcard, h]; rfl

/-! ## `add_data_symbol` on one table -/

theorem dHas_dSet {β} (d : List (Str × β)) (k n : Str) (v : β) :
    dHas (dSet d k v) n = (decide (k = n) || dHas d n) := by
  unfold dHas
  by_cases h : k = n
  · subst h; simp [dGet_dSet_same]
  · simp [dGet_dSet_ne _ _ _ _ h, h]

/-- the table after `add_data_symbol(name, ptype)` when checks are off -/
def recordSym (l : Local) (name ptype : Str) : Local :=
  { l with syms := dSet l.syms (lower name) ⟨lower name, lower ptype⟩ }

theorem addDataSymbol_unchecked (l : Local) (name ptype : Str) (h : l.checking = false) :
    l.addDataSymbol name ptype = .ok (recordSym l name ptype) := by
  unfold Local.addDataSymbol recordSym
  simp [h]

theorem recordSym_hasName (l : Local) (name ptype n : Str) :
    hasName (recordSym l name ptype) n = (decide (lower name = n) || hasName l n) := by
  unfold hasName recordSym
  simp only [dHas_dSet, Bool.or_assoc]

theorem recordSym_hasWild (l : Local) (name ptype : Str) :
    hasWild (recordSym l name ptype) = hasWild l := rfl

/-! ## the statement level -/

/-- the local name an entry of an only-list brings into scope -/
def OEntry.localName : OEntry → Option Str
  | .name n => some n
  | .ren (.sym l _) => some l
  | _ => none

def REntry.localName : REntry → Option Str
  | .sym l _ => some l
  | .op _ _ => none

theorem onlyLoop_names (es : List OEntry) :
    (onlyLoop es).map (fun e => e.1) = es.filterMap OEntry.localName := by
  induction es with
  | nil => rfl
  | cons e r ih =>
    cases e with
    | name n => simp [onlyLoop, List.filterMap_cons, OEntry.localName, ih]
    | generic g => simp [onlyLoop, List.filterMap_cons, OEntry.localName, ih]
    | dtio g => simp [onlyLoop, List.filterMap_cons, OEntry.localName, ih]
    | ren re =>
      cases re with
      | sym lo u => simp [onlyLoop, List.filterMap_cons, OEntry.localName, ih]
      | op lo u => simp [onlyLoop, List.filterMap_cons, OEntry.localName, ih]

theorem renameLoop_names (es : List REntry) :
    (renameLoop es).map (fun e => e.1) = es.filterMap REntry.localName := by
  induction es with
  | nil => rfl
  | cons e r ih =>
    cases e with
    | sym l u => simp [renameLoop, REntry.localName, ih]
    | op l u => simp [renameLoop, List.filterMap_cons, REntry.localName, ih]

end Fp.SymGlue
