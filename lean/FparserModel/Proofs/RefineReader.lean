import FparserModel.Refine
import FparserModel.Proofs.ReaderCount

/-!
# RefineReader — reader-side lemmas for the refinement (inversion of `Drains`, `getN`, `putMany`)
-/
namespace Fp.Reader
open Fp

/-- inversion: the head of a drain is what `get_item` returns -/
theorem Drains_inv_cons {d : Nat} {fs : Fs} {st : List Rd} {x : Item} {evs : List Ev} {fin : List Rd}
    (h : Drains d fs st (.item x :: evs) fin) :
    ∃ st', getItem d fs st = (.ok x, st') ∧ Drains d fs st' evs fin := by
  obtain ⟨n, h⟩ := h
  cases n with
  | zero => simp [drainEv] at h
  | succ n =>
    unfold drainEv at h
    simp only [] at h
    cases hp : (getItem d fs st).1 with
    | ok y =>
      rw [hp] at h; simp only [] at h
      cases hq : drainEv d fs n (getItem d fs st).2 with
      | none => rw [hq] at h; simp at h
      | some q =>
        rw [hq] at h
        simp only [Option.map_some, Option.some.injEq, Prod.mk.injEq, List.cons.injEq,
          Ev.item.injEq] at h
        obtain ⟨⟨rfl, h1⟩, h2⟩ := h
        refine ⟨(getItem d fs st).2, Prod.ext hp rfl, n, ?_⟩
        rw [hq, ← h1, ← h2]
    | stop =>
      rw [hp] at h; simp only [] at h
      split at h
      · simp at h
      · cases hq : drainEv d fs n (getItem d fs st).2 with
        | none => rw [hq] at h; simp at h
        | some q => rw [hq] at h; simp at h
    | err =>
      rw [hp] at h; simp only [] at h
      split at h
      · simp at h
      · cases hq : drainEv d fs n (getItem d fs st).2 with
        | none => rw [hq] at h; simp at h
        | some q => rw [hq] at h; simp at h
    | exit => rw [hp] at h; simp at h
    | unsup => rw [hp] at h; simp at h

/-- inversion: an empty drain means `get_item` returns `None` and the chain is exhausted -/
theorem Drains_inv_nil {d : Nat} {fs : Fs} {st : List Rd} {fin : List Rd}
    (h : Drains d fs st [] fin) :
    (getItem d fs st).2 = fin ∧ exhausted fin = true ∧ ∀ x, (getItem d fs st).1 ≠ .ok x := by
  obtain ⟨n, h⟩ := h
  cases n with
  | zero => simp [drainEv] at h
  | succ n =>
    unfold drainEv at h
    simp only [] at h
    cases hp : (getItem d fs st).1 with
    | ok y =>
      rw [hp] at h; simp only [] at h
      cases hq : drainEv d fs n (getItem d fs st).2 with
      | none => rw [hq] at h; simp at h
      | some q => rw [hq] at h; simp at h
    | stop =>
      rw [hp] at h; simp only [] at h
      split at h
      · rename_i he
        simp only [Option.some.injEq, Prod.mk.injEq, true_and] at h
        exact ⟨h, h ▸ he, fun x hx => by cases hx⟩
      · cases hq : drainEv d fs n (getItem d fs st).2 with
        | none => rw [hq] at h; simp at h
        | some q => rw [hq] at h; simp at h
    | err =>
      rw [hp] at h; simp only [] at h
      split at h
      · rename_i he
        simp only [Option.some.injEq, Prod.mk.injEq, true_and] at h
        exact ⟨h, h ▸ he, fun x hx => by cases hx⟩
      · cases hq : drainEv d fs n (getItem d fs st).2 with
        | none => rw [hq] at h; simp at h
        | some q => rw [hq] at h; simp at h
    | exit => rw [hp] at h; simp at h
    | unsup => rw [hp] at h; simp at h

/-! ### a chain of readers never becomes empty -/

theorem nextMain_ne_nil (newNext : List Rd → Res Item × List Rd) (fs : Fs) (r : Rd) :
    (nextMain newNext fs r).2 ≠ [] := by
  unfold nextMain
  simp only []
  split
  · split
    · split
      · split <;> simp
      · simp
    · simp
  · simp

theorem nextChain_ne_nil (newNext : List Rd → Res Item × List Rd) (fs : Fs) :
    ∀ st : List Rd, st ≠ [] → (nextChain newNext fs st).2 ≠ []
  | [], h => absurd rfl h
  | [r], _ => by simp only [nextChain]; exact nextMain_ne_nil newNext fs r
  | r :: r2 :: rest, _ => by
    simp only [nextChain]
    split
    · exact nextMain_ne_nil newNext fs r
    · exact nextMain_ne_nil newNext fs r
    · simp

theorem getItem_ne_nil (d : Nat) (fs : Fs) (st : List Rd) (h : st ≠ []) :
    (getItem d fs st).2 ≠ [] := by
  unfold getItem
  cases d with
  | zero => simpa [next] using h
  | succ d => simp only [next]; exact nextChain_ne_nil _ fs st h

theorem innermost_isSome : ∀ st : List Rd, st ≠ [] → ∃ r, innermost st = some r
  | [], h => absurd rfl h
  | [r], _ => ⟨r, rfl⟩
  | _ :: r2 :: rest, _ => by
    simp only [innermost]; exact innermost_isSome (r2 :: rest) (by simp)

theorem innermost_ne_nil {st : List Rd} {r : Rd} (h : innermost st = some r) : st ≠ [] := by
  intro e; subst e; cases h

/-! ### the exhausted chain -/

theorem next1_exhausted_rf (r : Rd) (h1 : r.closed = true) (h2 : r.filo = []) (h3 : r.fifo = []) :
    next1 r = (.stop, r) := by
  obtain ⟨n, hn⟩ := nextRawFuel_pos r
  have hraw : nextRaw (nextRawFuel r) r = (.stop, r) := by
    rw [hn]
    unfold nextRaw popOrRead getSourceItem getSingleLine
    simp [h1, h2, h3]
  rw [next1_of_nextRaw_other r (fun it => by rw [hraw]; simp)]
  exact hraw

theorem getItem_exhausted (d : Nat) (fs : Fs) (st : List Rd) (h : exhausted st = true) :
    getItem (d + 1) fs st = (.stop, st) := by
  unfold getItem next
  match st, h with
  | [], _ => rfl
  | [r], h =>
    simp only [exhausted, Bool.and_eq_true, List.isEmpty_iff] at h
    simp only [nextChain, nextMain, next1_exhausted_rf r h.1.1 h.1.2 h.2, errToStop]
  | _ :: _ :: _, h => simp [exhausted] at h

theorem Drains_exhausted (d : Nat) (fs : Fs) (st : List Rd) (h : exhausted st = true) :
    Drains (d + 1) fs st [] st := by
  refine ⟨1, ?_⟩
  unfold drainEv
  simp only [getItem_exhausted d fs st h, h, if_true]

/-! ### `getN`, `putMany` -/

theorem getN_snoc (d : Nat) (fs : Fs) : ∀ (k : Nat) (st st1 st2 : List Rd) (xs : List Item) (y : Item),
    getN d fs k st = some (xs, st1) → getItem d fs st1 = (.ok y, st2) →
    getN d fs (k + 1) st = some (xs ++ [y], st2)
  | 0, st, st1, st2, xs, y, h, hg => by
    simp only [getN, Option.some.injEq, Prod.mk.injEq] at h
    obtain ⟨rfl, rfl⟩ := h
    simp [getN, hg]
  | k + 1, st, st1, st2, xs, y, h, hg => by
    unfold getN at h ⊢
    cases hp : getItem d fs st with
    | mk res sta =>
      rw [hp] at h
      cases res with
      | ok x =>
        simp only [] at h ⊢
        cases hq : getN d fs k sta with
        | none => rw [hq] at h; simp at h
        | some q =>
          rw [hq] at h
          simp only [Option.map_some, Option.some.injEq, Prod.mk.injEq] at h
          obtain ⟨rfl, rfl⟩ := h
          rw [getN_snoc d fs k sta q.2 st2 q.1 y (by rw [hq]) hg]
          simp
      | stop => simp at h
      | err => simp at h
      | exit => simp at h
      | unsup => simp at h

theorem getN_length (d : Nat) (fs : Fs) : ∀ (k : Nat) (st st1 : List Rd) (xs : List Item),
    getN d fs k st = some (xs, st1) → xs.length = k
  | 0, st, st1, xs, h => by
    simp only [getN, Option.some.injEq, Prod.mk.injEq] at h
    rw [← h.1]; rfl
  | k + 1, st, st1, xs, h => by
    unfold getN at h
    cases hp : getItem d fs st with
    | mk res sta =>
      rw [hp] at h
      cases res with
      | ok x =>
        simp only [] at h
        cases hq : getN d fs k sta with
        | none => rw [hq] at h; simp at h
        | some q =>
          rw [hq] at h
          simp only [Option.map_some, Option.some.injEq, Prod.mk.injEq] at h
          rw [← h.1, List.length_cons, getN_length d fs k sta q.2 q.1 (by rw [hq])]
      | stop => simp at h
      | err => simp at h
      | exit => simp at h
      | unsup => simp at h

/-- the last of `k + 1` reads -/
theorem getN_unsnoc (d : Nat) (fs : Fs) : ∀ (k : Nat) (st hw : List Rd) (zs : List Item),
    getN d fs (k + 1) st = some (zs, hw) →
    ∃ zs' stk x, getN d fs k st = some (zs', stk) ∧ getItem d fs stk = (.ok x, hw) ∧ zs = zs' ++ [x]
  | 0, st, hw, zs, h => by
    unfold getN at h
    cases hp : getItem d fs st with
    | mk res sta =>
      rw [hp] at h
      cases res with
      | ok x =>
        simp only [getN, Option.map_some, Option.some.injEq, Prod.mk.injEq] at h
        obtain ⟨rfl, rfl⟩ := h
        exact ⟨[], st, x, rfl, hp, rfl⟩
      | stop => simp at h
      | err => simp at h
      | exit => simp at h
      | unsup => simp at h
  | k + 1, st, hw, zs, h => by
    unfold getN at h
    cases hp : getItem d fs st with
    | mk res sta =>
      rw [hp] at h
      cases res with
      | ok y =>
        simp only [] at h
        cases hq : getN d fs (k + 1) sta with
        | none => rw [hq] at h; simp at h
        | some q =>
          rw [hq] at h
          simp only [Option.map_some, Option.some.injEq, Prod.mk.injEq] at h
          obtain ⟨rfl, rfl⟩ := h
          obtain ⟨zs', stk, x, h1, h2, h3⟩ := getN_unsnoc d fs k sta q.2 q.1 (by rw [hq])
          refine ⟨y :: zs', stk, x, ?_, h2, by rw [h3]; rfl⟩
          conv => lhs; unfold getN
          simp only [hp, h1, Option.map_some]
      | stop => simp at h
      | err => simp at h
      | exit => simp at h
      | unsup => simp at h

/-- the chain invariants (`linecount` accounting, spans of buffered items) survive `k` reads -/
theorem getN_allOK (d : Nat) (fs : Fs) : ∀ (k : Nat) (st st' : List Rd) (xs : List Item),
    AllOK st → getN d fs k st = some (xs, st') → AllOK st'
  | 0, st, st', xs, hok, h => by
    simp only [getN, Option.some.injEq, Prod.mk.injEq] at h
    rw [← h.2]; exact hok
  | k + 1, st, st', xs, hok, h => by
    unfold getN at h
    cases hp : getItem d fs st with
    | mk res sta =>
      rw [hp] at h
      cases res with
      | ok y =>
        simp only [] at h
        cases hq : getN d fs k sta with
        | none => rw [hq] at h; simp at h
        | some q =>
          rw [hq] at h
          simp only [Option.map_some, Option.some.injEq, Prod.mk.injEq] at h
          have hp' := next_post fs d st
          unfold getItem at hp
          rw [hp] at hp'
          rw [← h.2]
          exact getN_allOK d fs k sta q.2 q.1 (hp'.ok hok) (by rw [hq])
      | stop => simp at h
      | err => simp at h
      | exit => simp at h
      | unsup => simp at h

theorem putMany_linecount : ∀ (xs : List Item) (st : List Rd), linecount (putMany xs st) = linecount st
  | [], _ => rfl
  | x :: xs, st => by simp only [putMany]; rw [putItem_linecount, putMany_linecount xs st]

theorem putItem_sourceLines (x : Item) : ∀ st : List Rd, sourceLines (putItem x st) = sourceLines st
  | [] => rfl
  | [_] => rfl
  | _ :: _ :: _ => rfl

theorem putMany_sourceLines : ∀ (xs : List Item) (st : List Rd),
    sourceLines (putMany xs st) = sourceLines st
  | [], _ => rfl
  | x :: xs, st => by simp only [putMany]; rw [putItem_sourceLines, putMany_sourceLines xs st]

end Fp.Reader
