import FparserModel.Proofs.IoStmtLayoutIo
import FparserModel.Proofs.IoStmtLayoutCtl
import FparserModel.Proofs.IoStmtLayoutMisc
import FparserModel.Proofs.IoStmtLayoutFmt
import FparserModel.Proofs.IoStmtLayoutCombi
import FparserModel.Proofs.IoStmtTotal
import FparserModel.Proofs.IoStmtFixpoint

/-!
# IoStmt — the hand-written leaf classes of the execution part: C01, C02, C06, C08 at the class level

The model (`FparserModel/IoStmt.lean`) mirrors `match` and the separately written `tostr` of Write_Stmt, Read_Stmt,
Print_Stmt, Io_Control_Spec(_List), Open/Close/Inquire_Stmt, Connect/Close/Inquire_Spec, Format_Stmt, Format_Specification,
Format_Item (2003/2008), Format_Item_List, Control_Edit_Desc, Loop_Control (2003/2008), Label/Nonlabel_Do_Stmt, If_Stmt,
If_Then_Stmt, Else_If_Stmt, Select_Case_Stmt, Case_Stmt, Case_Selector, Case_Value_Range, Where_Stmt, Forall_Header,
Forall_Triplet_Spec, Forall_Stmt, Allocate_Stmt, Alloc_Opt, Allocation, Deallocate_Stmt, Dealloc_Opt, Nullify_Stmt, Stop_Stmt,
Error_Stop_Stmt, Goto_Stmt, Computed_Goto_Stmt, Arithmetic_If_Stmt, Call_Stmt, Actual_Arg_Spec(_List) and the generated lists.
Expressions, names, designators are OPAQUE: an `Oracle` answers `cls(text)` and prints nodes.  All theorems are for EVERY
string, every oracle, both standards where the class differs.

* `X_tostr_match_tokens` (C02, C08): `match` accepted ⟹ `tostr` does not raise and `toks (printed) = toks (input)` where
  `toks` deletes white space and folds case — nothing dropped, nothing invented, order kept (e.g. the output list of WRITE even
  when its last item ends in `)`, everything after the `)` of `DO WHILE (c)`, the format items).  The children are assumed to
  keep tokens themselves (`OracleTok`: that is this very theorem one level down).  Where the real code changes the token text
  the EXACT relation is stated (`UNIT=` invented by Connect_Spec, the optional comma of the computed GO TO, `CALL s()` printed
  as `CALL s`, commas between format items).  Classes that go through `string_replace_map` carry the decidable hypothesis
  `SrmOK` (the hypotheses of `srm_roundtrip_partial`); CALLBase/CallBase additionally `CallEndOK` — there the full statement is
  FALSE, with kernel-checked witnesses (`CALLBase_drops_text`).
* `X_rejects_unbalanced` (C08): accepted and the children print balanced texts ⟹ the statement is balanced.
* `match_total` (C06): no exception escapes from a modelled `match` except through a child or the tokeniser's `KeyError`;
  `Format_Item_List` included since /repo fa6d1cf (`Format_Item_List_hollerith_count_int`; regression witness
  `Format_Item_List_blank_count_regression` for the former `ValueError` of `int("1 2")`).
* `X_match_tostr_fixpoint` (C01): the printed text is matched again with the same items, under explicit conditions on the
  children's texts (each shown necessary in `Proofs/IoStmtFixpoint.lean`).

The theorems are proved in `Proofs/IoStmt*.lean`; this file states them (same statements) and gives the non-vacuity examples.
-/
namespace Fp.IoStmt.Props
open Fp Fp.Splitline Fp.IoStmt
open Fp.Combi (noBlank)

variable {Node : Type}



theorem Write_Stmt_tostr_match_tokens (o : Oracle Node) (ho : OracleTok o) (s : Str)
    (items : List (Item Node)) (hm : (planWrite s).bind (runSlots o) = .ok items)
    (hs : SrmOK (lstrip (s.drop 5))) :
    ∃ t, tostrWrite o items = .ok t ∧ toks t = toks s :=
  _root_.Fp.IoStmt.write_tostr_match_tokens o ho s items hm hs

theorem Write_Stmt_print_balanced (o : Oracle Node) (items : List (Item Node)) (t : Str)
    (ht : tostrWrite o items = .ok t) (hb : ∀ i ∈ items, net (i.text o) = 0) :
    net t = 0 :=
  _root_.Fp.IoStmt.write_print_balanced o items t ht hb

theorem Read_Stmt_tostr_match_tokens (o : Oracle Node) (ho : OracleTok o) (s : Str)
    (items : List (Item Node)) (hm : (planRead s).bind (runSlots o) = .ok items)
    (hs : SrmOK (lstrip (s.drop 4))) :
    ∃ t, tostrRead o items = .ok t ∧ toks t = toks s ∧
      ((∀ i ∈ items, net (i.text o) = 0) → net t = 0) :=
  _root_.Fp.IoStmt.read_tostr_match_tokens o ho s items hm hs

theorem Print_Stmt_tostr_match_tokens (o : Oracle Node) (ho : OracleTok o) (s : Str)
    (items : List (Item Node)) (hm : (planPrint s).bind (runSlots o) = .ok items)
    (hs : SrmOK (lstrip (s.drop 5))) :
    ∃ t, tostrPrint o items = .ok t ∧ toks t = toks s ∧
      ((∀ i ∈ items, net (i.text o) = 0) → net t = 0) :=
  _root_.Fp.IoStmt.print_tostr_match_tokens o ho s items hm hs

theorem Inquire_Stmt_tostr_match_tokens (o : Oracle Node) (ho : OracleTok o) (s : Str)
    (items : List (Item Node)) (hm : (planInquire s).bind (runSlots o) = .ok items)
    (hs : endsC ')' (lstrip (s.drop 7)) = false → SrmOK (lstrip (s.drop 7))) :
    ∃ t, tostrInquire o items = .ok t ∧ toks t = toks s ∧
      ((∀ i ∈ items, net (i.text o) = 0) → net t = 0) :=
  _root_.Fp.IoStmt.inquire_tostr_match_tokens o ho s items hm hs

theorem Io_Control_Spec_tostr_match_tokens (o : Oracle Node) (ho : OracleTok o) (s : Str)
    (items : List (Item Node)) (hm : matchIoControlSpec o s = .ok items) :
    ∃ t, kvStr o items = .ok t ∧ toks t = toks s ∧
      ((∀ i ∈ items, net (i.text o) = 0) → net t = 0) :=
  _root_.Fp.IoStmt.ioControlSpec_tostr_match_tokens o ho s items hm

theorem Connect_Spec_tostr_match_tokens (std : Std) (o : Oracle Node) (ho : OracleTok o) (s : Str)
    (items : List (Item Node)) (hm : matchConnectSpec std o s = .ok items) :
    ∃ t, kvStr o items = .ok t ∧
      ('=' ∈ s → toks t = toks s) ∧ ('=' ∉ s → toks t = toks "UNIT=".toList ++ toks s) ∧
      ((∀ i ∈ items, net (i.text o) = 0) → net t = 0) :=
  _root_.Fp.IoStmt.connectSpec_tostr_match_tokens std o ho s items hm

theorem Connect_Spec_invents_unit  :
    matchConnectSpec .f2003 echoOracle "10".toList = .ok [.str "UNIT".toList, .node "10".toList] ∧
    kvStr echoOracle [.str "UNIT".toList, .node "10".toList] = .ok "UNIT = 10".toList ∧
    toks "UNIT = 10".toList ≠ toks "10".toList :=
  _root_.Fp.IoStmt.connectSpec_invents_unit 

theorem Inquire_Spec_tostr_match_tokens (o : Oracle Node) (ho : OracleTok o) (s : Str)
    (items : List (Item Node)) (hm : matchInquireSpec o s = .ok items) :
    ∃ t, kvStr o items = .ok t ∧
      ('=' ∈ s → toks t = toks s) ∧ ('=' ∉ s → toks t = toks "UNIT=".toList ++ toks s) ∧
      ((∀ i ∈ items, net (i.text o) = 0) → net t = 0) :=
  _root_.Fp.IoStmt.inquireSpec_tostr_match_tokens o ho s items hm

theorem Close_Spec_tostr_match_tokens (o : Oracle Node) (ho : OracleTok o) (s : Str)
    (items : List (Item Node)) (hm : matchCloseSpec o s = .ok items) :
    ∃ t, kvStr o items = .ok t ∧
      ((kvTable o true closeTable s = some (.ok items) ∧ toks t = toks s) ∨
       (kvTable o true closeTable s = none ∧ toks t = toks "UNIT=".toList ++ toks s)) ∧
      ((∀ i ∈ items, net (i.text o) = 0) → net t = 0) :=
  _root_.Fp.IoStmt.closeSpec_tostr_match_tokens o ho s items hm

theorem Alloc_Opt_tostr_match_tokens (std : Std) (o : Oracle Node) (ho : OracleTok o) (s : Str)
    (items : List (Item Node)) (hm : matchAllocOpt std o s = .ok items) :
    ∃ t, kvStr o items = .ok t ∧ toks t = toks s ∧
      ((∀ i ∈ items, net (i.text o) = 0) → net t = 0) :=
  _root_.Fp.IoStmt.allocOpt_tostr_match_tokens std o ho s items hm

theorem Dealloc_Opt_tostr_match_tokens (o : Oracle Node) (ho : OracleTok o) (s : Str)
    (items : List (Item Node)) (hm : matchDeallocOpt o s = .ok items) :
    ∃ t, kvStr o items = .ok t ∧ toks t = toks s ∧
      ((∀ i ∈ items, net (i.text o) = 0) → net t = 0) :=
  _root_.Fp.IoStmt.deallocOpt_tostr_match_tokens o ho s items hm

theorem Io_Control_Spec_List_tostr_match_tokens (o : Oracle Node) (ho : OracleTok o)
    (hb : ∀ name spec n, o.call C.Io_Control_Spec (name ++ '=' :: spec) = .ok n →
      toks (o.rhsStr n) = toks spec)
    (s : Str) (items : List (Item Node)) (hm : matchIoControlSpecList o s = .ok items)
    (hs : SrmOK s) :
    ∃ t, tostrList o items = .ok t ∧ toks t = toks s ∧
      ((∀ i ∈ items, net (i.text o) = 0) → net t = 0) :=
  _root_.Fp.IoStmt.ioControlSpecList_tostr_match_tokens o ho hb s items hm hs

theorem If_Then_Stmt_tostr_match_tokens (o : Oracle Node) (ho : OracleTok o) (s : Str)
    (items : List (Item Node)) (hm : (planIfThen s).bind (runSlots o) = .ok items) :
    ∃ t, tostrIfThen o items = .ok t ∧ toks t = toks s ∧
      ((∀ i ∈ items, net (i.text o) = 0) → net t = 0) :=
  _root_.Fp.IoStmt.ifThen_tostr_match_tokens o ho s items hm

theorem Else_If_Stmt_tostr_match_tokens (o : Oracle Node) (ho : OracleTok o) (s : Str)
    (items : List (Item Node)) (hm : (planElseIf s).bind (runSlots o) = .ok items) :
    ∃ t, tostrElseIf o items = .ok t ∧ toks t = toks s ∧
      ((∀ i ∈ items, net (i.text o) = 0) → net t = 0) :=
  _root_.Fp.IoStmt.elseIf_tostr_match_tokens o ho s items hm

theorem Select_Case_Stmt_tostr_match_tokens (o : Oracle Node) (ho : OracleTok o) (s : Str)
    (items : List (Item Node)) (hm : (planSelectCase s).bind (runSlots o) = .ok items) :
    ∃ t, tostrSelectCase o items = .ok t ∧ toks t = toks s ∧
      ((∀ i ∈ items, net (i.text o) = 0) → net t = 0) :=
  _root_.Fp.IoStmt.selectCase_tostr_match_tokens o ho s items hm

theorem Case_Selector_tostr_match_tokens (o : Oracle Node) (ho : OracleTok o) (s : Str)
    (items : List (Item Node)) (hm : (planCaseSelector s).bind (runSlots o) = .ok items) :
    ∃ t, tostrCaseSelector o items = .ok t ∧ toks t = toks s ∧
      ((∀ i ∈ items, net (i.text o) = 0) → net t = 0) :=
  _root_.Fp.IoStmt.caseSelector_tostr_match_tokens o ho s items hm

theorem Label_Do_Stmt_tostr_match_tokens (o : Oracle Node) (ho : OracleTok o) (s : Str)
    (items : List (Item Node)) (hm : (planLabelDo s).bind (runSlots o) = .ok items) :
    ∃ t, tostrLabelDo o items = .ok t ∧ toks t = toks s ∧
      ((∀ i ∈ items, net (i.text o) = 0) → net t = 0) :=
  _root_.Fp.IoStmt.labelDo_tostr_match_tokens o ho s items hm

theorem Loop_Control_tostr_match_tokens (std : Std) (o : Oracle Node) (ho : OracleTok o) (s : Str)
    (items : List (Item Node))
    (hm : ((planLoopControl std s).bind (runSlots o)).map (groupLoop (loopTail std)) = .ok items)
    (hs : SrmOK (let line0 := lrstrip s; if startsC ',' line0 then lstrip (line0.drop 1) else line0)) :
    ∃ t, tostrLoopControl std o items = .ok t ∧ toks t = toks s ∧
      ((∀ i ∈ items, net (i.text o) = 0) → net t = 0) :=
  _root_.Fp.IoStmt.loopControl_tostr_match_tokens std o ho s items hm hs

theorem If_Stmt_tostr_match_tokens (std : Std) (o : Oracle Node) (ho : OracleTok o) (s : Str)
    (items : List (Item Node)) (hm : (planIf std s).bind (runSlots o) = .ok items)
    (hs : SrmOK s) :
    ∃ t, tostrIf o items = .ok t ∧ toks t = toks s ∧
      ((∀ i ∈ items, net (i.text o) = 0) → net t = 0) :=
  _root_.Fp.IoStmt.if_tostr_match_tokens std o ho s items hm hs

theorem Case_Stmt_tostr_match_tokens (o : Oracle Node) (ho : OracleTok o) (s : Str)
    (items : List (Item Node)) (hm : ((planCase s).bind (runSlots o)).map swap2 = .ok items)
    (hs : SrmOK (lstrip (s.drop 4))) :
    ∃ t, tostrCase o items = .ok t ∧ toks t = toks s ∧
      ((∀ i ∈ items, net (i.text o) = 0) → net t = 0) :=
  _root_.Fp.IoStmt.case_tostr_match_tokens o ho s items hm hs

theorem Where_Stmt_tostr_match_tokens (o : Oracle Node) (ho : OracleTok o) (s : Str)
    (items : List (Item Node)) (hm : (planWhere s).bind (runSlots o) = .ok items)
    (hs : SrmOK (lstrip (s.drop 5))) :
    ∃ t, tostrWhere o items = .ok t ∧ toks t = toks s ∧
      ((∀ i ∈ items, net (i.text o) = 0) → net t = 0) :=
  _root_.Fp.IoStmt.where_tostr_match_tokens o ho s items hm hs

theorem Forall_Stmt_tostr_match_tokens (o : Oracle Node) (ho : OracleTok o) (s : Str)
    (items : List (Item Node)) (hm : (planForall s).bind (runSlots o) = .ok items)
    (hs : SrmOK (lstrip ((strip s).drop 6))) :
    ∃ t, tostrForall o items = .ok t ∧ toks t = toks s ∧
      ((∀ i ∈ items, net (i.text o) = 0) → net t = 0) :=
  _root_.Fp.IoStmt.forall_tostr_match_tokens o ho s items hm hs

theorem Goto_Stmt_tostr_match_tokens (o : Oracle Node) (ho : OracleTok o) (s : Str)
    (items : List (Item Node)) (hm : (planGoto s).bind (runSlots o) = .ok items) :
    ∃ t, tostrGoto o items = .ok t ∧ toks t = toks s ∧
      ((∀ i ∈ items, net (i.text o) = 0) → net t = 0) :=
  _root_.Fp.IoStmt.goto_tostr_match_tokens o ho s items hm

theorem Call_Stmt_tostr_match_tokens (o : Oracle Node) (ho : OracleTok o) (s : Str)
    (items : List (Item Node)) (hm : (planCall s).bind (runSlots o) = .ok items)
    (hs : SrmOK (lstrip (s.drop 4))) :
    ∃ t, tostrCall o items = .ok t ∧
      (toks t = toks s ∨ toks s = toks t ++ toks "()".toList) ∧
      ((∀ i ∈ items, net (i.text o) = 0) → net t = 0) :=
  _root_.Fp.IoStmt.call_tostr_match_tokens o ho s items hm hs

theorem Computed_Goto_Stmt_tostr_match_tokens (o : Oracle Node) (ho : OracleTok o) (s : Str)
    (items : List (Item Node)) (hm : (planComputedGoto s).bind (runSlots o) = .ok items) :
    ∃ t, tostrComputedGoto o items = .ok t ∧
      (toks t = toks s ∨
        ∃ a b, toks s = a ++ toks ")".toList ++ b ∧ ')' ∉ a ∧ b.head? ≠ some ',' ∧
          toks t = a ++ toks "),".toList ++ b) ∧
      ((∀ i ∈ items, net (i.text o) = 0) → net t = 0) :=
  _root_.Fp.IoStmt.computedGoto_tostr_match_tokens o ho s items hm

theorem Deallocate_Stmt_tostr_match_tokens (o : Oracle Node) (ho : OracleTok o) (s : Str)
    (items : List (Item Node))
    (hm : ((planDeallocate s).bind (runSlots o)).map swap2 = .ok items)
    (hs : SrmOK (strip (inner (lstrip (s.drop 10))))) :
    ∃ t, tostrDeallocate o items = .ok t ∧ toks t = toks s ∧
      ((∀ i ∈ items, net (i.text o) = 0) → net t = 0) :=
  _root_.Fp.IoStmt.deallocate_tostr_match_tokens o ho s items hm hs

theorem Allocate_Stmt_tostr_match_tokens (o : Oracle Node) (ho : OracleTok o) (s : Str)
    (items : List (Item Node))
    (hm : ((planAllocate s).bind (runSlots o)).map arrangeAllocate = .ok items)
    (hs : SrmOK (strip (inner (lstrip (s.drop 8))))) :
    ∃ t, tostrAllocate o items = .ok t ∧ toks t = toks s ∧
      ((∀ i ∈ items, net (i.text o) = 0) → net t = 0) :=
  _root_.Fp.IoStmt.allocate_tostr_match_tokens o ho s items hm hs

theorem Arithmetic_If_Stmt_tostr_match_tokens (o : Oracle Node) (ho : OracleTok o) (s : Str)
    (items : List (Item Node))
    (hm : ((planArithmeticIf s).bind (runSlots o)).map arrangeArithmeticIf = .ok items) :
    ∃ t, tostrArithmeticIf o items = .ok t ∧ toks t = toks s ∧
      ((∀ i ∈ items, net (i.text o) = 0) → net t = 0) :=
  _root_.Fp.IoStmt.arithmeticIf_tostr_match_tokens o ho s items hm

theorem Forall_Triplet_Spec_tostr_match_tokens (o : Oracle Node) (ho : OracleTok o) (s : Str)
    (items : List (Item Node)) (hm : (planForallTriplet s).bind (runSlots o) = .ok items)
    (hs : SrmOK s) :
    ∃ t, tostrForallTriplet o items = .ok t ∧ toks t = toks s ∧
      ((∀ i ∈ items, net (i.text o) = 0) → net t = 0) :=
  _root_.Fp.IoStmt.forallTriplet_tostr_match_tokens o ho s items hm hs

theorem Forall_Header_tostr_match_tokens (o : Oracle Node) (ho : OracleTok o) (s : Str)
    (items : List (Item Node)) (hm : matchForallHeader o s = .ok items)
    (hs : o.call C.Forall_Triplet_Spec_List (strip (inner (strip s))) = .noMatch →
      SrmOK (strip (inner (strip s)))) :
    ∃ t, tostrForallHeader o items = .ok t ∧ toks t = toks s ∧
      ((∀ i ∈ items, net (i.text o) = 0) → net t = 0) :=
  _root_.Fp.IoStmt.forallHeader_tostr_match_tokens o ho s items hm hs

theorem Format_Item_tostr_match_tokens (std : Std) (o : Oracle Node) (ho : OracleTok o)
    (hd : ∀ t n, o.call C.Data_Edit_Desc t = .ok n → o.isDataEdit n = true)
    (hl : ∀ t n, o.call C.Format_Item_List t = .ok n → o.isDataEdit n = false)
    (s : Str) (items : List (Item Node)) (hm : matchFormatItem std o s = .ok items) :
    ∃ t, tostrFormatItem o items = .ok t ∧ toks t = toks s ∧
      ((∀ i ∈ items, net (i.text o) = 0) → net t = 0) :=
  _root_.Fp.IoStmt.formatItem_tostr_match_tokens std o ho hd hl s items hm

theorem Control_Edit_Desc_tostr_match_tokens (o : Oracle Node) (ho : OracleTok o) (s : Str)
    (items : List (Item Node)) (hm : (planControlEditDesc s).bind (runSlots o) = .ok items) :
    ∃ t, tostrControlEditDesc o items = .ok t ∧ toks t = toks s ∧
      ((∀ i ∈ items, net (i.text o) = 0) → net t = 0) :=
  _root_.Fp.IoStmt.controlEditDesc_tostr_match_tokens o ho s items hm

theorem Format_Item_List_tostr_match_tokens (o : Oracle Node) (ho : OracleTok o) (s : Str)
    (items : List (Item Node)) (hm : (planFormatItemList s).bind (runSlots o) = .ok items)
    (hok : loopOK (2 * (lstrip s).length + 2) (lstrip s) = true) :
    ∃ t, tostrList o items = .ok t ∧
      (toks t).filter (· != ',') = (toks s).filter (· != ',') ∧
      ((∀ i ∈ items, net (i.text o) = 0) → net t = 0) :=
  _root_.Fp.IoStmt.formatItemList_tostr_match_tokens o ho s items hm hok

theorem WORDClsBase_tostr_match_tokens (o : Oracle Node) (ho : OracleTok o) (kw : Str)
    (cls : Option ClassId) (req : Bool) (s : Str) (items : List (Item Node))
    (hk : net kw = 0)
    (hm : (combiPlan (.word [kw] false cls false req false) s).bind (runSlots o) = .ok items) :
    ∃ t, combiStr o (.word [kw] false cls false req false) items = .ok t ∧ toks t = toks s ∧
      ((∀ n, Item.node n ∈ items → net (o.str n) = 0) → net t = 0) :=
  _root_.Fp.IoStmt.word_tostr_match_tokens o ho kw cls req s items hk hm

theorem BracketBase_tostr_match_tokens (o : Oracle Node) (ho : OracleTok o) (c : ClassId) (req : Bool)
    (s : Str) (items : List (Item Node))
    (hm : (combiPlan (.bracket "()".toList (some c) req) s).bind (runSlots o) = .ok items) :
    ∃ t, combiStr o (.bracket "()".toList (some c) req) items = .ok t ∧ toks t = toks s ∧
      ((∀ n, Item.node n ∈ items → net (o.str n) = 0) → net t = 0) :=
  _root_.Fp.IoStmt.bracket_tostr_match_tokens o ho c req s items hm

theorem KeywordValueBase_cls_tostr_match_tokens (o : Oracle Node) (ho : OracleTok o) (l r : ClassId) (q u : Bool)
    (s : Str) (items : List (Item Node))
    (hm : (combiPlan (.kv (.cls l) r q u) s).bind (runSlots o) = .ok items) :
    ∃ t, combiStr o (.kv (.cls l) r q u) items = .ok t ∧ toks t = toks s ∧
      ((∀ n, Item.node n ∈ items → net (o.str n) = 0) → net t = 0) :=
  _root_.Fp.IoStmt.kvcls_tostr_match_tokens o ho l r q u s items hm

theorem SequenceBase_tostr_match_tokens (o : Oracle Node) (ho : OracleTok o) (elem : ClassId) (s : Str)
    (items : List (Item Node))
    (hm : (combiPlan (.seq ",".toList elem) s).bind (runSlots o) = .ok items) (hs : SrmOK s) :
    ∃ t, combiStr o (.seq ",".toList elem) items = .ok t ∧ toks t = toks s ∧
      ((∀ n, Item.node n ∈ items → net (o.str n) = 0) → net t = 0) :=
  _root_.Fp.IoStmt.seq_tostr_match_tokens o ho elem s items hm hs

theorem List_tostr_match_tokens (o : Oracle Node) (ho : OracleTok o) (elem : ClassId) (s : Str)
    (items : List (Item Node))
    (hm : (combiPlan (specList elem) s).bind (runSlots o) = .ok items) (hs : SrmOK s) :
    ∃ t, tostrList o items = .ok t ∧ toks t = toks s ∧
      ((∀ n, Item.node n ∈ items → net (o.str n) = 0) → net t = 0) :=
  _root_.Fp.IoStmt.list_tostr_match_tokens o ho elem s items hm hs

theorem SeparatorBase_tostr_match_tokens (o : Oracle Node) (ho : OracleTok o) (a b : ClassId) (ql qr : Bool)
    (s : Str) (items : List (Item Node))
    (hm : (combiPlan (.sep (some a) (some b) ql qr) s).bind (runSlots o) = .ok items)
    (hs : SrmOK s) :
    ∃ t, combiStr o (.sep (some a) (some b) ql qr) items = .ok t ∧ toks t = toks s ∧
      ((∀ n, Item.node n ∈ items → net (o.str n) = 0) → net t = 0) :=
  _root_.Fp.IoStmt.sep_tostr_match_tokens o ho a b ql qr s items hm hs

theorem CALLBase_tostr_match_tokens_partial (o : Oracle Node) (ho : OracleTok o) (k : Str) (c : ClassId)
    (u q : Bool) (s : Str) (items : List (Item Node)) (hk : net k = 0)
    (hm : (combiPlan (.call (.kw k) (.cls c) u q) s).bind (runSlots o) = .ok items)
    (hs : SrmOK s) (hend : CallEndOK s) :
    ∃ t, combiStr o (.call (.kw k) (.cls c) u q) items = .ok t ∧ toks t = toks s ∧
      ((∀ n, Item.node n ∈ items → net (o.str n) = 0) → net t = 0) :=
  _root_.Fp.IoStmt.callkw_tostr_match_tokens_partial o ho k c u q s items hk hm hs hend

theorem CallBase_tostr_match_tokens_partial (o : Oracle Node) (ho : OracleTok o) (a b : ClassId)
    (u q : Bool) (s : Str) (items : List (Item Node))
    (hm : (combiPlan (.call (.cls a) (.cls b) u q) s).bind (runSlots o) = .ok items)
    (hs : SrmOK s) (hend : CallEndOK s) :
    ∃ t, combiStr o (.call (.cls a) (.cls b) u q) items = .ok t ∧ toks t = toks s ∧
      ((∀ n, Item.node n ∈ items → net (o.str n) = 0) → net t = 0) :=
  _root_.Fp.IoStmt.callcls_tostr_match_tokens_partial o ho a b u q s items hm hs hend

theorem CALLBase_drops_text  :
    SrmOK "OPEN(1)'a) ".toList ∧ ¬ CallEndOK "OPEN(1)'a) ".toList ∧
    (combiPlan specOpen "OPEN(1)'a) ".toList).bind (runSlots echoO)
      = .ok [.str "OPEN".toList, .node "1".toList] ∧
    combiStr echoO specOpen [.str "OPEN".toList, .node "1".toList] = .ok "OPEN(1)".toList ∧
    toks "OPEN(1)".toList ≠ toks "OPEN(1)'a) ".toList :=
  _root_.Fp.IoStmt.call_drops_text 

theorem CALLBase_invents_paren  :
    SrmOK "OPEN('a) ".toList ∧ ¬ CallEndOK "OPEN('a) ".toList ∧
    (combiPlan specOpen "OPEN('a) ".toList).bind (runSlots echoO)
      = .ok [.str "OPEN".toList, .node "'a)".toList] ∧
    combiStr echoO specOpen [.str "OPEN".toList, .node "'a)".toList] = .ok "OPEN('a))".toList ∧
    toks "OPEN('a))".toList ≠ toks "OPEN('a) ".toList :=
  _root_.Fp.IoStmt.call_invents_paren 

theorem CallBase_drops_text  :
    SrmOK "a(1)'b) ".toList ∧
    (combiPlan specAllocation "a(1)'b) ".toList).bind (runSlots echoO)
      = .ok [.node "a".toList, .node "1".toList] ∧
    combiStr echoO specAllocation [.node "a".toList, .node "1".toList] = .ok "a(1)".toList ∧
    toks "a(1)".toList ≠ toks "a(1)'b) ".toList :=
  _root_.Fp.IoStmt.callcls_drops_text 

theorem Open_Stmt_2003_tostr_match_tokens_partial (o : Oracle Node) (ho : OracleTok o) (s : Str)
    (items : List (Item Node))
    (hm : (combiPlan specOpen s).bind (runSlots o) = .ok items) (hs : SrmOK s)
    (hend : CallEndOK s) :
    ∃ t, combiStr o specOpen items = .ok t ∧ toks t = toks s ∧
      ((∀ n, Item.node n ∈ items → net (o.str n) = 0) → net t = 0) :=
  _root_.Fp.IoStmt.open2003_tostr_match_tokens_partial o ho s items hm hs hend

theorem Open_Stmt_2008_tostr_match_tokens_partial (o : Oracle Node) (ho : OracleTok o) (s : Str)
    (items : List (Item Node)) (hm : matchOpen .f2008 o s = .ok items) (hs : SrmOK s)
    (hend : CallEndOK s) :
    ∃ t, combiStr o specOpen items = .ok t ∧ toks t = toks s ∧
      ((∀ n, Item.node n ∈ items → net (o.str n) = 0) → net t = 0) :=
  _root_.Fp.IoStmt.open2008_tostr_match_tokens_partial o ho s items hm hs hend

theorem Close_Stmt_tostr_match_tokens_partial (o : Oracle Node) (ho : OracleTok o) (s : Str)
    (items : List (Item Node))
    (hm : (combiPlan specClose s).bind (runSlots o) = .ok items) (hs : SrmOK s)
    (hend : CallEndOK s) :
    ∃ t, combiStr o specClose items = .ok t ∧ toks t = toks s ∧
      ((∀ n, Item.node n ∈ items → net (o.str n) = 0) → net t = 0) :=
  _root_.Fp.IoStmt.close_tostr_match_tokens_partial o ho s items hm hs hend

theorem Nullify_Stmt_tostr_match_tokens_partial (o : Oracle Node) (ho : OracleTok o) (s : Str)
    (items : List (Item Node))
    (hm : (combiPlan specNullify s).bind (runSlots o) = .ok items) (hs : SrmOK s)
    (hend : CallEndOK s) :
    ∃ t, combiStr o specNullify items = .ok t ∧ toks t = toks s ∧
      ((∀ n, Item.node n ∈ items → net (o.str n) = 0) → net t = 0) :=
  _root_.Fp.IoStmt.nullify_tostr_match_tokens_partial o ho s items hm hs hend

theorem Allocation_tostr_match_tokens_partial (o : Oracle Node) (ho : OracleTok o) (s : Str)
    (items : List (Item Node))
    (hm : (combiPlan specAllocation s).bind (runSlots o) = .ok items) (hs : SrmOK s)
    (hend : CallEndOK s) :
    ∃ t, combiStr o specAllocation items = .ok t ∧ toks t = toks s ∧
      ((∀ n, Item.node n ∈ items → net (o.str n) = 0) → net t = 0) :=
  _root_.Fp.IoStmt.allocation_tostr_match_tokens_partial o ho s items hm hs hend

theorem Format_Stmt_tostr_match_tokens (o : Oracle Node) (ho : OracleTok o) (s : Str)
    (items : List (Item Node))
    (hm : (combiPlan specFormatStmt s).bind (runSlots o) = .ok items) :
    ∃ t, combiStr o specFormatStmt items = .ok t ∧ toks t = toks s ∧
      ((∀ n, Item.node n ∈ items → net (o.str n) = 0) → net t = 0) :=
  _root_.Fp.IoStmt.formatStmt_tostr_match_tokens o ho s items hm

theorem Format_Specification_tostr_match_tokens (o : Oracle Node) (ho : OracleTok o) (s : Str)
    (items : List (Item Node))
    (hm : (combiPlan specFormatSpecification s).bind (runSlots o) = .ok items) :
    ∃ t, combiStr o specFormatSpecification items = .ok t ∧ toks t = toks s ∧
      ((∀ n, Item.node n ∈ items → net (o.str n) = 0) → net t = 0) :=
  _root_.Fp.IoStmt.formatSpecification_tostr_match_tokens o ho s items hm

theorem Nonlabel_Do_Stmt_tostr_match_tokens (o : Oracle Node) (ho : OracleTok o) (s : Str)
    (items : List (Item Node))
    (hm : (combiPlan specNonlabelDo s).bind (runSlots o) = .ok items) :
    ∃ t, combiStr o specNonlabelDo items = .ok t ∧ toks t = toks s ∧
      ((∀ n, Item.node n ∈ items → net (o.str n) = 0) → net t = 0) :=
  _root_.Fp.IoStmt.nonlabelDo_tostr_match_tokens o ho s items hm

theorem Stop_Stmt_tostr_match_tokens (o : Oracle Node) (ho : OracleTok o) (s : Str)
    (items : List (Item Node))
    (hm : (combiPlan specStop s).bind (runSlots o) = .ok items) :
    ∃ t, combiStr o specStop items = .ok t ∧ toks t = toks s ∧
      ((∀ n, Item.node n ∈ items → net (o.str n) = 0) → net t = 0) :=
  _root_.Fp.IoStmt.stop_tostr_match_tokens o ho s items hm

theorem Error_Stop_Stmt_tostr_match_tokens (o : Oracle Node) (ho : OracleTok o) (s : Str)
    (items : List (Item Node))
    (hm : (combiPlan specErrorStop s).bind (runSlots o) = .ok items) :
    ∃ t, combiStr o specErrorStop items = .ok t ∧ toks t = toks s ∧
      ((∀ n, Item.node n ∈ items → net (o.str n) = 0) → net t = 0) :=
  _root_.Fp.IoStmt.errorStop_tostr_match_tokens o ho s items hm

theorem Forall_Construct_Stmt_tostr_match_tokens (o : Oracle Node) (ho : OracleTok o) (s : Str)
    (items : List (Item Node))
    (hm : (combiPlan specForallConstruct s).bind (runSlots o) = .ok items) :
    ∃ t, combiStr o specForallConstruct items = .ok t ∧ toks t = toks s ∧
      ((∀ n, Item.node n ∈ items → net (o.str n) = 0) → net t = 0) :=
  _root_.Fp.IoStmt.forallConstruct_tostr_match_tokens o ho s items hm

theorem Actual_Arg_Spec_tostr_match_tokens (o : Oracle Node) (ho : OracleTok o) (s : Str)
    (items : List (Item Node))
    (hm : (combiPlan specActualArgSpec s).bind (runSlots o) = .ok items) :
    ∃ t, combiStr o specActualArgSpec items = .ok t ∧ toks t = toks s ∧
      ((∀ n, Item.node n ∈ items → net (o.str n) = 0) → net t = 0) :=
  _root_.Fp.IoStmt.actualArgSpec_tostr_match_tokens o ho s items hm

theorem Case_Value_Range_tostr_match_tokens (o : Oracle Node) (ho : OracleTok o) (s : Str)
    (items : List (Item Node))
    (hm : (combiPlan specCaseValueRange s).bind (runSlots o) = .ok items) (hs : SrmOK s) :
    ∃ t, combiStr o specCaseValueRange items = .ok t ∧ toks t = toks s ∧
      ((∀ n, Item.node n ∈ items → net (o.str n) = 0) → net t = 0) :=
  _root_.Fp.IoStmt.caseValueRange_tostr_match_tokens o ho s items hm hs

theorem Actual_Arg_Spec_List_tostr_match_tokens (o : Oracle Node) (ho : OracleTok o) (s : Str)
    (items : List (Item Node))
    (hm : (combiPlan (specList C.Actual_Arg_Spec) s).bind (runSlots o) = .ok items) (hs : SrmOK s) :
    ∃ t, tostrList o items = .ok t ∧ toks t = toks s ∧
      ((∀ n, Item.node n ∈ items → net (o.str n) = 0) → net t = 0) :=
  _root_.Fp.IoStmt.actualArgSpecList_tostr_match_tokens o ho s items hm hs

theorem Connect_Spec_List_tostr_match_tokens (o : Oracle Node) (ho : OracleTok o) (s : Str)
    (items : List (Item Node))
    (hm : (combiPlan (specList C.Connect_Spec) s).bind (runSlots o) = .ok items) (hs : SrmOK s) :
    ∃ t, tostrList o items = .ok t ∧ toks t = toks s ∧
      ((∀ n, Item.node n ∈ items → net (o.str n) = 0) → net t = 0) :=
  _root_.Fp.IoStmt.connectSpecList_tostr_match_tokens o ho s items hm hs

theorem Close_Spec_List_tostr_match_tokens (o : Oracle Node) (ho : OracleTok o) (s : Str)
    (items : List (Item Node))
    (hm : (combiPlan (specList C.Close_Spec) s).bind (runSlots o) = .ok items) (hs : SrmOK s) :
    ∃ t, tostrList o items = .ok t ∧ toks t = toks s ∧
      ((∀ n, Item.node n ∈ items → net (o.str n) = 0) → net t = 0) :=
  _root_.Fp.IoStmt.closeSpecList_tostr_match_tokens o ho s items hm hs

theorem Inquire_Spec_List_tostr_match_tokens (o : Oracle Node) (ho : OracleTok o) (s : Str)
    (items : List (Item Node))
    (hm : (combiPlan (specList C.Inquire_Spec) s).bind (runSlots o) = .ok items) (hs : SrmOK s) :
    ∃ t, tostrList o items = .ok t ∧ toks t = toks s ∧
      ((∀ n, Item.node n ∈ items → net (o.str n) = 0) → net t = 0) :=
  _root_.Fp.IoStmt.inquireSpecList_tostr_match_tokens o ho s items hm hs

theorem Alloc_Opt_List_tostr_match_tokens (o : Oracle Node) (ho : OracleTok o) (s : Str)
    (items : List (Item Node))
    (hm : (combiPlan (specList C.Alloc_Opt) s).bind (runSlots o) = .ok items) (hs : SrmOK s) :
    ∃ t, tostrList o items = .ok t ∧ toks t = toks s ∧
      ((∀ n, Item.node n ∈ items → net (o.str n) = 0) → net t = 0) :=
  _root_.Fp.IoStmt.allocOptList_tostr_match_tokens o ho s items hm hs

theorem Dealloc_Opt_List_tostr_match_tokens (o : Oracle Node) (ho : OracleTok o) (s : Str)
    (items : List (Item Node))
    (hm : (combiPlan (specList C.Dealloc_Opt) s).bind (runSlots o) = .ok items) (hs : SrmOK s) :
    ∃ t, tostrList o items = .ok t ∧ toks t = toks s ∧
      ((∀ n, Item.node n ∈ items → net (o.str n) = 0) → net t = 0) :=
  _root_.Fp.IoStmt.deallocOptList_tostr_match_tokens o ho s items hm hs

theorem Allocation_List_tostr_match_tokens (o : Oracle Node) (ho : OracleTok o) (s : Str)
    (items : List (Item Node))
    (hm : (combiPlan (specList C.Allocation) s).bind (runSlots o) = .ok items) (hs : SrmOK s) :
    ∃ t, tostrList o items = .ok t ∧ toks t = toks s ∧
      ((∀ n, Item.node n ∈ items → net (o.str n) = 0) → net t = 0) :=
  _root_.Fp.IoStmt.allocationList_tostr_match_tokens o ho s items hm hs

theorem Case_Value_Range_List_tostr_match_tokens (o : Oracle Node) (ho : OracleTok o) (s : Str)
    (items : List (Item Node))
    (hm : (combiPlan (specList C.Case_Value_Range) s).bind (runSlots o) = .ok items) (hs : SrmOK s) :
    ∃ t, tostrList o items = .ok t ∧ toks t = toks s ∧
      ((∀ n, Item.node n ∈ items → net (o.str n) = 0) → net t = 0) :=
  _root_.Fp.IoStmt.caseValueRangeList_tostr_match_tokens o ho s items hm hs

theorem Forall_Triplet_Spec_List_tostr_match_tokens (o : Oracle Node) (ho : OracleTok o) (s : Str)
    (items : List (Item Node))
    (hm : (combiPlan (specList C.Forall_Triplet_Spec) s).bind (runSlots o) = .ok items) (hs : SrmOK s) :
    ∃ t, tostrList o items = .ok t ∧ toks t = toks s ∧
      ((∀ n, Item.node n ∈ items → net (o.str n) = 0) → net t = 0) :=
  _root_.Fp.IoStmt.forallTripletSpecList_tostr_match_tokens o ho s items hm hs

theorem match_total (std : Std) (o : Oracle Node) (c : ClassId) (s : Str) (e : Exc)
    (h : matchOf std o c s = some (.raises e)) :
    e = .keyError ∨ ∃ c' t, o.call c' t = .raises e :=
  _root_.Fp.IoStmt.matchOf_total std o c s e h

theorem plan_match_total (plan : Str → Res (List Slot)) (hp : PlanTotal plan) (o : Oracle Node) (s : Str) (e : Exc)
    (h : (plan s).bind (runSlots o) = .raises e) :
    e = .keyError ∨ ∃ c t, o.call c t = .raises e :=
  _root_.Fp.IoStmt.plan_match_total plan hp o s e h

theorem Format_Item_List_match_total (std : Std) (o : Oracle Node) (s : Str) (e : Exc)
    (h : matchOf std o C.Format_Item_List s = some (.raises e)) :
    e = .keyError ∨ ∃ c' t, o.call c' t = .raises e :=
  _root_.Fp.IoStmt.matchOf_formatItemList_total std o s e h

theorem Format_Item_List_hollerith_count_int {cur m : Str} (h : hollerithPrefix cur = some m) :
    ∃ n, pyInt (Combi.noSpaces m.dropLast) = some n :=
  _root_.Fp.IoStmt.hollerith_count_int h

theorem Format_Item_List_blank_count_regression  :
    planFormatItemList "1 2habc".toList = .ok [.fail] ∧
    planFormatItemList "1 0h".toList = .ok [.fail] :=
  _root_.Fp.IoStmt.formatItemList_hollerith_blank_no_raise 

theorem Format_Item_List_blank_count_no_escape (o : Oracle Node) :
    (planFormatItemList "1 2habc".toList).bind (runSlots o) = .noMatch :=
  _root_.Fp.IoStmt.formatItemList_hollerith_blank_no_escape o

theorem Format_Item_List_blank_count_accepts  :
    planFormatItemList "1 2habcdefghijkl, i3".toList
      = .ok [.child C.Hollerith_Item "1 2habcdefghijkl".toList, .child C.Format_Item "i3".toList] :=
  _root_.Fp.IoStmt.formatItemList_hollerith_blank_count 

theorem Format_Item_List_raises_nothing {s : Str} {slots : List Slot} (h : planFormatItemList s = .ok slots)
    (hok : loopOK (2 * (lstrip s).length + 2) (lstrip s) = true) :
    ∀ e, Slot.raise e ∉ slots :=
  _root_.Fp.IoStmt.formatItemList_raises_ok h hok

theorem Format_Item_match_total (std : Std) (o : Oracle Node) (s : Str) (e : Exc)
    (h : matchFormatItem std o s = .raises e) :
    ∃ c t, o.call c t = .raises e :=
  _root_.Fp.IoStmt.formatItem_raises std o s e h

theorem Format_Item_2008_index_safe (s : Str) (e : Exc) :
    planFormatItemStar s ≠ .raises e :=
  _root_.Fp.IoStmt.formatItemStar_index_safe s e

theorem Format_Item_2008_guard_needed  :
    startsC '*' (strip "*".toList) = true ∧ (lstrip ((strip "*".toList).drop 1)).head? = none :=
  _root_.Fp.IoStmt.star_without_guard 

theorem matchIoControlSpecList_total (o : Oracle Node) (s : Str) (e : Exc)
    (h : matchIoControlSpecList o s = .raises e) :
    e = .keyError ∨ ∃ c t, o.call c t = .raises e :=
  _root_.Fp.IoStmt.matchIoControlSpecList_total o s e h

theorem matchOpen_total (std : Std) (o : Oracle Node) (s : Str) (e : Exc)
    (h : matchOpen std o s = .raises e) :
    e = .keyError ∨ ∃ c t, o.call c t = .raises e :=
  _root_.Fp.IoStmt.matchOpen_total std o s e h

theorem matchForallHeader_total (o : Oracle Node) (s : Str) (e : Exc)
    (h : matchForallHeader o s = .raises e) :
    e = .keyError ∨ ∃ c t, o.call c t = .raises e :=
  _root_.Fp.IoStmt.matchForallHeader_total o s e h

theorem matchConnectSpec_total (std : Std) (o : Oracle Node) (s : Str) (e : Exc)
    (h : matchConnectSpec std o s = .raises e) :
    ∃ c t, o.call c t = .raises e :=
  _root_.Fp.IoStmt.matchConnectSpec_total std o s e h

theorem ifThen_match_tostr_fixpoint (o : Oracle Node) (a : Node)
    (hrt : OracleRT o C.Scalar_Logical_Expr a)
    (hl : lstrip (o.str a) = o.str a) (hr : rstrip (o.str a) = o.str a) :
    ∃ t, tostrIfThen o [.node a] = .ok t ∧ (planIfThen t).bind (runSlots o) = .ok [.node a] :=
  _root_.Fp.IoStmt.ifThen_match_tostr_fixpoint o a hrt hl hr

theorem selectCase_match_tostr_fixpoint (o : Oracle Node) (a : Node)
    (hrt : OracleRT o C.Case_Expr a)
    (hl : lstrip (o.str a) = o.str a) (hr : rstrip (o.str a) = o.str a) :
    ∃ t, tostrSelectCase o [.node a] = .ok t ∧ (planSelectCase t).bind (runSlots o) = .ok [.node a] :=
  _root_.Fp.IoStmt.selectCase_match_tostr_fixpoint o a hrt hl hr

theorem elseIf_match_tostr_fixpoint_1 (o : Oracle Node) (a : Node)
    (hrt : OracleRT o C.Scalar_Logical_Expr a)
    (hl : lstrip (o.str a) = o.str a) (hr : rstrip (o.str a) = o.str a) :
    ∃ t, tostrElseIf o [.node a, .none] = .ok t ∧
      (planElseIf t).bind (runSlots o) = .ok [.node a, .none] :=
  _root_.Fp.IoStmt.elseIf_match_tostr_fixpoint_1 o a hrt hl hr

theorem elseIf_match_tostr_fixpoint_2 (o : Oracle Node) (a b : Node)
    (hrt : OracleRT o C.Scalar_Logical_Expr a) (hrtb : OracleRT o C.If_Construct_Name b)
    (hl : lstrip (o.str a) = o.str a) (hr : rstrip (o.str a) = o.str a)
    (hB : ')' ∉ o.str b) (hBl : lstrip (o.str b) = o.str b) (hB0 : o.str b ≠ []) :
    ∃ t, tostrElseIf o [.node a, .node b] = .ok t ∧
      (planElseIf t).bind (runSlots o) = .ok [.node a, .node b] :=
  _root_.Fp.IoStmt.elseIf_match_tostr_fixpoint_2 o a b hrt hrtb hl hr hB hBl hB0

theorem caseSelector_match_tostr_fixpoint_default (o : Oracle Node) :
    ∃ t, tostrCaseSelector o [.none] = .ok t ∧
      (planCaseSelector t).bind (runSlots o) = .ok [.none] :=
  _root_.Fp.IoStmt.caseSelector_match_tostr_fixpoint_default o

theorem caseSelector_match_tostr_fixpoint (o : Oracle Node) (a : Node)
    (hrt : OracleRT o C.Case_Value_Range_List a)
    (hl : lstrip (o.str a) = o.str a) (hr : rstrip (o.str a) = o.str a) :
    ∃ t, tostrCaseSelector o [.node a] = .ok t ∧
      (planCaseSelector t).bind (runSlots o) = .ok [.node a] :=
  _root_.Fp.IoStmt.caseSelector_match_tostr_fixpoint o a hrt hl hr

theorem goto_match_tostr_fixpoint (o : Oracle Node) (a : Node)
    (hrt : OracleRT o C.Label a) (hl : lstrip (o.str a) = o.str a) :
    ∃ t, tostrGoto o [.node a] = .ok t ∧ (planGoto t).bind (runSlots o) = .ok [.node a] :=
  _root_.Fp.IoStmt.goto_match_tostr_fixpoint o a hrt hl

theorem computedGoto_match_tostr_fixpoint (o : Oracle Node) (a b : Node)
    (hrta : OracleRT o C.Label_List a) (hrtb : OracleRT o C.Scalar_Int_Expr b)
    (hl : lstrip (o.str a) = o.str a) (hr : rstrip (o.str a) = o.str a) (hA0 : o.str a ≠ [])
    (hA : ')' ∉ o.str a) (hBl : lstrip (o.str b) = o.str b) (hB0 : o.str b ≠ []) :
    ∃ t, tostrComputedGoto o [.node a, .node b] = .ok t ∧
      (planComputedGoto t).bind (runSlots o) = .ok [.node a, .node b] :=
  _root_.Fp.IoStmt.computedGoto_match_tostr_fixpoint o a b hrta hrtb hl hr hA0 hA hBl hB0

theorem inquire_match_tostr_fixpoint_1 (o : Oracle Node) (a : Node)
    (hrt : OracleRT o C.Inquire_Spec_List a)
    (hl : lstrip (o.str a) = o.str a) (hr : rstrip (o.str a) = o.str a) :
    ∃ t, tostrInquire o [.node a, .none, .none] = .ok t ∧
      (planInquire t).bind (runSlots o) = .ok [.node a, .none, .none] :=
  _root_.Fp.IoStmt.inquire_match_tostr_fixpoint_1 o a hrt hl hr

theorem arithmeticIf_match_tostr_fixpoint (o : Oracle Node) (e a b c : Node)
    (hrte : OracleRT o C.Scalar_Numeric_Expr e) (hrta : OracleRT o C.Label a)
    (hrtb : OracleRT o C.Label b) (hrtc : OracleRT o C.Label c)
    (hEl : lstrip (o.str e) = o.str e) (hEr : rstrip (o.str e) = o.str e)
    (hAl : lstrip (o.str a) = o.str a) (hAr : rstrip (o.str a) = o.str a)
    (hBl : lstrip (o.str b) = o.str b) (hBr : rstrip (o.str b) = o.str b)
    (hCl : lstrip (o.str c) = o.str c) (hCr : rstrip (o.str c) = o.str c)
    (hAp : ')' ∉ o.str a) (hBp : ')' ∉ o.str b) (hCp : ')' ∉ o.str c)
    (hAc : ',' ∉ o.str a) (hBc : ',' ∉ o.str b) (hCc : ',' ∉ o.str c) :
    ∃ t, tostrArithmeticIf o [.node e, .node a, .node b, .node c] = .ok t ∧
      ((planArithmeticIf t).bind (runSlots o)).map arrangeArithmeticIf =
        .ok [.node e, .node a, .node b, .node c] :=
  _root_.Fp.IoStmt.arithmeticIf_match_tostr_fixpoint o e a b c hrte hrta hrtb hrtc hEl hEr hAl hAr hBl hBr hCl hCr hAp hBp hCp hAc hBc hCc

theorem labelDo_match_tostr_fixpoint_1 (o : Oracle Node) (l : Node)
    (hrt : OracleRT o C.Label l) (hL : IsLabel (o.str l)) :
    ∃ t, tostrLabelDo o [.none, .node l, .none] = .ok t ∧
      (planLabelDo t).bind (runSlots o) = .ok [.none, .node l, .none] :=
  _root_.Fp.IoStmt.labelDo_match_tostr_fixpoint_1 o l hrt hL

theorem labelDo_match_tostr_fixpoint_2 (o : Oracle Node) (l lc : Node)
    (hrt : OracleRT o C.Label l) (hrtc : OracleRT o C.Loop_Control lc) (hL : IsLabel (o.str l))
    (hRl : lstrip (o.str lc) = o.str lc) (hR0 : o.str lc ≠ []) :
    ∃ t, tostrLabelDo o [.none, .node l, .node lc] = .ok t ∧
      (planLabelDo t).bind (runSlots o) = .ok [.none, .node l, .node lc] :=
  _root_.Fp.IoStmt.labelDo_match_tostr_fixpoint_2 o l lc hrt hrtc hL hRl hR0

theorem controlEditDesc_match_tostr_fixpoint_bare (o : Oracle Node) (d : Str)
    (hd : d = "/".toList ∨ d = ":".toList ∨ d = "$".toList) :
    ∃ t, tostrControlEditDesc o [.none, .str d] = .ok t ∧
      (planControlEditDesc t).bind (runSlots o) = .ok [.none, .str d] :=
  _root_.Fp.IoStmt.controlEditDesc_match_tostr_fixpoint_bare o d hd

theorem controlEditDesc_match_tostr_fixpoint_slash (o : Oracle Node) (r : Node)
    (hrt : OracleRT o C.R r)
    (hl : lstrip (o.str r) = o.str r) (hr : rstrip (o.str r) = o.str r) (h0 : o.str r ≠ []) :
    ∃ t, tostrControlEditDesc o [.node r, .str "/".toList] = .ok t ∧
      (planControlEditDesc t).bind (runSlots o) = .ok [.node r, .str "/".toList] :=
  _root_.Fp.IoStmt.controlEditDesc_match_tostr_fixpoint_slash o r hrt hl hr h0

theorem controlEditDesc_match_tostr_fixpoint_P (o : Oracle Node) (k : Node)
    (hrt : OracleRT o C.K k)
    (hl : lstrip (o.str k) = o.str k) (hr : rstrip (o.str k) = o.str k) :
    ∃ t, tostrControlEditDesc o [.node k, .str "P".toList] = .ok t ∧
      (planControlEditDesc t).bind (runSlots o) = .ok [.node k, .str "P".toList] :=
  _root_.Fp.IoStmt.controlEditDesc_match_tostr_fixpoint_P o k hrt hl hr

theorem formatItem_match_tostr_fixpoint_data (o : Oracle Node) (n : Node)
    (hrt : OracleRT o C.Data_Edit_Desc n) (hde : o.isDataEdit n = true)
    (hl : lstrip (o.str n) = o.str n) (hr : rstrip (o.str n) = o.str n)
    (hdb : StartsNonDB (o.str n) = true) (hnp : Parenthesised (o.str n) = false) :
    ∃ t, tostrFormatItem o [.none, .node n] = .ok t ∧
      (planFormatItem t).bind (runSlots o) = .ok [.none, .node n] :=
  _root_.Fp.IoStmt.formatItem_match_tostr_fixpoint_data o n hrt hde hl hr hdb hnp

theorem formatItem_match_tostr_fixpoint_rdata (o : Oracle Node) (r n : Node)
    (hrtr : OracleRT o C.R r) (hrt : OracleRT o C.Data_Edit_Desc n) (hde : o.isDataEdit n = true)
    (hRl : lstrip (o.str r) = o.str r) (hR0 : o.str r ≠ []) (hR : (o.str r).all isDB = true)
    (hl : lstrip (o.str n) = o.str n) (hr : rstrip (o.str n) = o.str n)
    (hdb : StartsNonDB (o.str n) = true) (hnp : Parenthesised (o.str n) = false) :
    ∃ t, tostrFormatItem o [.node r, .node n] = .ok t ∧
      (planFormatItem t).bind (runSlots o) = .ok [.node r, .node n] :=
  _root_.Fp.IoStmt.formatItem_match_tostr_fixpoint_rdata o r n hrtr hrt hde hRl hR0 hR hl hr hdb hnp

theorem formatItem_match_tostr_fixpoint_paren (o : Oracle Node) (n : Node)
    (hrt : OracleRT o C.Format_Item_List n) (hde : o.isDataEdit n = false)
    (hl : lstrip (o.str n) = o.str n) :
    ∃ t, tostrFormatItem o [.none, .node n] = .ok t ∧
      (planFormatItem t).bind (runSlots o) = .ok [.none, .node n] :=
  _root_.Fp.IoStmt.formatItem_match_tostr_fixpoint_paren o n hrt hde hl

theorem formatItem_match_tostr_fixpoint_rparen (o : Oracle Node) (r n : Node)
    (hrtr : OracleRT o C.R r) (hrt : OracleRT o C.Format_Item_List n) (hde : o.isDataEdit n = false)
    (hRl : lstrip (o.str r) = o.str r) (hR0 : o.str r ≠ []) (hR : (o.str r).all isDB = true)
    (hl : lstrip (o.str n) = o.str n) :
    ∃ t, tostrFormatItem o [.node r, .node n] = .ok t ∧
      (planFormatItem t).bind (runSlots o) = .ok [.node r, .node n] :=
  _root_.Fp.IoStmt.formatItem_match_tostr_fixpoint_rparen o r n hrtr hrt hde hRl hR0 hR hl

theorem concurrent_match_tostr_fixpoint (o : Oracle Node) (h : Node)
    (hrt : OracleRT o C.Forall_Header h)
    (hl : lstrip (o.str h) = o.str h) (hr : rstrip (o.str h) = o.str h)
    (h03 : planLoopControl03 ("CONCURRENT ".toList ++ o.str h) = .noMatch) :
    ∃ t, tostrLoopControl .f2008 o [.none, .none, .none, .node h] = .ok t ∧
      ((planLoopControl .f2008 t).bind (runSlots o)).map (groupLoop (loopTail .f2008)) =
        .ok [.none, .none, .none, .node h] :=
  _root_.Fp.IoStmt.concurrent_match_tostr_fixpoint o h hrt hl hr h03

theorem concurrent_match_tostr_fixpoint_comma (o : Oracle Node) (h : Node)
    (hrt : OracleRT o C.Forall_Header h)
    (hl : lstrip (o.str h) = o.str h) (hr : rstrip (o.str h) = o.str h)
    (h03 : planLoopControl03 (", CONCURRENT ".toList ++ o.str h) = .noMatch) :
    ∃ t, tostrLoopControl .f2008 o [.none, .none, .str ",".toList, .node h] = .ok t ∧
      ((planLoopControl .f2008 t).bind (runSlots o)).map (groupLoop (loopTail .f2008)) =
        .ok [.none, .none, .str ",".toList, .node h] :=
  _root_.Fp.IoStmt.concurrent_match_tostr_fixpoint_comma o h hrt hl hr h03

theorem write_match_tostr_fixpoint_1 (o : Oracle Node) (a : Node)
    (hrt : OracleRT o C.Io_Control_Spec_List a)
    (hl : lstrip (o.str a) = o.str a) (hr : rstrip (o.str a) = o.str a) (hA0 : o.str a ≠ [])
    (hA : ')' ∉ o.str a) (ht : TokId ("(".toList ++ o.str a ++ ")".toList)) :
    ∃ t, tostrWrite o [.node a, .none] = .ok t ∧
      (planWrite t).bind (runSlots o) = .ok [.node a, .none] :=
  _root_.Fp.IoStmt.write_match_tostr_fixpoint_1 o a hrt hl hr hA0 hA ht

theorem write_match_tostr_fixpoint_2 (o : Oracle Node) (a b : Node)
    (hrt : OracleRT o C.Io_Control_Spec_List a) (hrtb : OracleRT o C.Output_Item_List b)
    (hl : lstrip (o.str a) = o.str a) (hr : rstrip (o.str a) = o.str a) (hA0 : o.str a ≠ [])
    (hA : ')' ∉ o.str a) (hBl : lstrip (o.str b) = o.str b)
    (ht : TokId ("(".toList ++ o.str a ++ ") ".toList ++ o.str b)) :
    ∃ t, tostrWrite o [.node a, .node b] = .ok t ∧
      (planWrite t).bind (runSlots o) = .ok [.node a, .node b] :=
  _root_.Fp.IoStmt.write_match_tostr_fixpoint_2 o a b hrt hrtb hl hr hA0 hA hBl ht

theorem print_match_tostr_fixpoint_1 (o : Oracle Node) (a : Node)
    (hrt : OracleRT o C.Format a) (hl : lstrip (o.str a) = o.str a) (hA : ',' ∉ o.str a)
    (ht : TokId (o.str a)) :
    ∃ t, tostrPrint o [.node a, .none] = .ok t ∧
      (planPrint t).bind (runSlots o) = .ok [.node a, .none] :=
  _root_.Fp.IoStmt.print_match_tostr_fixpoint_1 o a hrt hl hA ht

theorem print_match_tostr_fixpoint_2 (o : Oracle Node) (a b : Node)
    (hrt : OracleRT o C.Format a) (hrtb : OracleRT o C.Output_Item_List b)
    (hl : lstrip (o.str a) = o.str a) (hr : rstrip (o.str a) = o.str a) (hA : ',' ∉ o.str a)
    (hBl : lstrip (o.str b) = o.str b) (hB0 : o.str b ≠ [])
    (ht : TokId (o.str a ++ ", ".toList ++ o.str b)) :
    ∃ t, tostrPrint o [.node a, .node b] = .ok t ∧
      (planPrint t).bind (runSlots o) = .ok [.node a, .node b] :=
  _root_.Fp.IoStmt.print_match_tostr_fixpoint_2 o a b hrt hrtb hl hr hA hBl hB0 ht

theorem read_match_tostr_fixpoint_1 (o : Oracle Node) (a : Node)
    (hrt : OracleRT o C.Io_Control_Spec_List a)
    (hl : lstrip (o.str a) = o.str a) (hr : rstrip (o.str a) = o.str a) (hA0 : o.str a ≠ [])
    (hA : ')' ∉ o.str a) (ht : TokId ("(".toList ++ o.str a ++ ")".toList)) :
    ∃ t, tostrRead o [.node a, .none, .none] = .ok t ∧
      (planRead t).bind (runSlots o) = .ok [.node a, .none, .none] :=
  _root_.Fp.IoStmt.read_match_tostr_fixpoint_1 o a hrt hl hr hA0 hA ht

theorem read_match_tostr_fixpoint_2 (o : Oracle Node) (a b : Node)
    (hrt : OracleRT o C.Io_Control_Spec_List a) (hrtb : OracleRT o C.Input_Item_List b)
    (hl : lstrip (o.str a) = o.str a) (hr : rstrip (o.str a) = o.str a) (hA0 : o.str a ≠ [])
    (hA : ')' ∉ o.str a) (hBl : lstrip (o.str b) = o.str b)
    (ht : TokId ("(".toList ++ o.str a ++ ") ".toList ++ o.str b)) :
    ∃ t, tostrRead o [.node a, .none, .node b] = .ok t ∧
      (planRead t).bind (runSlots o) = .ok [.node a, .none, .node b] :=
  _root_.Fp.IoStmt.read_match_tostr_fixpoint_2 o a b hrt hrtb hl hr hA0 hA hBl ht

theorem read_match_tostr_fixpoint_3 (o : Oracle Node) (f b : Node) (c : Char) (F' : Str)
    (hrt : OracleRT o C.Format f) (hrtb : OracleRT o C.Output_Item_List b)
    (hF : o.str f = c :: F') (hc1 : c ≠ '(') (hc2 : isNameStartU c = false)
    (hl : lstrip (o.str f) = o.str f) (hr : rstrip (o.str f) = o.str f) (hFc : ',' ∉ o.str f)
    (hBl : lstrip (o.str b) = o.str b) (hB0 : o.str b ≠ [])
    (ht : TokId (o.str f ++ ", ".toList ++ o.str b)) :
    ∃ t, tostrRead o [.none, .node f, .node b] = .ok t ∧
      (planRead t).bind (runSlots o) = .ok [.none, .node f, .node b] :=
  _root_.Fp.IoStmt.read_match_tostr_fixpoint_3 o f b c F' hrt hrtb hF hc1 hc2 hl hr hFc hBl hB0 ht

theorem where_match_tostr_fixpoint (o : Oracle Node) (a b : Node)
    (hrt : OracleRT o C.Mask_Expr a) (hrtb : OracleRT o C.Where_Assignment_Stmt b)
    (hl : lstrip (o.str a) = o.str a) (hr : rstrip (o.str a) = o.str a) (hA0 : o.str a ≠ [])
    (hA : ')' ∉ o.str a) (hBl : lstrip (o.str b) = o.str b) (hB0 : o.str b ≠ [])
    (ht : TokId ("(".toList ++ o.str a ++ ") ".toList ++ o.str b)) :
    ∃ t, tostrWhere o [.node a, .node b] = .ok t ∧
      (planWhere t).bind (runSlots o) = .ok [.node a, .node b] :=
  _root_.Fp.IoStmt.where_match_tostr_fixpoint o a b hrt hrtb hl hr hA0 hA hBl hB0 ht

theorem if_match_tostr_fixpoint (std : Std) (o : Oracle Node) (a b : Node)
    (hrt : OracleRT o C.Scalar_Logical_Expr a) (hrtb : OracleRT o (actionStmtCls std) b)
    (hl : lstrip (o.str a) = o.str a) (hr : rstrip (o.str a) = o.str a)
    (hA : ')' ∉ o.str a) (hBl : lstrip (o.str b) = o.str b)
    (ht : TokId ("IF (".toList ++ o.str a ++ ") ".toList ++ o.str b)) :
    ∃ t, tostrIf o [.node a, .node b] = .ok t ∧
      (planIf std t).bind (runSlots o) = .ok [.node a, .node b] :=
  _root_.Fp.IoStmt.if_match_tostr_fixpoint std o a b hrt hrtb hl hr hA hBl ht

theorem call_match_tostr_fixpoint_1 (o : Oracle Node) (a : Node)
    (hrt : OracleRT o C.Procedure_Designator a) (hl : lstrip (o.str a) = o.str a)
    (hE : endsC ')' (o.str a) = false) (ht : TokId (o.str a)) :
    ∃ t, tostrCall o [.node a, .none] = .ok t ∧
      (planCall t).bind (runSlots o) = .ok [.node a, .none] :=
  _root_.Fp.IoStmt.call_match_tostr_fixpoint_1 o a hrt hl hE ht

theorem call_match_tostr_fixpoint_2 (o : Oracle Node) (a b : Node)
    (hrt : OracleRT o C.Procedure_Designator a) (hrtb : OracleRT o C.Actual_Arg_Spec_List b)
    (hl : lstrip (o.str a) = o.str a) (hr : rstrip (o.str a) = o.str a)
    (hBl : lstrip (o.str b) = o.str b) (hBr : rstrip (o.str b) = o.str b) (hB0 : o.str b ≠ [])
    (hB : '(' ∉ o.str b) (ht : TokId (o.str a ++ "(".toList ++ o.str b ++ ")".toList)) :
    ∃ t, tostrCall o [.node a, .node b] = .ok t ∧
      (planCall t).bind (runSlots o) = .ok [.node a, .node b] :=
  _root_.Fp.IoStmt.call_match_tostr_fixpoint_2 o a b hrt hrtb hl hr hBl hBr hB0 hB ht

theorem deallocate_match_tostr_fixpoint_1 (o : Oracle Node) (a : Node)
    (hrt : OracleRT o C.Allocate_Object_List a)
    (hl : lstrip (o.str a) = o.str a) (hr : rstrip (o.str a) = o.str a) (hA : '=' ∉ o.str a)
    (ht : TokId (o.str a)) :
    ∃ t, tostrDeallocate o [.node a, .none] = .ok t ∧
      ((planDeallocate t).bind (runSlots o)).map swap2 = .ok [.node a, .none] :=
  _root_.Fp.IoStmt.deallocate_match_tostr_fixpoint_1 o a hrt hl hr hA ht

theorem deallocate_match_tostr_fixpoint_2 (o : Oracle Node) (a b : Node) (B1 B2 : Str)
    (hrt : OracleRT o C.Allocate_Object_List a) (hrtb : OracleRT o C.Dealloc_Opt_List b)
    (hl : lstrip (o.str a) = o.str a) (hr : rstrip (o.str a) = o.str a) (hA : '=' ∉ o.str a)
    (hBl : lstrip (o.str b) = o.str b) (hBr : rstrip (o.str b) = o.str b) (hB0 : o.str b ≠ [])
    (hcut : Combi.cutFirst '=' (o.str b) = some (B1, B2)) (hB1 : ',' ∉ B1)
    (ht : TokId (o.str a ++ ", ".toList ++ o.str b)) :
    ∃ t, tostrDeallocate o [.node a, .node b] = .ok t ∧
      ((planDeallocate t).bind (runSlots o)).map swap2 = .ok [.node a, .node b] :=
  _root_.Fp.IoStmt.deallocate_match_tostr_fixpoint_2 o a b B1 B2 hrt hrtb hl hr hA hBl hBr hB0 hcut hB1 ht

theorem loopControlWhile_match_tostr_fixpoint (o : Oracle Node) (c : Node)
    (hrt : OracleRT o C.Scalar_Logical_Expr c)
    (hl : lstrip (o.str c) = o.str c) (hr : rstrip (o.str c) = o.str c) (hX : ')' ∉ o.str c)
    (ht : TokId ("WHILE (".toList ++ o.str c ++ ")".toList)) :
    ∃ t, tostrLoopControl .f2003 o [.node c, .none, .none] = .ok t ∧
      ((planLoopControl .f2003 t).bind (runSlots o)).map (groupLoop (loopTail .f2003)) =
        .ok [.node c, .none, .none] :=
  _root_.Fp.IoStmt.loopControlWhile_match_tostr_fixpoint o c hrt hl hr hX ht

theorem loopControlWhile_match_tostr_fixpoint_comma (o : Oracle Node) (c : Node)
    (hrt : OracleRT o C.Scalar_Logical_Expr c)
    (hl : lstrip (o.str c) = o.str c) (hr : rstrip (o.str c) = o.str c) (hX : ')' ∉ o.str c)
    (ht : TokId ("WHILE (".toList ++ o.str c ++ ")".toList)) :
    ∃ t, tostrLoopControl .f2003 o [.node c, .none, .str ",".toList] = .ok t ∧
      ((planLoopControl .f2003 t).bind (runSlots o)).map (groupLoop (loopTail .f2003)) =
        .ok [.node c, .none, .str ",".toList] :=
  _root_.Fp.IoStmt.loopControlWhile_match_tostr_fixpoint_comma o c hrt hl hr hX ht

theorem loopControlWhile08_match_tostr_fixpoint (o : Oracle Node) (c : Node)
    (hrt : OracleRT o C.Scalar_Logical_Expr c)
    (hl : lstrip (o.str c) = o.str c) (hr : rstrip (o.str c) = o.str c) (hX : ')' ∉ o.str c)
    (ht : TokId ("WHILE (".toList ++ o.str c ++ ")".toList)) :
    ∃ t, tostrLoopControl .f2008 o [.node c, .none, .none, .none] = .ok t ∧
      ((planLoopControl .f2008 t).bind (runSlots o)).map (groupLoop (loopTail .f2008)) =
        .ok [.node c, .none, .none, .none] :=
  _root_.Fp.IoStmt.loopControlWhile08_match_tostr_fixpoint o c hrt hl hr hX ht

theorem print_match_tostr_fixpoint_1_flat (o : Oracle Node) (a : Node)
    (hrt : OracleRT o C.Format a) (hl : lstrip (o.str a) = o.str a) (hA : ',' ∉ o.str a)
    (hf : Combi.Flat (o.str a)) :
    ∃ t, tostrPrint o [.node a, .none] = .ok t ∧
      (planPrint t).bind (runSlots o) = .ok [.node a, .none] :=
  _root_.Fp.IoStmt.print_match_tostr_fixpoint_1_flat o a hrt hl hA hf

theorem print_match_tostr_fixpoint_2_flat (o : Oracle Node) (a b : Node)
    (hrt : OracleRT o C.Format a) (hrtb : OracleRT o C.Output_Item_List b)
    (hl : lstrip (o.str a) = o.str a) (hr : rstrip (o.str a) = o.str a) (hA : ',' ∉ o.str a)
    (hBl : lstrip (o.str b) = o.str b) (hB0 : o.str b ≠ [])
    (hf : Combi.Flat (o.str a ++ ", ".toList ++ o.str b)) :
    ∃ t, tostrPrint o [.node a, .node b] = .ok t ∧
      (planPrint t).bind (runSlots o) = .ok [.node a, .node b] :=
  _root_.Fp.IoStmt.print_match_tostr_fixpoint_2_flat o a b hrt hrtb hl hr hA hBl hB0 hf

theorem read_match_tostr_fixpoint_3_flat (o : Oracle Node) (f b : Node) (c : Char) (F' : Str)
    (hrt : OracleRT o C.Format f) (hrtb : OracleRT o C.Output_Item_List b)
    (hF : o.str f = c :: F') (hc1 : c ≠ '(') (hc2 : isNameStartU c = false)
    (hl : lstrip (o.str f) = o.str f) (hr : rstrip (o.str f) = o.str f) (hFc : ',' ∉ o.str f)
    (hBl : lstrip (o.str b) = o.str b) (hB0 : o.str b ≠ [])
    (hf : Combi.Flat (o.str f ++ ", ".toList ++ o.str b)) :
    ∃ t, tostrRead o [.none, .node f, .node b] = .ok t ∧
      (planRead t).bind (runSlots o) = .ok [.none, .node f, .node b] :=
  _root_.Fp.IoStmt.read_match_tostr_fixpoint_3_flat o f b c F' hrt hrtb hF hc1 hc2 hl hr hFc hBl hB0 hf

theorem call_match_tostr_fixpoint_1_flat (o : Oracle Node) (a : Node)
    (hrt : OracleRT o C.Procedure_Designator a) (hl : lstrip (o.str a) = o.str a)
    (hE : endsC ')' (o.str a) = false) (hf : Combi.Flat (o.str a)) :
    ∃ t, tostrCall o [.node a, .none] = .ok t ∧
      (planCall t).bind (runSlots o) = .ok [.node a, .none] :=
  _root_.Fp.IoStmt.call_match_tostr_fixpoint_1_flat o a hrt hl hE hf

theorem deallocate_match_tostr_fixpoint_1_flat (o : Oracle Node) (a : Node)
    (hrt : OracleRT o C.Allocate_Object_List a)
    (hl : lstrip (o.str a) = o.str a) (hr : rstrip (o.str a) = o.str a) (hA : '=' ∉ o.str a)
    (hf : Combi.Flat (o.str a)) :
    ∃ t, tostrDeallocate o [.node a, .none] = .ok t ∧
      ((planDeallocate t).bind (runSlots o)).map swap2 = .ok [.node a, .none] :=
  _root_.Fp.IoStmt.deallocate_match_tostr_fixpoint_1_flat o a hrt hl hr hA hf

theorem deallocate_match_tostr_fixpoint_2_flat (o : Oracle Node) (a b : Node) (B1 B2 : Str)
    (hrt : OracleRT o C.Allocate_Object_List a) (hrtb : OracleRT o C.Dealloc_Opt_List b)
    (hl : lstrip (o.str a) = o.str a) (hr : rstrip (o.str a) = o.str a) (hA : '=' ∉ o.str a)
    (hBl : lstrip (o.str b) = o.str b) (hBr : rstrip (o.str b) = o.str b) (hB0 : o.str b ≠ [])
    (hcut : Combi.cutFirst '=' (o.str b) = some (B1, B2)) (hB1 : ',' ∉ B1)
    (hf : Combi.Flat (o.str a ++ ", ".toList ++ o.str b)) :
    ∃ t, tostrDeallocate o [.node a, .node b] = .ok t ∧
      ((planDeallocate t).bind (runSlots o)).map swap2 = .ok [.node a, .node b] :=
  _root_.Fp.IoStmt.deallocate_match_tostr_fixpoint_2_flat o a b B1 B2 hrt hrtb hl hr hA hBl hBr hB0 hcut hB1 hf

theorem srm_toks (l : Str) (hF : Free l)
    (hE : FoundsEndOK (expConsts (phase1Text discipline l false))) :
    ∃ r ts, stringReplaceMap l false = some r ∧ r.text = rawJoin ts ∧ WF r.map ts ∧
      squeeze (valJoin ts) = squeeze l :=
  _root_.Fp.Splitline.srm_toks_io l hF hE

theorem srm_head {l : Str} {r : SrmResult} (hr : Combi.tokenise l = some r) {c : Char}
    (hd : isDigit c = false) (hdot : c ≠ '.') (hl : l.head? = some c) :
    r.text.head? = some c :=
  _root_.Fp.IoStmt.srm_head hr hd hdot hl

theorem srm_prefix_alpha {l : Str} {r : SrmResult} (hr : Combi.tokenise l = some r) (p rest : Str)
    (hl : l = p ++ rest) (hp : ∀ c ∈ p, isAlpha c = true) :
    ∃ rest', r.text = p ++ rest' :=
  _root_.Fp.IoStmt.srm_prefix_alpha hr p rest hl hp

/-! ## `match_rejects_unbalanced` (C08): a statement that is matched and whose children print balanced texts IS
    balanced - no parenthesis of the input is silently discarded.  Corollaries of the token theorems
    (`net` is a function of `toks`). -/

theorem balanced_of_tokens {t s : Str} (h : toks t = toks s) (hb : net t = 0) : net s = 0 := by
  rw [← net_eq_of_toks h]; exact hb

theorem Read_Stmt_rejects_unbalanced (o : Oracle Node) (ho : OracleTok o) (s : Str)
    (items : List (Item Node)) (hm : (planRead s).bind (runSlots o) = .ok items)
    (hs : SrmOK (lstrip (s.drop 4)))
    (hbal : ∀ i ∈ items, net (i.text o) = 0) : net s = 0 := by
  obtain ⟨t, _, h1, h2⟩ := _root_.Fp.IoStmt.read_tostr_match_tokens o ho s items hm hs
  exact balanced_of_tokens h1 (h2 hbal)

theorem Print_Stmt_rejects_unbalanced (o : Oracle Node) (ho : OracleTok o) (s : Str)
    (items : List (Item Node)) (hm : (planPrint s).bind (runSlots o) = .ok items)
    (hs : SrmOK (lstrip (s.drop 5)))
    (hbal : ∀ i ∈ items, net (i.text o) = 0) : net s = 0 := by
  obtain ⟨t, _, h1, h2⟩ := _root_.Fp.IoStmt.print_tostr_match_tokens o ho s items hm hs
  exact balanced_of_tokens h1 (h2 hbal)

theorem Inquire_Stmt_rejects_unbalanced (o : Oracle Node) (ho : OracleTok o) (s : Str)
    (items : List (Item Node)) (hm : (planInquire s).bind (runSlots o) = .ok items)
    (hs : endsC ')' (lstrip (s.drop 7)) = false → SrmOK (lstrip (s.drop 7)))
    (hbal : ∀ i ∈ items, net (i.text o) = 0) : net s = 0 := by
  obtain ⟨t, _, h1, h2⟩ := _root_.Fp.IoStmt.inquire_tostr_match_tokens o ho s items hm hs
  exact balanced_of_tokens h1 (h2 hbal)

theorem Io_Control_Spec_rejects_unbalanced (o : Oracle Node) (ho : OracleTok o) (s : Str)
    (items : List (Item Node)) (hm : matchIoControlSpec o s = .ok items)
    (hbal : ∀ i ∈ items, net (i.text o) = 0) : net s = 0 := by
  obtain ⟨t, _, h1, h2⟩ := _root_.Fp.IoStmt.ioControlSpec_tostr_match_tokens o ho s items hm
  exact balanced_of_tokens h1 (h2 hbal)

theorem Alloc_Opt_rejects_unbalanced (std : Std) (o : Oracle Node) (ho : OracleTok o) (s : Str)
    (items : List (Item Node)) (hm : matchAllocOpt std o s = .ok items)
    (hbal : ∀ i ∈ items, net (i.text o) = 0) : net s = 0 := by
  obtain ⟨t, _, h1, h2⟩ := _root_.Fp.IoStmt.allocOpt_tostr_match_tokens std o ho s items hm
  exact balanced_of_tokens h1 (h2 hbal)

theorem Dealloc_Opt_rejects_unbalanced (o : Oracle Node) (ho : OracleTok o) (s : Str)
    (items : List (Item Node)) (hm : matchDeallocOpt o s = .ok items)
    (hbal : ∀ i ∈ items, net (i.text o) = 0) : net s = 0 := by
  obtain ⟨t, _, h1, h2⟩ := _root_.Fp.IoStmt.deallocOpt_tostr_match_tokens o ho s items hm
  exact balanced_of_tokens h1 (h2 hbal)

theorem Io_Control_Spec_List_rejects_unbalanced (o : Oracle Node) (ho : OracleTok o)
    (hb : ∀ name spec n, o.call C.Io_Control_Spec (name ++ '=' :: spec) = .ok n →
      toks (o.rhsStr n) = toks spec)
    (s : Str) (items : List (Item Node)) (hm : matchIoControlSpecList o s = .ok items)
    (hs : SrmOK s)
    (hbal : ∀ i ∈ items, net (i.text o) = 0) : net s = 0 := by
  obtain ⟨t, _, h1, h2⟩ := _root_.Fp.IoStmt.ioControlSpecList_tostr_match_tokens o ho hb s items hm hs
  exact balanced_of_tokens h1 (h2 hbal)

theorem If_Then_Stmt_rejects_unbalanced (o : Oracle Node) (ho : OracleTok o) (s : Str)
    (items : List (Item Node)) (hm : (planIfThen s).bind (runSlots o) = .ok items)
    (hbal : ∀ i ∈ items, net (i.text o) = 0) : net s = 0 := by
  obtain ⟨t, _, h1, h2⟩ := _root_.Fp.IoStmt.ifThen_tostr_match_tokens o ho s items hm
  exact balanced_of_tokens h1 (h2 hbal)

theorem Else_If_Stmt_rejects_unbalanced (o : Oracle Node) (ho : OracleTok o) (s : Str)
    (items : List (Item Node)) (hm : (planElseIf s).bind (runSlots o) = .ok items)
    (hbal : ∀ i ∈ items, net (i.text o) = 0) : net s = 0 := by
  obtain ⟨t, _, h1, h2⟩ := _root_.Fp.IoStmt.elseIf_tostr_match_tokens o ho s items hm
  exact balanced_of_tokens h1 (h2 hbal)

theorem Select_Case_Stmt_rejects_unbalanced (o : Oracle Node) (ho : OracleTok o) (s : Str)
    (items : List (Item Node)) (hm : (planSelectCase s).bind (runSlots o) = .ok items)
    (hbal : ∀ i ∈ items, net (i.text o) = 0) : net s = 0 := by
  obtain ⟨t, _, h1, h2⟩ := _root_.Fp.IoStmt.selectCase_tostr_match_tokens o ho s items hm
  exact balanced_of_tokens h1 (h2 hbal)

theorem Case_Selector_rejects_unbalanced (o : Oracle Node) (ho : OracleTok o) (s : Str)
    (items : List (Item Node)) (hm : (planCaseSelector s).bind (runSlots o) = .ok items)
    (hbal : ∀ i ∈ items, net (i.text o) = 0) : net s = 0 := by
  obtain ⟨t, _, h1, h2⟩ := _root_.Fp.IoStmt.caseSelector_tostr_match_tokens o ho s items hm
  exact balanced_of_tokens h1 (h2 hbal)

theorem Label_Do_Stmt_rejects_unbalanced (o : Oracle Node) (ho : OracleTok o) (s : Str)
    (items : List (Item Node)) (hm : (planLabelDo s).bind (runSlots o) = .ok items)
    (hbal : ∀ i ∈ items, net (i.text o) = 0) : net s = 0 := by
  obtain ⟨t, _, h1, h2⟩ := _root_.Fp.IoStmt.labelDo_tostr_match_tokens o ho s items hm
  exact balanced_of_tokens h1 (h2 hbal)

theorem Loop_Control_rejects_unbalanced (std : Std) (o : Oracle Node) (ho : OracleTok o) (s : Str)
    (items : List (Item Node))
    (hm : ((planLoopControl std s).bind (runSlots o)).map (groupLoop (loopTail std)) = .ok items)
    (hs : SrmOK (let line0 := lrstrip s; if startsC ',' line0 then lstrip (line0.drop 1) else line0))
    (hbal : ∀ i ∈ items, net (i.text o) = 0) : net s = 0 := by
  obtain ⟨t, _, h1, h2⟩ := _root_.Fp.IoStmt.loopControl_tostr_match_tokens std o ho s items hm hs
  exact balanced_of_tokens h1 (h2 hbal)

theorem If_Stmt_rejects_unbalanced (std : Std) (o : Oracle Node) (ho : OracleTok o) (s : Str)
    (items : List (Item Node)) (hm : (planIf std s).bind (runSlots o) = .ok items)
    (hs : SrmOK s)
    (hbal : ∀ i ∈ items, net (i.text o) = 0) : net s = 0 := by
  obtain ⟨t, _, h1, h2⟩ := _root_.Fp.IoStmt.if_tostr_match_tokens std o ho s items hm hs
  exact balanced_of_tokens h1 (h2 hbal)

theorem Case_Stmt_rejects_unbalanced (o : Oracle Node) (ho : OracleTok o) (s : Str)
    (items : List (Item Node)) (hm : ((planCase s).bind (runSlots o)).map swap2 = .ok items)
    (hs : SrmOK (lstrip (s.drop 4)))
    (hbal : ∀ i ∈ items, net (i.text o) = 0) : net s = 0 := by
  obtain ⟨t, _, h1, h2⟩ := _root_.Fp.IoStmt.case_tostr_match_tokens o ho s items hm hs
  exact balanced_of_tokens h1 (h2 hbal)

theorem Where_Stmt_rejects_unbalanced (o : Oracle Node) (ho : OracleTok o) (s : Str)
    (items : List (Item Node)) (hm : (planWhere s).bind (runSlots o) = .ok items)
    (hs : SrmOK (lstrip (s.drop 5)))
    (hbal : ∀ i ∈ items, net (i.text o) = 0) : net s = 0 := by
  obtain ⟨t, _, h1, h2⟩ := _root_.Fp.IoStmt.where_tostr_match_tokens o ho s items hm hs
  exact balanced_of_tokens h1 (h2 hbal)

theorem Forall_Stmt_rejects_unbalanced (o : Oracle Node) (ho : OracleTok o) (s : Str)
    (items : List (Item Node)) (hm : (planForall s).bind (runSlots o) = .ok items)
    (hs : SrmOK (lstrip ((strip s).drop 6)))
    (hbal : ∀ i ∈ items, net (i.text o) = 0) : net s = 0 := by
  obtain ⟨t, _, h1, h2⟩ := _root_.Fp.IoStmt.forall_tostr_match_tokens o ho s items hm hs
  exact balanced_of_tokens h1 (h2 hbal)

theorem Goto_Stmt_rejects_unbalanced (o : Oracle Node) (ho : OracleTok o) (s : Str)
    (items : List (Item Node)) (hm : (planGoto s).bind (runSlots o) = .ok items)
    (hbal : ∀ i ∈ items, net (i.text o) = 0) : net s = 0 := by
  obtain ⟨t, _, h1, h2⟩ := _root_.Fp.IoStmt.goto_tostr_match_tokens o ho s items hm
  exact balanced_of_tokens h1 (h2 hbal)

theorem Deallocate_Stmt_rejects_unbalanced (o : Oracle Node) (ho : OracleTok o) (s : Str)
    (items : List (Item Node))
    (hm : ((planDeallocate s).bind (runSlots o)).map swap2 = .ok items)
    (hs : SrmOK (strip (inner (lstrip (s.drop 10)))))
    (hbal : ∀ i ∈ items, net (i.text o) = 0) : net s = 0 := by
  obtain ⟨t, _, h1, h2⟩ := _root_.Fp.IoStmt.deallocate_tostr_match_tokens o ho s items hm hs
  exact balanced_of_tokens h1 (h2 hbal)

theorem Allocate_Stmt_rejects_unbalanced (o : Oracle Node) (ho : OracleTok o) (s : Str)
    (items : List (Item Node))
    (hm : ((planAllocate s).bind (runSlots o)).map arrangeAllocate = .ok items)
    (hs : SrmOK (strip (inner (lstrip (s.drop 8)))))
    (hbal : ∀ i ∈ items, net (i.text o) = 0) : net s = 0 := by
  obtain ⟨t, _, h1, h2⟩ := _root_.Fp.IoStmt.allocate_tostr_match_tokens o ho s items hm hs
  exact balanced_of_tokens h1 (h2 hbal)

theorem Arithmetic_If_Stmt_rejects_unbalanced (o : Oracle Node) (ho : OracleTok o) (s : Str)
    (items : List (Item Node))
    (hm : ((planArithmeticIf s).bind (runSlots o)).map arrangeArithmeticIf = .ok items)
    (hbal : ∀ i ∈ items, net (i.text o) = 0) : net s = 0 := by
  obtain ⟨t, _, h1, h2⟩ := _root_.Fp.IoStmt.arithmeticIf_tostr_match_tokens o ho s items hm
  exact balanced_of_tokens h1 (h2 hbal)

theorem Forall_Triplet_Spec_rejects_unbalanced (o : Oracle Node) (ho : OracleTok o) (s : Str)
    (items : List (Item Node)) (hm : (planForallTriplet s).bind (runSlots o) = .ok items)
    (hs : SrmOK s)
    (hbal : ∀ i ∈ items, net (i.text o) = 0) : net s = 0 := by
  obtain ⟨t, _, h1, h2⟩ := _root_.Fp.IoStmt.forallTriplet_tostr_match_tokens o ho s items hm hs
  exact balanced_of_tokens h1 (h2 hbal)

theorem Forall_Header_rejects_unbalanced (o : Oracle Node) (ho : OracleTok o) (s : Str)
    (items : List (Item Node)) (hm : matchForallHeader o s = .ok items)
    (hs : o.call C.Forall_Triplet_Spec_List (strip (inner (strip s))) = .noMatch →
      SrmOK (strip (inner (strip s))))
    (hbal : ∀ i ∈ items, net (i.text o) = 0) : net s = 0 := by
  obtain ⟨t, _, h1, h2⟩ := _root_.Fp.IoStmt.forallHeader_tostr_match_tokens o ho s items hm hs
  exact balanced_of_tokens h1 (h2 hbal)

theorem Format_Item_rejects_unbalanced (std : Std) (o : Oracle Node) (ho : OracleTok o)
    (hd : ∀ t n, o.call C.Data_Edit_Desc t = .ok n → o.isDataEdit n = true)
    (hl : ∀ t n, o.call C.Format_Item_List t = .ok n → o.isDataEdit n = false)
    (s : Str) (items : List (Item Node)) (hm : matchFormatItem std o s = .ok items)
    (hbal : ∀ i ∈ items, net (i.text o) = 0) : net s = 0 := by
  obtain ⟨t, _, h1, h2⟩ := _root_.Fp.IoStmt.formatItem_tostr_match_tokens std o ho hd hl s items hm
  exact balanced_of_tokens h1 (h2 hbal)

theorem Control_Edit_Desc_rejects_unbalanced (o : Oracle Node) (ho : OracleTok o) (s : Str)
    (items : List (Item Node)) (hm : (planControlEditDesc s).bind (runSlots o) = .ok items)
    (hbal : ∀ i ∈ items, net (i.text o) = 0) : net s = 0 := by
  obtain ⟨t, _, h1, h2⟩ := _root_.Fp.IoStmt.controlEditDesc_tostr_match_tokens o ho s items hm
  exact balanced_of_tokens h1 (h2 hbal)

theorem WORDClsBase_rejects_unbalanced (o : Oracle Node) (ho : OracleTok o) (kw : Str)
    (cls : Option ClassId) (req : Bool) (s : Str) (items : List (Item Node))
    (hk : net kw = 0)
    (hm : (combiPlan (.word [kw] false cls false req false) s).bind (runSlots o) = .ok items)
    (hbal : ∀ n, Item.node n ∈ items → net (o.str n) = 0) : net s = 0 := by
  obtain ⟨t, _, h1, h2⟩ := _root_.Fp.IoStmt.word_tostr_match_tokens o ho kw cls req s items hk hm
  exact balanced_of_tokens h1 (h2 hbal)

theorem BracketBase_rejects_unbalanced (o : Oracle Node) (ho : OracleTok o) (c : ClassId) (req : Bool)
    (s : Str) (items : List (Item Node))
    (hm : (combiPlan (.bracket "()".toList (some c) req) s).bind (runSlots o) = .ok items)
    (hbal : ∀ n, Item.node n ∈ items → net (o.str n) = 0) : net s = 0 := by
  obtain ⟨t, _, h1, h2⟩ := _root_.Fp.IoStmt.bracket_tostr_match_tokens o ho c req s items hm
  exact balanced_of_tokens h1 (h2 hbal)

theorem KeywordValueBase_cls_rejects_unbalanced (o : Oracle Node) (ho : OracleTok o) (l r : ClassId) (q u : Bool)
    (s : Str) (items : List (Item Node))
    (hm : (combiPlan (.kv (.cls l) r q u) s).bind (runSlots o) = .ok items)
    (hbal : ∀ n, Item.node n ∈ items → net (o.str n) = 0) : net s = 0 := by
  obtain ⟨t, _, h1, h2⟩ := _root_.Fp.IoStmt.kvcls_tostr_match_tokens o ho l r q u s items hm
  exact balanced_of_tokens h1 (h2 hbal)

theorem SequenceBase_rejects_unbalanced (o : Oracle Node) (ho : OracleTok o) (elem : ClassId) (s : Str)
    (items : List (Item Node))
    (hm : (combiPlan (.seq ",".toList elem) s).bind (runSlots o) = .ok items) (hs : SrmOK s)
    (hbal : ∀ n, Item.node n ∈ items → net (o.str n) = 0) : net s = 0 := by
  obtain ⟨t, _, h1, h2⟩ := _root_.Fp.IoStmt.seq_tostr_match_tokens o ho elem s items hm hs
  exact balanced_of_tokens h1 (h2 hbal)

theorem SeparatorBase_rejects_unbalanced (o : Oracle Node) (ho : OracleTok o) (a b : ClassId) (ql qr : Bool)
    (s : Str) (items : List (Item Node))
    (hm : (combiPlan (.sep (some a) (some b) ql qr) s).bind (runSlots o) = .ok items)
    (hs : SrmOK s)
    (hbal : ∀ n, Item.node n ∈ items → net (o.str n) = 0) : net s = 0 := by
  obtain ⟨t, _, h1, h2⟩ := _root_.Fp.IoStmt.sep_tostr_match_tokens o ho a b ql qr s items hm hs
  exact balanced_of_tokens h1 (h2 hbal)

theorem List_rejects_unbalanced (o : Oracle Node) (ho : OracleTok o) (elem : ClassId) (s : Str)
    (items : List (Item Node))
    (hm : (combiPlan (specList elem) s).bind (runSlots o) = .ok items) (hs : SrmOK s)
    (hbal : ∀ n, Item.node n ∈ items → net (o.str n) = 0) : net s = 0 := by
  obtain ⟨t, _, h1, h2⟩ := _root_.Fp.IoStmt.list_tostr_match_tokens o ho elem s items hm hs
  exact balanced_of_tokens h1 (h2 hbal)

theorem Write_Stmt_rejects_unbalanced (o : Oracle Node) (ho : OracleTok o) (s : Str)
    (items : List (Item Node)) (hm : (planWrite s).bind (runSlots o) = .ok items)
    (hs : SrmOK (lstrip (s.drop 5))) (hb : ∀ i ∈ items, net (i.text o) = 0) : net s = 0 := by
  obtain ⟨t, ht, h1⟩ := _root_.Fp.IoStmt.write_tostr_match_tokens o ho s items hm hs
  exact balanced_of_tokens h1 (_root_.Fp.IoStmt.write_print_balanced o items t ht hb)

/-! ## the dispatch used by the driver and the co-simulation IS these plans -/

theorem matchOf_plan (std : Std) (o : Oracle Node) (c : ClassId) (s : Str) (plan : Str → Res (List Slot))
    (h : planOf std c = some plan) :
    matchOf std o c s = some (((plan s).bind (runSlots o)).map (arrangeOf std c)) := by
  unfold matchOf; rw [h]

theorem dispatch_plans (std : Std) :
    planOf std C.Write_Stmt = some planWrite ∧ planOf std C.Read_Stmt = some planRead ∧
    planOf std C.Print_Stmt = some planPrint ∧ planOf std C.Inquire_Stmt = some planInquire ∧
    planOf std C.Format_Item_List = some planFormatItemList ∧
    planOf std C.Control_Edit_Desc = some planControlEditDesc ∧
    planOf std C.Loop_Control = some (planLoopControl std) ∧ planOf std C.Label_Do_Stmt = some planLabelDo ∧
    planOf std C.If_Stmt = some (planIf std) ∧ planOf std C.If_Then_Stmt = some planIfThen ∧
    planOf std C.Else_If_Stmt = some planElseIf ∧ planOf std C.Select_Case_Stmt = some planSelectCase ∧
    planOf std C.Case_Stmt = some planCase ∧ planOf std C.Case_Selector = some planCaseSelector ∧
    planOf std C.Where_Stmt = some planWhere ∧ planOf std C.Forall_Triplet_Spec = some planForallTriplet ∧
    planOf std C.Forall_Stmt = some planForall ∧ planOf std C.Allocate_Stmt = some planAllocate ∧
    planOf std C.Deallocate_Stmt = some planDeallocate ∧ planOf std C.Goto_Stmt = some planGoto ∧
    planOf std C.Computed_Goto_Stmt = some planComputedGoto ∧
    planOf std C.Arithmetic_If_Stmt = some planArithmeticIf ∧ planOf std C.Call_Stmt = some planCall ∧
    planOf std C.Close_Stmt = some (combiPlan specClose) ∧ planOf std C.Nullify_Stmt = some (combiPlan specNullify) ∧
    planOf std C.Format_Stmt = some (combiPlan specFormatStmt) ∧
    planOf std C.Format_Specification = some (combiPlan specFormatSpecification) ∧
    planOf std C.Nonlabel_Do_Stmt = some (combiPlan specNonlabelDo) ∧ planOf std C.Stop_Stmt = some (combiPlan specStop) ∧
    planOf std C.Error_Stop_Stmt = some (combiPlan specErrorStop) ∧
    planOf std C.Allocation = some (combiPlan specAllocation) ∧
    planOf std C.Actual_Arg_Spec_List = some (combiPlan (specList C.Actual_Arg_Spec)) := by
  refine ⟨rfl, rfl, rfl, rfl, rfl, rfl, rfl, rfl, rfl, rfl, rfl, rfl, rfl, rfl, rfl, rfl, rfl, rfl, rfl, rfl, rfl, rfl,
    rfl, rfl, rfl, rfl, rfl, rfl, rfl, rfl, rfl, rfl⟩

/-! ## non-vacuity: the hypotheses are satisfiable on real statements (a toy oracle that accepts every non-empty text and
    prints it back: it keeps tokens) -/

def echo : Oracle Str :=
  { call := fun _ s => if s.isEmpty then .noMatch else .ok s, str := id, head := fun _ => none,
    rhsStr := id, heads := fun _ => [], isDataEdit := fun s => !s.contains ',' && !s.contains '(' }

theorem echo_tok : OracleTok echo := by
  intro c t n h
  simp only [echo] at h
  split at h
  · cases h
  · cases h; rfl

theorem echo_total : OracleTotal echo := by
  intro c t e h
  simp only [echo] at h
  split at h <;> cases h

set_option maxRecDepth 20000 in
example : (planWrite "write(*,*) a(1), 'x)'".toList).bind (runSlots echo)
      = .ok [.node "*,*".toList, .node "a(1), 'x)'".toList] ∧
    SrmOK (lstrip ("write(*,*) a(1), 'x)'".toList.drop 5)) := by decide +kernel
set_option maxRecDepth 20000 in
example : (planRead "READ (5, fmt=10) a, b(i)".toList).bind (runSlots echo)
      = .ok [.node "5, fmt=10".toList, .none, .node "a, b(i)".toList] ∧
    SrmOK (lstrip ("READ (5, fmt=10) a, b(i)".toList.drop 4)) := by decide +kernel
set_option maxRecDepth 20000 in
example : (planPrint "print '(a)', x(1)".toList).bind (runSlots echo)
      = .ok [.node "'(a)'".toList, .node "x(1)".toList] ∧
    SrmOK (lstrip ("print '(a)', x(1)".toList.drop 5)) := by decide +kernel
set_option maxRecDepth 20000 in
example : (planIf .f2008 "if (a(1) > 0) call s(b)".toList).bind (runSlots echo)
      = .ok [.node "a(1) > 0".toList, .node "call s(b)".toList] ∧
    SrmOK "if (a(1) > 0) call s(b)".toList := by decide +kernel
set_option maxRecDepth 20000 in
example : ((planLoopControl .f2008 ", while (f(x) .and. y)".toList).bind (runSlots echo)).map
        (groupLoop (loopTail .f2008))
      = .ok [.node "f(x) .and. y".toList, .none, .str ",".toList, .none] := by decide +kernel
set_option maxRecDepth 20000 in
example : ((planLoopControl .f2003 "i = 1, n(2), 2".toList).bind (runSlots echo)).map (groupLoop (loopTail .f2003))
      = .ok [.none, .node "i".toList, .nodes ["1".toList, "n(2)".toList, "2".toList], .none] := by decide +kernel
set_option maxRecDepth 20000 in
example : ((planLoopControl .f2008 "concurrent (i=1:n, a(i)>0)".toList).bind (runSlots echo)).map
        (groupLoop (loopTail .f2008))
      = .ok [.none, .none, .none, .node "(i=1:n, a(i)>0)".toList] := by decide +kernel
/-- C08: the closing parenthesis of `WHILE (…)` must be the last character -/
example : planLoopControl .f2003 "while (c))".toList = .noMatch ∧
    planLoopControl .f2003 "while (c) x".toList = .noMatch := by decide +kernel
set_option maxRecDepth 20000 in
example : ((planAllocate "allocate(real :: a(n), b(m), stat=i)".toList).bind (runSlots echo)).map arrangeAllocate
      = .ok [.node "real".toList, .node "a(n), b(m)".toList, .node "stat=i".toList] ∧
    SrmOK (strip (inner (lstrip ("allocate(real :: a(n), b(m), stat=i)".toList.drop 8)))) := by decide +kernel
set_option maxRecDepth 20000 in
example : (planCall "call obj%m(a(1), k='x)')".toList).bind (runSlots echo)
      = .ok [.node "obj%m".toList, .node "a(1), k='x)'".toList] ∧
    SrmOK (lstrip ("call obj%m(a(1), k='x)')".toList.drop 4)) := by decide +kernel
set_option maxRecDepth 20000 in
example : (planFormatItemList "i3/2(a4),1x:e10.3".toList).bind (runSlots echo)
      = .ok [.node "i3".toList, .node "/".toList, .node "2(a4)".toList, .node "1x".toList, .node ":".toList,
             .node "e10.3".toList] ∧
    loopOK (2 * (lstrip "i3/2(a4),1x:e10.3".toList).length + 2) (lstrip "i3/2(a4),1x:e10.3".toList) = true := by
  decide +kernel
set_option maxRecDepth 20000 in
example : matchIoControlSpecList echo "6, '(a)', iostat=ios".toList
      = .ok [.bare "unit=6".toList, .bare "nml='(a)'".toList, .node "iostat=ios".toList] ∧
    SrmOK "6, '(a)', iostat=ios".toList := by decide +kernel
set_option maxRecDepth 20000 in
example : ((planCase "case default nm".toList).bind (runSlots echo)).map swap2
      = .ok [.node "default".toList, .node "nm".toList] ∧
    SrmOK (lstrip ("case default nm".toList.drop 4)) := by decide +kernel
set_option maxRecDepth 20000 in
example : (planWhere "where (m(1) > 0) a = b(2)".toList).bind (runSlots echo)
      = .ok [.node "m(1) > 0".toList, .node "a = b(2)".toList] ∧
    SrmOK (lstrip ("where (m(1) > 0) a = b(2)".toList.drop 5)) := by decide +kernel
/-- the F2008 guard: a lone `*` is no match, not an IndexError -/
example : planFormatItemStar "*".toList = .noMatch ∧ planFormatItemStar " * ".toList = .noMatch := by decide +kernel
/-- CALLBase: the hypothesis `CallEndOK` holds for an ordinary statement and fails for the witness -/
example : CallEndOK "CLOSE(10, status='keep')".toList ∧ SrmOK "CLOSE(10, status='keep')".toList := by
  decide +kernel
/-- the fixpoint hypothesis `TokId` on a printed line with a parenthesised name -/
example : TokId "(u) x".toList := by decide +kernel



end Fp.IoStmt.Props

#print axioms Fp.IoStmt.Props.Write_Stmt_tostr_match_tokens
#print axioms Fp.IoStmt.Props.Write_Stmt_print_balanced
#print axioms Fp.IoStmt.Props.Read_Stmt_tostr_match_tokens
#print axioms Fp.IoStmt.Props.Print_Stmt_tostr_match_tokens
#print axioms Fp.IoStmt.Props.Inquire_Stmt_tostr_match_tokens
#print axioms Fp.IoStmt.Props.Io_Control_Spec_tostr_match_tokens
#print axioms Fp.IoStmt.Props.Connect_Spec_tostr_match_tokens
#print axioms Fp.IoStmt.Props.Connect_Spec_invents_unit
#print axioms Fp.IoStmt.Props.Inquire_Spec_tostr_match_tokens
#print axioms Fp.IoStmt.Props.Close_Spec_tostr_match_tokens
#print axioms Fp.IoStmt.Props.Alloc_Opt_tostr_match_tokens
#print axioms Fp.IoStmt.Props.Dealloc_Opt_tostr_match_tokens
#print axioms Fp.IoStmt.Props.Io_Control_Spec_List_tostr_match_tokens
#print axioms Fp.IoStmt.Props.If_Then_Stmt_tostr_match_tokens
#print axioms Fp.IoStmt.Props.Else_If_Stmt_tostr_match_tokens
#print axioms Fp.IoStmt.Props.Select_Case_Stmt_tostr_match_tokens
#print axioms Fp.IoStmt.Props.Case_Selector_tostr_match_tokens
#print axioms Fp.IoStmt.Props.Label_Do_Stmt_tostr_match_tokens
#print axioms Fp.IoStmt.Props.Loop_Control_tostr_match_tokens
#print axioms Fp.IoStmt.Props.If_Stmt_tostr_match_tokens
#print axioms Fp.IoStmt.Props.Case_Stmt_tostr_match_tokens
#print axioms Fp.IoStmt.Props.Where_Stmt_tostr_match_tokens
#print axioms Fp.IoStmt.Props.Forall_Stmt_tostr_match_tokens
#print axioms Fp.IoStmt.Props.Goto_Stmt_tostr_match_tokens
#print axioms Fp.IoStmt.Props.Call_Stmt_tostr_match_tokens
#print axioms Fp.IoStmt.Props.Computed_Goto_Stmt_tostr_match_tokens
#print axioms Fp.IoStmt.Props.Deallocate_Stmt_tostr_match_tokens
#print axioms Fp.IoStmt.Props.Allocate_Stmt_tostr_match_tokens
#print axioms Fp.IoStmt.Props.Arithmetic_If_Stmt_tostr_match_tokens
#print axioms Fp.IoStmt.Props.Forall_Triplet_Spec_tostr_match_tokens
#print axioms Fp.IoStmt.Props.Forall_Header_tostr_match_tokens
#print axioms Fp.IoStmt.Props.Format_Item_tostr_match_tokens
#print axioms Fp.IoStmt.Props.Control_Edit_Desc_tostr_match_tokens
#print axioms Fp.IoStmt.Props.Format_Item_List_tostr_match_tokens
#print axioms Fp.IoStmt.Props.WORDClsBase_tostr_match_tokens
#print axioms Fp.IoStmt.Props.BracketBase_tostr_match_tokens
#print axioms Fp.IoStmt.Props.KeywordValueBase_cls_tostr_match_tokens
#print axioms Fp.IoStmt.Props.SequenceBase_tostr_match_tokens
#print axioms Fp.IoStmt.Props.List_tostr_match_tokens
#print axioms Fp.IoStmt.Props.SeparatorBase_tostr_match_tokens
#print axioms Fp.IoStmt.Props.CALLBase_tostr_match_tokens_partial
#print axioms Fp.IoStmt.Props.CallBase_tostr_match_tokens_partial
#print axioms Fp.IoStmt.Props.CALLBase_drops_text
#print axioms Fp.IoStmt.Props.CALLBase_invents_paren
#print axioms Fp.IoStmt.Props.CallBase_drops_text
#print axioms Fp.IoStmt.Props.Open_Stmt_2003_tostr_match_tokens_partial
#print axioms Fp.IoStmt.Props.Open_Stmt_2008_tostr_match_tokens_partial
#print axioms Fp.IoStmt.Props.Close_Stmt_tostr_match_tokens_partial
#print axioms Fp.IoStmt.Props.Nullify_Stmt_tostr_match_tokens_partial
#print axioms Fp.IoStmt.Props.Allocation_tostr_match_tokens_partial
#print axioms Fp.IoStmt.Props.Format_Stmt_tostr_match_tokens
#print axioms Fp.IoStmt.Props.Format_Specification_tostr_match_tokens
#print axioms Fp.IoStmt.Props.Nonlabel_Do_Stmt_tostr_match_tokens
#print axioms Fp.IoStmt.Props.Stop_Stmt_tostr_match_tokens
#print axioms Fp.IoStmt.Props.Error_Stop_Stmt_tostr_match_tokens
#print axioms Fp.IoStmt.Props.Forall_Construct_Stmt_tostr_match_tokens
#print axioms Fp.IoStmt.Props.Actual_Arg_Spec_tostr_match_tokens
#print axioms Fp.IoStmt.Props.Case_Value_Range_tostr_match_tokens
#print axioms Fp.IoStmt.Props.Actual_Arg_Spec_List_tostr_match_tokens
#print axioms Fp.IoStmt.Props.Connect_Spec_List_tostr_match_tokens
#print axioms Fp.IoStmt.Props.Close_Spec_List_tostr_match_tokens
#print axioms Fp.IoStmt.Props.Inquire_Spec_List_tostr_match_tokens
#print axioms Fp.IoStmt.Props.Alloc_Opt_List_tostr_match_tokens
#print axioms Fp.IoStmt.Props.Dealloc_Opt_List_tostr_match_tokens
#print axioms Fp.IoStmt.Props.Allocation_List_tostr_match_tokens
#print axioms Fp.IoStmt.Props.Case_Value_Range_List_tostr_match_tokens
#print axioms Fp.IoStmt.Props.Forall_Triplet_Spec_List_tostr_match_tokens
#print axioms Fp.IoStmt.Props.match_total
#print axioms Fp.IoStmt.Props.plan_match_total
#print axioms Fp.IoStmt.Props.Format_Item_List_match_total
#print axioms Fp.IoStmt.Props.Format_Item_List_hollerith_count_int
#print axioms Fp.IoStmt.Props.Format_Item_List_blank_count_regression
#print axioms Fp.IoStmt.Props.Format_Item_List_blank_count_no_escape
#print axioms Fp.IoStmt.Props.Format_Item_List_blank_count_accepts
#print axioms Fp.IoStmt.Props.Format_Item_List_raises_nothing
#print axioms Fp.IoStmt.Props.Format_Item_match_total
#print axioms Fp.IoStmt.Props.Format_Item_2008_index_safe
#print axioms Fp.IoStmt.Props.Format_Item_2008_guard_needed
#print axioms Fp.IoStmt.Props.matchIoControlSpecList_total
#print axioms Fp.IoStmt.Props.matchOpen_total
#print axioms Fp.IoStmt.Props.matchForallHeader_total
#print axioms Fp.IoStmt.Props.matchConnectSpec_total
#print axioms Fp.IoStmt.Props.ifThen_match_tostr_fixpoint
#print axioms Fp.IoStmt.Props.selectCase_match_tostr_fixpoint
#print axioms Fp.IoStmt.Props.elseIf_match_tostr_fixpoint_1
#print axioms Fp.IoStmt.Props.elseIf_match_tostr_fixpoint_2
#print axioms Fp.IoStmt.Props.caseSelector_match_tostr_fixpoint_default
#print axioms Fp.IoStmt.Props.caseSelector_match_tostr_fixpoint
#print axioms Fp.IoStmt.Props.goto_match_tostr_fixpoint
#print axioms Fp.IoStmt.Props.computedGoto_match_tostr_fixpoint
#print axioms Fp.IoStmt.Props.inquire_match_tostr_fixpoint_1
#print axioms Fp.IoStmt.Props.arithmeticIf_match_tostr_fixpoint
#print axioms Fp.IoStmt.Props.labelDo_match_tostr_fixpoint_1
#print axioms Fp.IoStmt.Props.labelDo_match_tostr_fixpoint_2
#print axioms Fp.IoStmt.Props.controlEditDesc_match_tostr_fixpoint_bare
#print axioms Fp.IoStmt.Props.controlEditDesc_match_tostr_fixpoint_slash
#print axioms Fp.IoStmt.Props.controlEditDesc_match_tostr_fixpoint_P
#print axioms Fp.IoStmt.Props.formatItem_match_tostr_fixpoint_data
#print axioms Fp.IoStmt.Props.formatItem_match_tostr_fixpoint_rdata
#print axioms Fp.IoStmt.Props.formatItem_match_tostr_fixpoint_paren
#print axioms Fp.IoStmt.Props.formatItem_match_tostr_fixpoint_rparen
#print axioms Fp.IoStmt.Props.concurrent_match_tostr_fixpoint
#print axioms Fp.IoStmt.Props.concurrent_match_tostr_fixpoint_comma
#print axioms Fp.IoStmt.Props.write_match_tostr_fixpoint_1
#print axioms Fp.IoStmt.Props.write_match_tostr_fixpoint_2
#print axioms Fp.IoStmt.Props.print_match_tostr_fixpoint_1
#print axioms Fp.IoStmt.Props.print_match_tostr_fixpoint_2
#print axioms Fp.IoStmt.Props.read_match_tostr_fixpoint_1
#print axioms Fp.IoStmt.Props.read_match_tostr_fixpoint_2
#print axioms Fp.IoStmt.Props.read_match_tostr_fixpoint_3
#print axioms Fp.IoStmt.Props.where_match_tostr_fixpoint
#print axioms Fp.IoStmt.Props.if_match_tostr_fixpoint
#print axioms Fp.IoStmt.Props.call_match_tostr_fixpoint_1
#print axioms Fp.IoStmt.Props.call_match_tostr_fixpoint_2
#print axioms Fp.IoStmt.Props.deallocate_match_tostr_fixpoint_1
#print axioms Fp.IoStmt.Props.deallocate_match_tostr_fixpoint_2
#print axioms Fp.IoStmt.Props.loopControlWhile_match_tostr_fixpoint
#print axioms Fp.IoStmt.Props.loopControlWhile_match_tostr_fixpoint_comma
#print axioms Fp.IoStmt.Props.loopControlWhile08_match_tostr_fixpoint
#print axioms Fp.IoStmt.Props.print_match_tostr_fixpoint_1_flat
#print axioms Fp.IoStmt.Props.print_match_tostr_fixpoint_2_flat
#print axioms Fp.IoStmt.Props.read_match_tostr_fixpoint_3_flat
#print axioms Fp.IoStmt.Props.call_match_tostr_fixpoint_1_flat
#print axioms Fp.IoStmt.Props.deallocate_match_tostr_fixpoint_1_flat
#print axioms Fp.IoStmt.Props.deallocate_match_tostr_fixpoint_2_flat
#print axioms Fp.IoStmt.Props.srm_toks
#print axioms Fp.IoStmt.Props.srm_head
#print axioms Fp.IoStmt.Props.srm_prefix_alpha
#print axioms Fp.IoStmt.Props.Read_Stmt_rejects_unbalanced
#print axioms Fp.IoStmt.Props.Print_Stmt_rejects_unbalanced
#print axioms Fp.IoStmt.Props.Inquire_Stmt_rejects_unbalanced
#print axioms Fp.IoStmt.Props.Io_Control_Spec_rejects_unbalanced
#print axioms Fp.IoStmt.Props.Alloc_Opt_rejects_unbalanced
#print axioms Fp.IoStmt.Props.Dealloc_Opt_rejects_unbalanced
#print axioms Fp.IoStmt.Props.Io_Control_Spec_List_rejects_unbalanced
#print axioms Fp.IoStmt.Props.If_Then_Stmt_rejects_unbalanced
#print axioms Fp.IoStmt.Props.Else_If_Stmt_rejects_unbalanced
#print axioms Fp.IoStmt.Props.Select_Case_Stmt_rejects_unbalanced
#print axioms Fp.IoStmt.Props.Case_Selector_rejects_unbalanced
#print axioms Fp.IoStmt.Props.Label_Do_Stmt_rejects_unbalanced
#print axioms Fp.IoStmt.Props.Loop_Control_rejects_unbalanced
#print axioms Fp.IoStmt.Props.If_Stmt_rejects_unbalanced
#print axioms Fp.IoStmt.Props.Case_Stmt_rejects_unbalanced
#print axioms Fp.IoStmt.Props.Where_Stmt_rejects_unbalanced
#print axioms Fp.IoStmt.Props.Forall_Stmt_rejects_unbalanced
#print axioms Fp.IoStmt.Props.Goto_Stmt_rejects_unbalanced
#print axioms Fp.IoStmt.Props.Deallocate_Stmt_rejects_unbalanced
#print axioms Fp.IoStmt.Props.Allocate_Stmt_rejects_unbalanced
#print axioms Fp.IoStmt.Props.Arithmetic_If_Stmt_rejects_unbalanced
#print axioms Fp.IoStmt.Props.Forall_Triplet_Spec_rejects_unbalanced
#print axioms Fp.IoStmt.Props.Forall_Header_rejects_unbalanced
#print axioms Fp.IoStmt.Props.Format_Item_rejects_unbalanced
#print axioms Fp.IoStmt.Props.Control_Edit_Desc_rejects_unbalanced
#print axioms Fp.IoStmt.Props.WORDClsBase_rejects_unbalanced
#print axioms Fp.IoStmt.Props.BracketBase_rejects_unbalanced
#print axioms Fp.IoStmt.Props.KeywordValueBase_cls_rejects_unbalanced
#print axioms Fp.IoStmt.Props.SequenceBase_rejects_unbalanced
#print axioms Fp.IoStmt.Props.SeparatorBase_rejects_unbalanced
#print axioms Fp.IoStmt.Props.List_rejects_unbalanced
#print axioms Fp.IoStmt.Props.Write_Stmt_rejects_unbalanced
