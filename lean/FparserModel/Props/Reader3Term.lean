import FparserModel.Proofs.Reader3TermCheck
import FparserModel.Proofs.Reader3TermSemiRead

/-!
# Props/Reader3Term — property C06 "terminates", reader part

Draining the modelled reader (`drainEv`: repeated `get_item` until the reader is exhausted) never
runs out of fuel once the fuel exceeds the *weight* of the reader state

    r.weight = len(fifo_item) + 2 * (pending source lines + len(filo_line))

for EVERY reader state `r` (free and fixed form, any flags, arbitrary source text: quotes, `&`,
`!`, cpp lines, syntax-error lines, lines whose exception `next` maps to `None` …), under

* (H1) `NoFiles fs`  : no INCLUDE line resolves (the file system has no regular file), and
* (H2) `NoSplit r`   : no logical line of the run is split at a top-level `;`
                       (a predicate on states that is closed under `_next`: `NoSplit.step`).

The bound `weight + 1` is exact (`drain_bound_tight_witness`): the naive bound
"physical lines + buffered items + 1" is FALSE, because one physical line `x = 1 ! c` yields a
`Line` item and a queued inline `Comment` item. Without (H2) no bound in terms of line counts
exists (`drain_semicolon_exceeds_bound_witness`): `splitSemicolon` pushes the extra parts of a
`;` line on the FIFO.

(H2) has a purely syntactic sufficient condition (`noSplit_of_no_semicolon`): no `;` character in
any pending source line, pushed-back line or buffered `Line` item. It rests on "item text
characters come from the source" (`Proofs/Reader3TermSemiLine`, `…SemiRead`) and
"`string_replace_map` introduces no `;`" (`Proofs/Reader3TermSemiSrm.stringReplaceMap_ns`).
For a fresh reader this gives the hypothesis-free-in-the-run statement `drain_fresh_total`:
`2 * len(lines) + 1` calls of `get_item` always suffice.

The internal fuels of the model are never the reason for progress or for an answer: the weight
lemmas for `cppLoop` / `freeLoop` / `fixLoop` hold for every fuel value
(`Proofs/Reader3TermLoops`), the comment-skipping loop `nextRaw` only needs `fuel > weight`
(`nextRaw_prog`, `nextRawFuel = weight + 3`), and under (H2) `next1Loop` returns in its first
round (`next1_eq_nextRaw`).
-/
namespace Fp.Reader
open Fp

/-- (H1) reduction: when no INCLUDE can resolve, `get_item` on a reader without include reader is
    `_next` with `Exception → None`; the chain of readers stays the singleton. -/
theorem getItem_no_include (d : Nat) (fs : Fs) (r : Rd) (h : NoFiles fs) :
    getItem (d + 1) fs [r] = (errToStop (next1 r).1, [(next1 r).2]) :=
  getItem_single_noFiles d fs r h

/-- every round of the comment-skipping loop of `_next` (with its real fuel) makes progress, for
    every reader state — no hypothesis: the weight never grows, it drops unless the answer is
    `stop`, a `stop` drops it or leaves the reader exhausted (closed, both buffers empty), and
    `unsup` is never answered. -/
theorem raw_next_progress (r : Rd) :
    (nextRaw (nextRawFuel r) r).2.weight ≤ r.weight ∧
    ((nextRaw (nextRawFuel r) r).1 ≠ .stop → (nextRaw (nextRawFuel r) r).2.weight < r.weight) ∧
    ((nextRaw (nextRawFuel r) r).1 = .stop →
      exhausted [(nextRaw (nextRawFuel r) r).2] = true ∨ (nextRaw (nextRawFuel r) r).2.weight < r.weight) ∧
    (nextRaw (nextRawFuel r) r).1 ≠ .unsup :=
  let h := nextRaw_fuel_prog r
  ⟨h.le, h.lt, h.stop, h.sup⟩

/-- the measure lemma for `_next`: if the raw item of this call has no top-level `;`, the call
    makes progress (as above). An item (`ok`), an `Exception` (`err`) and `SystemExit` (`exit`) all
    strictly lower the weight. -/
theorem next_progress (r : Rd)
    (h : ∀ it r', nextRaw (nextRawFuel r) r = (.ok it, r') → NoSemi it) :
    (next1 r).2.weight ≤ r.weight ∧
    ((next1 r).1 ≠ .stop → (next1 r).2.weight < r.weight) ∧
    ((next1 r).1 = .stop → exhausted [(next1 r).2] = true ∨ (next1 r).2.weight < r.weight) ∧
    (next1 r).1 ≠ .unsup :=
  let hp := next1_prog r h
  ⟨hp.le, hp.lt, hp.stop, hp.sup⟩

/-- (H2) is closed under `_next` -/
theorem noSplit_closed (r : Rd) (h : NoSplit r) : NoSplit (next1 r).2 := h.step

/-- C06 `drain_total`: with at least `weight + 1` calls the drain is complete, and its result does
    not depend on the fuel. At most `weight` events are produced, `unsup` never occurs, the reader
    chain is still a singleton, and unless the last event is `exit` (`SystemExit`) the reader ends
    exhausted: closed, `filo_line` and `fifo_item` empty. -/
theorem drain_total (d : Nat) (fs : Fs) (r : Rd) (h1 : NoFiles fs) (h2 : NoSplit r) :
    ∃ evs fin, (∀ fuel, r.weight + 1 ≤ fuel → drainEv (d + 1) fs fuel [r] = some (evs, [fin])) ∧
      evs.length ≤ r.weight ∧ Ev.unsup ∉ evs ∧
      (exhausted [fin] = true ∨ evs.getLast? = some .exit) := by
  obtain ⟨evs, fin, h, rest⟩ := drain_noFiles_aux d fs h1 (r.weight + 1) r h2 (Nat.le_refl _)
  refine ⟨evs, fin, fun fuel hf => ?_, rest⟩
  obtain ⟨k, rfl⟩ := Nat.exists_eq_add_of_le hf
  exact drainEv_mono_add (d + 1) fs _ k _ _ h

/-- C06 `drain_terminates`: the drain relation is total on single readers under (H1), (H2) -/
theorem drain_terminates (d : Nat) (fs : Fs) (r : Rd) (h1 : NoFiles fs) (h2 : NoSplit r) :
    ∃ evs fin, Drains (d + 1) fs [r] evs [fin] ∧
      (exhausted [fin] = true ∨ evs.getLast? = some .exit) := by
  obtain ⟨evs, fin, h, _, _, he⟩ := drain_total d fs r h1 h2
  exact ⟨evs, fin, ⟨_, h _ (Nat.le_refl _)⟩, he⟩

/-- a syntactic sufficient condition for (H2): no `;` character in any pending source line, in any
    pushed-back line, nor in the text of any buffered `Line` item (comment items are free).
    The condition is preserved by `_next` (`Clean.step`), item texts are assembled from
    characters of the source lines and blanks only, and `string_replace_map` introduces no `;`. -/
theorem noSplit_of_no_semicolon (r : Rd) (hsrc : ∀ l ∈ r.src, ';' ∉ l) (hfilo : ∀ l ∈ r.filo, ';' ∉ l)
    (hfifo : ∀ it ∈ r.fifo, ∀ text l n s e, it.lineView = some (text, l, n, s, e) → ';' ∉ text) :
    NoSplit r :=
  Clean.noSplit
    ⟨fun l hl _ hc he => hsrc l hl (he ▸ hc), fun l hl _ hc he => hfilo l hl (he ▸ hc),
     fun it hit text l n s e hv _ hc he => hfifo it hit text l n s e hv (he ▸ hc)⟩

/-- C06 for a freshly constructed reader (`FortranReaderBase.__init__`, free or fixed form, any
    flags) over ANY source text without the character `;`, when no INCLUDE can resolve:
    `2 * len(lines) + 1` calls of `get_item` complete the drain, whatever the lines contain. -/
theorem drain_fresh_total (d : Nat) (fs : Fs) (src : List Str) (isFree ic omp pd : Bool)
    (dirs : List Str) (h1 : NoFiles fs) (h2 : ∀ l ∈ src, ';' ∉ l) :
    ∃ evs fin, (∀ fuel, 2 * src.length + 1 ≤ fuel →
        drainEv (d + 1) fs fuel [Rd.mk' src isFree ic omp pd dirs] = some (evs, [fin])) ∧
      evs.length ≤ 2 * src.length ∧ Ev.unsup ∉ evs ∧
      (exhausted [fin] = true ∨ evs.getLast? = some .exit) := by
  have hw : (Rd.mk' src isFree ic omp pd dirs).weight = 2 * src.length := by
    simp [Rd.weight, Rd.mk']
  have := drain_total d fs (Rd.mk' src isFree ic omp pd dirs) h1
    (noSplit_of_no_semicolon _ h2 (fun _ hl => by cases hl) (fun _ hl => by cases hl))
  rw [hw] at this
  exact this

/-! ## witnesses -/

def mkRd (src : List String) (free : Bool) (ic : Bool := false) : Rd :=
  Rd.mk' (src.map String.toList) free ic false false []

/-- the bound `weight + 1` is exact, and the naive bound "physical lines + buffered items + 1" (= 2
    here) is false: one physical line `x = 1 ! c` (comments kept) has weight 2, satisfies (H2),
    and needs 3 calls: the `Line`, the queued inline `Comment`, the final `None`. -/
theorem drain_bound_tight_witness :
    (mkRd ["x = 1 ! c"] true).weight = 2 ∧ noSplitUpTo 3 (mkRd ["x = 1 ! c"] true) = true ∧
    drainEv 1 [] 2 [mkRd ["x = 1 ! c"] true] = none ∧
    (drainEv 1 [] 3 [mkRd ["x = 1 ! c"] true]).map (·.1) =
      some [.item (.line "x = 1".toList none none 1 1), .item (.comment "! c".toList 1 1 true)] := by
  decide +kernel

/-- (H2) is necessary: one physical line `a;b;c;d;e;f` has weight 2 but needs 7 calls -/
theorem drain_semicolon_exceeds_bound_witness :
    (mkRd ["a;b;c;d;e;f"] true).weight = 2 ∧
    drainEv 1 [] 3 [mkRd ["a;b;c;d;e;f"] true] = none ∧
    drainEv 1 [] 6 [mkRd ["a;b;c;d;e;f"] true] = none ∧
    (drainEv 1 [] 7 [mkRd ["a;b;c;d;e;f"] true]).isSome = true := by
  decide +kernel

/-! ## non-vacuity -/

example : NoFiles [] := NoFiles.nil

/-- (H2) for a free-form source with label, construct name, a `;` inside a literal, continuation,
    comment and blank lines inside the statement, inline comments, a continued cpp line, a
    label-only line and a quoted apostrophe -/
example : NoSplit (mkRd ["10 nm: x = 'a;b' & ! c", "  ! note", "", "   & + 2 ! d", "#define X \\", "1",
    "20", "y = \"it's\" ! e"] true) :=
  noSplitUpTo_sound 9 _ (by decide +kernel)

/-- (H2) for a fixed-form source: continuation line, comment line inside the statement, cpp line,
    and a label field with an embedded blank (`int("1 2")` raises: a `None` event mid-drain) -/
example : NoSplit (mkRd ["      x = 'a;b' ! c", "c comment", "     & + 2 ! d", "#define X \\", "1",
    " 1 2  y = 2", "      z = 1"] false) :=
  noSplitUpTo_sound 8 _ (by decide +kernel)

/-- the instance of `drain_total` for the fixed-form source above: weight 14, 7 events
    (the sixth is the `None` of the bad label field) -/
example :
    (mkRd ["      x = 'a;b' ! c", "c comment", "     & + 2 ! d", "#define X \\", "1",
      " 1 2  y = 2", "      z = 1"] false).weight = 14 ∧
    ((drainEv 1 [] 15 [mkRd ["      x = 'a;b' ! c", "c comment", "     & + 2 ! d", "#define X \\", "1",
      " 1 2  y = 2", "      z = 1"] false]).map fun p => (p.1.length, p.1.getD 5 .exit, exhausted p.2)) =
      some (7, .none, true) := by
  decide +kernel

/-- the syntactic condition: free-form lines with quotes, `&`, `!`, a cpp line, a bad label -/
example : ∀ l ∈ (["10 nm: x = 'a' & ! c", "  ! note", "   & // \"b\" ! d", "#define X 1", "20", "1x = 2"].map
    String.toList), ';' ∉ l := by decide

/-- `next_progress` / `raw_next_progress` hypotheses: an ordinary line has no top-level `;` -/
example : ∀ it r', nextRaw (nextRawFuel (mkRd ["x = 1 ! c"] true)) (mkRd ["x = 1 ! c"] true) = (.ok it, r') →
    NoSemi it :=
  rawOk_sound _ (by decide +kernel)

end Fp.Reader
