import FparserModel.Proofs.ExprLex2Main

/-!
# Property C03, string level, part 2 — the iterated string parser IS the token parser

Continues `Props/ExprLex.lean` (one step) to the whole recursion:

* `relex_halves` / `relex_segStep`   the stripped text of each half of a split re-lexes to exactly
  that half's tokens: `matchAt`/`tokAt` give the same answers on the isolated substring as inside
  the line. NO side condition on the line is needed (look-behind at the left edge, negative
  look-ahead at the right edge and the `/=` overlap are all ruled out by `checkSegs` + maximal
  munch: `word_adj`, `chkA_bnd`); the only side condition concerns the GLUE FLAG of the first token
  of the left half (`g0 = true` with a leading blank: witness `relex_flag_witness`).
* `parse_string_refines`             `parseS k s = Fp.Expr.parse k (lexExpr s)` for all 13 classes,
  for lines that do not begin with a blank (witness `refines_blank_witness`), and — for the classes
  from `Add_Operand` upwards — contain no `/=` (`mult_op` cuts `/=` in two: `step_witness_ne`; the
  parsers still agree on all tested lines, see the examples, but the proof excludes them).
* `parseS_fuel_enough`               fuel sufficiency of the string parser.
* `lex_render_general`               `lexExpr (renderStr N ts) = some ts` (spaced and glued).
* `parse_render_string`              C03 on STRINGS: an expression of the standard grammar, spelled
  out as text, is parsed by the string-level chain to exactly its derivation tree.
-/
namespace Fp.ExprLex
open Fp Fp.Expr

/-! ## (1) the halves re-lex -/

/-- For a checked line cut at ANY operator word into `L`, word, `R`: the stripped texts of the
halves are checked lines whose tokens are the tokens of `L`, `R`. The flag to pass for the first
token is `g && !startsBlank (flat ·)` (`g` = flag in the line). Also for `lstrip` only (what
`UnaryOpBase.match` passes on). -/
theorem relex_halves (s : Str) (sg L R : List Seg) (k : TK) (m : Str)
    (hlex : lexSegs s = some sg) (hsg : sg = L ++ .word k m :: R) :
    (∃ L', lexSegs (strip (flat L)) = some L' ∧
      ∀ g, toksOf (g && !startsBlank (flat L)) L' = toksOf g L) ∧
    (∃ R', lexSegs (strip (flat R)) = some R' ∧
      ∀ g, toksOf (g && !startsBlank (flat R)) R' = toksOf g R) ∧
    (∃ R', lexSegs (lstrip (flat R)) = some R' ∧
      ∀ g, toksOf (g && !startsBlank (flat R)) R' = toksOf g R) := by
  obtain ⟨_, ha, hc⟩ := lexSegs_canon s sg hlex
  obtain ⟨⟨haL, hcL⟩, haR, p, hcR, hpR⟩ := split_parts sg L R k m hsg ha hc
  obtain ⟨L', l1, l2, _⟩ := relex_part_strip L none haL hcL (by intro c h; cases h)
  obtain ⟨R', r1, r2, _⟩ := relex_part_strip R p haR hcR hpR
  obtain ⟨R'', q1, q2, _⟩ := relex_part_lstrip R p haR hcR hpR
  exact ⟨⟨L', l1, l2⟩, ⟨R', r1, r2⟩, ⟨R'', q1, q2⟩⟩

/-- the form used by the induction: the halves produced by `segStep` (the segment-level image of
`BinaryOpBase.match`, `string_step_refines_token_step`), with the strings and flags that
`binStepI` hands to the nested constructor calls -/
theorem relex_segStep (q : Pat) (right excl g0 : Bool) (s : Str) (sg L R : List Seg) (k : TK) (m : Str)
    (hlex : lexSegs s = some sg) (hs : g0 = true → startsBlank s = false)
    (hseg : segStep q right excl g0 sg = some (L, k, m, R)) :
    lexFrom g0 (rstrip (strip (flat L))) = some (toksOf g0 L) ∧
    lexFrom (!startsBlank (flat R)) (strip (flat R)) = some (toksOf true R) := by
  obtain ⟨hsg, hLne, _⟩ := segStep_sound hseg
  obtain ⟨⟨L', l1, l2⟩, ⟨R', r1, r2⟩, _⟩ := relex_halves s sg L R k m hlex hsg
  obtain ⟨hf, _, hc⟩ := lexSegs_canon s sg hlex
  constructor
  · rw [rstrip_strip]
    unfold lexFrom
    rw [l1]
    simp only [Option.map_some, Option.some.injEq]
    have e := l2 g0
    cases g0 with
    | false => simpa using e
    | true =>
      have hs' := hs rfl
      have hsL : startsBlank (flat L) = false := by
        rw [← hf, hsg, flat_append] at hs'
        exact startsBlank_prefix hs' (by
          have := hc; rw [hsg, chkA_append] at this
          simp only [Bool.and_eq_true, chkA] at this
          simp [flat_cons, Seg.text, (segOK_word (segC_word_parts this.2.1).1).1])
      rw [hsL] at e
      simpa using e
  · unfold lexFrom
    rw [r1]
    simp only [Option.map_some, Option.some.injEq]
    simpa using r2 true

/-- the glue-flag side condition is necessary: with `g0 = true` and a leading blank the isolated
left half gets the flag `true`, the token model `false` -/
theorem relex_flag_witness :
    lexFrom true [' ','a','+','b'] = some [.atom (idOf ['a']) false false, .op .plus true,
      .atom (idOf ['b']) false true] ∧
    lexFrom true (strip [' ','a']) = some [.atom (idOf ['a']) false true] := by decide +kernel

/-- look-behind is context dependent on arbitrary text (`**` after a `*` is no `power_op`), but
such lines are not accepted by the checked tokeniser -/
theorem lookbehind_witness :
    matchAt .power (some '*') ['*','*','b'] = none ∧ matchAt .power none ['*','*','b'] = some 2 ∧
    matchAt .concat (some '/') ['/','/','b'] = none ∧ matchAt .concat none ['/','/','b'] = some 2 ∧
    lexExpr ['a','*','*','*','b'] = none ∧ lexExpr ['a','/','/','/','b'] = none := by decide +kernel

/-- non-vacuity of `relex_halves` / `relex_segStep` -/
example : ∃ sg L R, lexSegs ['a','*','b',' ','+',' ','c','/','=','d'] = some sg ∧
    sg = L ++ .word .plus ['+'] :: R ∧
    segStep .add true false false sg = some (L, .plus, ['+'], R) :=
  ⟨segs ['a','*','b',' ','+',' ','c','/','=','d'],
   [.gap ['a'], .word .mul ['*'], .gap ['b',' ']], [.gap [' ','c'], .word .ne ['/','='], .gap ['d']],
   by decide +kernel, by decide +kernel, by decide +kernel⟩

/-! ## (2) the string-level parser equals the token-level parser -/

/-- **`parse_string_refines`**, segment form (any glue flag for the first token) -/
theorem parse_string_refines_segs (k : Lv) (g0 : Bool) (s : Str) (sg : List Seg) (n : Nat)
    (hlex : lexSegs s = some sg) (hs : startsBlank s = false)
    (hne : noNe sg = true ∨ k.rank < 3) :
    parseSF n k g0 s = parseF n k (toksOf g0 sg) :=
  parse_refines_fuel n k g0 s sg hlex hs hne

/-- **`parse_string_refines`**: for every class of the chain, `cls(line)` computed on strings
(`Pattern.rsplit/lsplit`, `.strip()`, nested constructor calls on the stripped halves) is
`cls` computed on the tokens of the line. -/
theorem parse_string_refines (k : Lv) (s : Str) (ts : List T)
    (hlex : lexExpr s = some ts) (hs : startsBlank s = false)
    (hne : noNeT ts = true ∨ k.rank < 3) :
    parseS k s = parse k ts := by
  unfold lexExpr lexFrom at hlex
  cases hl : lexSegs s with
  | none => rw [hl] at hlex; cases hlex
  | some sg =>
    rw [hl] at hlex
    simp only [Option.map_some, Option.some.injEq] at hlex
    subst hlex
    obtain ⟨hf, _, hc⟩ := lexSegs_canon s sg hl
    have hg : noNe sg = true ∨ k.rank < 3 := hne.imp (noNe_of_toks sg false) id
    unfold parseS
    rw [parse_refines_fuel _ k false s sg hl hs hg]
    apply parse_fuel_enough
    have := toksOf_length sg false (chkA_words hc)
    rw [hf] at this
    simp only [need]
    omega

/-- fuel sufficiency of the string-level parser (cf. `Fp.Expr.parse_fuel_enough`) -/
theorem parseS_fuel_enough (k : Lv) (s : Str) (ts : List T) (n : Nat)
    (hlex : lexExpr s = some ts) (hs : startsBlank s = false)
    (hne : noNeT ts = true ∨ k.rank < 3) (hn : k.rank + 13 * s.length + 1 ≤ n) :
    parseSF n k false s = parseS k s := by
  rw [parse_string_refines k s ts hlex hs hne]
  unfold lexExpr lexFrom at hlex
  cases hl : lexSegs s with
  | none => rw [hl] at hlex; cases hlex
  | some sg =>
    rw [hl] at hlex
    simp only [Option.map_some, Option.some.injEq] at hlex
    subst hlex
    obtain ⟨hf, _, hc⟩ := lexSegs_canon s sg hl
    have hg : noNe sg = true ∨ k.rank < 3 := hne.imp (noNe_of_toks sg false) id
    rw [parse_refines_fuel n k false s sg hl hs hg]
    apply parse_fuel_enough
    have := toksOf_length sg false (chkA_words hc)
    rw [hf] at this
    simp only [need]
    omega

/-- the side condition "no leading blank" is necessary: `UnaryOpBase.match` matches at
position 0 of the unstripped text -/
theorem refines_blank_witness :
    lexExpr [' ','-','a'] = some [.op .minus false, .atom (idOf ['a']) false true] ∧
    parseS .l2u [' ','-','a'] = none ∧
    parse .l2u [.op .minus false, .atom (idOf ['a']) false true]
      = some (.un (.op .minus false) (.atom (idOf ['a']) false true)) := by decide +kernel

/-- non-vacuity: hypotheses satisfiable, and the model computes what the theorem says -/
example : parseS .expr ['a','+','b','*','c','*','*','d'] =
    (lexExpr ['a','+','b','*','c','*','*','d']).bind (parse .expr) := by
  have h : lexExpr ['a','+','b','*','c','*','*','d'] = some [.atom (idOf ['a']) false false,
      .op .plus true, .atom (idOf ['b']) false true, .op .mul true, .atom (idOf ['c']) false true,
      .op .pow true, .atom (idOf ['d']) false true] := by decide +kernel
  rw [h]
  exact parse_string_refines .expr _ _ h (by decide) (Or.inl (by decide))
example : parseS .expr ['a','+','b','*','c','*','*','d'] =
    (lexExpr ['a','+','b','*','c','*','*','d']).bind (parse .expr) := by decide +kernel

/-- lines with `/=`: below `Add_Operand` covered by the theorem; above, the parsers agree on the
instances (and in fv/cosim_exprlex.py stage F) although the step differs (`step_witness_ne`) -/
example : parseS .multOp ['a','/','=','b'] = (lexExpr ['a','/','=','b']).bind (parse .multOp) := by
  have h : lexExpr ['a','/','=','b'] = some [.atom (idOf ['a']) false false, .op (.rel 1 false) true,
      .atom (idOf ['b']) false true] := by decide +kernel
  rw [h]
  exact parse_string_refines .multOp _ _ h (by decide) (Or.inr (by decide))
example : parseS .expr ['a',' ','/','=',' ','b'] =
    (lexExpr ['a',' ','/','=',' ','b']).bind (parse .expr) ∧
    parseS .addOp ['a','/','=','b'] = (lexExpr ['a','/','=','b']).bind (parse .addOp) ∧
    parseS .expr ['a','/','=','b','/','=','c'] = (lexExpr ['a','/','=','b','/','=','c']).bind (parse .expr) := by
  decide +kernel

/-! ## (3) rendering, and C03 on strings -/

/-- **`lex_render`**: a token list whose operands are opaque names, spelled with one blank
between tokens or glued where `glueOK` permits, is lexed back to itself -/
theorem lex_render_general (N : Names) (ts : List T) (hN : ts.all (tokOK N) = true)
    (hg : glueOK ts = true) : lexExpr (renderStr N ts) = some ts := lex_render N ts hN hg

/-- **C03 on strings.** Every expression of the standard grammar (`Derives`, R701-R722) whose
operands are opaque names, written out as text, is parsed by the STRING-level chain
(`Pattern.rsplit/lsplit` on the text, recursively) to exactly its derivation tree — inside the
boundary of `parse_render_partial` (F-C03-1, F-C03-1b), for spellable tokens (`tokOK`: in
particular no operand is named like an intrinsic operator word, and no parenthesis token: the
string level sees parenthesised groups as operands), admissible gluing (`glueOK`), and no `/=`
(`.NE.` is fine). -/
theorem parse_render_string (N : Names) (e : Ex) (hd : Derives .expr e)
    (hb : noDottedRightOfDefinedBinary e = true) (hg : glueFree (render e) = true)
    (hN : (render e).all (tokOK N) = true) (hgl : glueOK (render e) = true)
    (hne : noNeT (render e) = true) :
    parseS .expr (renderStr N (render e)) = some e := by
  rw [parse_string_refines .expr _ (render e) (lex_render N _ hN hgl)
    (renderStr_startsBlank N _ hN) (Or.inl hne)]
  exact parse_render_partial e hd hb hg

/-- the same for every nonterminal of the standard -/
theorem parse_render_string_at (N : Names) (sl : SLv) (e : Ex) (hd : Derives sl e)
    (hb : noDottedRightOfDefinedBinary e = true) (hg : glueFree (render e) = true)
    (hN : (render e).all (tokOK N) = true) (hgl : glueOK (render e) = true)
    (hne : noNeT (render e) = true) :
    parseS sl.toLv (renderStr N (render e)) = some e := by
  rw [parse_string_refines sl.toLv _ (render e) (lex_render N _ hN hgl)
    (renderStr_startsBlank N _ hN) (Or.inl hne)]
  exact parse_render_partial_at sl e hd hb hg

/-- non-vacuity: `-a**b1**c + .X. c*a // a == b1 .AND. .NOT. c .MYOP. a`, partly glued -/
def exTree : Ex :=
  .bin (.op (.dot (numOf ['M','Y','O','P'])) false)
    (.bin (.op .and false)
      (.bin (.op (.rel 0 false) false)
        (.bin (.op .concat false)
          (.bin (.op .plus false)
            (.un (.op .minus false)
              (.bin (.op .pow true) (.atom (idOf ['a']) false true)
                (.bin (.op .pow true) (.atom (idOf ['b','1']) false true) (.atom (idOf ['c']) false true))))
            (.bin (.op .mul true) (.un (.op (.dot (numOf ['X'])) false) (.atom (idOf ['c']) false false))
              (.atom (idOf ['a']) false true)))
          (.atom (idOf ['a']) false false))
        (.atom (idOf ['b','1']) false false))
      (.un (.op .not false) (.atom (idOf ['c']) false false)))
    (.atom (idOf ['a']) false false)

example : renderStr exN (render exTree) =
    "-a**b1**c + .X. c*a // a == b1 .AND. .NOT. c .MYOP. a".toList := by decide +kernel
example : Derives .expr exTree := by simp only [exTree]; derive
example : parseS .expr (renderStr exN (render exTree)) = some exTree :=
  parse_render_string exN exTree (by simp only [exTree]; derive) (by decide +kernel) (by decide +kernel)
    (by decide +kernel) (by decide +kernel) (by decide +kernel)
/-- … and the model really computes it -/
example : parseS .expr (renderStr exN (render exTree)) = some exTree := by decide +kernel

end Fp.ExprLex
