"""Translator of the IoStmt slice: what `lean/FparserModel/IoStmt.lean` mirrors BY HAND, read from the
LIVE classes of /repo and written to `FparserModel/Generated/IoStmtTables.lean`, with kernel
obligations that it still is what the model was written against.

* `liveFingerprints`: sha1 (16 hex digits) of the normalised source of every mirrored method -
  `inspect.getsource` -> `ast.parse` -> docstrings removed -> `ast.dump`, so comments, docstrings and
  layout do not count, every token of the code does - for `match` / `tostr` / `init` of every
  modelled class in BOTH standards (resolved through the MRO to the defining class), the module
  function `skip_digits`, and the combinators of utils.py the model leans on
  (`KeywordValueBase.match/tostr`, `SequenceBase.tostr`, `Base.__new__`).
  One theorem per method: `Pinned "<what to do>" (some live) (pin key)`, proved by `decide +kernel`
  against `FparserModel/IoStmtPins.lean` (hand-maintained: the fingerprints the model was validated
  against).  AN EDIT TO A MIRRORED METHOD BREAKS THE BUILD at that theorem; the statement that
  fails to reduce carries the instruction: re-validate the mirror in IoStmt.lean (read the diff,
  run fv/cosim_iostmt.py), then record the new fingerprint with
  `python -m fv.extract_iostmt --write-pins <lean dir>`.
* the keyword tables: `Io_Control_Spec`, `Close_Spec`, `Inquire_Spec`, `Dealloc_Opt` (the list
  literal of the `for k, v in [...]` loop, nested keyword lists flattened), `Connect_Spec.
  _keyword_value_list()` and `Alloc_Opt._keyword_pairs` evaluated for both standards; obligation:
  equal to the model's tables.
* the regex patterns (`pattern.label`, `Hollerith_Item.match_pattern`), the extension flags read
  by the mirrored code, and the names of all rule classes (every class id of the model must name
  a live class).

    python -m fv.extract_iostmt <lean dir>               (re)generate
    python -m fv.extract_iostmt --write-pins <lean dir>  after re-validation: record the pins
"""
import ast
import hashlib
import inspect
import os
import sys
import textwrap

from fv import repo

repo.activate()

from fparser.two import utils as U                     # noqa: E402
from fparser.two import Fortran2003 as F3              # noqa: E402
from fparser.two import Fortran2008 as F8              # noqa: E402
from fparser.two import pattern_tools as pattern       # noqa: E402

MODELLED = [
    "Write_Stmt", "Read_Stmt", "Print_Stmt", "Io_Control_Spec_List", "Io_Control_Spec",
    "Open_Stmt", "Close_Stmt", "Inquire_Stmt", "Connect_Spec", "Close_Spec", "Inquire_Spec",
    "Connect_Spec_List", "Close_Spec_List", "Inquire_Spec_List",
    "Format_Stmt", "Format_Specification", "Format_Item", "Format_Item_List", "Control_Edit_Desc",
    "Loop_Control", "Label_Do_Stmt", "Nonlabel_Do_Stmt", "If_Stmt", "If_Then_Stmt", "Else_If_Stmt",
    "Select_Case_Stmt", "Case_Stmt", "Case_Selector", "Case_Value_Range", "Case_Value_Range_List",
    "Where_Stmt", "Forall_Header", "Forall_Triplet_Spec", "Forall_Triplet_Spec_List", "Forall_Stmt",
    "Forall_Construct_Stmt", "Allocate_Stmt", "Alloc_Opt", "Alloc_Opt_List", "Allocation",
    "Allocation_List", "Deallocate_Stmt", "Dealloc_Opt", "Dealloc_Opt_List", "Nullify_Stmt",
    "Stop_Stmt", "Error_Stop_Stmt", "Goto_Stmt", "Computed_Goto_Stmt", "Arithmetic_If_Stmt",
    "Call_Stmt", "Actual_Arg_Spec", "Actual_Arg_Spec_List",
]
METHODS = ("match", "tostr", "init", "loop_control_cls", "action_stmt_cls", "alloc_opt_list",
           "_keyword_value_list")
UTILS = [("KeywordValueBase", "match"), ("KeywordValueBase", "tostr"), ("SequenceBase", "tostr"),
         ("SequenceBase", "init"), ("Base", "__new__")]

INSTRUCTION = ("MIRRORED METHOD EDITED in /repo: re-validate its mirror in FparserModel/IoStmt.lean "
               "(read the diff, run fv/cosim_iostmt.py), then record the new fingerprint with "
               "`python -m fv.extract_iostmt --write-pins <lean dir>`")


def _strip_doc(tree):
    for n in ast.walk(tree):
        if isinstance(n, (ast.FunctionDef, ast.ClassDef, ast.AsyncFunctionDef, ast.Module)) and n.body \
                and isinstance(n.body[0], ast.Expr) and isinstance(getattr(n.body[0], "value", None), ast.Constant) \
                and isinstance(n.body[0].value.value, str):
            n.body = n.body[1:] or [ast.Pass()]
    return tree


def fingerprint(fn):
    src = textwrap.dedent(inspect.getsource(fn))
    tree = _strip_doc(ast.parse(src))
    return hashlib.sha1(ast.dump(tree, include_attributes=False).encode("utf-8")).hexdigest()[:16]


def _fn(raw):
    return raw.__func__ if isinstance(raw, (staticmethod, classmethod)) else raw


def _pkg(cls):
    return "Fortran2008" if cls.__module__.startswith("fparser.two.Fortran2008") else (
        "Fortran2003" if cls.__module__ == "fparser.two.Fortran2003" else cls.__module__.split(".")[-1])


def collect_fingerprints():
    out = {}
    for name in MODELLED:
        for mod in (F3, F8):
            cls = getattr(mod, name, None)
            if cls is None:
                continue
            for meth in METHODS:
                for k in cls.__mro__:
                    if meth in k.__dict__:
                        raw = k.__dict__[meth]
                        try:
                            fp = fingerprint(_fn(raw))
                        except (OSError, TypeError):
                            fp = "generated"          # exec-generated `*_List.match`
                        out["%s.%s.%s" % (_pkg(k), k.__name__, meth)] = fp
                        break
    out["Fortran2003.skip_digits"] = fingerprint(F3.skip_digits)
    for cn, meth in UTILS:
        out["utils.%s.%s" % (cn, meth)] = fingerprint(_fn(getattr(U, cn).__dict__[meth]))
    return sorted(out.items())


def _table_from_source(cls):
    """the list literal of `for k, v in [...]` in cls.match, flattened to [(keyword, class name)]"""
    src = textwrap.dedent(inspect.getsource(_fn(cls.__dict__["match"])))
    tree = ast.parse(src)
    for n in ast.walk(tree):
        if isinstance(n, ast.For) and isinstance(n.iter, ast.List):
            rows = []
            for e in n.iter.elts:
                k, v = e.elts
                kws = [k.value] if isinstance(k, ast.Constant) else [x.value for x in k.elts]
                rows += [(kw, v.id) for kw in kws]
            return rows
    raise RuntimeError("no keyword table literal in %s.match" % cls.__name__)


def collect_tables():
    t = {}
    t["ioControl"] = _table_from_source(F3.Io_Control_Spec)
    t["close"] = _table_from_source(F3.Close_Spec)
    t["inquire"] = _table_from_source(F3.Inquire_Spec)
    t["deallocOpt"] = _table_from_source(F3.Dealloc_Opt)
    t["connect2003"] = [(k, v.__name__) for k, v in F3.Connect_Spec._keyword_value_list()]
    t["connect2008"] = [(k, v.__name__) for k, v in F8.Connect_Spec._keyword_value_list()]
    t["allocOpt2003"] = [(k, v.__name__) for k, v in F3.Alloc_Opt._keyword_pairs]
    t["allocOpt2008"] = [(k, v.__name__) for k, v in F8.Alloc_Opt._keyword_pairs]
    return t


def live_class_names():
    names = set()
    for mod in (F3, F8):
        for k, v in vars(mod).items():
            if isinstance(v, type) and issubclass(v, U.Base):
                names.add(k)
    return sorted(names)


def model_class_names(outdir):
    """the `clsNames` list of FparserModel/IoStmt.lean (class id = index)"""
    import re
    text = open(os.path.join(outdir, "FparserModel", "IoStmt.lean"), encoding="utf-8").read()
    i = text.index("def clsNames : List String := [")
    j = text.index("]", i + len("def clsNames : List String := ["))
    block = re.sub(r"--[^\n]*", "", text[i + len("def clsNames : List String := ["):j])
    return re.findall(r'"([A-Za-z_0-9]+)"', block)


def lean_str(s):
    return '"' + s.replace("\\", "\\\\").replace('"', '\\"') + '"'


def ident(key):
    return "".join(ch if ch.isalnum() else "_" for ch in key)


def render(fps, tables, model_names):
    L = []
    L.append("import FparserModel.IoStmt")
    L.append("import FparserModel.IoStmtPins")
    L.append("/-! GENERATED by fv/extract_iostmt.py from the fparser working tree - do not edit.")
    L.append("")
    L.append("Fingerprints of the methods FparserModel/IoStmt.lean mirrors by hand, the keyword tables,")
    L.append("patterns and extension flags they use; each with the kernel obligation that it equals what")
    L.append("the model was written against (FparserModel/IoStmtPins.lean / the tables of IoStmt.lean).")
    L.append("A failing `pin_*` theorem means: " + INSTRUCTION.replace("`", "'"))
    L.append("-/")
    L.append("namespace Fp.IoStmt.Generated")
    L.append("open Fp.IoStmt")
    L.append("")
    L.append("def liveFingerprints : List (String × String) := [")
    L.append(",\n".join("  (%s, %s)" % (lean_str(k), lean_str(v)) for k, v in fps))
    L.append("]")
    L.append("")
    for i, (k, v) in enumerate(fps):
        L.append("theorem pin_%s : Pinned %s (some (%s, %s)) Pins.expected[%d]? := by decide +kernel"
                 % (ident(k), lean_str(INSTRUCTION + " [" + k + "]"), lean_str(k), lean_str(v), i))
    L.append("")
    L.append("/-- no mirrored method appeared or disappeared -/")
    L.append("theorem pins_complete : PinnedN %s liveFingerprints.length Pins.expected.length := by decide +kernel"
             % lean_str("the SET of mirrored methods changed (a class gained or lost its own match/tostr/init): "
                        + INSTRUCTION))
    L.append("")
    cid = {n: i for i, n in enumerate(model_names)}
    for name, rows in sorted(tables.items()):
        L.append("def live_%s : List (String × ClassId) := [" % name)
        L.append(",\n".join("  (%s, %s)" % (lean_str(k), ("%d" % cid[v]) if v in cid else "1000000 /- %s: not a class of the model -/" % v)
                            for k, v in rows))
        L.append("]")
        L.append("")
    msg = lean_str("KEYWORD TABLE of /repo differs from the model's: update the table in FparserModel/IoStmt.lean "
                   "and re-run fv/cosim_iostmt.py")
    for name, model in [("ioControl", "ioControlTableS"), ("close", "closeTableS"), ("inquire", "inquireTableS"),
                        ("deallocOpt", "deallocOptTableS"), ("connect2003", "(connectTableS .f2003)"),
                        ("connect2008", "(connectTableS .f2008)"), ("allocOpt2003", "(allocOptTableS .f2003)"),
                        ("allocOpt2008", "(allocOptTableS .f2008)")]:
        L.append("theorem table_%s : PinnedT %s live_%s %s := by decide +kernel"
                 % (name, msg, name, model))
    L.append("")
    L.append("def liveLabelPattern : String := %s" % lean_str(pattern.label.pattern))
    L.append("def liveHollerithPattern : String := %s" % lean_str(F3.Hollerith_Item.match_pattern))
    ext = U.EXTENSIONS()
    L.append("def liveDollarExt : Bool := %s" % ("true" if "dollar-descriptor" in ext else "false"))
    L.append("def liveOpenConvertExt : Bool := %s" % ("true" if "open-convert" in ext else "false"))
    L.append("def liveHollerithExt : Bool := %s" % ("true" if "hollerith" in ext else "false"))
    L.append("")
    L.append("theorem label_pattern : PinnedS \"pattern.label changed: re-validate labelPrefix\" "
             "liveLabelPattern Pins.labelPattern := by decide +kernel")
    L.append("theorem hollerith_pattern : PinnedS \"Hollerith_Item.match_pattern changed: re-validate hollerithPrefix\" "
             "liveHollerithPattern Pins.hollerithPattern := by decide +kernel")
    L.append("theorem dollar_ext : liveDollarExt = dollarExt := by decide")
    L.append("theorem open_convert_ext : liveOpenConvertExt = openConvertExt := by decide")
    L.append("")
    live = set(live_class_names())
    L.append("/-- the class names of the model (`clsNames`, read from IoStmt.lean) that name a rule class of /repo -/")
    L.append("def liveOfModel : List String := [")
    keep = [n for n in model_names if n in live]
    for i in range(0, len(keep), 5):
        L.append("  " + ", ".join(lean_str(n) for n in keep[i:i + 5]) + ("," if i + 5 < len(keep) else ""))
    L.append("]")
    L.append("")
    L.append("/-- every class id of the model names a rule class of /repo -/")
    L.append("theorem classes_live : liveOfModel = clsNames := by decide +kernel")
    L.append("")
    L.append("end Fp.IoStmt.Generated")
    return "\n".join(L) + "\n"


def render_pins(fps):
    L = []
    L.append("/-!")
    L.append("# IoStmtPins - the fingerprints FparserModel/IoStmt.lean was validated against")
    L.append("")
    L.append("Hand-maintained (written by `python -m fv.extract_iostmt --write-pins` AFTER the mirror of an")
    L.append("edited method has been re-validated; never as part of a normal build).")
    L.append("Generated/IoStmtTables.lean proves that the live fingerprints equal these.")
    L.append("-/")
    L.append("namespace Fp.IoStmt")
    L.append("")
    L.append("/-- `live = expected`; the message is part of the statement so that it shows in the error -/")
    L.append("def Pinned (_msg : String) (live expected : Option (String × String)) : Prop := live = expected")
    L.append("instance (m : String) (a b : Option (String × String)) : Decidable (Pinned m a b) :=")
    L.append("  inferInstanceAs (Decidable (a = b))")
    L.append("def PinnedS (_msg : String) (live expected : String) : Prop := live = expected")
    L.append("instance (m : String) (a b : String) : Decidable (PinnedS m a b) :=")
    L.append("  inferInstanceAs (Decidable (a = b))")
    L.append("def PinnedN (_msg : String) (live expected : Nat) : Prop := live = expected")
    L.append("instance (m : String) (a b : Nat) : Decidable (PinnedN m a b) :=")
    L.append("  inferInstanceAs (Decidable (a = b))")
    L.append("def PinnedT (_msg : String) (live expected : List (String × Nat)) : Prop := live = expected")
    L.append("instance (m : String) (a b : List (String × Nat)) : Decidable (PinnedT m a b) :=")
    L.append("  inferInstanceAs (Decidable (a = b))")
    L.append("")
    L.append("namespace Pins")
    L.append("")
    L.append("def expected : List (String × String) := [")
    L.append(",\n".join("  (%s, %s)" % (lean_str(k), lean_str(v)) for k, v in fps))
    L.append("]")
    L.append("")
    L.append("def labelPattern : String := %s" % lean_str(pattern.label.pattern))
    L.append("def hollerithPattern : String := %s" % lean_str(F3.Hollerith_Item.match_pattern))
    L.append("")
    L.append("end Pins")
    L.append("end Fp.IoStmt")
    return "\n".join(L) + "\n"


def generate(outdir):
    """write FparserModel/Generated/IoStmtTables.lean; `outdir` = the lean project dir or its
    FparserModel/Generated directory (what fv.common.run_extractors passes)"""
    if os.path.basename(os.path.normpath(outdir)) == "Generated":
        outdir = os.path.dirname(os.path.dirname(os.path.normpath(outdir)))
    fps = collect_fingerprints()
    tables = collect_tables()
    path = os.path.join(outdir, "FparserModel", "Generated", "IoStmtTables.lean")
    os.makedirs(os.path.dirname(path), exist_ok=True)
    text = render(fps, tables, model_class_names(outdir))
    with open(path, "w", encoding="utf-8") as fh:
        fh.write(text)
    return path


def write_pins(outdir):
    path = os.path.join(outdir, "FparserModel", "IoStmtPins.lean")
    with open(path, "w", encoding="utf-8") as fh:
        fh.write(render_pins(collect_fingerprints()))
    return path


def main(argv=None):
    argv = list(sys.argv[1:] if argv is None else argv)
    pins = False
    if argv and argv[0] == "--write-pins":
        pins = True
        argv = argv[1:]
    outdir = argv[0] if argv else os.path.join(os.path.dirname(os.path.dirname(os.path.abspath(__file__))), "lean")
    if pins:
        print("wrote", write_pins(outdir))
    print("wrote", generate(outdir))
    return 0


if __name__ == "__main__":
    sys.exit(main())
