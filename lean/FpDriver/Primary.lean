import FparserModel.Wire
import FparserModel.Primary
import FparserModel.Generated.PrimaryTables
/-!
driver commands of the Primary slice (trusted glue, no theorems)

    primary.classes                      → the class names (id order)
    primary.alts   std cls               → `Base.subclasses[cls]` as the model reads it (names)
    primary.match  std cls text entry*   LEVEL A: `cls.match(text)`, children answered by the entries
        entry = 4 fields, one ANSWERED child call:  cls text kind str
            kind = ok | nomatch | raises:<ExcName>
        → unmodelled | ask cls text | nomatch | raises exc
        | ok n item* (str text | strraises exc)
          item = N | S text | T i | L i,j,…     (i = index of the answering entry)
    primary.plan   std cls text          → unmodelled | plan n slot* [second m slot*]
          slot = N | S text | C cls text | F | X exc ; `nomatch` / `raises exc` in place of `n slot*`
    primary.str    cls item*             item = N | S text | T text | L text␟text…
        → str text | strraises exc
    primary.new    std cls text entry*   LEVEL B: `cls(text)` through Base.__new__, EXTERNAL classes
        answered by the entries; entry = 6 fields:  cls text kind str shape calls
        (cls = `Name` for a call with parent_cls=None, `+Name` for a call from a subclass loop)
        → ask cls text | nomatch calls | raises exc calls | ok cls str shape calls
    primary.cost   = primary.new (the call count is the last field)
    primary.nest   std depth             → calls of Primary(nestStr depth) under chainExt, refCalls, class, then the same two numbers for the code before 2a636f5 (newOld, refCallsOld)
    primary.closed std depth text        → Primary(text) with the expression chain = chainExt (depth+1 levels), no external answers
    primary.closedold std depth text     → the same over the model of the code BEFORE /repo 2a636f5 (`newOld`, `chainExtOld`)
    primary.scan   kind text             kind = int|sint|real|sreal|logical|name|kind|typename|complex|
                                         bin|oct|hex|char1|char2  → none | some value [kind] | bool
-/
namespace FpDriver.Primary
open Fp Fp.Wire Fp.Primary
open Fp.IoStmt (Res Exc Slot Item Oracle Std)

def ok (fs : List String) : String := "\t".intercalate ("OK" :: fs)

def excName : Exc → String
  | .indexError => "IndexError"
  | .valueError => "ValueError"
  | .assertionError => "AssertionError"
  | .typeError => "TypeError"
  | .keyError => "KeyError"
  | .internalError => "InternalError"
  | .child info => String.ofList info

def stdOf (h : String) : Std := if dec h == "f2008" then .f2008 else .f2003

def clsOf (name : String) : Option ClassId :=
  let i := clsNames.idxOf name
  if i < clsNames.length then some i else none

def nameOf (c : ClassId) : String := clsNames.getD c "?"

def theTable (std : Std) : Table :=
  tableOf (realOf std) Generated.allClasses Generated.PrimaryTables.nameIds

structure Entry where
  cls : String
  text : Str
  kind : String
  str : Str
  shape : Str := []
  calls : Nat := 1

def decEntries4 : List String → List Entry
  | c :: t :: k :: s :: rest => { cls := dec c, text := decL t, kind := dec k, str := decL s } :: decEntries4 rest
  | _ => []

def decEntries6 : List String → List Entry
  | c :: t :: k :: s :: sh :: n :: rest =>
    { cls := dec c, text := decL t, kind := dec k, str := decL s, shape := decL sh,
      calls := (dec n).toNat! } :: decEntries6 rest
  | _ => []

def findEntry (es : List Entry) (name : String) (t : Str) : Option (Nat × Entry) :=
  let rec go : List Entry → Nat → Option (Nat × Entry)
    | [], _ => none
    | e :: rest, i => if e.cls == name && e.text == t then some (i, e) else go rest (i + 1)
  go es 0

def askExc (c : ClassId) (t : Str) : Exc := .child ('?' :: (nameOf c).toList ++ '\t' :: t)

def kindRes {α} (e : Entry) (a : α) : Res α :=
  if e.kind == "ok" then .ok a
  else if e.kind == "nomatch" then .noMatch
  else .raises (.child (e.kind.toList.drop 7))

def tableOracle (es : List Entry) : Oracle Nat :=
  { call := fun c t =>
      match findEntry es (nameOf c) t with
      | none => .raises (askExc c t)
      | some (i, e) => kindRes e i
    str := fun i => (es[i]?.map (·.str)).getD []
    head := fun _ => none
    rhsStr := fun i => (es[i]?.map (·.str)).getD []
    heads := fun _ => []
    isDataEdit := fun _ => false }

def extOf (es : List Entry) : Ext := fun c fresh t =>
  let key := (if fresh then "" else "+") ++ nameOf c
  match findEntry es key t with
  | none => (.raises (.child ('?' :: key.toList ++ '\t' :: t)), 0)
  | some (_, e) => (kindRes e { cls := c, text := e.str, shape := e.shape }, e.calls)

def encItem : Item Nat → List String
  | .none => [enc "N"]
  | .str s => [enc "S", encL s]
  | .node i => [enc "T", enc (toString i)]
  | .bare i => [enc "B", enc (toString i)]
  | .nodes is => [enc "L", enc (",".intercalate (is.map toString))]

def encStrRes : Res Str → List String
  | .ok t => [enc "str", encL t]
  | .noMatch => [enc "strraises", enc "NoMatch"]
  | .raises e => [enc "strraises", enc (excName e)]

def encSlot : Slot → List String
  | .none => [enc "N"]
  | .str s => [enc "S", encL s]
  | .child c s => [enc "C", enc (nameOf c), encL s]
  | .fail => [enc "F"]
  | .raise e => [enc "X", enc (excName e)]

def encSlotsRes : Res (List Slot) → List String
  | .noMatch => [enc "nomatch"]
  | .raises e => [enc "raises", enc (excName e)]
  | .ok slots => enc (toString slots.length) :: slots.flatMap encSlot

def textOracle : Oracle Str :=
  { call := fun _ _ => .noMatch, str := id, head := fun _ => none, rhsStr := id,
    heads := fun _ => [], isDataEdit := fun _ => false }

def decItems : List String → Option (List (Item Str))
  | [] => some []
  | k :: rest =>
    match dec k, rest with
    | "N", rest => (decItems rest).map (Item.none :: ·)
    | "S", t :: rest => (decItems rest).map (Item.str (decL t) :: ·)
    | "T", t :: rest => (decItems rest).map (Item.node (decL t) :: ·)
    | "L", t :: rest =>
      let parts := if (dec t).isEmpty then [] else (dec t).splitOn "\x1f"
      (decItems rest).map (Item.nodes (parts.map (·.toList)) :: ·)
    | _, _ => none

def askReply (q : Str) : String :=
  match (String.ofList q).splitOn "\t" with
  | n :: rest => ok [enc "ask", enc n, enc ("\t".intercalate rest)]
  | [] => ok [enc "ask", enc "", enc ""]

def scanPair (r : Option (Str × Option Str)) : String :=
  match r with
  | none => ok [enc "none"]
  | some (v, none) => ok [enc "some", encL v]
  | some (v, some k) => ok [enc "some", encL v, encL k]

def boolS (b : Bool) : String := ok [enc (if b then "true" else "false")]

def handleNew : List String → Option String
  | std :: cls :: text :: entries =>
    match clsOf (dec cls) with
    | none => some (ok [enc "unmodelled"])
    | some c =>
      let sd := stdOf std
      let cfg : Cfg := { std := sd, iv := ivNoScope sd, table := theTable sd, ext := extOf (decEntries6 entries) }
      let r := construct cfg c (decL text)
      match r.res with
      | .noMatch => some (ok [enc "nomatch", enc (toString r.calls)])
      | .raises (.child ('?' :: q)) => some (askReply q)
      | .raises e => some (ok [enc "raises", enc (excName e), enc (toString r.calls)])
      | .ok n => some (ok [enc "ok", enc (nameOf n.cls), encL n.text, encL n.shape, enc (toString r.calls)])
  | _ => some ("ERR\t" ++ enc "bad primary.new request")

def handle (cmd : String) (args : List String) : Option String :=
  match cmd, args with
  | "primary.classes", _ => some (ok (clsNames.map enc))
  | "primary.alts", [std, cls] =>
    match clsOf (dec cls) with
    | none => some (ok [enc "unmodelled"])
    | some c => some (ok (((theTable (stdOf std)).subs c).map fun i => enc (nameOf i)))
  | "primary.match", std :: cls :: text :: entries =>
    match clsOf (dec cls) with
    | none => some (ok [enc "unmodelled"])
    | some c =>
      let es := decEntries4 entries
      let o := tableOracle es
      match matchOf (stdOf std) (ivNoScope (stdOf std)) o c (decL text) with
      | none => some (ok [enc "unmodelled"])
      | some .noMatch => some (ok [enc "nomatch"])
      | some (.raises (.child ('?' :: q))) => some (askReply q)
      | some (.raises e) => some (ok [enc "raises", enc (excName e)])
      | some (.ok items) =>
        some (ok (enc "ok" :: enc (toString items.length) :: items.flatMap encItem
                  ++ encStrRes (tostrOf o c items)))
  | "primary.plan", [std, cls, text] =>
    match clsOf (dec cls) with
    | none => some (ok [enc "unmodelled"])
    | some c =>
      match planOf (stdOf std) (ivNoScope (stdOf std)) c (decL text) with
      | none => some (ok [enc "unmodelled"])
      | some p =>
        some (ok (enc "plan" :: encSlotsRes p.first ++
          (match p.second with
           | none => []
           | some q => enc "second" :: encSlotsRes q)))
  | "primary.str", cls :: items =>
    match clsOf (dec cls), decItems items with
    | some c, some its => some (ok (encStrRes (tostrOf textOracle c its)))
    | _, _ => some ("ERR\t" ++ enc "bad primary.str request")
  | "primary.new", args => handleNew args
  | "primary.cost", args => handleNew args
  | "primary.nest", [std, depth] =>
    let sd := stdOf std
    let d := (dec depth).toNat!
    let cfg : Cfg := { std := sd, iv := ivNoScope sd, table := theTable sd,
                       ext := chainExt sd (ivNoScope sd) (theTable sd) (d + 1) }
    let r := construct cfg C.Primary (nestStr d)
    let cfgO : Cfg := { cfg with ext := chainExtOld sd (ivNoScope sd) (theTable sd) (d + 1) }
    let rO := constructOld cfgO C.Primary (nestStr d)
    some (ok [enc (toString r.calls), enc (toString (refCalls (nestRef d))),
              enc (match r.res with | .ok n => nameOf n.cls | _ => "-"),
              enc (toString rO.calls), enc (toString (refCallsOld (nestRef d)))])
  | "primary.closed", [std, depth, text] =>
    -- `Primary(text)` with NO external answers: the expression chain is `chainExt` (operator-free text only)
    let sd := stdOf std
    let d := (dec depth).toNat!
    let cfg : Cfg := { std := sd, iv := ivNoScope sd, table := theTable sd,
                       ext := chainExt sd (ivNoScope sd) (theTable sd) (d + 1) }
    let r := construct cfg C.Primary (decL text)
    match r.res with
    | .noMatch => some (ok [enc "nomatch", enc (toString r.calls)])
    | .raises e => some (ok [enc "raises", enc (excName e), enc (toString r.calls)])
    | .ok n => some (ok [enc "ok", enc (nameOf n.cls), encL n.text, encL n.shape, enc (toString r.calls)])
  | "primary.closedold", [std, depth, text] =>
    -- the same over the code BEFORE /repo 2a636f5 (`newOld`): the counter-factual
    let sd := stdOf std
    let d := (dec depth).toNat!
    let cfg : Cfg := { std := sd, iv := ivNoScope sd, table := theTable sd,
                       ext := chainExtOld sd (ivNoScope sd) (theTable sd) (d + 1) }
    let r := constructOld cfg C.Primary (decL text)
    match r.res with
    | .noMatch => some (ok [enc "nomatch", enc (toString r.calls)])
    | .raises e => some (ok [enc "raises", enc (excName e), enc (toString r.calls)])
    | .ok n => some (ok [enc "ok", enc (nameOf n.cls), encL n.text, encL n.shape, enc (toString r.calls)])
  | "primary.scan", [kind, text] =>
    let t := decL text
    match dec kind with
    | "int" => some (scanPair (scanInt t))
    | "sint" => some (scanPair (scanSignedInt t))
    | "real" => some (scanPair (scanReal t))
    | "sreal" => some (scanPair (scanSignedReal t))
    | "logical" => some (scanPair (scanLogical t))
    | "char1" => some (scanPair (scanCharLit '\'' t))
    | "char2" => some (scanPair (scanCharLit '"' t))
    | "name" => some (boolS (isName t))
    | "kind" => some (boolS (isKindParam t))
    | "typename" => some (boolS (isIntrinsicTypeName t))
    | "complex" => some (boolS (scanComplex t))
    | "bin" => some (boolS (scanBoz 'B' isBinDigit t))
    | "oct" => some (boolS (scanBoz 'O' isOctDigit t))
    | "hex" => some (boolS (scanBoz 'Z' isHexDigitU t))
    | _ => some ("ERR\t" ++ enc "bad scan kind")
  | _, _ => none

end FpDriver.Primary
