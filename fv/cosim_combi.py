"""Co-simulation of the combinator models (lean/FparserModel/Combi.lean) against the real
`fparser.two.utils` combinators, with the REAL child classes as oracle, plus the direct leaf
round-trip oracle for all rule classes.

For every generic class (fv/extract_combi.py: `match` is `return <Base>.match(consts, string)`,
inherited `tostr`) and every sample string:

* the real `cls.match(string)` runs with `Base.__new__` wrapped, recording the DIRECT child calls
  `(child class, string handed over, matched / NoMatchError / other exception, object)`;
* the compiled model returns its SPLIT - which sub-strings it hands to which child class, in
  call order (`combi`), or the keyword alternatives (WORDClsBase list), or the text it hands to
  the regex (String/Number bases);
* the harness executes the split fail-fast against the recording and requires: the same child
  calls in the same order with the same strings, the same outcome (tuple / None / NoMatchError /
  exception type), and item-wise the same tuple (None / str / the object the k-th call returned);
* when the class accepts, `str(node)` is compared with the model's `tostr` of the same items
  (children by their printed text).

Leaf round trip (all classes, generic or hand-written): for every sample the class accepts,
`t1 = str(cls(text))`, `cls(t1)` must succeed with `str(...) == t1` and an equal `repr`.
Failures are C01 leaf findings (reported per class with the shortest failing input); they do not
affect the exit code.  Exit 1 on a model/real disagreement.

Samples: literal first arguments of `ClassName("...")` calls in /repo/src/fparser/two/tests
(`ast`, with `tcls = ClassName` aliases resolved), plus `(type(node).__name__, str(node))` for
every node of the trees of `--n` generated programs (`fv.gen.gen_program`), plus layout variants
(blank padding, case, blanks around punctuation), mutants (a character dropped / inserted /
doubled: brackets, quotes, separators, placeholder-looking text, exponent constants) and
cross-feeding between classes of the same base.

Run time is bounded and reproducible:

* every sample obeys `admissible` (length <= 120, bracket depth <= 3, <= 6 groups): the real
  matchers are exponential in the nesting depth (C20) and each sample is matched several times;
* every sample runs under a 2 s limit (`--case-seconds`) enforced by SIGALRM raising
  `CaseTimeout`, a BaseException (fparser and this file have `except Exception` clauses that would
  swallow an ordinary exception) with the timer re-armed every second; a sample over the limit is
  logged (`TIMEOUT (sample skipped) Class('text')`) and skipped - it is neither agreement nor
  disagreement;
* `--max-seconds S` (default 25 + 0.5*n) is a wall-clock budget: generating/parsing programs may
  use 40 % of it, and when it is used up sampling STOPS (reported, not a failure); the work list is
  shuffled deterministically so that what was done is a uniform subset of the classes;
* per class at most 40 + n samples (20 + n/2 for the classes that only get the leaf oracle), so
  the time is roughly linear in n;
* `--classes-per-base K`: a quick tier with K generic classes per base (+ 10*K leaf-only classes);
* every set is sorted before it is iterated: the result depends on (seed, n, the working trees of
  /repo and fv/gen.py) only, not on PYTHONHASHSEED (checked: identical counts for hash seeds 0, 1,
  12345).
  Measured (seed 0, three runs each): n=40 12.3 / 13.0 / 13.2 s (13 563 samples);
  n=300 52.5 / 51.0 / 51.5 s (38 350 samples); --n 40 --classes-per-base 2: 4 s.

What used to hang (found with `faulthandler`): the mutant
`Section_Subscript_List('bar(Fld(2 - n *F2PY_EXPR_TUPLE_1 1 - 0), betaX)')` - placeholder-looking
text INSIDE a bracket group collides with the key `string_replace_map` gives to that very group, so
`repmap` re-inserts the group into itself at every level of the recursive descent and the real
matcher runs for minutes and gigabytes (the foreign-placeholder defect of string_replace_map,
outside the `Free` hypothesis of srm_roundtrip_partial).  The old guard raised an `Exception`
subclass from a one-shot timer; this file's own `except Exception` in check_str / leaf_roundtrip
swallowed it and the sample went on unguarded.  Such mutants are now generated at bracket depth 0
only (the collision is kept, it is finite there), and the guard cannot be swallowed.

NEGATIVE CONTROL (run at the start of EVERY invocation, < 0.1 s, `negative_control`; a failing
control makes the exit code 1): on six fixed cases
  (0) unmodified real code and driver                              -> 0/6 disagreements;
  (1) the real `SequenceBase.match` monkeypatched in this process to drop the last element of
      every list with more than one element                        -> 3/3 list cases reported
      ("real made 3 child calls, model 2" / items differ);
  (2) one driver answer flipped (the text of the last child slot gets an extra character,
      `_FlippedModel`)                                             -> 6/6 cases reported.
Observed on 2026-09-26 with the driver built from lean/ at that date: exactly those numbers.

    timeout 1800 /venv/bin/python -m fv.cosim_combi --seed 0 --n 300
    timeout 300  /venv/bin/python -m fv.cosim_combi --seed 0 --n 40 [--classes-per-base 2]
"""
import argparse
import ast
import collections
import json
import os
import random
import signal
import sys

from fv import repo
from fv import extract_combi
from fv import model as fvmodel

repo.activate()

from fparser.two import utils as U                     # noqa: E402
from fparser.two.parser import ParserFactory           # noqa: E402

TESTS = os.path.join(repo.REPO, "src", "fparser", "two", "tests")


# ------------------------------------------------------------------------------- samples

def harvest_tests(names):
    """{class name: set(strings)} from the repo's own tests"""
    out = collections.defaultdict(set)
    for root, dirs, files in os.walk(TESTS):
        dirs.sort()
        for f in sorted(files):
            if not f.endswith(".py"):
                continue
            try:
                tree = ast.parse(open(os.path.join(root, f), encoding="utf-8").read())
            except (SyntaxError, UnicodeDecodeError):
                continue
            scopes = [n for n in ast.walk(tree) if isinstance(n, (ast.FunctionDef, ast.Module))]
            for sc in scopes:
                alias = []          # (lineno, alias name, class name)
                for n in ast.walk(sc):
                    if isinstance(n, ast.Assign) and len(n.targets) == 1 \
                            and isinstance(n.targets[0], ast.Name):
                        v = n.value
                        cname = v.id if isinstance(v, ast.Name) else (
                            v.attr if isinstance(v, ast.Attribute) else None)
                        if cname in names:
                            alias.append((n.lineno, n.targets[0].id, cname))
                alias.sort()
                for n in ast.walk(sc):
                    if not (isinstance(n, ast.Call) and n.args
                            and isinstance(n.args[0], ast.Constant)
                            and isinstance(n.args[0].value, str)):
                        continue
                    fn = n.func
                    cname = fn.id if isinstance(fn, ast.Name) else (
                        fn.attr if isinstance(fn, ast.Attribute) else None)
                    if cname is None:
                        continue
                    if cname not in names:
                        best = None
                        for ln, a, c in alias:
                            if a == cname and ln <= n.lineno:
                                best = c
                        cname = best
                    if cname in names and admissible(n.args[0].value):
                        out[cname].add(n.args[0].value)
    return out


MAX_LEN = 120        # longest sample string
MAX_DEPTH = 3         # deepest bracket nesting of a sample
MAX_GROUPS = 6        # most bracket groups in a sample
MAX_OPS = 10          # most operator-ish characters outside literals


def admissible(s):
    """Deterministic size limits on a sample.  The real expression / reference matchers are
    exponential in the nesting depth (`f(g(h(..)))`, `( .. ) ** c + .y. b`: C20,
    `parse_calls_not_polynomial`), and every sample is matched several times (class match,
    leaf round trip, re-parse); beyond these limits single samples take minutes."""
    if len(s) > MAX_LEN or "\n" in s:
        return False
    depth = best = groups = ops = 0
    for ch in s:
        if ch in "([":
            depth += 1
            groups += 1
            best = max(best, depth)
        elif ch in ")]":
            depth = max(0, depth - 1)
        elif ch in "+-*/%.<>=":
            ops += 1
    return best <= MAX_DEPTH and groups <= MAX_GROUPS and ops <= 3 * MAX_OPS


def harvest_generated(seed, n, deadline=None):
    """{class name: set(strings)} from the trees of generated programs; -> (samples, programs
    parsed, programs skipped because generation+parse exceeded 5 s or the budget ran out)"""
    from fv import gen, real
    import time
    out = collections.defaultdict(set)
    parsed = skipped = 0
    for i in range(n):
        if deadline is not None and time.time() > deadline:
            skipped += n - i
            break
        try:
            with time_limit(5.0):
                p = gen.gen_program(seed * 100003 + i, std="f2008")
                src = p.text()
                o = real.try_parse(src, std="f2008")
        except CaseTimeout:
            skipped += 1
            continue
        except Exception:  # noqa: BLE001
            continue
        if o.kind != "tree":
            continue
        parsed += 1
        for node in U.walk(o.tree):
            if isinstance(node, U.Base) and not isinstance(node, U.BlockBase):
                try:
                    t = str(node)
                except Exception:  # noqa: BLE001
                    continue
                if admissible(t):
                    out[type(node).__name__].add(t)
    return out, parsed, skipped


def variants(rng, s):
    """layout variants of a printed text: padding, case, blanks around punctuation"""
    vs = [" " + s, s + " ", "  " + s + "  ", s.lower(), s.upper()]
    for ch in ",():=":
        if ch in s:
            vs.append(s.replace(ch, " " + ch + " "))
            vs.append(s.replace(ch + " ", ch).replace(" " + ch, ch))
    rng.shuffle(vs)
    return vs[:4]


def mutants(rng, s, k=6):
    """adversarial neighbours: a character dropped / inserted / doubled (brackets, quotes,
    separators, placeholder-looking text, exponent constants)"""
    out = []
    ins = ["(", ")", "=", ":", ",", "'", '"', "/", "*", "[", "]", " ", "::", "%", "x", "1.e5",
           "F2PY_EXPR_TUPLE_1", "'a,b'", "(a,b)", "(:)", "\t", "_"]
    for _ in range(k):
        r = rng.random()
        if s and r < 0.35:
            i = rng.randrange(len(s))
            out.append(s[:i] + s[i + 1:])
        elif r < 0.85:
            i = rng.randrange(len(s) + 1)
            what = rng.choice(ins)
            if what.startswith("F2PY") and (s[:i].count("(") + s[:i].count("[")
                                            > s[:i].count(")") + s[:i].count("]")):
                # placeholder-looking text INSIDE a bracket group collides with the key of that
                # very group: `repmap` then re-inserts the group into itself at every nesting
                # level and the real matcher recurses for minutes (the known foreign-placeholder
                # defect of string_replace_map, outside `Free`).  Keep the collision, but at
                # bracket depth 0 where it is finite.
                i = 0
            out.append(s[:i] + what + s[i:])
        elif s:
            i = rng.randrange(len(s))
            out.append(s[:i] + s[i] + s[i:])
    return out


class CaseTimeout(BaseException):
    """The real parser did not finish within the per-sample limit.  A BaseException on purpose:
    fparser (`FortranReaderBase.next`, several `match` methods) and this harness have
    `except Exception` clauses that would swallow an ordinary exception raised from the signal
    handler; the timer is also RE-ARMED every second after the first expiry, so a swallowed or
    badly timed delivery cannot leave the sample running."""


CASE_SECONDS = 2.0


def _alarm(signum, frame):
    raise CaseTimeout()


class time_limit:
    """`with time_limit(seconds):` - CaseTimeout after `seconds`, then again every second"""

    def __init__(self, seconds=None):
        self.seconds = seconds or CASE_SECONDS

    def __enter__(self):
        self.old = signal.signal(signal.SIGALRM, _alarm)
        signal.setitimer(signal.ITIMER_REAL, self.seconds, 1.0)

    def __exit__(self, *a):
        signal.setitimer(signal.ITIMER_REAL, 0)
        signal.signal(signal.SIGALRM, self.old)
        return False


# ------------------------------------------------------------------------------- recording

class Recorder:
    """wraps Base.__new__; records the calls made at depth 1"""

    def __init__(self):
        self.depth = 0
        self.calls = []
        self.orig = None

    def __enter__(self):
        self.orig = U.Base.__dict__["__new__"]
        orig = self.orig.__func__ if isinstance(self.orig, staticmethod) else self.orig
        rec = self

        def new(cls, string, parent_cls=None, _deepcopy=False):
            rec.depth += 1
            top = rec.depth == 1
            try:
                try:
                    r = orig(cls, string, parent_cls, _deepcopy)
                except U.NoMatchError:
                    if top:
                        rec.calls.append((cls, string, "nomatch", None))
                    raise
                except Exception as e:  # noqa: BLE001
                    if top:
                        rec.calls.append((cls, string, "exc:" + type(e).__name__, None))
                    raise
                if top:
                    rec.calls.append((cls, string, "ok", r))
                return r
            finally:
                rec.depth -= 1

        U.Base.__new__ = new
        return self

    def __exit__(self, *a):
        U.Base.__new__ = self.orig
        return False


def real_match(cls, text):
    """-> (outcome, result tuple or None, calls); outcome = tuple|none|nomatch|exc:<Type>"""
    with Recorder() as rec:
        try:
            r = cls.match(text)
            if r is None:
                out = "none"
            elif isinstance(r, tuple):
                out = "tuple"
            else:
                out = "other:" + type(r).__name__
        except U.NoMatchError:
            r, out = None, "nomatch"
        except Exception as e:  # noqa: BLE001
            r, out = None, "exc:" + type(e).__name__
    return out, r, rec.calls


# ------------------------------------------------------------------------------- model side

def parse_slots(fields, pos):
    """fields[pos:] = none | some n slot* -> (slots or None, new pos)"""
    if fields[pos] == "none":
        return None, pos + 1
    n = int(fields[pos + 1])
    pos += 2
    slots = []
    for _ in range(n):
        k = fields[pos]
        if k in ("N", "X", "F"):
            slots.append((k,))
            pos += 1
        elif k == "S":
            slots.append(("S", fields[pos + 1]))
            pos += 2
        elif k == "C":
            slots.append(("C", int(fields[pos + 1]), fields[pos + 2]))
            pos += 3
        else:
            raise ValueError("bad slot " + k)
    return slots, pos


def run_slots(slots, calls, k, ids):
    """execute a split against the recorded calls from index k.
    -> (outcome, items, k', problem)   outcome = tuple|nomatch|exc:<T>|none"""
    items = []
    for sl in slots:
        if sl[0] == "N":
            items.append(None)
        elif sl[0] == "S":
            items.append(sl[1])
        elif sl[0] == "X":
            return "exc:TypeError", None, k, None
        elif sl[0] == "F":
            return "none", None, k, None
        else:
            if k >= len(calls):
                return None, None, k, "model makes call #%d %s(%r), real made %d calls" % (
                    k, sl[1], sl[2], len(calls))
            cls, string, how, obj = calls[k]
            if ids.get(cls) != sl[1] or string != sl[2]:
                return None, None, k, "call #%d: model %s(%r) real %s(%r)" % (
                    k, sl[1], sl[2], ids.get(cls), string)
            k += 1
            if how == "nomatch":
                return "nomatch", None, k, None
            if how != "ok":
                return how, None, k, None
            items.append(obj)
    return "tuple", items, k, None


def same_items(model_items, real_items):
    if len(model_items) != len(real_items):
        return False
    for a, b in zip(model_items, real_items):
        if isinstance(a, U.Base) or isinstance(b, U.Base):
            if a is not b:
                return False
        elif a != b:
            return False
    return True


def norm_outcome(o):
    # a `return None` and a NoMatchError are both "no match" for the caller (Base.__new__),
    # but they are different events: keep them apart
    return o


class Checker:
    def __init__(self, mdl, rows, ctx):
        self.m = mdl
        self.rows = rows
        self.ctx = ctx
        self.ids = ctx.ids
        self.regex = [p for _, p in ctx.regex]
        self.stats = collections.Counter()
        self.per_base = collections.Counter()
        self.per_base_accept = collections.Counter()
        self.bad = []

    def disagree(self, row, text, msg):
        self.stats["disagree"] += 1
        if len(self.bad) < 40:
            self.bad.append("%s %r: %s" % (row["key"], text, msg))

    def check(self, row, cls, text):
        sp = row["spec"]
        base = sp["pybase"]
        self.per_base[base] += 1
        self.stats["cases"] += 1
        out, res, calls = real_match(cls, text)
        if sp["base"] == "string":
            return self.check_string(row, cls, text, out, res)
        if sp["base"] == "number":
            return self.check_number(row, cls, text, out, res)
        try:
            f = self.m.ask("combi", str(row["id"]), text)
        except RuntimeError as e:
            return self.disagree(row, text, "model error %s" % e)
        if f[0] == "nospec":
            return self.disagree(row, text, "driver has no spec for this class (stale build?)")
        if f[0] == "split":
            slots, _ = parse_slots(f, 1)
            if slots is None:
                mo, items, k, prob = "none", None, 0, None
            else:
                mo, items, k, prob = run_slots(slots, calls, 0, self.ids)
        elif f[0] == "alts":
            pos, k, mo, items, prob = 1, 0, "none", None, None
            while pos < len(f):
                slots, pos = parse_slots(f, pos)
                if slots is None:
                    continue
                o2, it2, k, prob = run_slots(slots, calls, k, self.ids)
                if prob:
                    break
                if o2 == "tuple":
                    mo, items = o2, it2
                    break
                if o2 == "nomatch" or o2 == "none":
                    continue          # `except NoMatchError: obj = None`
                mo = o2               # another exception escapes
                break
        else:
            return self.disagree(row, text, "unexpected reply %r" % f[:1])
        if prob:
            return self.disagree(row, text, prob)
        if k != len(calls):
            return self.disagree(row, text, "real made %d child calls, model %d: %r" % (
                len(calls), k, [(c.__name__, s) for c, s, _, _ in calls]))
        if mo != out:
            return self.disagree(row, text, "outcome model=%s real=%s" % (mo, out))
        if out == "tuple":
            real_items = list(res[1]) if sp["base"] == "seq" else list(res)
            if sp["base"] == "seq" and res[0] != sp["sep"]:
                return self.disagree(row, text, "separator %r" % (res[0],))
            if not same_items(items, real_items):
                return self.disagree(row, text, "items model=%r real=%r" % (items, real_items))
            self.per_base_accept[base] += 1
            self.check_str(row, cls, text, real_items)
        self.stats["agree"] += 1

    def check_str(self, row, cls, text, real_items):
        """str(node) vs the model's tostr on the same items"""
        try:
            obj = cls(text)
            s = str(obj)
        except Exception as e:  # noqa: BLE001
            # e.g. BracketBase.tostr InternalError; compare with model none
            s = None
        if obj is not None and type(obj) is not cls:
            return      # the match went to a subclass: a different printer
        fields = []
        for it in real_items:
            if it is None:
                fields.append("N")
            elif isinstance(it, str):
                fields += ["S", it]
            else:
                fields += ["T", str(it)]
        f = self.m.ask("combi_str", str(row["id"]), *fields)
        ms = f[1] if f[0] == "some" else None
        self.stats["tostr"] += 1
        if ms != s:
            self.disagree(row, text, "tostr model=%r real=%r" % (ms, s))

    def check_string(self, row, cls, text, out, res):
        sp = row["spec"]
        f = self.m.ask("combi", str(row["id"]), text)
        if f[0] != "string":
            return self.disagree(row, text, "unexpected reply %r" % f[:1])
        x, lit_ok, res_ids = f[1], f[2] == "1", [int(i) for i in f[3].split(",") if i]
        ok = lit_ok or any(bool(self.regex[i].match(x)) for i in res_ids)
        mo = "tuple" if ok else "none"
        if mo != out:
            return self.disagree(row, text, "outcome model=%s real=%s (x=%r)" % (mo, out, x))
        if ok:
            if tuple(res) != (x,):
                return self.disagree(row, text, "result model=%r real=%r" % ((x,), res))
            self.per_base_accept[sp["pybase"]] += 1
            g = self.m.ask("combi_str", str(row["id"]), "S", x)
            try:
                s = str(cls(text))
            except Exception:  # noqa: BLE001
                s = None
            if s is not None and (g[0] != "some" or g[1] != s):
                return self.disagree(row, text, "tostr model=%r real=%r" % (g, s))
        self.stats["agree"] += 1

    def check_number(self, row, cls, text, out, res):
        sp = row["spec"]
        pre = {"id": lambda t: t, "strip": str.strip, "upper": str.upper}[sp["pre"]]
        xpy = pre(text).replace(" ", "")
        m = self.regex[sp["re"]].match(xpy)
        if m is None:
            f = self.m.ask("combi", str(row["id"]), text)
            mo = "none"
            items = None
        else:
            d = m.groupdict()
            kind = d.get("kind_param")
            f = self.m.ask("combi", str(row["id"]), text, d["value"],
                           "1" if kind is not None else "0", kind or "")
            mo = "tuple"
            items = (f[3], kind)
        if f[0] != "number" or f[1] != xpy:
            return self.disagree(row, text, "regex input model=%r python=%r" % (f[1:2], xpy))
        if mo != out:
            return self.disagree(row, text, "outcome model=%s real=%s" % (mo, out))
        if items is not None:
            if tuple(res) != items:
                return self.disagree(row, text, "items model=%r real=%r" % (items, res))
            self.per_base_accept[sp["pybase"]] += 1
            fields = ["S", items[0]] + (["N"] if items[1] is None else ["S", items[1]])
            g = self.m.ask("combi_str", str(row["id"]), *fields)
            try:
                s = str(cls(text))
            except Exception:  # noqa: BLE001
                s = None
            if s is not None and (g[0] != "some" or g[1] != s):
                return self.disagree(row, text, "tostr model=%r real=%r" % (g, s))
        self.stats["agree"] += 1


# ------------------------------------------------------------------------------- leaf oracle

def leaf_roundtrip(cls, text):
    """-> None (not accepted / fine) or a failure description"""
    try:
        a = cls(text)
    except U.NoMatchError:
        return "reject", None
    except Exception as e:  # noqa: BLE001
        return "crash", "%s(%r) raises %s: %s" % (cls.__name__, text, type(e).__name__, str(e)[:80])
    if a is None:
        return "reject", None
    try:
        t1 = str(a)
        r1 = repr(a)
    except Exception as e:  # noqa: BLE001
        return "fail", "str/repr of %s(%r) raises %s" % (cls.__name__, text, type(e).__name__)
    try:
        b = cls(t1)
    except U.NoMatchError:
        return "fail", "printed text %r (from %r) is rejected" % (t1, text)
    except Exception as e:  # noqa: BLE001
        return "fail", "printed text %r (from %r) raises %s" % (t1, text, type(e).__name__)
    t2 = str(b)
    if t2 != t1:
        return "fail", "%r -> %r -> %r" % (text, t1, t2)
    if repr(b) != r1:
        return "fail", "%r -> %r: repr %s != %s" % (text, t1, r1[:120], repr(b)[:120])
    return "ok", None


# ------------------------------------------------------------------------------- negative control

CONTROL_CASES = [
    ("Actual_Arg_Spec_List", "a, b, c"),
    ("Actual_Arg_Spec_List", "x, f(1, 2), k = 'p,q'"),
    ("Section_Subscript_List", "1 : 2, j"),
    ("Part_Ref", "a(1, 2)"),
    ("Actual_Arg_Spec", "k = 1"),
    ("Module_Stmt", "MODULE m"),
]


class _FlippedModel:
    """a driver whose `combi` answers are wrong in one place: the text of the LAST child slot
    gets an extra character"""

    def __init__(self, mdl):
        self.mdl = mdl

    def ask(self, cmd, *fields):
        f = self.mdl.ask(cmd, *fields)
        if cmd == "combi" and f and f[0] == "split":
            idx = [i for i, x in enumerate(f) if x == "C" and i + 2 < len(f)]
            if idx:
                f = list(f)
                f[idx[-1] + 2] += "x"
        return f


def negative_control(mdl, rows, ctx, classes):
    """Shows that the harness reports a disagreement when there is one.  On fixed cases:
    (0) unmodified real code and driver: no disagreement;
    (1) the REAL `SequenceBase.match` monkeypatched (in this process only) to drop the last
        element of every list with more than one element: every multi-element list case must be
        reported;
    (2) one driver answer flipped (`_FlippedModel`): every case with a child slot must be reported.
    -> (ok, text)"""
    ParserFactory().create(std="f2003")
    by_key = {r["key"]: r for r in rows}
    cases = [(by_key[k], classes[k], t) for k, t in CONTROL_CASES
             if k in by_key and by_key[k]["kind"] == "generic"]

    def count(model, only=None):
        chk = Checker(model, rows, ctx)
        hit = 0
        for r, cls, t in cases:
            if only and r["spec"]["base"] != only:
                continue
            before = chk.stats["disagree"]
            chk.check(r, cls, t)
            hit += chk.stats["disagree"] > before
        return hit, chk.stats["cases"]

    clean, total = count(mdl)
    orig = U.SequenceBase.__dict__["match"]
    ofn = orig.__func__

    def dropping(separator, subcls, string):
        r = ofn(separator, subcls, string)
        if r is not None and len(r[1]) > 1:
            return r[0], r[1][:-1]
        return r

    U.SequenceBase.match = staticmethod(dropping)
    try:
        real_hit, real_total = count(mdl, only="seq")
    finally:
        U.SequenceBase.match = orig
    flip_hit, flip_total = count(_FlippedModel(mdl))
    ok = clean == 0 and real_total > 0 and real_hit == real_total and flip_hit == flip_total > 0
    text = ("negative control: unmodified %d/%d disagreements; real SequenceBase.match dropping the "
            "last element: %d/%d reported; one driver answer flipped: %d/%d reported  -> %s" % (
                clean, total, real_hit, real_total, flip_hit, flip_total,
                "harness detects disagreements" if ok else "CONTROL FAILED"))
    return ok, text


# ------------------------------------------------------------------------------- main

def build_samples(rng, rows, seed, n, deadline):
    """{class name: sorted list of strings}; every set is sorted before it is iterated, so the
    result depends on (seed, n, working trees) only - not on PYTHONHASHSEED"""
    names = {r["name"] for r in rows}
    tests = harvest_tests(names)
    n_test = sum(len(v) for v in tests.values())
    gsamples, parsed, skipped = harvest_generated(seed, n, deadline)
    samples = {}
    n_gen = 0
    for k in sorted(set(tests) | set(gsamples)):
        a, b = tests.get(k, set()), gsamples.get(k, set())
        n_gen += len(b - a)
        samples[k] = a | b
    # layout variants and mutants of the generic classes' samples
    nvar = 20 + n // 5
    for r in rows:
        if r["kind"] == "generic":
            base = sorted(samples.get(r["name"], ()))
            rng.shuffle(base)
            extra = []
            for t in base[:nvar]:
                extra += variants(rng, t)
                extra += mutants(rng, t)
            samples.setdefault(r["name"], set()).update(x for x in extra if admissible(x))
    # cross-feeding: samples of the other classes with the same base
    by_base = collections.defaultdict(list)
    for r in rows:
        if r["kind"] == "generic":
            by_base[r["spec"]["pybase"]].append(r["name"])
    pool = {b: sorted(set().union(*[samples.get(nm, set()) for nm in sorted(set(nms))]))
            for b, nms in sorted(by_base.items())}
    for r in rows:
        if r["kind"] == "generic":
            pl = pool[r["spec"]["pybase"]]
            if pl:
                samples.setdefault(r["name"], set()).update(rng.sample(pl, min(25, len(pl))))
    return {k: sorted(v) for k, v in sorted(samples.items())}, n_test, n_gen, parsed, skipped


def select_classes(rng, rows, k):
    """`--classes-per-base K`: K generic classes per base (deterministic choice) and 10*K of the
    classes that only get the leaf oracle (hand-written / other bases); None = all"""
    if not k:
        return {r["key"] for r in rows}
    groups = collections.defaultdict(list)
    for r in rows:
        if r["kind"] == "generic":
            groups[r["spec"]["pybase"]].append(r["key"])
        elif r["kind"] in ("hand", "other_base"):
            groups["~" + r["kind"]].append(r["key"])
    chosen = set()
    for g in sorted(groups):
        keys = sorted(groups[g])
        rng.shuffle(keys)
        chosen.update(keys[:(k if not g.startswith("~") else 10 * k)])
    return chosen


def run(seed, n, exe=None, verbose=False, max_per_class=None, max_seconds=None,
        classes_per_base=None, case_seconds=None):
    import time
    t0 = time.time()
    if max_seconds is None:
        max_seconds = 25 + 0.5 * n
    deadline = t0 + max_seconds
    if max_per_class is None:
        max_per_class = 40 + n
    leaf_only_cap = 20 + n // 2
    rng = random.Random(seed)
    rows, regex_labels, ctx = extract_combi.extract()
    classes = dict(extract_combi.all_classes())
    by_key = {r["key"]: r for r in rows}

    # is the compiled table the one of the live tree?
    gen_json = os.path.join(os.path.dirname(os.path.dirname(exe or fvmodel.EXE)), "..", "..",
                            "FparserModel", "Generated", "combi.json")
    stale = False
    try:
        old = json.load(open(os.path.normpath(gen_json)))
        stale = old["classes"] != json.loads(json.dumps(rows))
    except (OSError, ValueError, KeyError):
        pass

    mdl = fvmodel.Model(exe) if exe else fvmodel.get_model()
    try:
        mdl.ask("combi", "0", "x")
    except RuntimeError as e:
        print("the compiled driver has no `combi` command (%s): add `import FpDriver.Combi` and "
              "`FpDriver.Combi.handle` to lean/FpDriver.lean and rebuild" % e)
        return 1, {}, {}, None

    print("combinator co-simulation  seed=%d n=%d  budget %.0f s" % (seed, n, max_seconds))
    control_ok, control_text = negative_control(mdl, rows, ctx, classes)
    print(control_text)

    # at most 40 % of the budget for generating and parsing programs
    samples, n_test, n_gen, parsed, skipped = build_samples(
        rng, rows, seed, n, t0 + 0.4 * max_seconds)
    t_harvest = time.time() - t0
    chosen = select_classes(random.Random(seed + 1), rows, classes_per_base)

    chk = Checker(mdl, rows, ctx)
    leaf = collections.Counter()
    leaf_fail = collections.defaultdict(list)
    leaf_crash = collections.defaultdict(list)
    timeouts = []
    shadowed = {r["name"] for r in rows if r["std"] == "f2008"}
    planned = done = 0
    stopped = False
    limit = case_seconds or CASE_SECONDS

    for std in ("f2003", "f2008"):
        ParserFactory().create(std=std)
        work = []
        for r in rows:
            key = r["key"]
            if key not in chosen or r["kind"] not in ("generic", "hand", "other_base"):
                continue
            old_shadowed = r["std"] == "f2003" and r["name"] in shadowed
            if (std == "f2003") != old_shadowed:
                continue
            texts = samples.get(r["name"], [])
            cap = max_per_class if r["kind"] == "generic" else leaf_only_cap
            if len(texts) > cap:
                texts = sorted(random.Random(seed * 7 + r["id"]).sample(texts, cap))
            work += [(r, t) for t in texts]
        # a deterministic shuffle: when the budget stops the run, what was done is a uniform
        # subset of all classes, not the alphabetically first ones
        random.Random(seed * 13 + len(work)).shuffle(work)
        planned += len(work)
        for r, t in work:
            if time.time() > deadline:
                stopped = True
                break
            done += 1
            key = r["key"]
            cls = classes[key]
            try:
                from fparser.two.symbol_table import SYMBOL_TABLES
                SYMBOL_TABLES.clear()
            except Exception:  # noqa: BLE001
                pass
            how, msg = ("skip", None)
            try:
                with time_limit(limit):
                    if r["kind"] == "generic":
                        chk.check(r, cls, t)
                    how, msg = leaf_roundtrip(cls, t)
            except CaseTimeout:
                # Base.__new__ may have been left wrapped by an interrupted Recorder
                how, msg = "timeout", "%s(%r) does not finish within %.0f s" % (
                    cls.__name__, t, limit)
                timeouts.append((key, t))
                print("  TIMEOUT (sample skipped) " + msg, flush=True)
            finally:
                if getattr(U.Base.__dict__["__new__"], "__name__", "") == "new":
                    U.Base.__new__ = _ORIG_NEW
            leaf[how] += 1
            if how == "fail":
                leaf_fail[key].append((len(t), t, msg))
            elif how == "crash":
                leaf_crash[key].append((len(t), t, msg))
            if verbose and how in ("fail", "crash"):
                print("  [%s] %s %s" % (how, key, msg), flush=True)
    ParserFactory().create(std="f2003")

    per, kinds = extract_combi.counts(rows)
    print("samples: %d strings from the repo tests, %d from %d generated programs (%d skipped), "
          "+ layout variants, mutants, cross-feeding;  limits: len<=%d depth<=%d groups<=%d"
          % (n_test, n_gen, parsed, skipped, MAX_LEN, MAX_DEPTH, MAX_GROUPS))
    if stale:
        print("WARNING: Generated/combi.json differs from the live extraction (rebuild the model)")
    if classes_per_base:
        print("classes: %d per base (%d classes selected)" % (classes_per_base, len(chosen)))
    print("generic classes per base (cases run / accepted by the real match):")
    for b in extract_combi.BASES:
        print("  %-18s classes %3d   cases %6d   accepted %6d" % (
            b, per.get(b, 0), chk.per_base.get(b, 0), chk.per_base_accept.get(b, 0)))
    print("  total generic %d, hand-written %d, other generic bases %d" % (
        kinds.get("generic", 0), kinds.get("hand", 0), kinds.get("other_base", 0)))
    covered = {r["key"] for r in rows if r["kind"] == "generic" and r["key"] in chosen
               and samples.get(r["name"])}
    print("  generic classes with at least one sample: %d / %d" % (
        len(covered), len([r for r in rows if r["kind"] == "generic" and r["key"] in chosen])))
    print("model/real: cases %d  agree %d  DISAGREE %d  (tostr comparisons %d)" % (
        chk.stats["cases"], chk.stats["agree"], chk.stats["disagree"], chk.stats["tostr"]))
    for b in chk.bad:
        print("  DISAGREE " + b)
    print("leaf round trip (all classes): accepted-and-stable %d  FAIL %d  crash %d  rejected %d  "
          "timeout %d" % (leaf["ok"], leaf["fail"], leaf["crash"], leaf["reject"], leaf["timeout"]))
    if leaf_fail:
        print("classes whose leaf round trip fails on an accepted input (shortest input):")
        for key in sorted(leaf_fail):
            fl = sorted(leaf_fail[key])
            kind = by_key[key]["kind"]
            print("  %-40s [%s] %d inputs   %s" % (key, kind, len(fl), fl[0][2]))
    if leaf_crash:
        print("classes raising something other than NoMatchError (shortest input):")
        for key in sorted(leaf_crash):
            fl = sorted(leaf_crash[key])
            print("  %-40s %d inputs   %s" % (key, len(fl), fl[0][2]))
    print("samples done %d of %d planned%s;  harvest %.1f s, total %.1f s" % (
        done, planned, "  (BUDGET USED: sampling stopped, not a failure)" if stopped else "",
        t_harvest, time.time() - t0))
    bad = chk.stats["disagree"] + (0 if control_ok else 1)
    return bad, leaf_fail, leaf_crash, chk


_ORIG_NEW = U.Base.__dict__["__new__"]


def main(argv=None):
    ap = argparse.ArgumentParser(description=__doc__.split("\n\n")[0])
    ap.add_argument("--seed", type=int, default=0)
    ap.add_argument("--n", type=int, default=300, help="generated programs to harvest samples from")
    ap.add_argument("--max-seconds", type=float, default=None,
                    help="wall-clock budget; sampling stops (no failure) when used; "
                         "default 25 + 0.5*n")
    ap.add_argument("--classes-per-base", type=int, default=None,
                    help="quick tier: only K generic classes per base (and 10*K leaf-only classes)")
    ap.add_argument("--case-seconds", type=float, default=None,
                    help="per-sample limit (default %.0f s); a sample over it is logged and skipped"
                         % CASE_SECONDS)
    ap.add_argument("--exe", default=os.environ.get("FV_MODEL_EXE"))
    ap.add_argument("-v", action="store_true")
    a = ap.parse_args(argv)
    bad, _, _, _ = run(a.seed, a.n, exe=a.exe, verbose=a.v, max_seconds=a.max_seconds,
                       classes_per_base=a.classes_per_base, case_seconds=a.case_seconds)
    return 1 if bad else 0


if __name__ == "__main__":
    sys.exit(main())
