import FparserModel.Proofs.ExprLex2RenderTok

/-!
`lex_render`: every operator word of a rendered token list passes `segC`; what follows a word.
-/
namespace Fp.ExprLex
open Fp Fp.Expr

/-- **an operator word in a quiet context passes every check** -/
theorem segC_word (N : Names) (t : T) (hok : tokOK N t = true) (hp : t.isPlain = false)
    (prev : Option Char) (after : Str) (hq : quietP prev = true) (ha : quietA after = true)
    (hd : dotAfterOK after) (hs : t.isDiv = true → slashA after = true) :
    segC prev (.word (tkOf N t) (spellT N t)) after = true := by
  cases t with
  | atom i d g => cases d with
    | false => simp [T.isPlain] at hp
    | true =>
      simp only [spellT, tkOf]
      split <;> exact segC_dotted prev _ after (by decide) (by decide) (by decide) hd
  | lp => simp [tokOK] at hok
  | rp => simp [tokOK] at hok
  | op o g =>
    cases o with
    | dot n =>
      simp only [tokOK, Bool.and_eq_true, bne_iff_ne, ne_eq, beq_iff_eq] at hok
      exact segC_dotted prev (N.dot n) after hok.1.1.1.1 hok.1.1.1.2 hok.1.1.2 hd
    | eqv => exact segC_dotted prev _ after (by decide) (by decide) (by decide) hd
    | neqv => exact segC_dotted prev _ after (by decide) (by decide) (by decide) hd
    | or => exact segC_dotted prev _ after (by decide) (by decide) (by decide) hd
    | and => exact segC_dotted prev _ after (by decide) (by decide) (by decide) hd
    | not => exact segC_dotted prev _ after (by decide) (by decide) (by decide) hd
    | rel n b =>
      cases b with
      | true =>
        obtain ⟨h1, h2, h3⟩ := relWord_ok n
        exact segC_dotted prev (relWord n) after h1 h2 h3 hd
      | false =>
        rcases n with _ | _ | _ | _ | _ | _ | n <;> simp only [spellT, tkOf, relSymS]
        · exact segC_eq prev after hq ha
        · exact segC_ne prev after hq ha
        · exact segC_lt prev after hq ha
        · exact segC_le prev after hq ha
        · exact segC_gt prev after hq ha
        · exact segC_ge prev after hq ha
        · exact segC_ge prev after hq ha
    | concat => exact segC_concat prev after hq ha
    | plus => exact segC_plus prev after hq ha
    | minus => exact segC_minus prev after hq ha
    | mul => exact segC_mul prev after hq ha
    | div => exact segC_div prev after hq ha (hs rfl)
    | pow => exact segC_pow prev after hq ha

theorem tokOf_dotted_other (w : Str) (g : Bool) (h : dotClass w = .other) :
    tokOf (.dotted w) g = .op (.dot (numOf w)) g := by
  simp only [tokOf, h]

/-- the word is read back as the token -/
theorem tokOf_tkOf (N : Names) (t : T) (hok : tokOK N t = true) (hp : t.isPlain = false) :
    tokOf (tkOf N t) t.glued = t := by
  cases t with
  | atom i d g => cases d with
    | false => simp [T.isPlain] at hp
    | true =>
      simp only [tokOK, Bool.or_eq_true, beq_iff_eq] at hok
      rcases hok with rfl | rfl
      · simp only [tkOf, ↓reduceIte, T.glued]; rfl
      · simp only [tkOf, show idOf ['F','A','L','S','E'] ≠ idOf ['T','R','U','E'] by decide, ↓reduceIte, T.glued]
        rfl
  | lp => simp [tokOK] at hok
  | rp => simp [tokOK] at hok
  | op o g =>
    cases o with
    | dot n =>
      simp only [tokOK, Bool.and_eq_true, bne_iff_ne, ne_eq, beq_iff_eq] at hok
      simp only [tkOf, T.glued, tokOf_dotted_other _ _ hok.2, hok.1.2]
    | rel n b =>
      simp only [tokOK, decide_eq_true_eq] at hok
      cases b with
      | true =>
        rcases n with _ | _ | _ | _ | _ | _ | n
        · rfl
        · rfl
        · rfl
        · rfl
        · rfl
        · rfl
        · omega
      | false =>
        rcases n with _ | _ | _ | _ | _ | _ | n
        · rfl
        · rfl
        · rfl
        · rfl
        · rfl
        · rfl
        · omega
    | _ => rfl

/-! ### what follows a token -/

def headNA (X : Str) : Bool := match X with | [] => true | c :: _ => !isAlpha c

theorem pair_of_glue {t0 t : T} {rest : List T} (h : gluePairs (t0 :: t :: rest) = true) :
    (if t.glued then (t0.isPlain != t.isPlain) else !(t0.isPlain && t.isPlain)) = true ∧
    (t0.isDiv && t.slashFirst) = false ∧ gluePairs (t :: rest) = true := by
  simp only [gluePairs, Bool.and_eq_true, Bool.not_eq_true'] at h
  exact ⟨h.1.1, h.1.2, h.2⟩

theorem glued_after_word {t0 t : T} {rest : List T} (h : gluePairs (t0 :: t :: rest) = true)
    (hp0 : t0.isPlain = false) (hg : t.glued = true) : t.isPlain = true := by
  have := (pair_of_glue h).1
  simpa [hg, hp0] using this

theorem word_after_plain {t0 t : T} {rest : List T} (h : gluePairs (t0 :: t :: rest) = true)
    (hp0 : t0.isPlain = true) : t.isPlain = false := by
  have := (pair_of_glue h).1
  cases hg : t.glued <;> simp [hg, hp0] at this <;> simp [this]

theorem sep_glued {t : T} (h : t.glued = true) : sep t = [] := by simp [sep, sepB, h]
theorem sep_spaced {t : T} (h : t.glued = false) : sep t = [' '] := by simp [sep, sepB, h]

theorem dropSp_sep (t : T) (c : Char) (Z : Str) (hc : isSpace c = false) :
    dropSp (sep t ++ c :: Z) = c :: Z := by
  cases hg : t.glued
  · simp [sep_spaced hg, dropSp, show isSpace ' ' = true by decide, hc]
  · simp [sep_glued hg, dropSp, hc]

theorem quietA_tail (N : Names) (t : T) (rest : List T) (hg : gluePairs (t :: rest) = true)
    (hp : t.isPlain = false) (hall : rest.all (tokOK N) = true) : quietA (renderTail N rest) = true := by
  cases rest with
  | nil => rfl
  | cons t2 r2 =>
    rw [renderTail_cons]
    cases hg2 : t2.glued
    · rw [sep_spaced hg2]; rfl
    · have hp2 := glued_after_word hg hp hg2
      obtain ⟨i, g, rfl⟩ := plain_view hp2
      simp only [List.all_cons, Bool.and_eq_true] at hall
      obtain ⟨hne, hpl, _, _⟩ := tokOK_plain hall.1
      rw [sep_glued hg2]
      simp only [spellT, List.nil_append]
      cases hn : N.atom i with
      | nil => exact absurd hn hne
      | cons c tl =>
        rw [hn] at hpl
        simp only [List.all_cons, Bool.and_eq_true] at hpl
        simp [quietA, plain_quiet hpl.1]

theorem headNA_tail (N : Names) (t : T) (rest : List T) (hg : gluePairs (t :: rest) = true)
    (hp : t.isPlain = true) (hall : rest.all (tokOK N) = true) : headNA (renderTail N rest) = true := by
  cases rest with
  | nil => rfl
  | cons t2 r2 =>
    rw [renderTail_cons]
    have hp2 := word_after_plain hg hp
    simp only [List.all_cons, Bool.and_eq_true] at hall
    cases hg2 : t2.glued
    · rw [sep_spaced hg2]; rfl
    · obtain ⟨h, tl, hsp, hop⟩ := word_head N t2 hall.1 hp2
      rw [sep_glued hg2, hsp]
      simp [headNA, opChar_not_alpha hop]

theorem slashA_tail (N : Names) (t : T) (rest : List T) (hg : gluePairs (t :: rest) = true)
    (hd : t.isDiv = true) (hall : rest.all (tokOK N) = true) : slashA (renderTail N rest) = true := by
  cases rest with
  | nil => rfl
  | cons t2 r2 =>
    rw [renderTail_cons]
    simp only [List.all_cons, Bool.and_eq_true] at hall
    have hsf : t2.slashFirst = false := by
      have := (pair_of_glue hg).2.1
      simpa [hd] using this
    have key : ∀ (c : Char) (Z : Str), isSpace c = false → (c = '/' → headIs Z '/' = true) →
        slashA (sep t2 ++ c :: Z) = true := by
      intro c Z hc hz
      unfold slashA
      rw [dropSp_sep t2 c Z hc]
      split
      · rename_i r2 heq
        simp only [List.cons.injEq] at heq
        rw [← heq.2]; exact hz heq.1
      · rfl
    cases hp2 : t2.isPlain
    · obtain ⟨h, tl, hsp, hop⟩ := word_head N t2 hall.1 hp2
      rw [hsp, List.append_assoc, List.cons_append]
      apply key h _ (opChar_not_space hop)
      intro hh
      subst hh
      obtain ⟨tl', rfl⟩ := slash_head N t2 hp2 hsf tl hsp
      rfl
    · obtain ⟨i, g, rfl⟩ := plain_view hp2
      obtain ⟨hne, hpl, _, _⟩ := tokOK_plain hall.1
      simp only [spellT]
      cases hn : N.atom i with
      | nil => exact absurd hn hne
      | cons c tl =>
        rw [hn] at hpl
        simp only [List.all_cons, Bool.and_eq_true] at hpl
        rw [List.append_assoc, List.cons_append]
        apply key c _ (plain_not_space hpl.1)
        intro hh
        subst hh
        exact absurd hpl.1 (by decide)

end Fp.ExprLex
