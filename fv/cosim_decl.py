"""Co-simulation of the declaration slice (lean/FparserModel/Decl.lean) against the real
hand-written `match`/`tostr` of the specification-part leaf classes of fparser.two.Fortran2003.

For every sample (class name, text):

  real side   `cls.match(text)` is called DIRECTLY (the static/class method, not `cls(text)`), with
              every child class replaced by a recorder, so that the comparison is about this one
              method: result None / tuple / exception, and the ordered list of child calls
              (class name, text).  Then `cls(text)` for the printed text (`str(node)`), when it
              is accepted.
  model side  `decl.match` with echo children: crash / none / fields (class name, text handed over)
              + `decl.print` with the table {(child class, piece) -> str(real child)}: the
              printed text predicted by the model's `tostr` from the real children's own `str`.

Compared:  accepted?  node fields (the texts handed to the child classes, in order)  printed text.

Sample stream: probes, per-class shape generators (every optional part), one-token mutations,
statements harvested from fv.gen programs and routed to their statement classes, and the texts the
real `match` hands to child classes that are themselves modelled (a DATA statement feeds
Data_Stmt_Set, an entity list feeds Entity_Decl, ...).

Not failures but reported under `FINDINGS:` (candidate defects of /repo, the model mirrors them):
exceptions other than NoMatchError, printed texts that are not accepted again or print differently
the second time, accepted texts whose printed form loses / invents non-blank characters.

Negative controls: six realistic edits of the real classes (the sixth undoes the repair of /repo 68391df) (applied in-process, restored
afterwards) must each be reported as a mismatch by the ordinary sample stream.

    python -m fv.cosim_decl --seed S --n N      prints statistics, RESULT: PASS / RESULT: FAIL
"""
import argparse
import inspect
import os
import random
import re
import signal
import sys
import textwrap
import time

try:
    from fv import repo
except ImportError:      # run as a plain script from inside fv/
    sys.path.insert(0, os.path.dirname(os.path.dirname(os.path.abspath(__file__))))
    from fv import repo
repo.activate()

from fv.model import Model, get_model  # noqa: E402


CLASSES = [
    "Type_Declaration_Stmt", "Data_Component_Def_Stmt", "Entity_Decl", "Component_Decl",
    "Initialization", "Component_Initialization", "Kind_Selector", "Char_Selector",
    "Length_Selector", "Char_Length", "Attr_Spec", "Component_Attr_Spec", "Intent_Spec",
    "Dimension_Attr_Spec", "Intent_Attr_Spec", "Implicit_Stmt", "Implicit_Spec", "Letter_Spec",
    "Data_Stmt", "Data_Stmt_Set", "Data_Implied_Do", "Data_Stmt_Value", "Dimension_Stmt",
    "Intent_Stmt", "Parameter_Stmt", "Named_Constant_Def", "Save_Stmt", "Saved_Entity",
    "Equivalence_Stmt", "Namelist_Stmt", "Equivalence_Set", "Common_Stmt",
]


ALARM_SECONDS = 5.0


class Timeout(BaseException):
    pass


def _alarm(signum, frame):
    signal.setitimer(signal.ITIMER_REAL, 2.0)
    raise Timeout()


# ----------------------------------------------------------------------------------------------
# real side
# ----------------------------------------------------------------------------------------------

_READY = []


def _f2003():
    from fparser.two import Fortran2003 as F
    from fparser.two import utils as U
    if not _READY:
        from fparser.two.parser import ParserFactory
        ParserFactory().create(std="f2003")
        _READY.append(1)
    return F, U


class Rec:
    """stands in for a child class inside the module globals: records the call, returns a token"""

    def __init__(self, name, log):
        self.name = name
        self.log = log

    def __call__(self, text, *a, **k):
        self.log.append((self.name, text))
        return RecNode(self.name, text)


class RecNode:
    def __init__(self, name, text):
        self.name = name
        self.text = text
        self.items = None

    def __str__(self):
        return self.text

    def __repr__(self):
        return "<%s %r>" % (self.name, self.text)


class RecList(Rec):
    """a *_List child whose items the caller takes apart (Equivalence_Object_List)"""

    def __init__(self, name, elem, log):
        Rec.__init__(self, name, log)
        self.elem = elem

    def __call__(self, text, *a, **k):
        F, U = _f2003()
        # the real SequenceBase.match with the element class replaced by a recorder
        res = U.SequenceBase.match(",", Rec(self.elem, self.log), text)
        node = RecNode(self.name, text)
        node.items = res[1]
        return node


CHILDREN = {
    # class -> the global names its match looks up
    "Type_Declaration_Stmt": ["Declaration_Type_Spec", "Attr_Spec_List", "Entity_Decl_List"],
    "Data_Component_Def_Stmt": ["Declaration_Type_Spec", "Component_Attr_Spec_List", "Component_Decl_List"],
    "Entity_Decl": ["Name", "Array_Spec", "Char_Length", "Initialization"],
    "Component_Decl": ["Component_Name", "Component_Array_Spec", "Char_Length", "Component_Initialization"],
    "Initialization": ["Null_Init", "Initialization_Expr"],
    "Component_Initialization": ["Null_Init", "Initialization_Expr"],
    "Kind_Selector": ["Char_Length", "Scalar_Int_Initialization_Expr"],
    "Char_Selector": ["Type_Param_Value", "Scalar_Int_Initialization_Expr"],
    "Length_Selector": ["Type_Param_Value", "Char_Length"],
    "Char_Length": ["Type_Param_Value"],
    "Attr_Spec": [], "Component_Attr_Spec": [], "Intent_Spec": [], "Letter_Spec": [],
    "Dimension_Attr_Spec": ["Array_Spec"],
    "Intent_Attr_Spec": ["Intent_Spec"],
    "Implicit_Stmt": ["Implicit_Spec_List"],
    "Implicit_Spec": ["Declaration_Type_Spec", "Letter_Spec_List"],
    "Data_Stmt": ["Data_Stmt_Set"],
    "Data_Stmt_Set": ["Data_Stmt_Object_List", "Data_Stmt_Value_List"],
    "Data_Implied_Do": ["Data_I_Do_Object_List", "Data_I_Do_Variable", "Scalar_Int_Expr"],
    "Data_Stmt_Value": ["Data_Stmt_Repeat", "Data_Stmt_Constant"],
    "Dimension_Stmt": ["Array_Name", "Array_Spec"],
    "Intent_Stmt": ["Intent_Spec", "Dummy_Arg_Name_List"],
    "Parameter_Stmt": ["Named_Constant_Def_List"],
    "Named_Constant_Def": ["Named_Constant", "Initialization_Expr"],
    "Save_Stmt": ["Saved_Entity_List"],
    "Saved_Entity": ["Common_Block_Name"],
    "Equivalence_Stmt": ["Equivalence_Set_List"],
    "Namelist_Stmt": ["Namelist_Group_Name", "Namelist_Group_Object_List"],
    "Equivalence_Set": ["Equivalence_Object_List"],
    "Common_Stmt": ["Common_Block_Name", "Common_Block_Object_List"],
}


def flatten(x, out):
    """the items of a match result in order: ("str", s) | ("None", "") | (class, text)"""
    if isinstance(x, RecNode):
        if x.items is not None:       # a list taken apart / kept by the caller
            for y in x.items:
                flatten(y, out)
        else:
            out.append((x.name, x.text))
    elif x is None:
        out.append(("None", ""))
    elif isinstance(x, str):
        out.append(("str", x))
    elif isinstance(x, (tuple, list)):
        for y in x:
            flatten(y, out)
    else:
        out.append(("?" + type(x).__name__, str(x)))


def real_match(name, text):
    """(kind, fields): kind in none / some / crash:<ExcType>; fields = flattened result tuple"""
    F, U = _f2003()
    cls = getattr(F, name)
    log = []
    saved = {}
    g = F.__dict__
    for ch in CHILDREN[name]:
        saved[ch] = g[ch]
        if name == "Equivalence_Set" and ch == "Equivalence_Object_List":
            g[ch] = RecList(ch, "Equivalence_Object", log)
        else:
            g[ch] = Rec(ch, log)
    # Type_Declaration_Stmt.match adds to the symbol table: harmless with recorder nodes
    saved_add = None
    if name == "Type_Declaration_Stmt":
        saved_add = cls.__dict__["add_to_symbol_table"]
        cls.add_to_symbol_table = staticmethod(lambda result: None)
    try:
        try:
            res = cls.match(text)
        except U.NoMatchError:
            return "none", []
        except Timeout:
            raise
        except Exception as e:      # noqa: BLE001
            return "crash:" + type(e).__name__, []
    finally:
        for ch, v in saved.items():
            g[ch] = v
        if saved_add is not None:
            cls.add_to_symbol_table = saved_add
    if res is None:
        return "none", []
    out = []
    flatten(res, out)
    return "some", out


def real_full(name, text):
    """`cls(text)` with the real children: (accepted?, str(node), exact class?)"""
    F, U = _f2003()
    cls = getattr(F, name)
    try:
        node = cls(text)
    except U.NoMatchError:
        return False, None, False
    except Timeout:
        raise
    except Exception as e:      # noqa: BLE001
        return "crash:" + type(e).__name__, None, False
    return True, str(node), type(node) is cls


def real_child(cname, text):
    F, U = _f2003()
    try:
        return str(getattr(F, cname)(text))
    except U.NoMatchError:
        return None
    except Timeout:
        raise
    except Exception:      # noqa: BLE001
        return None


def real_split_list(text):
    """the element texts of a `*_List` (the real SequenceBase.match with an identity element class)"""
    F, U = _f2003()
    try:
        res = U.SequenceBase.match(",", lambda s: s, text)
    except Timeout:
        raise
    except Exception:      # noqa: BLE001
        return []
    return list(res[1]) if res else []


# ----------------------------------------------------------------------------------------------
# model side
# ----------------------------------------------------------------------------------------------

def model_match(model, name, text):
    r = model.ask("decl.match", name, text)
    if r[0] in ("crash", "none"):
        return r[0], [], None
    n = int(r[2])
    fs = [(r[3 + 2 * i], r[4 + 2 * i]) for i in range(n)]
    return "some", fs, r[1]


def model_print(model, name, text, table):
    flat = []
    for (c, p), t in table.items():
        flat += [c, p, t]
    r = model.ask("decl.print", name, text, *flat)
    if r[0] != "some":
        return None
    return r[1]


# ----------------------------------------------------------------------------------------------
# statistics and findings
# ----------------------------------------------------------------------------------------------

PER_KEYS = ["samples", "both_some", "both_none", "printed_equal", "child_reject", "real_crash", "full_crash"]


def new_stats():
    st = {"samples": 0, "real_crash": 0, "both_none": 0, "both_some": 0, "printed_equal": 0, "child_reject": 0,
          "full_crash": 0, "timeouts": 0, "skipped": 0, "derived": 0,
          "per": dict((c, dict((k, 0) for k in PER_KEYS)) for c in CLASSES)}
    return st


def bump(stats, name, key):
    stats[key] += 1
    stats["per"][name][key] += 1


class Findings:
    """candidate defects of the real code (the model mirrors them, so they are not mismatches)"""

    def __init__(self):
        self.crash = {}        # (class, where, exception type) -> shortest text
        self.roundtrip = {}    # (class, kind) -> (text, printed, second)
        self.loss = {}         # (class, lost, gained) -> (text, printed)
        self.childloss = {}    # (child class, lost, gained) -> (class, text, printed, piece, child's print)
        self.slow = []         # (class, text): no answer within the per-sample alarm

    def add_crash(self, name, where, exc, text):
        k = (name, where, exc)
        if k not in self.crash or len(text) < len(self.crash[k]):
            self.crash[k] = text

    def add_roundtrip(self, name, kind, text, printed, second):
        k = (name, kind)
        if k not in self.roundtrip or len(text) < len(self.roundtrip[k][0]):
            self.roundtrip[k] = (text, printed, second)

    def add_childloss(self, child, lost, gained, name, text, printed, piece, cprinted):
        k = (child, re.sub(r"\d+", "#", lost), re.sub(r"\d+", "#", gained))
        if k not in self.childloss or len(text) < len(self.childloss[k][1]):
            self.childloss[k] = (name, text, printed, piece, cprinted)

    def add_loss(self, name, lost, gained, text, printed):
        k = (name, re.sub(r"\d+", "#", lost), re.sub(r"\d+", "#", gained))
        if k not in self.loss or len(text) < len(self.loss[k][0]):
            self.loss[k] = (text, printed)


REORDERING = ("Char_Selector", "Type_Declaration_Stmt", "Data_Component_Def_Stmt", "Implicit_Spec", "Implicit_Stmt")
SET_COMMAS = ("Data_Stmt", "Common_Stmt", "Namelist_Stmt")


def canon(name, s):
    """non-blank, upper-cased text modulo the known canonicalisations of `tostr`: an inserted `::`,
    inserted `KIND =` / `LEN =` keywords, the optional commas between the sets of DATA / COMMON /
    NAMELIST, `//` for blank common"""
    s = "".join(s.split()).upper()
    s = s.replace("::", "").replace("KIND=", "").replace("LEN=", "")
    if name in SET_COMMAS:
        s = s.replace(",/", "/").replace("/,", "/")
    if name == "Common_Stmt":
        s = s.replace("//", "")
    return s


def multiset_diff(a, b):
    """(characters of a missing in b, characters of b not in a), as sorted strings"""
    ca, cb = {}, {}
    for ch in a:
        ca[ch] = ca.get(ch, 0) + 1
    for ch in b:
        cb[ch] = cb.get(ch, 0) + 1
    lost = "".join(ch * (ca[ch] - cb.get(ch, 0)) for ch in sorted(ca) if ca[ch] > cb.get(ch, 0))
    gained = "".join(ch * (cb[ch] - ca.get(ch, 0)) for ch in sorted(cb) if cb[ch] > ca.get(ch, 0))
    return lost, gained


def text_diff(a, b):
    """(the part of a, the part of b) between the common prefix and the common suffix"""
    i = 0
    while i < len(a) and i < len(b) and a[i] == b[i]:
        i += 1
    j = 0
    while j < len(a) - i and j < len(b) - i and a[len(a) - 1 - j] == b[len(b) - 1 - j]:
        j += 1
    return a[i:len(a) - j], b[i:len(b) - j]


def observe(name, text, printed, fnd, table=None):
    """round trip and character conservation of an accepted text (findings only).  `table`:
    {(child class, piece): the child's own printed text} - a difference that a child already shows
    on its piece is attributed to that child class, not to `name`"""
    if not admissible(printed):
        # a leaked placeholder: such texts are outside the inputs (the real parser may not even
        # terminate on them), so the printed text is not parsed again
        fnd.add_roundtrip(name, "printed text contains an internal placeholder (F2PY_...), not parsed again", text, printed, None)
        acc2, printed2, exact2 = True, printed, True
    else:
        acc2, printed2, exact2 = real_full(name, printed)
    if isinstance(acc2, str):
        fnd.add_roundtrip(name, "printed text raises " + acc2[6:], text, printed, None)
    elif not (acc2 and exact2):
        fnd.add_roundtrip(name, "printed text is not accepted again", text, printed, None)
    elif printed2 != printed:
        fnd.add_roundtrip(name, "printed text prints differently the second time", text, printed, printed2)
    ct, cp = canon(name, text), canon(name, printed)
    if ct != cp:
        in_child = False
        for (c, piece), cprinted in (table or {}).items():
            a, b = canon(c, piece), canon(c, cprinted)
            if a != b and multiset_diff(a, b) != ("", ""):
                in_child = True
                dl, dg = text_diff(a, b)
                fnd.add_childloss(c, dl, dg, name, text, printed, piece, cprinted)
        if in_child:
            return
        lost, gained = multiset_diff(ct, cp)
        if lost or gained:
            dl, dg = text_diff(ct, cp)
            fnd.add_loss(name, dl, dg, text, printed)
        elif name not in REORDERING:
            fnd.add_loss(name, "(reordered)", "", text, printed)


# ----------------------------------------------------------------------------------------------
# comparison of one sample
# ----------------------------------------------------------------------------------------------

def norm_fields(fs):
    """for comparison: drop nothing, but the bracket/call/word bases return their keyword strings
    in the tuple as the model does; keep all"""
    return [(a, b) for a, b in fs]


def check(model, name, text, stats, fails, fnd=None, fields_out=None):
    bump(stats, name, "samples")
    rk, rf = real_match(name, text)
    mk, mf, mprinted = model_match(model, name, text)
    if rk.startswith("crash"):
        bump(stats, name, "real_crash")
        if fnd is not None:
            fnd.add_crash(name, "match", rk[6:], text)
        if mk != "crash":
            fails.append((name, text, "real raises %s, model says %s" % (rk, mk)))
        return
    if mk == "crash":
        fails.append((name, text, "model says crash, real %s" % rk))
        return
    if rk != mk:
        fails.append((name, text, "accepted? real=%s model=%s (real fields %r, model fields %r)" % (rk, mk, rf, mf)))
        return
    if rk == "none":
        bump(stats, name, "both_none")
        return
    bump(stats, name, "both_some")
    if fields_out is not None:
        fields_out.extend(rf)
    if norm_fields(rf) != norm_fields(mf):
        fails.append((name, text, "fields differ: real %r model %r" % (rf, mf)))
        return
    # printed text: real children
    table = {}
    ok = True
    for c, p in mf:
        if c in ("str", "None"):
            continue
        t = real_child(c, p)
        if t is None:
            ok = False
            break
        table[(c, p)] = t
    acc, rprinted, exact = real_full(name, text)
    if isinstance(acc, str):
        bump(stats, name, "full_crash")
        if fnd is not None:
            fnd.add_crash(name, "cls(text)", acc[6:], text)
        return
    if not ok:
        # a child rejects: the class must not produce a node of this class
        if acc and exact:
            fails.append((name, text, "a child rejects (model: no match) but the real class accepts: %r" % rprinted))
        else:
            bump(stats, name, "child_reject")
        return
    if not (acc and exact):
        # all children accept their pieces but cls(text) is not a node of this class
        fails.append((name, text, "children accept, real cls(text) -> accepted=%r exact=%r" % (acc, exact)))
        return
    mp = model_print(model, name, text, table)
    if mp != rprinted:
        fails.append((name, text, "printed differ: real %r model %r" % (rprinted, mp)))
        return
    bump(stats, name, "printed_equal")
    if fnd is not None:
        observe(name, text, rprinted, fnd, table)


# ----------------------------------------------------------------------------------------------
# generators
# ----------------------------------------------------------------------------------------------

NAMES = ["a", "b", "x", "y1", "n_2", "Val", "F", "len", "kind", "i", "j", "k", "data", "d$x"]
EXPRS = ["1", "n", "n+1", "2*(n+1)", "f(1,2)", "a(i)", "'a,b'", "\"x/y\"", "1.0e5", "1.5E-3_dp", "(n)", "kind(1.0d0)",
         "[1,2]", "(/1,2/)", "b%c(2)", "-1", "'it''s'", "x**2", "a(1:2, 3)", "max(1, n)", "'(' ", "')'", "'='", "3_8",
         "1d0_k", "2.5D-3", "1e5 + 1.E-2", "'a::b'", "'2*3'", "\"(/\"", "'x=>y'", "' , '", "'/'", "[ (i, i=1,3) ]",
         "[real :: 1, 2]", "[ 'a,', '/=' ]", "f((1+2)*3, g(4))", "(1.0, 2.0)", "1.0e5*(n+1)", "\"don't\"", "''"]
BL = ["", "", "", " ", " ", "  ", "\t"]


def bl(rng):
    return rng.choice(BL)


def case(rng, w):
    r = rng.random()
    if r < 0.4:
        return w.upper()
    if r < 0.8:
        return w.lower()
    return "".join(c.upper() if rng.random() < 0.5 else c.lower() for c in w)


def expr(rng):
    return rng.choice(EXPRS)


def name(rng):
    return rng.choice(NAMES)


def char_len(rng):
    return rng.choice(["8", "(n+1)", "(*)", "(:)", "( 8 )", "n", "(len('a b'))", "10_4", "( * )", "(2*(n+1))", "(f(1,2))",
                       "(len('=')+1)", "()", "(", "*"])


def array_spec(rng):
    return rng.choice(["10", "n, m", ":", ":, :", "0:n-1", "*", "1:*", "f(1,2), 3", "n+1", "size(a, 1)", "(n+1)*2, 3",
                       "2*(n+1), m", "len('a)b')", "1.0e1", "(n)", "-1:1, (2)", ":, 0:*"])


def init(rng):
    r = rng.random()
    if r < 0.25:
        return "=>" + bl(rng) + case(rng, "null") + bl(rng) + "(" + bl(rng) + ")"
    if r < 0.3:
        return "=> " + name(rng)
    if r < 0.33:
        return "=" + bl(rng) + ">" + bl(rng) + "null()"
    return "=" + bl(rng) + expr(rng)


def entity(rng, comp=False):
    s = name(rng)
    if rng.random() < 0.45:
        s += bl(rng) + "(" + bl(rng) + array_spec(rng) + bl(rng) + ")"
    if rng.random() < 0.35:
        s += bl(rng) + "*" + bl(rng) + char_len(rng)
    if rng.random() < 0.4:
        s += bl(rng) + init(rng)
    return s


def type_spec(rng):
    r = rng.random()
    if r < 0.2:
        return case(rng, rng.choice(["integer", "real", "logical", "complex"]))
    if r < 0.35:
        return case(rng, rng.choice(["integer", "real"])) + bl(rng) + rng.choice(["(4)", "(kind=8)", "( KIND = dp )", "*8", "* 4", "(kind(1.0))",
                                                                                 "(selected_real_kind(6, 37))", "(kind = k(1+2))"])
    if r < 0.55:
        return case(rng, "character") + bl(rng) + char_selector(rng)
    if r < 0.65:
        return case(rng, rng.choice(["double precision", "double  precision", "doubleprecision", "double complex", "double\tprecision"]))
    if r < 0.8:
        return case(rng, "type") + bl(rng) + "(" + bl(rng) + rng.choice(["t", "my_t", "t(4)", "t(k=4, n)"]) + bl(rng) + ")"
    if r < 0.9:
        return case(rng, "class") + bl(rng) + "(" + rng.choice(["t", "*"]) + ")"
    return case(rng, "character")


def char_selector(rng):
    r = rng.random()
    v = rng.choice(["10", "*", ":", "n+1", "len('a,b')", "f(1,2)", "(n)", "2*(n+1)"])
    k = rng.choice(["1", "ck", "kind('a')", "selected_char_kind('ascii')", "f(1,2)", "1+0", "f(1+2)", "k((1))"])
    if r < 0.15:
        return "*" + bl(rng) + char_len(rng) + rng.choice(["", "", ",", " ,"])
    if r < 0.3:
        return "(" + bl(rng) + v + bl(rng) + ")"
    if r < 0.45:
        return "(" + bl(rng) + case(rng, "len") + bl(rng) + "=" + bl(rng) + v + bl(rng) + ")"
    if r < 0.6:
        return "(" + case(rng, "len") + bl(rng) + "=" + bl(rng) + v + bl(rng) + "," + bl(rng) + case(rng, "kind") + bl(rng) + "=" + bl(rng) + k + ")"
    if r < 0.7:
        return "(" + v + bl(rng) + "," + bl(rng) + k + ")"
    if r < 0.8:
        return "(" + v + "," + bl(rng) + case(rng, "kind") + bl(rng) + "=" + k + bl(rng) + ")"
    if r < 0.9:
        return "(" + bl(rng) + case(rng, "kind") + bl(rng) + "=" + bl(rng) + k + bl(rng) + ")"
    return "(" + case(rng, "kind") + "=" + k + bl(rng) + "," + bl(rng) + case(rng, "len") + bl(rng) + "=" + bl(rng) + v + ")"


def attr(rng, comp=False):
    if comp:
        return rng.choice([case(rng, "pointer"), case(rng, "allocatable"), case(rng, "dimension") + bl(rng) + "(" + array_spec(rng) + ")",
                           case(rng, "public"), case(rng, "private"), case(rng, "contiguous")])
    return rng.choice([case(rng, w) for w in ["allocatable", "save", "target", "parameter", "optional", "pointer", "public", "value"]]
                      + [case(rng, "dimension") + bl(rng) + "(" + bl(rng) + array_spec(rng) + bl(rng) + ")",
                         case(rng, "intent") + bl(rng) + "(" + bl(rng) + rng.choice(["in", "OUT", "inout", "in out", "IN  OUT"]) + bl(rng) + ")",
                         "bind(c)", "bind(c, name='a,b')", "bind(c, name='a::b')"])


def type_decl(rng, comp=False):
    s = type_spec(rng)
    nattr = rng.choice([0, 0, 1, 2, 3])
    ents = ("," + bl(rng)).join(entity(rng, comp) for _ in range(rng.choice([1, 1, 2, 3])))
    if nattr == 0:
        if rng.random() < 0.5:
            return s + bl(rng) + "::" + bl(rng) + ents
        return s + " " + bl(rng) + ents
    return s + "".join(bl(rng) + "," + bl(rng) + attr(rng, comp) for _ in range(nattr)) + bl(rng) + "::" + bl(rng) + ents


def letter_spec(rng):
    a = rng.choice("abchioxzAHOZ")
    if rng.random() < 0.5:
        return a
    b = rng.choice("abchioxzAHOZ")
    return a + bl(rng) + "-" + bl(rng) + b


def implicit_spec(rng):
    return type_spec(rng) + bl(rng) + "(" + bl(rng) + ("," + bl(rng)).join(letter_spec(rng) for _ in range(rng.choice([1, 2, 3]))) + bl(rng) + ")"


def implicit_stmt(rng):
    if rng.random() < 0.3:
        return case(rng, "implicit") + rng.choice([" ", "  ", "", "\t"]) + case(rng, "none")
    return case(rng, "implicit") + " " + bl(rng) + ("," + bl(rng)).join(implicit_spec(rng) for _ in range(rng.choice([1, 1, 2])))


def implied_do(rng, depth=0):
    objs = []
    for _ in range(rng.choice([1, 1, 2])):
        if depth < 2 and rng.random() < 0.3:
            objs.append(implied_do(rng, depth + 1))
        else:
            objs.append(rng.choice(["a(i)", "b(i, j)", "c(i)%d", "a(i+1)", "s(i)(1:2)", "m((i-1)*2+1, j)"]))
    v = rng.choice(["i", "j", "k"])
    s = "(" + bl(rng) + ("," + bl(rng)).join(objs) + bl(rng) + "," + bl(rng) + v + bl(rng) + "=" + bl(rng) + rng.choice(["1", "n", "f(1,2)", "(n+1)/2"]) + bl(rng) + "," + bl(rng) + rng.choice(["10", "n", "2*n", "g(3,4)"])
    if rng.random() < 0.45:
        s += bl(rng) + "," + bl(rng) + rng.choice(["2", "k", "-1", "h(5,6)", "(2)"])
    return s + bl(rng) + ")"


def data_value(rng):
    c = rng.choice(["1", "1.0", "-2", "'a/b'", "'x,y'", ".true.", "n", "null()", "t(1,2)", "(1.0, 2.0)", "1.0e5", "z'ff'",
                    "'2*3'", "1d0_k", "-1.5E-3", "'*'", "t(a='=', b=2)"])
    if rng.random() < 0.4:
        return rng.choice(["3", "n", "2", "k(1)", "10_4"]) + bl(rng) + "*" + bl(rng) + c
    return c


def data_set(rng):
    objs = ("," + bl(rng)).join(rng.choice([name(rng), "a(1)", "b(1:2)", "s(2)(1:1)", "t%c(3)", implied_do(rng)]) for _ in range(rng.choice([1, 1, 2])))
    vals = ("," + bl(rng)).join(data_value(rng) for _ in range(rng.choice([1, 2, 3])))
    return objs + bl(rng) + "/" + bl(rng) + vals + bl(rng) + "/"


def data_stmt(rng):
    sets = [data_set(rng) for _ in range(rng.choice([1, 1, 2, 3]))]
    s = case(rng, "data") + rng.choice([" ", "  ", "", "\t"]) + sets[0]
    for x in sets[1:]:
        s += bl(rng) + rng.choice([",", "", ","]) + bl(rng) + x
    return s


def common_stmt(rng):
    def objs():
        return ("," + bl(rng)).join(rng.choice([name(rng), "a(10)", "b(2, 3)", "c(f(1,2))", "d(2*(n+1))", "e(0:1)"]) for _ in range(rng.choice([1, 2, 3])))
    s = case(rng, "common")
    r = rng.random()
    if r < 0.3:
        s += " " + bl(rng) + objs()
    elif r < 0.5:
        s += bl(rng) + "/" + bl(rng) + "/" + bl(rng) + objs()
    else:
        s += bl(rng) + "/" + bl(rng) + name(rng) + bl(rng) + "/" + bl(rng) + objs()
    for _ in range(rng.choice([0, 0, 1, 2])):
        s += bl(rng) + rng.choice([",", "", ""]) + bl(rng) + "/" + bl(rng) + rng.choice([name(rng), "", " "]) + "/" + bl(rng) + objs()
    return s


def namelist_stmt(rng):
    s = rng.choice(["", "", " "]) + case(rng, "namelist") + bl(rng)
    n = rng.choice([1, 1, 2, 3])
    for i in range(n):
        s += "/" + bl(rng) + name(rng) + bl(rng) + "/" + bl(rng) + ("," + bl(rng)).join(name(rng) for _ in range(rng.choice([1, 2, 3])))
        if i + 1 < n:
            s += bl(rng) + rng.choice([",", "", ","]) + bl(rng)
    if rng.random() < 0.08:
        s += bl(rng) + ","
    return s


def equivalence_set(rng):
    return "(" + bl(rng) + ("," + bl(rng)).join(rng.choice([name(rng), "a(1)", "b(1, 2)", "c(1:2)", "d(f(1,2))", "s(1)(2:3)", "e((1+2)*3)"]) for _ in range(rng.choice([1, 2, 2, 3]))) + bl(rng) + ")"


def dimension_stmt(rng):
    return case(rng, "dimension") + rng.choice([" ", " :: ", "::", "  ", "\t"]) + ("," + bl(rng)).join(
        name(rng) + bl(rng) + "(" + bl(rng) + array_spec(rng) + bl(rng) + ")" for _ in range(rng.choice([1, 2, 3])))


def intent_stmt(rng):
    return case(rng, "intent") + bl(rng) + "(" + bl(rng) + rng.choice(["in", "OUT", "inout", "in out", "In  Out", "in\tout"]) + bl(rng) + ")" + rng.choice([" ", " :: ", "::", ""]) + ("," + bl(rng)).join(name(rng) for _ in range(rng.choice([1, 2, 3])))


def parameter_stmt(rng):
    return case(rng, "parameter") + bl(rng) + "(" + bl(rng) + ("," + bl(rng)).join(name(rng) + bl(rng) + "=" + bl(rng) + expr(rng) for _ in range(rng.choice([1, 2, 3]))) + bl(rng) + ")"


def save_stmt(rng):
    if rng.random() < 0.2:
        return case(rng, "save")
    return case(rng, "save") + rng.choice([" ", " :: ", "::", "\t"]) + ("," + bl(rng)).join(rng.choice([name(rng), "/" + bl(rng) + name(rng) + bl(rng) + "/"]) for _ in range(rng.choice([1, 2, 3])))


def kind_selector(rng):
    return rng.choice(["(4)", "( 8 )", "(kind=8)", "( KIND = dp )", "(Kind  =  kind(1.0))", "*8", "* 4", "*(n)", "(kind)", "(kinda)", "(kindx=1)",
                       "(k)", "()", "( )", "(kind=)", "*", "* ", "(kind =1)", "(kin=1)", "(f(1,2))", "(kind=f(1+2))", "(KIND\t=\t1.0e1)",
                       "(selected_int_kind(9))", "*(2*(n+1))", "* ( * )", "(kind=k((1)))"])


GENS = {
    "Type_Declaration_Stmt": lambda r: type_decl(r),
    "Data_Component_Def_Stmt": lambda r: type_decl(r, comp=True),
    "Entity_Decl": lambda r: entity(r),
    "Component_Decl": lambda r: entity(r, comp=True),
    "Initialization": lambda r: init(r),
    "Component_Initialization": lambda r: init(r),
    "Kind_Selector": kind_selector,
    "Char_Selector": char_selector,
    "Length_Selector": lambda r: r.choice(["(10)", "( n+1 )", "(len=10)", "( LEN = * )", "(Len  = :)", "*8", "* 8,", "*(n+1)", "*(*),", "*( * ) ,", "(lenx)", "(le=1)", "*",
                                            "(len=2*(n+1))", "(LEN\t=\tf(1,2))", "*(2*(n+1))", "*10_4 ,", "(len=)", "*,", "(len)"]),
    "Char_Length": char_len,
    "Attr_Spec": lambda r: case(r, r.choice(["allocatable", "asynchronous", "external", "intent", "intrinsic", "optional", "parameter", "pointer",
                                             "protected", "save", "target", "value", "volatile", "contiguous", "public", "dimension", "save ", " save", "sav"])),
    "Component_Attr_Spec": lambda r: case(r, r.choice(["pointer", "allocatable", "contiguous", "public", "pointer ", "save", "contiguous", "codimension"])),
    "Intent_Spec": lambda r: case(r, r.choice(["in", "out", "inout", "in out", "in   out", "in\tout", " in", "in ", "outin", "in out ", "i n"])),
    "Dimension_Attr_Spec": lambda r: case(r, "dimension") + bl(r) + "(" + bl(r) + array_spec(r) + bl(r) + ")",
    "Intent_Attr_Spec": lambda r: case(r, "intent") + bl(r) + "(" + bl(r) + r.choice(["in", "out", "in out", "inout", "IN\tOUT"]) + bl(r) + ")",
    "Implicit_Stmt": implicit_stmt,
    "Implicit_Spec": implicit_spec,
    "Letter_Spec": letter_spec,
    "Data_Stmt": data_stmt,
    "Data_Stmt_Set": data_set,
    "Data_Implied_Do": implied_do,
    "Data_Stmt_Value": data_value,
    "Dimension_Stmt": dimension_stmt,
    "Intent_Stmt": intent_stmt,
    "Parameter_Stmt": parameter_stmt,
    "Named_Constant_Def": lambda r: name(r) + bl(r) + "=" + bl(r) + expr(r),
    "Save_Stmt": save_stmt,
    "Saved_Entity": lambda r: r.choice(["/" + bl(r) + name(r) + bl(r) + "/", name(r), "//", "/ /", "/a/b/", "/ a b /"]),
    "Equivalence_Stmt": lambda r: case(r, "equivalence") + bl(r) + ("," + bl(r)).join(equivalence_set(r) for _ in range(r.choice([1, 2]))),
    "Namelist_Stmt": namelist_stmt,
    "Equivalence_Set": equivalence_set,
    "Common_Stmt": common_stmt,
}

DELIMS = set("()[],:;=+-*/%'\". \t")


def tokens(text):
    out = []
    cur = ""
    for ch in text:
        if ch in DELIMS:
            if cur:
                out.append(cur)
                cur = ""
            out.append(ch)
        else:
            cur += ch
    if cur:
        out.append(cur)
    return out


def mutate(rng, text):
    """one token deleted / duplicated / inserted / replaced"""
    toks = tokens(text)
    if not toks:
        return text
    r = rng.random()
    i = rng.randrange(len(toks))
    if r < 0.4:
        del toks[i]
    elif r < 0.7:
        toks.insert(i, toks[i])
    elif r < 0.85:
        toks.insert(i, rng.choice(["(", ")", ",", "/", "=", "::", "*", " ", "'", "-", ":", "[", "]", "=>", "\t"]))
    else:
        toks[i] = rng.choice(["(", ")", ",", "/", "=", "::", "*", "x", "1"])
    return "".join(toks)


# ----------------------------------------------------------------------------------------------
# harvest from fv.gen
# ----------------------------------------------------------------------------------------------

ROUTE = {"data": "Data_Stmt", "common": "Common_Stmt", "namelist": "Namelist_Stmt", "dimension": "Dimension_Stmt",
         "implicit": "Implicit_Stmt", "parameter": "Parameter_Stmt", "save": "Save_Stmt", "intent": "Intent_Stmt",
         "equivalence": "Equivalence_Stmt"}
TYPE_WORDS = ("integer", "real", "logical", "complex", "character", "double", "doubleprecision", "type", "class")
HARVEST_CLASSES = ["Type_Declaration_Stmt", "Data_Component_Def_Stmt"] + [ROUTE[k] for k in
                   ("data", "common", "namelist", "implicit", "parameter", "save", "dimension", "intent", "equivalence")]


def _is_type_decl(word, text):
    if word not in TYPE_WORDS:
        return False
    if word in ("type", "class"):        # `type(t) :: x`, not the opener `type :: t` / `type t`
        return re.match(r"\s*(type|class)\s*\(", text, re.I) is not None
    return True


def harvest(rng, n):
    """statements of fv.gen declarations, routed by construct and first keyword:
    [(class, text)], {class: count}.  Components of derived types go to Data_Component_Def_Stmt,
    type declarations elsewhere to Type_Declaration_Stmt."""
    from fv import gen
    g = gen.G(rng, std="f2003")
    out = []
    counts = dict((c, 0) for c in HARVEST_CLASSES)

    have = {}

    def add(cls, t):
        if (cls, t) not in have:        # distinct statements only
            have[(cls, t)] = 1
            out.append((cls, t))
            counts[cls] += 1

    def stmt(s, in_type):
        if s.label or s.cname:
            return
        t = s.text()
        m = re.match(r"\s*([A-Za-z_]\w*)", t)
        w = m.group(1).lower() if m else ""
        if in_type:
            if s.role == "simple" and _is_type_decl(w, t):
                add("Data_Component_Def_Stmt", t)
            return
        if w in ROUTE:
            add(ROUTE[w], t)
        elif _is_type_decl(w, t):
            add("Type_Declaration_Stmt", t)

    def walk(x, in_type=False):
        if isinstance(x, gen.St):
            stmt(x, in_type)
        elif isinstance(x, gen.Blk):
            inner = x.cons == "type"
            for y in x.body:
                if inner and isinstance(y, gen.St) and y.role == "mid":      # CONTAINS: bindings follow
                    break
                walk(y, inner)
        elif isinstance(x, (list, tuple)):
            for y in x:
                if isinstance(y, (gen.St, gen.Blk, list, tuple)):
                    walk(y, in_type)

    tries = 0
    while tries < 40 * n + 400:
        if len(out) >= n and min(counts.values()) >= 5:
            break
        tries += 1
        try:
            r = rng.random()
            if r < 0.3:
                st = g.type_decl()
            elif r < 0.72:
                st = g.spec_misc()
            elif r < 0.88:
                st = g.derived_type()
            else:
                st = g.spec_part(1)[0]
        except Exception:      # noqa: BLE001
            continue
        walk(st)
    return out, counts


PROBES = [
    ("Common_Stmt", "COMMON a, b"), ("Common_Stmt", "common /x/ a, /y/ b"), ("Common_Stmt", "common // a /y/ b"),
    ("Common_Stmt", "common a /b"), ("Common_Stmt", "common a /bcd"), ("Common_Stmt", "common /1.0e5/ x"), ("Common_Stmt", "common /a/ x /2d0/ y"), ("Common_Stmt", "common/x/a"), ("Common_Stmt", "commonx"),
    ("Common_Stmt", "common"), ("Common_Stmt", "common /x/"), ("Common_Stmt", "common /x/ ,/y/ b"), ("Common_Stmt", "common /x/ a,, /y/ b"),
    ("Common_Stmt", "common /x/ a, /y/ b,"), ("Common_Stmt", "common a, // b"), ("Common_Stmt", "common /x/ a(f(1,'/')) /y/ b"), ("Common_Stmt", "common_x"),
    ("Common_Stmt", "common /x/ a, / / b, c"), ("Common_Stmt", "common /x y/ a"), ("Common_Stmt", "common,a"),
    ("Namelist_Stmt", "namelist /a/ x,"), ("Namelist_Stmt", "namelist /a/ x /b"), ("Namelist_Stmt", "namelist"), ("Namelist_Stmt", "namelist /"),
    ("Namelist_Stmt", "namelist //"), ("Namelist_Stmt", " NAMELIST /a/ x, y, /b/ z"), ("Namelist_Stmt", "namelist x /a/ y"),
    ("Namelist_Stmt", "namelist /a/ x,, /b/ y"), ("Namelist_Stmt", "namelist /a/ x, /b/ y,"), ("Namelist_Stmt", "namelist /a/ , /b/ y"), ("Namelist_Stmt", "namelist/a/x/b/y"),
    ("Kind_Selector", ""), ("Kind_Selector", "("), ("Kind_Selector", "  "), ("Kind_Selector", "   "), ("Kind_Selector", "* "), ("Kind_Selector", " *4 "),
    ("Kind_Selector", "*"), ("Kind_Selector", "4"), ("Kind_Selector", " (4) "), ("Kind_Selector", "(kind=f(1+2))"),
    ("Char_Selector", ""), ("Char_Selector", "("), ("Char_Selector", "()"), ("Char_Selector", "(kind=f(1+2))"), ("Char_Selector", "(kind=kind('a b'))"),
    ("Char_Selector", "(n+1, kind=f(1+2))"), ("Char_Selector", "(kind=f(1+2), len=g(3+4))"), ("Char_Selector", "(len=g(3+4), kind=f(1+2))"),
    ("Char_Selector", "(n+1, f(1+2))"), ("Char_Selector", "(len=(n+1)*2, kind=1)"), ("Char_Selector", "(kind=1, len=(n+1)*2)"), ("Char_Selector", "((n+1)*2, 1)"),
    ("Char_Selector", "(len='a,b', kind=1)"), ("Char_Selector", "(kind=1, len=len('a,b'))"), ("Char_Selector", "(len=1.0e1, kind=1)"),
    ("Length_Selector", ""), ("Length_Selector", "*8,"), ("Length_Selector", "*"), ("Length_Selector", "*,"), ("Length_Selector", "()"),
    ("Length_Selector", "*(n+1),"), ("Length_Selector", "*8 , "), ("Length_Selector", "(len=f(1+2))"),
    ("Letter_Spec", "a-h"), ("Letter_Spec", "A - H"), ("Letter_Spec", "h-a"), ("Letter_Spec", "a"), ("Letter_Spec", "1"), ("Letter_Spec", "a-"), ("Letter_Spec", "-"),
    ("Letter_Spec", "a - h - z"), ("Letter_Spec", ""), ("Letter_Spec", "ab"), ("Letter_Spec", " a"), ("Letter_Spec", "a\t-\tz"), ("Letter_Spec", "a-a"), ("Letter_Spec", "$"),
    ("Implicit_Stmt", "IMPLICITNONE"), ("Implicit_Stmt", "implicit none"), ("Implicit_Stmt", "implicit  NoNe "), ("Implicit_Stmt", "implicit"),
    ("Implicit_Stmt", "implicit real (a-h, o-z), integer (i-n)"), ("Implicit_Stmt", "implicit character*(*) (c)"), ("Implicit_Stmt", "implicitreal(a)"),
    ("Implicit_Spec", "integer (a-h)"), ("Implicit_Spec", "character(len=2)(a)"), ("Implicit_Spec", "(a)"), ("Implicit_Spec", "integer ()"), ("Implicit_Spec", "integer (a"),
    ("Implicit_Spec", "character(kind=f(1+2)) (a-c)"), ("Implicit_Spec", "type(t(1)) (t)"), ("Implicit_Spec", "real(8)(a, b , c - d )"),
    ("Entity_Decl", "a(n)*(n+1) = 3"), ("Entity_Decl", "a*(n+1)"), ("Entity_Decl", "a(1)(2)"), ("Entity_Decl", "a*8=1"), ("Entity_Decl", "a*(*) = 'x=y'"),
    ("Entity_Decl", "a = f(1, 'b)')"), ("Entity_Decl", "a(f(1)) => null()"), ("Entity_Decl", "a*F2PY_EXPR_TUPLE_1"), ("Entity_Decl", "a(1"), ("Entity_Decl", "a 1"),
    ("Entity_Decl", "1a"), ("Entity_Decl", ""), ("Entity_Decl", "a("), ("Entity_Decl", "a()"), ("Entity_Decl", "a$b(2)"),
    ("Entity_Decl", "a((n+1)*2, 3)*8 = 1"), ("Entity_Decl", "a((n+1)*2, f(1,2))*(n+1) = [1, 2]"), ("Entity_Decl", "a(2*(n+1)) => null()"), ("Entity_Decl", "a(len('a)b')) = 1"),
    ("Entity_Decl", "a*(len('=')) = '*'"), ("Entity_Decl", "a(1.0e1)*2"), ("Entity_Decl", "a*8*9"), ("Entity_Decl", "a = 1.0e5"), ("Entity_Decl", "a(n)(m) = 1"),
    ("Component_Decl", "c((n+1)*2, 3)*8 = 1"), ("Component_Decl", "c(:) => null()"), ("Component_Decl", "c*(*)"), ("Component_Decl", "c(1)*(2*(n+1)) = 'a,b'"),
    ("Data_Stmt", "data a /1/, b /2/ c /3/"), ("Data_Stmt", "DATA a/1/"), ("Data_Stmt", "data a /1"), ("Data_Stmt", "data a /1/ b"), ("Data_Stmt", "dataa/1/"),
    ("Data_Stmt", "data s /'a/b'/, t /\"/\"/"), ("Data_Stmt", "data (a(i), i=1,3) / 3*0 /"), ("Data_Stmt", "data a /1/,,b/2/"), ("Data_Stmt", "data a /1/,"),
    ("Data_Stmt", "data ((m(i,j), i=1,2), j=1,6,3) / 4*0 /, x /1.0e5/"), ("Data_Stmt", "data a, b / 1, 2 / c / 'x,/' /"), ("Data_Stmt", "data a /(1.0, 2.0)/"),
    ("Data_Implied_Do", "(a(i), i=1,3)"), ("Data_Implied_Do", "(a(i), i=1,10,2)"), ("Data_Implied_Do", "((a(i,j), i=1,3), j=1,4,1)"), ("Data_Implied_Do", "(a(i), i=1)"),
    ("Data_Implied_Do", "(a(i), i=1,2,3,4)"), ("Data_Implied_Do", "(i=1,2)"), ("Data_Implied_Do", "(a(i) i=1,2)"), ("Data_Implied_Do", "()"), ("Data_Implied_Do", "("),
    ("Data_Implied_Do", "(a(i), i = f(1,2) , g(3,4) , h(5,6))"), ("Data_Implied_Do", "(((a(i,j,k), i=1,2), j=1,2,1), k=1,9,(3))"), ("Data_Implied_Do", "(a(i), b(i), i=n,1,-1)"),
    ("Data_Implied_Do", "(a(i), i=1,2,)"), ("Data_Implied_Do", "(a(i), i==1,2)"),
    ("Data_Stmt_Value", "3*0"), ("Data_Stmt_Value", "3 * 'a*b'"), ("Data_Stmt_Value", "*1"), ("Data_Stmt_Value", "3*"), ("Data_Stmt_Value", "1"), ("Data_Stmt_Value", "2*3*4"),
    ("Data_Stmt_Value", "n*1.0e5"), ("Data_Stmt_Value", "k(1)*(1.0, 2.0)"), ("Data_Stmt_Value", "2*'*'"),
    ("Data_Stmt_Set", "a, b / 1, 2 /"), ("Data_Stmt_Set", "a /1/ "), ("Data_Stmt_Set", "/"), ("Data_Stmt_Set", "a / 'x/y' /"), ("Data_Stmt_Set", "a / 1 / 2 /"),
    ("Data_Stmt_Set", "(a(i), i=1,10,2) / 5*0 /"), ("Data_Stmt_Set", "a(f(1,2)) / 1, 2*3, 'a,b' /"), ("Data_Stmt_Set", "a //"),
    ("Dimension_Stmt", "dimension a(10), b(2,3)"), ("Dimension_Stmt", "DIMENSION :: a(f(1,2))"), ("Dimension_Stmt", "dimension a"), ("Dimension_Stmt", "dimension a(1) b(2)"),
    ("Dimension_Stmt", "dimension"), ("Dimension_Stmt", "dimension :: "), ("Dimension_Stmt", "dimension a)"), ("Dimension_Stmt", "dimension a(1),"),
    ("Dimension_Stmt", "dimension a((n+1)*2, 3), b(0:*)"), ("Dimension_Stmt", "dimensiona(1)"), ("Dimension_Stmt", "dimension :: a(1)(2)"),
    ("Intent_Stmt", "intent(in) a"), ("Intent_Stmt", "INTENT ( in out ) :: a, b"), ("Intent_Stmt", "intent(in)"), ("Intent_Stmt", "intent() a"), ("Intent_Stmt", "intent(in) :: a(1)"),
    ("Intent_Stmt", "intent in"), ("Intent_Stmt", "intent(in"), ("Intent_Stmt", "intent(in) a(1)"), ("Intent_Stmt", "intent(in)(out) a"),
    ("Equivalence_Set", "(a, b)"), ("Equivalence_Set", "(a)"), ("Equivalence_Set", "()"), ("Equivalence_Set", "( a(1,2), b , c )"), ("Equivalence_Set", "a, b"), ("Equivalence_Set", ""),
    ("Equivalence_Set", "(a((1+2)*3), b(1)(2:3))"), ("Equivalence_Set", "(a, b,)"), ("Equivalence_Set", "(a,, b)"),
    ("Equivalence_Stmt", "equivalence (a, b), (c, d(1))"), ("Equivalence_Stmt", "EQUIVALENCE(a,b)"), ("Equivalence_Stmt", "equivalence"), ("Equivalence_Stmt", "equivalence (a, b),"),
    ("Parameter_Stmt", "parameter (a = 1, b = 'x=y')"), ("Parameter_Stmt", "PARAMETER(pi=3.14)"), ("Parameter_Stmt", "parameter ()"), ("Parameter_Stmt", "parameter a = 1"),
    ("Parameter_Stmt", "parameter (a = 1) x"), ("Named_Constant_Def", "a = 1.0e5"), ("Named_Constant_Def", "a == 1"), ("Named_Constant_Def", "= 1"), ("Named_Constant_Def", "a ="),
    ("Named_Constant_Def", "a(1) = 2"), ("Named_Constant_Def", "a = [1, 2]"),
    ("Save_Stmt", "save"), ("Save_Stmt", "SAVE :: a, /b/"), ("Save_Stmt", "save a"), ("Save_Stmt", "savea"), ("Save_Stmt", "save ::"), ("Save_Stmt", "save,a"),
    ("Saved_Entity", "/a/"), ("Saved_Entity", "/ a /"), ("Saved_Entity", "a"), ("Saved_Entity", "//"), ("Saved_Entity", "/"), ("Saved_Entity", ""),
    ("Char_Length", "(n+1)"), ("Char_Length", "(*)"), ("Char_Length", "8"), ("Char_Length", "()"), ("Char_Length", ""), ("Char_Length", "(:)"), ("Char_Length", "( 2*(n+1) )"),
    ("Attr_Spec", "save"), ("Attr_Spec", "Contiguous"), ("Attr_Spec", ""), ("Component_Attr_Spec", "pointer"), ("Component_Attr_Spec", "contiguous"), ("Component_Attr_Spec", ""),
    ("Intent_Spec", "in out"), ("Intent_Spec", "inout"), ("Intent_Spec", "in\tout"), ("Intent_Spec", ""), ("Intent_Spec", "in,out"),
    ("Dimension_Attr_Spec", "dimension((n+1)*2, 3)"), ("Dimension_Attr_Spec", "dimension"), ("Dimension_Attr_Spec", "dimension()"), ("Dimension_Attr_Spec", "dimension(1)(2)"),
    ("Intent_Attr_Spec", "intent(in out)"), ("Intent_Attr_Spec", "intent()"), ("Intent_Attr_Spec", "intent(in) x"),
    ("Type_Declaration_Stmt", "integer x"), ("Type_Declaration_Stmt", "integer::x"), ("Type_Declaration_Stmt", "integer, save x"), ("Type_Declaration_Stmt", "double precision x"),
    ("Type_Declaration_Stmt", "doubleprecision x"), ("Type_Declaration_Stmt", "double  precision :: x"), ("Type_Declaration_Stmt", "character(len=3, kind=1) :: s = 'a::b'"),
    ("Type_Declaration_Stmt", "real :: x(2) = (/ 1.0, 2.0 /), y"), ("Type_Declaration_Stmt", "integer"), ("Type_Declaration_Stmt", "integer ::"), ("Type_Declaration_Stmt", "integer, :: x"),
    ("Type_Declaration_Stmt", "type(t) x"), ("Type_Declaration_Stmt", "type( t ) x"), ("Type_Declaration_Stmt", "integer _x"), ("Type_Declaration_Stmt", "integer\tx"),
    ("Type_Declaration_Stmt", "real(kind=8), dimension(2, 3), intent(in out) :: a, b"), ("Type_Declaration_Stmt", "doubleX y"), ("Type_Declaration_Stmt", "double :: y"),
    ("Type_Declaration_Stmt", "character(kind=f(1+2)) :: x"), ("Type_Declaration_Stmt", "character(n+1, kind=f(1+2)) :: x"),
    ("Type_Declaration_Stmt", "character(kind=k(1+2), len=n+1) :: x"), ("Type_Declaration_Stmt", "character(len=n+1, kind=k(1+2)) :: x"),
    ("Type_Declaration_Stmt", "character*8, x"), ("Type_Declaration_Stmt", "character*(*) x, y*8"), ("Type_Declaration_Stmt", "integer, dimension((n+1)*2) :: a((n+1)*2, 3)*8 = 1"),
    ("Type_Declaration_Stmt", "real :: x = 1.0e5, y = 1d0_k"), ("Type_Declaration_Stmt", "character(len=*), parameter :: s = 'a, b :: c'"),
    ("Type_Declaration_Stmt", "integer , bind(c, name='a::b') :: x"), ("Type_Declaration_Stmt", "real, dimension(2) :: x = [1.0, 2.0]"), ("Type_Declaration_Stmt", "double"),
    ("Type_Declaration_Stmt", "integer x = 1"), ("Type_Declaration_Stmt", "integer(kind=k(1+2)) x"), ("Type_Declaration_Stmt", "real x(10), y*8"),
    ("Data_Component_Def_Stmt", "integer, pointer :: p => null()"), ("Data_Component_Def_Stmt", "real, contiguous, pointer :: p(:)"), ("Data_Component_Def_Stmt", "character(kind=f(1+2)) :: c"),
    ("Data_Component_Def_Stmt", "type(t), allocatable :: c(:)"), ("Data_Component_Def_Stmt", "integer c"), ("Data_Component_Def_Stmt", "real, dimension((n+1)*2) :: c = 1.0e5"),
    ("Initialization", "= 1"), ("Initialization", "=> null()"), ("Initialization", "=>null ( )"), ("Initialization", "=="), ("Initialization", "1"), ("Initialization", ""),
    ("Initialization", "= [1, 2]"), ("Initialization", "=  'a=>b'"), ("Initialization", "=>"), ("Initialization", "="), ("Initialization", "= > null()"),
    ("Component_Initialization", "= 1.0e5"), ("Component_Initialization", "=> null()"), ("Component_Initialization", "=> x"), ("Component_Initialization", ""),
]


# child texts of an accepted sample that are inputs of a modelled class themselves
LIST_ELEM = {"Entity_Decl_List": "Entity_Decl", "Component_Decl_List": "Component_Decl", "Attr_Spec_List": "Attr_Spec",
             "Component_Attr_Spec_List": "Component_Attr_Spec", "Implicit_Spec_List": "Implicit_Spec",
             "Letter_Spec_List": "Letter_Spec", "Data_Stmt_Value_List": "Data_Stmt_Value",
             "Named_Constant_Def_List": "Named_Constant_Def", "Saved_Entity_List": "Saved_Entity",
             "Equivalence_Set_List": "Equivalence_Set", "Data_Stmt_Object_List": "Data_Implied_Do",
             "Data_I_Do_Object_List": "Data_Implied_Do"}


def derived_samples(fields):
    out = []
    for c, p in fields:
        if c in CHILDREN:
            out.append((c, p))
        elif c in LIST_ELEM:
            for e in real_split_list(p):
                if LIST_ELEM[c] == "Data_Implied_Do" and not e.startswith("("):
                    continue
                out.append((LIST_ELEM[c], e))
        elif c == "Declaration_Type_Spec":
            # INTEGER(kind) / CHARACTER selector: the selector text, as Intrinsic_Type_Spec cuts it
            m = re.match(r"\s*(integer|real|complex|logical)\s*([(*].*)$", p, re.I)
            if m:
                out.append(("Kind_Selector", m.group(2)))
            m = re.match(r"\s*character\s*([(*].*)$", p, re.I)
            if m:
                out.append(("Char_Selector", m.group(1)))
                out.append(("Length_Selector", m.group(1)))
    return out


def samples(rng, n):
    out = list(PROBES)
    for cls in CLASSES:
        out.append((cls, "?!"))
    per = max(3, n // 2)
    for cls in CLASSES:
        for _ in range(per):
            t = GENS[cls](rng)
            out.append((cls, t))
            if rng.random() < 0.5:
                out.append((cls, mutate(rng, t)))
    try:
        hv, counts = harvest(rng, n)
    except Exception as e:      # noqa: BLE001
        print("harvest failed: %r" % (e,))
        hv, counts = [], dict((c, 0) for c in HARVEST_CLASSES)
    for cls, t in hv:
        out.append((cls, t))
        if cls == "Type_Declaration_Stmt":          # cross-feed: the same text as a component definition
            out.append(("Data_Component_Def_Stmt", t))
        elif cls == "Data_Component_Def_Stmt":
            out.append(("Type_Declaration_Stmt", t))
        if rng.random() < 0.5:
            out.append((cls, mutate(rng, t)))
    return out, counts, dict(((c, t), 1) for c, t in hv)


def admissible(text):
    return len(text) <= 400 and "F2PY" not in text and all(ord(c) < 128 for c in text)


def run(seed, n, model, max_seconds):
    rng = random.Random(seed)
    stats = new_stats()
    fails = []
    fnd = Findings()
    sm, hcounts, hkeys = samples(rng, n)
    stats["harvest"] = hcounts
    stats["harvest_accepted"] = dict((c, 0) for c in hcounts)
    t0 = time.time()
    signal.signal(signal.SIGALRM, _alarm)
    seen = {}
    done = []
    queue = [(c, t, 0) for c, t in sm]
    derived_cap = max(300, 3 * n)
    i = 0
    while i < len(queue):
        cls, text, depth = queue[i]
        i += 1
        if (cls, text) in seen:
            continue
        seen[(cls, text)] = 1
        if time.time() - t0 > max_seconds or not admissible(text):
            stats["skipped"] += 1
            continue
        fields = []
        before = stats["per"][cls]["printed_equal"]
        signal.setitimer(signal.ITIMER_REAL, ALARM_SECONDS)
        try:
            check(model, cls, text, stats, fails, fnd, fields)
        except Timeout:
            stats["timeouts"] += 1
            fnd.slow.append((cls, text))
        finally:
            signal.setitimer(signal.ITIMER_REAL, 0)
        done.append((cls, text))
        if (cls, text) in hkeys and stats["per"][cls]["printed_equal"] > before:
            stats["harvest_accepted"][cls] += 1      # accepted by the class it was routed to, printed text compared
        elif (cls, text) in hkeys and os.environ.get("FV_COSIM_DECL_DEBUG"):
            print("harvested but not accepted: %s %r" % (cls, text))
        if depth < 2 and fields:
            for c2, t2 in derived_samples(fields):
                if stats["derived"] < derived_cap and (c2, t2) not in seen:
                    stats["derived"] += 1
                    queue.append((c2, t2, depth + 1))
    return stats, fails, fnd, done


# ----------------------------------------------------------------------------------------------
# negative controls: realistic edits of the real classes must be reported
# ----------------------------------------------------------------------------------------------

def _edited(F, cls, meth, old, new):
    """the method with one piece of its source replaced (compiled in the module's namespace);
    None when the source no longer contains `old` exactly once"""
    raw = cls.__dict__[meth]
    fn = raw.__func__ if isinstance(raw, (staticmethod, classmethod)) else raw
    src = textwrap.dedent(inspect.getsource(fn))
    if src.count(old) != 1:
        return None
    src = src.replace(old, new)
    lines = src.split("\n")
    while lines and lines[0].lstrip().startswith("@"):
        del lines[0]
    ns = {}
    exec(compile("\n".join(lines), "<negative control %s.%s>" % (cls.__name__, meth), "exec"), F.__dict__, ns)
    new_fn = ns[fn.__name__]
    if isinstance(raw, staticmethod):
        return staticmethod(new_fn)
    if isinstance(raw, classmethod):
        return classmethod(new_fn)
    return new_fn


def negative_controls(model, done):
    """[(label, detected?, witness or reason)] - each edit is applied to the real class in-process,
    the ordinary samples of that class are replayed, and the edit counts as detected when some sample
    reports a mismatch; the class is restored afterwards"""
    F, U = _f2003()
    results = []

    def replay(cls_names, limit=400):
        stats = new_stats()
        fails = []
        k = 0
        for c, t in done:
            if c in cls_names and admissible(t):
                k += 1
                if k > limit:
                    break
                signal.setitimer(signal.ITIMER_REAL, ALARM_SECONDS)
                try:
                    check(model, c, t, stats, fails)
                except Timeout:
                    pass
                finally:
                    signal.setitimer(signal.ITIMER_REAL, 0)
                if fails:
                    break
        return k, fails

    def method_edit(label, cname, meth, old, new, replay_classes):
        cls = getattr(F, cname)
        raw = cls.__dict__[meth]
        ed = _edited(F, cls, meth, old, new)
        if ed is None:
            results.append((label, False, "not applicable: the source of %s.%s no longer contains %r" % (cname, meth, old)))
            return
        setattr(cls, meth, ed)
        try:
            k, fails = replay(replay_classes)
        finally:
            setattr(cls, meth, raw)
        results.append((label, bool(fails), ("%s %r: %s" % fails[0])[:300] if fails else "no mismatch in %d samples" % k))

    # (a) a tostr that forgets an optional part
    method_edit("(a) Data_Implied_Do.tostr drops the step", "Data_Implied_Do", "tostr",
                "        tmp += \", %s\" % (self.items[4])\n", "        pass\n", ["Data_Implied_Do"])
    # (b) a strip() that goes missing
    method_edit("(b) Letter_Spec.match no longer strips the halves of a range", "Letter_Spec", "match",
                "    lhs = lhs.strip().upper()\n    rhs = rhs.strip().upper()\n", "    lhs = lhs.upper()\n    rhs = rhs.upper()\n",
                ["Letter_Spec"])
    # (c) positions of the mapped text used on the un-mapped text
    method_edit("(c) Entity_Decl.match slices the un-mapped text with positions of the mapped text", "Entity_Decl", "match",
                "        array_spec = Array_Spec(repmap(line[1:i].strip()))\n        newline = repmap(line[i + 1 :].lstrip())\n",
                "        array_spec = Array_Spec(newline[1:i].strip())\n        newline = newline[i + 1 :].lstrip()\n",
                ["Entity_Decl"])
    # (d) an attribute keyword list aliased and extended in place
    lst = F.Component_Attr_Spec.attributes
    lst.append("CONTIGUOUS")
    try:
        k, fails = replay(["Component_Attr_Spec"])
    finally:
        lst.pop()
    results.append(("(d) Component_Attr_Spec.attributes extended in place with CONTIGUOUS", bool(fails),
                    ("%s %r: %s" % fails[0])[:300] if fails else "no mismatch in %d samples" % k))
    # (e) find turned into rfind
    method_edit("(e) Data_Stmt_Set.match: find(\"/\") turned into rfind(\"/\")", "Data_Stmt_Set", "match",
                "    i = line.find(\"/\")\n", "    i = line.rfind(\"/\")\n", ["Data_Stmt_Set"])
    # (f) the repair of /repo 68391df undone: a branch of Char_Selector.match that forgets repmap
    method_edit("(f) Char_Selector.match: the KIND= branch no longer maps the placeholders back (68391df undone)",
                "Char_Selector", "match",
                "        return None, Scalar_Int_Initialization_Expr(repmap(line))\n",
                "        return None, Scalar_Int_Initialization_Expr(line)\n", ["Char_Selector"])
    return results


# ----------------------------------------------------------------------------------------------
# report
# ----------------------------------------------------------------------------------------------

def shrink_crash(name, where, exc, text, budget=300):
    """greedy one-token deletion keeping the same exception type"""
    def same(t):
        if where == "match":
            r = real_match(name, t)[0]
        else:
            r = real_full(name, t)[0]
        return r == "crash:" + exc
    changed = True
    while changed and budget > 0:
        changed = False
        toks = tokens(text)
        for i in range(len(toks)):
            budget -= 1
            if budget <= 0:
                break
            t = "".join(toks[:i] + toks[i + 1:])
            try:
                if admissible(t) and same(t):
                    text = t
                    changed = True
                    break
            except Timeout:
                return text
    return text


def print_findings(fnd, per_class=3):
    print("FINDINGS: (candidate defects of the real code; the model mirrors them, they are not mismatches)")
    n = 0
    for (name, where, exc) in sorted(fnd.crash):
        text = fnd.crash[(name, where, exc)]
        signal.setitimer(signal.ITIMER_REAL, 10.0)
        try:
            text = shrink_crash(name, where, exc, text)
        except Timeout:
            pass
        finally:
            signal.setitimer(signal.ITIMER_REAL, 0)
        print("  exception  %s.%s raises %s (not NoMatchError) on %r" % (name, "match" if where == "match" else "__new__", exc, text))
        n += 1
    for name in CLASSES:
        rows = sorted([(len(v[0]), k[1], v) for k, v in fnd.roundtrip.items() if k[0] == name])
        for _, kind, (text, printed, second) in rows[:per_class]:
            print("  round-trip %s: %s: %r -> %r%s" % (name, kind, text, printed, "" if second is None else " -> %r" % second))
            n += 1
    for name in CLASSES:
        rows = sorted([(len(v[0]), k[1], k[2], v) for k, v in fnd.loss.items() if k[0] == name])
        for _, lost, gained, (text, printed) in rows[:per_class]:
            print("  characters %s: %r prints as %r  (input has %r, output has %r)" % (name, text, printed, lost, gained))
            n += 1
        if len(rows) > per_class:
            print("             %s: ... %d more distinct differences" % (name, len(rows) - per_class))
    kids = []
    for k in fnd.childloss:
        if k[0] not in kids:
            kids.append(k[0])
    for child in sorted(kids):
        rows = sorted([(len(v[1]), k[1], k[2], v) for k, v in fnd.childloss.items() if k[0] == child])
        for _, lost, gained, (name, text, printed, piece, cprinted) in rows[:per_class]:
            print("  characters (child) %s(%r) prints as %r  (input has %r, output has %r); seen through %s: %r -> %r"
                  % (child, piece, cprinted, lost, gained, name, text, printed))
            n += 1
        if len(rows) > per_class:
            print("             (child) %s: ... %d more distinct differences" % (child, len(rows) - per_class))
    for name, text in sorted(fnd.slow, key=lambda x: len(x[1]))[:per_class]:
        print("  slow       %s: no answer within %.0f s on %r" % (name, ALARM_SECONDS, text))
        n += 1
    if n == 0:
        print("  none")


def main(argv=None):
    ap = argparse.ArgumentParser()
    ap.add_argument("--seed", type=int, default=1)
    ap.add_argument("--n", type=int, default=200)
    ap.add_argument("--exe", default=os.environ.get("FV_MODEL_EXE"))
    ap.add_argument("--max-seconds", type=float, default=40.0)
    ap.add_argument("--show", type=int, default=25)
    ap.add_argument("--findings", type=int, default=3, help="findings listed per class and kind")
    a = ap.parse_args(argv)
    model = Model(a.exe) if a.exe else get_model()
    t0 = time.time()
    stats, fails, fnd, done = run(a.seed, a.n, model, a.max_seconds)
    controls = negative_controls(model, done)
    dt = time.time() - t0
    print("cosim_decl seed=%d n=%d  %.1fs" % (a.seed, a.n, dt))
    for k in ["samples", "both_some", "both_none", "printed_equal", "child_reject", "real_crash", "full_crash", "derived",
              "skipped", "timeouts"]:
        print("  %-28s %s" % (k, stats[k]))
    print("  %-26s %8s %9s %9s %8s %7s %6s %6s" % ("class", "samples", "accepted", "rejected", "printed", "child-", "match", "full"))
    print("  %-26s %8s %9s %9s %8s %7s %6s %6s" % ("", "", "by both", "by both", "compared", "reject", "crash", "crash"))
    for c in CLASSES:
        p = stats["per"][c]
        print("  %-26s %8d %9d %9d %8d %7d %6d %6d" % (c, p["samples"], p["both_some"], p["both_none"], p["printed_equal"],
                                                     p["child_reject"], p["real_crash"], p["full_crash"]))
    print("  harvested from fv.gen: statements routed to their class (of these: accepted by that class, printed text compared)")
    hv = stats.get("harvest", {})
    ha = stats.get("harvest_accepted", {})
    print("    " + ", ".join("%s %d (%d)" % (c, hv.get(c, 0), ha.get(c, 0)) for c in HARVEST_CLASSES))
    ndet = sum(1 for _, d, _ in controls if d)
    print("  negative controls detected: %d/%d" % (ndet, len(controls)))
    for label, d, why in controls:
        print("    %-3s %s  [%s]" % ("yes" if d else "NO", label, why))
    for f in fails[:a.show]:
        print("MISMATCH %s %r: %s" % f)
    if len(fails) > a.show:
        print("... %d more" % (len(fails) - a.show))
    never_acc = [c for c in CLASSES if stats["per"][c]["both_some"] == 0]
    never_rej = [c for c in CLASSES if stats["per"][c]["both_none"] == 0]
    never_prn = [c for c in CLASSES if stats["per"][c]["printed_equal"] == 0]
    not_harvested = [c for c in HARVEST_CLASSES if ha.get(c, 0) == 0]
    if never_acc:
        print("classes never accepted: %s" % ", ".join(never_acc))
    if never_rej:
        print("classes never rejected: %s" % ", ".join(never_rej))
    if never_prn:
        print("classes whose printed text was never compared: %s" % ", ".join(never_prn))
    if not_harvested:
        print("classes the harvest never reached with an accepted statement: %s" % ", ".join(not_harvested))
    signal.signal(signal.SIGALRM, _alarm)
    print_findings(fnd, a.findings)
    good = (not fails and ndet == len(controls) and len(controls) == 6 and not never_acc and not never_rej
            and not never_prn)
    if good and not_harvested:
        # the harvest from generated programs is extra coverage; an empty harvest (seen once on a
        # heavily loaded machine) is reported, but it is not a disagreement of model and code
        print("NOTE: harvest incomplete (%s): coverage only, not a disagreement" % ", ".join(not_harvested))
    print("RESULT: %s" % ("PASS" if good else "FAIL"))
    return 0 if good else 1


if __name__ == "__main__":
    sys.exit(main())
