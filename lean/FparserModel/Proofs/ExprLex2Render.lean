import FparserModel.Proofs.ExprLex2RenderAfter

/-!
# `lex_render`: rendering a token list and lexing the text gives the token list back
-/
namespace Fp.ExprLex
open Fp Fp.Expr

theorem quietS_sep (t : T) : quietS (sep t) = true := by
  cases hg : t.glued
  · rw [sep_spaced hg]; rfl
  · rw [sep_glued hg]; rfl

/-- every context a word of the rendering sits in -/
theorem segC_word_tail (N : Names) (t : T) (rest : List T) (hok : tokOK N t = true) (hp : t.isPlain = false)
    (hall : rest.all (tokOK N) = true) (hg : gluePairs (t :: rest) = true) (prev : Option Char)
    (hq : quietP prev = true) :
    segC prev (.word (tkOf N t) (spellT N t)) (renderTail N rest) = true :=
  segC_word N t hok hp prev _ hq (quietA_tail N t rest hg hp hall) (dotAfter_tail N t rest hg hall)
    (fun hd => slashA_tail N t rest hg hd hall)

/-- **the segment list of a rendering passes every check** -/
theorem chkA_segsT (N : Names) : ∀ (ts : List T) (t0 : T) (acc : Str) (prev : Option Char),
    quietS acc = true → (t0.isPlain = true → acc ≠ []) → ts.all (tokOK N) = true →
    gluePairs (t0 :: ts) = true → chkA prev (segsT N acc ts) [] = true
  | [], _, acc, prev, hq, _, _, _ => by
    simp only [segsT, chkA, Bool.and_true]
    exact segC_gap_quiet prev acc _ hq
  | t :: rest, t0, acc, prev, hq, hne, hall, hg => by
    obtain ⟨hpair, _, hg'⟩ := pair_of_glue hg
    simp only [List.all_cons, Bool.and_eq_true] at hall
    cases hp : t.isPlain
    · rw [segsT]
      simp only [hp, Bool.false_eq_true, ↓reduceIte, chkA, Bool.and_eq_true, Seg.text, flat_cons,
        List.append_nil]
      have hq' : quietS (acc ++ sep t) = true := by rw [quietS_append, hq, quietS_sep]; rfl
      have hne' : acc ++ sep t ≠ [] := by
        cases hp0 : t0.isPlain
        · cases hgl : t.glued
          · rw [sep_spaced hgl]; simp
          · rw [glued_after_word hg hp0 hgl] at hp; cases hp
        · have := hne hp0
          simp [this]
      refine ⟨segC_gap_quiet prev _ _ hq', ?_, ?_⟩
      · rw [flat_segsT, List.nil_append]
        exact segC_word_tail N t rest hall.1 hp hall.2 hg' _ (quietP_lastOr prev hq' hne')
      · exact chkA_segsT N rest t [] _ rfl (by intro h; rw [hp] at h; cases h) hall.2 hg'
    · rw [segsT]
      simp only [hp, ↓reduceIte]
      obtain ⟨i, g, rfl⟩ := plain_view hp
      obtain ⟨hn, hpl, _, _⟩ := tokOK_plain hall.1
      refine chkA_segsT N rest _ _ prev ?_ ?_ hall.2 hg'
      · rw [quietS_append, quietS_append, hq, quietS_sep]
        simpa [spellT] using quietS_plain hpl
      · intro _
        simp [spellT, hn]

theorem chkA_segsOf (N : Names) (ts : List T) (hall : ts.all (tokOK N) = true) (hg : glueOK ts = true) :
    chkA none (segsOf N ts) [] = true := by
  cases ts with
  | nil =>
    simp only [segsOf, chkA, Bool.and_true]
    exact segC_gap_quiet none [] _ rfl
  | cons t rest =>
    simp only [glueOK, Bool.and_eq_true, Bool.not_eq_true'] at hg
    simp only [List.all_cons, Bool.and_eq_true] at hall
    cases hp : t.isPlain
    · rw [segsOf]
      simp only [hp, Bool.false_eq_true, ↓reduceIte, chkA, Bool.and_eq_true, Seg.text, flat_cons,
        List.append_nil]
      refine ⟨segC_gap_quiet none [] _ rfl, ?_, ?_⟩
      · rw [flat_segsT, List.nil_append]
        exact segC_word_tail N t rest hall.1 hp hall.2 hg.2 _ rfl
      · exact chkA_segsT N rest t [] _ rfl (by intro h; rw [hp] at h; cases h) hall.2 hg.2
    · rw [segsOf]
      simp only [hp, ↓reduceIte]
      obtain ⟨i, g, rfl⟩ := plain_view hp
      obtain ⟨hn, hpl, _, _⟩ := tokOK_plain hall.1
      refine chkA_segsT N rest _ _ none ?_ ?_ hall.2 hg.2
      · simpa [spellT] using quietS_plain hpl
      · intro _
        simp [spellT, hn]

theorem lexSegs_render (N : Names) (ts : List T) (hall : ts.all (tokOK N) = true) (hg : glueOK ts = true) :
    lexSegs (renderStr N ts) = some (segsOf N ts) := by
  rw [← flat_segsOf]
  exact lexSegs_of_canon _ (alt_segsOf N ts) (chkA_segsOf N ts hall hg)

/-! ### the tokens of the segment list -/

theorem allBlank_sepB (b : Bool) : allBlank (sepB b) = true := by cases b <;> rfl

/-- a gap made of one operand and optional single blanks -/
theorem gap_facts (b1 b2 : Bool) (name : Str) (hne : name ≠ []) (hn : ∀ c ∈ name, isSpace c = false) :
    strip (sepB b1 ++ name ++ sepB b2) = name ∧ startsBlank (sepB b1 ++ name ++ sepB b2) = !b1 ∧
      endsBlank (sepB b1 ++ name ++ sepB b2) = !b2 := by
  refine ⟨strip_core _ _ _ hne hn (allBlank_sepB b1) (allBlank_sepB b2), ?_, ?_⟩
  · cases b1
    · rfl
    · cases name with
      | nil => exact absurd rfl hne
      | cons c t => simpa [sepB, startsBlank] using hn c (by simp)
  · cases b2
    · rw [endsBlank_append (by simp [sepB])]; rfl
    · simp only [sepB, ↓reduceIte, List.append_nil, Bool.not_true]
      rw [endsBlank_append hne]
      simp only [endsBlank]
      cases hl : name.getLast? with
      | none => rfl
      | some c => exact hn c (List.mem_of_getLast? hl)

theorem toksOf_blank (g : Bool) (s : Str) (R : List Seg) (h : strip s = []) :
    toksOf g (.gap s :: R) = toksOf (g && s == []) R := by
  simp [toksOf, h]

theorem toksOf_body (g : Bool) (s : Str) (R : List Seg) (h : strip s ≠ []) :
    toksOf g (.gap s :: R) =
      .atom (idOf (strip s)) false (g && !startsBlank s) :: toksOf (!endsBlank s) R := by
  simp [toksOf, h]

theorem plain_no_space {name : Str} (h : name.all plainChar = true) : ∀ c ∈ name, isSpace c = false :=
  fun c hc => plain_not_space (List.all_eq_true.mp h c hc)

theorem toks_segsT (N : Names) : ∀ (ts : List T), ts.all (tokOK N) = true →
    (∀ t0 : T, t0.isPlain = false → gluePairs (t0 :: ts) = true → toksOf true (segsT N [] ts) = ts) ∧
    (∀ (i : Nat) (g0 g b : Bool), tokOK N (.atom i false g0) = true →
      gluePairs (.atom i false g0 :: ts) = true →
      toksOf g (segsT N (sepB b ++ N.atom i) ts) = .atom i false (g && b) :: ts)
  | [], _ => by
    refine ⟨fun _ _ _ => by simp [segsT, toksOf, strip, lstrip, rstrip], ?_⟩
    intro i g0 g b hok _
    obtain ⟨hne, hpl, hid, _⟩ := tokOK_plain hok
    obtain ⟨h1, h2, _⟩ := gap_facts b true (N.atom i) hne (plain_no_space hpl)
    simp only [sepB, ↓reduceIte, List.append_nil] at h1 h2
    have hb : strip (sepB b ++ N.atom i) ≠ [] := by simp only [sepB]; rw [h1]; exact hne
    rw [segsT, toksOf_body _ _ _ hb]
    simp only [sepB]
    rw [h1, h2, hid]
    simp [toksOf]
  | t :: rest, hall => by
    simp only [List.all_cons, Bool.and_eq_true] at hall
    obtain ⟨ihA, ihB⟩ := toks_segsT N rest hall.2
    constructor
    · intro t0 hp0 hg
      obtain ⟨_, _, hg'⟩ := pair_of_glue hg
      cases hp : t.isPlain
      · have hgl : t.glued = false := by
          cases hgl : t.glued
          · rfl
          · rw [glued_after_word hg hp0 hgl] at hp; cases hp
        rw [segsT]
        simp only [hp, Bool.false_eq_true, ↓reduceIte, List.nil_append, sep_spaced hgl]
        rw [toksOf_blank _ _ _ (by decide)]
        simp only [toksOf]
        rw [ihA t hp hg']
        have := tokOf_tkOf N t hall.1 hp
        rw [hgl] at this
        simpa using this
      · obtain ⟨i, g, rfl⟩ := plain_view hp
        rw [segsT]
        simp only [hp, ↓reduceIte, List.nil_append, sep, T.glued, spellT]
        rw [ihB i g true g hall.1 hg']
        simp
    · intro i g0 g b hok hg
      obtain ⟨_, _, hg'⟩ := pair_of_glue hg
      have hp : t.isPlain = false := word_after_plain hg rfl
      obtain ⟨hne, hpl, hid, _⟩ := tokOK_plain hok
      obtain ⟨h1, h2, h3⟩ := gap_facts b t.glued (N.atom i) hne (plain_no_space hpl)
      have hb : strip (sepB b ++ N.atom i ++ sepB t.glued) ≠ [] := by rw [h1]; exact hne
      rw [segsT]
      simp only [hp, Bool.false_eq_true, ↓reduceIte, sep]
      rw [toksOf_body _ _ _ hb, h1, h2, h3, hid]
      simp only [toksOf, Bool.not_not]
      rw [ihA t hp hg', tokOf_tkOf N t hall.1 hp]

theorem toks_segsOf (N : Names) (ts : List T) (hall : ts.all (tokOK N) = true) (hg : glueOK ts = true) :
    toksOf false (segsOf N ts) = ts := by
  cases ts with
  | nil => simp [segsOf, toksOf, strip, lstrip, rstrip]
  | cons t rest =>
    simp only [glueOK, Bool.and_eq_true, Bool.not_eq_true'] at hg
    simp only [List.all_cons, Bool.and_eq_true] at hall
    obtain ⟨ihA, ihB⟩ := toks_segsT N rest hall.2
    cases hp : t.isPlain
    · rw [segsOf]
      simp only [hp, Bool.false_eq_true, ↓reduceIte]
      rw [toksOf_blank _ _ _ (by decide)]
      simp only [toksOf]
      rw [ihA t hp hg.2]
      have := tokOf_tkOf N t hall.1 hp
      rw [hg.1] at this
      simpa using this
    · obtain ⟨i, g, rfl⟩ := plain_view hp
      rw [segsOf]
      simp only [hp, ↓reduceIte, spellT]
      have := ihB i g false true hall.1 hg.2
      simp only [sepB, ↓reduceIte, List.nil_append] at this
      rw [this]
      simp only [T.glued] at hg
      simp [hg.1]

/-! ## the theorems -/

/-- **render then lex = identity** -/
theorem lex_render (N : Names) (ts : List T) (hN : ts.all (tokOK N) = true) (hg : glueOK ts = true) :
    lexExpr (renderStr N ts) = some ts := by
  simp only [lexExpr, lexFrom, lexSegs_render N ts hN hg, Option.map_some, toks_segsOf N ts hN hg]

/-- a rendering does not begin with a blank -/
theorem renderStr_startsBlank (N : Names) (ts : List T) (hN : ts.all (tokOK N) = true) :
    startsBlank (renderStr N ts) = false := by
  cases ts with
  | nil => rfl
  | cons t rest =>
    simp only [List.all_cons, Bool.and_eq_true] at hN
    rw [renderStr]
    cases hp : t.isPlain
    · obtain ⟨h, tl, hsp, hop⟩ := word_head N t hN.1 hp
      rw [hsp]
      exact opChar_not_space hop
    · obtain ⟨i, g, rfl⟩ := plain_view hp
      obtain ⟨hne, hpl, _, _⟩ := tokOK_plain hN.1
      simp only [spellT]
      cases hn : N.atom i with
      | nil => exact absurd hn hne
      | cons c tl =>
        rw [hn] at hpl
        simp only [List.all_cons, Bool.and_eq_true] at hpl
        exact plain_not_space hpl.1

theorem gluePairs_of_spaced : ∀ (ts : List T), ts.all (fun t => !t.glued) = true → spacedOK ts = true →
    gluePairs ts = true
  | [], _, _ => rfl
  | [_], _, _ => rfl
  | t1 :: t2 :: rest, hs, h => by
    simp only [List.all_cons, Bool.and_eq_true, Bool.not_eq_true'] at hs
    simp only [spacedOK, Bool.and_eq_true] at h
    simp only [gluePairs, hs.2.1, Bool.false_eq_true, ↓reduceIte, Bool.and_eq_true]
    exact ⟨⟨h.1.1, h.1.2⟩, gluePairs_of_spaced (t2 :: rest) (by simp [hs.2.1, hs.2.2]) h.2⟩

/-- **the spaced rendering** (one blank between any two tokens) is lexed back -/
theorem lex_render_spaced (N : Names) (ts : List T) (hN : ts.all (tokOK N) = true)
    (hs : ts.all (fun t => !t.glued) = true) (hp : spacedOK ts = true) :
    lexExpr (renderStr N ts) = some ts := by
  refine lex_render N ts hN ?_
  cases ts with
  | nil => rfl
  | cons t rest =>
    have hg := gluePairs_of_spaced (t :: rest) hs hp
    simp only [List.all_cons, Bool.and_eq_true] at hs
    simp only [glueOK, hs.1, hg, Bool.and_self]

/-! ## non-vacuity and the necessity of the hypotheses (all kernel-checked) -/

/-- a concrete spelling: operands `a`, `b1`, `c`, `and`; defined operators `.X.`, `.MYOP.` -/
def exN : Names where
  atom i := if i = idOf ['a'] then ['a'] else if i = idOf ['b','1'] then ['b','1']
    else if i = idOf ['c'] then ['c'] else if i = idOf ['a','n','d'] then ['a','n','d'] else []
  dot n := if n = numOf ['X'] then ['X'] else if n = numOf ['M','Y','O','P'] then ['M','Y','O','P'] else []

def exA : T := .atom (idOf ['a']) false false
def exB (g : Bool) : T := .atom (idOf ['b','1']) false g
def exC (g : Bool) : T := .atom (idOf ['c']) false g
def exAnd : T := .atom (idOf ['a','n','d']) false false

/-! ### non-vacuity: hypotheses by `decide`, conclusion also checked directly -/

def ex1 : List T := [exA, .op .plus false, exB false, .op .mul false, exC false]
example : renderStr exN ex1 = ['a',' ','+',' ','b','1',' ','*',' ','c'] := by decide +kernel
example : lexExpr (renderStr exN ex1) = some ex1 :=
  lex_render exN ex1 (by decide +kernel) (by decide +kernel)
example : lexExpr (renderStr exN ex1) = some ex1 :=
  lex_render_spaced exN ex1 (by decide +kernel) (by decide +kernel) (by decide +kernel)
example : lexExpr (renderStr exN ex1) = some ex1 := by decide +kernel

def ex2 : List T := [exA, .op .plus true, exB true, .op .pow true, exC true]
example : renderStr exN ex2 = ['a','+','b','1','*','*','c'] := by decide +kernel
example : lexExpr (renderStr exN ex2) = some ex2 :=
  lex_render exN ex2 (by decide +kernel) (by decide +kernel)
example : lexExpr (renderStr exN ex2) = some ex2 := by decide +kernel

def ex3 : List T := [.op .not false, exA, .op .and false, .atom (idOf ['T','R','U','E']) true false,
  .op (.dot (numOf ['M','Y','O','P'])) false, exB true, .op (.rel 3 false) true, exC false,
  .op (.rel 1 true) true, exA]
example : renderStr exN ex3 = ['.','N','O','T','.',' ','a',' ','.','A','N','D','.',' ','.','T','R','U','E','.',
    ' ','.','M','Y','O','P','.','b','1','<','=',' ','c','.','N','E','.',' ','a'] := by decide +kernel
example : lexExpr (renderStr exN ex3) = some ex3 :=
  lex_render exN ex3 (by decide +kernel) (by decide +kernel)
example : lexExpr (renderStr exN ex3) = some ex3 := by decide +kernel
example : startsBlank (renderStr exN ex3) = false := renderStr_startsBlank exN ex3 (by decide +kernel)

/-- `a / b1 // / c /= a`: the `/`-words next to each other that ARE allowed -/
def ex4 : List T := [exA, .op .div false, exB false, .op .concat false, .op .div false, exC false,
  .op (.rel 1 false) false, exA]
example : lexExpr (renderStr exN ex4) = some ex4 :=
  lex_render exN ex4 (by decide +kernel) (by decide +kernel)
example : lexExpr (renderStr exN ex4) = some ex4 := by decide +kernel

/-! ### the hypotheses matter -/

/-- `tokOK` (`dotClass (upper name) = other`): an operand named `and` between two dotted words,
`a .X. and .OR. c`, is taken for `.AND.` by `and_op` -/
theorem render_operand_named_and :
    let ts := [exA, .op (.dot (numOf ['X'])) false, exAnd, .op .or false, exC false]
    renderStr exN ts = ['a',' ','.','X','.',' ','a','n','d',' ','.','O','R','.',' ','c'] ∧
    tokOK exN exAnd = false ∧ glueOK ts = true ∧ lexExpr (renderStr exN ts) = none := by
  decide +kernel

/-- `glueOK` (two operator words never touch): `*` glued to `*` is read as `**` -/
theorem render_glued_stars :
    let ts := [exA, .op .mul false, .op .mul true, exC false]
    ts.all (tokOK exN) = true ∧ glueOK ts = false ∧
    lexExpr (renderStr exN ts) = some [exA, .op .pow false, exC false] := by
  decide +kernel

/-- … and `/` glued to `==` gives `/=` `=`: rejected -/
theorem render_glued_div_eq :
    let ts := [exA, .op .div false, .op (.rel 0 false) true, exC false]
    ts.all (tokOK exN) = true ∧ glueOK ts = false ∧
    renderStr exN ts = ['a',' ','/','=','=',' ','c'] ∧ lexExpr (renderStr exN ts) = none := by
  decide +kernel

/-- `glueOK` (two plain operands are never neighbours): `a c` is ONE operand -/
theorem render_two_operands :
    let ts := [exA, exC false]
    ts.all (tokOK exN) = true ∧ glueOK ts = false ∧
    lexExpr (renderStr exN ts) = some [.atom (idOf ['a',' ','c']) false false] := by
  decide +kernel

/-- the `gluePairs` of the first draft (without the `/` clause) -/
def gluePairs0 : List T → Bool
  | t1 :: t2 :: rest =>
    (if t2.glued then (t1.isPlain != t2.isPlain) else !(t1.isPlain && t2.isPlain)) && gluePairs0 (t2 :: rest)
  | _ => true

/-- … is not enough: `a / / c` and `a / /= c` satisfy it (no token glued), but `concat_op`
(`[/]\s*[/]`) reads `/ /` as `//`, so the checked tokeniser rejects the text -/
theorem render_div_div :
    let ts1 := [exA, .op .div false, .op .div false, exC false]
    let ts2 := [exA, .op .div false, .op (.rel 1 false) false, exC false]
    (ts1.all (tokOK exN) = true ∧ gluePairs0 ts1 = true ∧ glueOK ts1 = false ∧
      renderStr exN ts1 = ['a',' ','/',' ','/',' ','c'] ∧ lexExpr (renderStr exN ts1) = none) ∧
    (ts2.all (tokOK exN) = true ∧ gluePairs0 ts2 = true ∧ glueOK ts2 = false ∧
      lexExpr (renderStr exN ts2) = none) := by
  decide +kernel

end Fp.ExprLex
