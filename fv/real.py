"""Thin, uniform access to the real fparser under verification."""
import io
import os
import re
import contextlib
import logging

from fv import repo

repo.activate()

from fparser.two.parser import ParserFactory  # noqa: E402
from fparser.two import utils as U  # noqa: E402
from fparser.two import Fortran2003 as F03  # noqa: E402
from fparser.two.symbol_table import SYMBOL_TABLES  # noqa: E402
from fparser.common.readfortran import FortranStringReader, FortranFileReader  # noqa: E402
from fparser.common.sourceinfo import FortranFormat  # noqa: E402
from fparser.common import readfortran as RF  # noqa: E402

logging.disable(logging.CRITICAL)

_parsers = {}
_current_std = [None]


def get_parser(std="f2008", force=False):
    """`create` is global state in fparser (it rewrites Base.subclasses); always
    re-create when the standard changes."""
    if force or _current_std[0] != std:
        _parsers[std] = ParserFactory().create(std=std)
        _current_std[0] = std
    return _parsers[std]


def make_reader(src, ignore_comments=True, process_directives=False, include_dirs=None,
                free=None, omp=False, path=None):
    kw = dict(ignore_comments=ignore_comments, process_directives=process_directives,
              include_omp_conditional_lines=omp)
    if include_dirs is not None:
        kw["include_dirs"] = include_dirs
    if path is not None:
        r = FortranFileReader(path, **kw)
    else:
        r = FortranStringReader(src, **kw)
    if free is not None:
        r.set_format(FortranFormat(free, False))
    return r


def parse(src, std="f2008", **kw):
    """Returns the tree.  Raises whatever the real parser raises (incl. SystemExit)."""
    p = get_parser(std)
    r = make_reader(src, **kw)
    return p(r)


class Outcome:
    """Classified result of a parse: kind in tree|syntax|exit|other."""

    def __init__(self, kind, tree=None, exc=None, reader=None):
        self.kind = kind
        self.tree = tree
        self.exc = exc
        self.reader = reader

    def __repr__(self):
        return "Outcome(%s, %s)" % (self.kind, (str(self.exc) or "")[:80])


def try_parse(src, std="f2008", **kw):
    p = get_parser(std)
    r = make_reader(src, **kw)
    try:
        with contextlib.redirect_stderr(io.StringIO()):
            t = p(r)
        return Outcome("tree", tree=t, reader=r)
    except U.FortranSyntaxError as e:
        return Outcome("syntax", exc=e, reader=r)
    except SystemExit as e:
        return Outcome("exit", exc=e, reader=r)
    except RecursionError as e:
        return Outcome("other", exc=e, reader=r)
    except Exception as e:  # noqa: BLE001
        return Outcome("other", exc=e, reader=r)


_BLOCKNAME = re.compile(r"block:\d+")


def canon_repr(tree):
    """repr with the synthetic names of unnamed BLOCK constructs renumbered in order of
    first appearance (they come from a process-wide counter by design)."""
    s = repr(tree)
    seen = {}

    def sub(m):
        k = m.group(0)
        if k not in seen:
            seen[k] = "block:#%d" % len(seen)
        return seen[k]

    return _BLOCKNAME.sub(sub, s)


def canon_str(tree):
    s = str(tree)
    return s.rstrip("\n")


def walk(node, types=None):
    return U.walk(node, types)


def reset_symbol_tables():
    SYMBOL_TABLES.clear()


def exc_site(exc):
    """(exception type, function, file) of the innermost frame inside fparser; for
    SystemExit (raised by FortranReaderBase.error) the frame that CALLED error()."""
    # an InternalError that passes through nested scoping units leaves the inner scope open;
    # the clean-up of an outer unit (Main_Program0.match's finally) then raises SymbolTableError,
    # which hides it: report the ROOT exception of the chain (the defect), not the mask
    if type(exc).__name__ == "SymbolTableError":
        c = exc.__context__
        hops = 0
        while c is not None and hops < 20:
            if type(c).__name__ == "InternalError":
                exc = c
                break
            c = c.__context__
            hops += 1
    tb = exc.__traceback__
    frames = []
    while tb is not None:
        fn = tb.tb_frame.f_code.co_filename
        if "fparser" in fn:
            frames.append((tb.tb_frame.f_code.co_name, os.path.basename(fn)))
        tb = tb.tb_next
    if not frames:
        return (type(exc).__name__, "?", "?")
    site = frames[-1]
    if isinstance(exc, SystemExit) and site[0] == "error" and len(frames) >= 2:
        site = ("error<-" + frames[-2][0], frames[-2][1])
    if type(exc).__name__ == "InternalError":
        import re as _re
        m = _re.search(r"class (\w+) method (\w+)", str(exc))
        if m:
            site = ("%s.%s" % (m.group(1), m.group(2)), site[1])
    return (type(exc).__name__,) + site
