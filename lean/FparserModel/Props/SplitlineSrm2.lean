import FparserModel.Proofs.SplitlineSrm2Found
/-!
# `string_replace_map` ∘ `StringReplaceDict.__call__` : the round trip, and what the tokenised
# text hides  — serves C02, C08

Everything is for every input line (no size bound); `stringReplaceMap` is /repo HEAD
(`discipline = .repaired`).

## The statement asked for is FALSE

    srm_roundtrip : NoMagic l → stringReplaceMap l lower = some r →
        squeeze (applyMap r.map r.text) = squeeze (foldOutsideLiterals lower l)        -- FALSE

(`NoMagic l` = no substring of `l` is matched by the placeholder pattern `_f2py_findall`.)
Three kernel-evaluated counter-examples below (`srm_roundtrip_fails_*`), all confirmed on the real
Python code.  Two independent mechanisms, both in the SECOND loop (exponent constants), which
rewrites the text with a global `str.replace` while iterating over matches computed on the
ORIGINAL text:

* a found constant that ends with the beginning of a placeholder (`_`, `F`, `F2`, `F2P`) can, after
  an earlier replacement, match across the boundary of an already inserted placeholder and
  destroy it  (`2e3 + 1e5_2e3 + 1e5_F`);
* a placeholder PREFIX in the line (`F2PY_REAL_CONSTANT_1` without the closing `_`) can be completed
  by an inserted key into a spurious placeholder, which then shadows a genuine one.

## What is proved

`srm_roundtrip_partial` : the round trip holds, modulo the blanks just inside parentheses
(`squeeze`), and modulo case outside literals when `lower`, under two decidable hypotheses:

* `Free (foldOutsideLiterals lower l)` : the line (as handed over by `splitquote`) does not contain
  the four characters `F2PY` consecutively — stronger than `NoMagic` (`Free_NoMagic`);
* `FoundsEndOK (expConsts (phase1Text …))` : no exponent constant found by the second loop (in the
  text left by the first loop) ends in `_`, `F`, `F2` or `F2P` (`badEnd`).  (That each such constant
  is a substring of the line, hence `Free`, is proved: `founds_free`.)

Both are shown necessary-in-kind by the counter-examples.  Special cases with an EXACT equality:
`srm_strings_roundtrip` (first loop alone), `srm_roundtrip_flat` (no exponent constant, every
group is `(\w*)`).
-/
namespace Fp.Splitline
open Fp

/-! ## hypotheses -/

def noMagicB : Str → Bool
  | [] => true
  | c :: cs => (matchKey (c :: cs)).isNone && noMagicB cs

/-- no substring of `l` has the shape of one of the three placeholder families -/
def NoMagic (l : Str) : Prop := noMagicB l = true

instance (l : Str) : Decidable (NoMagic l) := inferInstanceAs (Decidable (noMagicB l = true))

/-- `F2PY`-free lines have no placeholder-shaped substring -/
theorem Free_NoMagic : ∀ (l : Str), Free l → NoMagic l
  | [], _ => rfl
  | c :: cs, h => by
    have h1 : matchKey (c :: cs) = none := by
      simpa using matchKey_free c cs [] h (.inl rfl)
    have h2 := Free_NoMagic cs (Free_tail h)
    unfold NoMagic at h2 ⊢
    simp [noMagicB, h1, h2]

/-- no capital `F` -/
def NoF (s : Str) : Prop := ∀ c ∈ s, c ≠ 'F'
instance (s : Str) : Decidable (NoF s) := inferInstanceAs (Decidable (∀ c ∈ s, c ≠ 'F'))

/-- lines without a capital `F` are `F2PY`-free -/
theorem NoF_Free (l : Str) (h : NoF l) : Free l := NoFchar_Free l h

/-- with `lower = false` the line is handed over unchanged -/
theorem foldOutsideLiterals_false (l : Str) : foldOutsideLiterals false l = l :=
  splitquote_join' l none

/-- `string_replace_map` followed by `StringReplaceDict.__call__` -/
def roundTripL (l : Str) (lower : Bool) : Option Str :=
  (stringReplaceMap l lower).map fun r => applyMap r.map r.text

/-! ## (1) the round trip -/

/-- **srm_roundtrip_partial** — all three loops, the un-nesting loop and `__call__`:
    the line comes back, up to the blanks just inside parentheses/brackets (`strip()` of the
    replaced groups) and up to the case folding of `splitquote(lower=True)` outside literals. -/
theorem srm_roundtrip_partial (l : Str) (lower : Bool)
    (hF : Free (foldOutsideLiterals lower l))
    (hE : FoundsEndOK (expConsts (phase1Text discipline l lower))) :
    ∃ r, stringReplaceMap l lower = some r ∧
      squeeze (applyMap r.map r.text) = squeeze (foldOutsideLiterals lower l) :=
  srm_roundtrip'' discipline rfl rfl rfl l lower hF hE

/-- every exponent constant found by the second loop is a substring of the line (a match cannot
    overlap an inserted string key), hence `Free` — why `FoundsEndOK` needs no `Free` clause -/
theorem srm_founds_free (l : Str) (lower : Bool) (hF : Free (foldOutsideLiterals lower l)) :
    ∀ f ∈ expConsts (phase1Text discipline l lower), Free f :=
  founds_free discipline rfl l lower hF

/-- the same for any discipline that looks up trimmed items, keeps a separate map for groups and
    skips foreign placeholders (i.e. has the three fixes of /repo HEAD) -/
theorem srm_roundtrip_partial_with (d : Discipline) (hd : d.lookupTrimmed = true)
    (hs : d.separateParenMap = true) (hf : d.foreignKeyRaises = false) (l : Str) (lower : Bool)
    (hF : Free (foldOutsideLiterals lower l))
    (hE : FoundsEndOK (expConsts (phase1Text d l lower))) :
    ∃ r, stringReplaceMapWith d l lower = some r ∧
      squeeze (applyMap r.map r.text) = squeeze (foldOutsideLiterals lower l) :=
  srm_roundtrip'' d hd hs hf l lower hF hE

/-- `lower = false` (the way every fparser2 matcher calls it): the line itself comes back -/
theorem srm_roundtrip_partial_nolower (l : Str) (hF : Free l)
    (hE : FoundsEndOK (expConsts (phase1Text discipline l false))) :
    ∃ r, stringReplaceMap l false = some r ∧ squeeze (applyMap r.map r.text) = squeeze l := by
  have := srm_roundtrip_partial l false (by rw [foldOutsideLiterals_false]; exact hF) hE
  rwa [foldOutsideLiterals_false] at this

/-- lines without exponent constants -/
theorem srm_roundtrip_noexp (l : Str) (lower : Bool)
    (hF : Free (foldOutsideLiterals lower l))
    (hE : expConsts (phase1Text discipline l lower) = []) :
    ∃ r, stringReplaceMap l lower = some r ∧
      squeeze (applyMap r.map r.text) = squeeze (foldOutsideLiterals lower l) :=
  srm_roundtrip_noexp' discipline rfl rfl rfl l lower hF hE

/-- **srm_roundtrip_flat**: no exponent constant and every group is `(\w*)` — EXACT round trip -/
theorem srm_roundtrip_flat (l : Str) (lower : Bool)
    (hF : Free (foldOutsideLiterals lower l))
    (hE : expConsts (phase1Text discipline l lower) = [])
    (hP : ∀ s, PItem.paren s ∈ splitparen (phase1Text discipline l lower) →
      isSimple (strip (interior s)) = true) :
    ∃ r, stringReplaceMap l lower = some r ∧
      applyMap r.map r.text = foldOutsideLiterals lower l :=
  srm_roundtrip_flat' discipline rfl l lower hF hE hP

/-- **srm_strings_roundtrip**: the first loop alone (character literals) is undone exactly -/
theorem srm_strings_roundtrip (l : Str) (lower : Bool)
    (hF : Free (foldOutsideLiterals lower l)) :
    applyMap (phase1 discipline {} (splitquote l none lower).1).1.map (phase1Text discipline l lower)
      = foldOutsideLiterals lower l :=
  srm_strings_roundtrip' discipline rfl l lower hF

-- non-vacuity: a line with capital F's, a literal, nested groups, exponent constants with kinds
example : Free (foldOutsideLiterals false "IF (F(a+b, (c)) > 1.0E-3_dp) X = 'It''s' // G( 2d0 )".toList) ∧
    FoundsEndOK (expConsts (phase1Text discipline
      "IF (F(a+b, (c)) > 1.0E-3_dp) X = 'It''s' // G( 2d0 )".toList false)) := by decide +kernel
/-- the blanks in `G( 2d0 )` survive here: the stripped interior is a placeholder (`\w*`), so the
    group is not replaced; those in `H( i+1 )` do not -/
example : roundTripL "IF (F(a+b, (c)) > 1.0E-3_dp) X = 'It''s' // G( 2d0 ) // H( i+1 )".toList false
    = some "IF (F(a+b, (c)) > 1.0E-3_dp) X = 'It''s' // G( 2d0 ) // H(i+1)".toList := by decide +kernel
example : expConsts (phase1Text discipline "x = f(a+b, 'It''s')".toList true) = [] := by decide +kernel
/-- with `lower = true` an identifier spelled like a placeholder is harmless (it is folded before the
    placeholders are inserted): the hypotheses hold although the line itself is not `NoMagic` -/
example : ¬ NoMagic "X = F2PY_EXPR_TUPLE_1(I+1) // 'a b'".toList ∧
    Free (foldOutsideLiterals true "X = F2PY_EXPR_TUPLE_1(I+1) // 'a b'".toList) ∧
    FoundsEndOK (expConsts (phase1Text discipline "X = F2PY_EXPR_TUPLE_1(I+1) // 'a b'".toList true)) ∧
    roundTripL "X = F2PY_EXPR_TUPLE_1(I+1) // 'a b'".toList true
      = some "x = f2py_expr_tuple_1(i+1) // 'a b'".toList := by decide +kernel
example : expConsts (phase1Text discipline "CALL S(i)".toList false) = [] ∧
    ∀ s, PItem.paren s ∈ splitparen (phase1Text discipline "CALL S(i)".toList false) →
      isSimple (strip (interior s)) = true := by
  refine ⟨by decide +kernel, ?_⟩
  have h : splitparen (phase1Text discipline "CALL S(i)".toList false)
      = [.plain "CALL S".toList, .paren "(i)".toList] := by decide +kernel
  intro s hs
  rw [h] at hs
  simp at hs
  subst hs
  decide

/-! ### the counter-examples (kernel-evaluated; each reproduced on the Python code) -/

/-- **NoMagic is not enough (1)** — a placeholder PREFIX in the line: the reused string key
    completes `F2PY_REAL_CONSTANT_1` into a spurious key, `findall` then misses a genuine one. -/
theorem srm_roundtrip_fails_prefix :
    NoMagic "'1.e5' // F2PY_REAL_CONSTANT_11.e5 + 1.e5".toList ∧
    ¬ Free "'1.e5' // F2PY_REAL_CONSTANT_11.e5 + 1.e5".toList ∧
    roundTripL "'1.e5' // F2PY_REAL_CONSTANT_11.e5 + 1.e5".toList false
      = some "'1.e5' // F2PY_REAL_CONSTANT_11.e5 + _F2PY_STRING_CONSTANT_1_".toList := by
  decide +kernel

/-- **NoMagic is not enough (2)** — `F2PY`-free line, a constant ending in `F`: the global
    `str.replace` of `1e5_F` eats the head of the already inserted `F2PY_REAL_CONSTANT_1_`. -/
theorem srm_roundtrip_fails_straddle_F :
    Free "2e3 + 1e5_2e3 + 1e5_F".toList ∧
    ¬ FoundsEndOK (expConsts (phase1Text discipline "2e3 + 1e5_2e3 + 1e5_F".toList false)) ∧
    roundTripL "2e3 + 1e5_2e3 + 1e5_F".toList false
      = some "2e3 + 1e5_F2PY_REAL_CONSTANT_1_ + 1e5_F".toList := by
  decide +kernel

/-- **NoMagic is not enough (3)** — no capital `F` at all, a constant ending in `_` next to a
    string key that phase 2 re-used outside quotes; fails with `lower=True` as well. -/
theorem srm_roundtrip_fails_straddle_us :
    NoF "'1.e5' + 1.e5 + 1e5_a1.e5 + 1e5_a_".toList ∧
    ¬ FoundsEndOK (expConsts (phase1Text discipline "'1.e5' + 1.e5 + 1e5_a1.e5 + 1e5_a_".toList false)) ∧
    roundTripL "'1.e5' + 1.e5 + 1e5_a1.e5 + 1e5_a_".toList false
      = some "'1.e5' + 1.e5 + 1e5_a_F2PY_STRING_CONSTANT_1_ + 1e5_a_".toList ∧
    roundTripL "'1.e5' + 1.e5 + 1e5_a1.e5 + 1e5_a_".toList true
      = some "'1.e5' + 1.e5 + 1e5_a_F2PY_STRING_CONSTANT_1_ + 1e5_a_".toList := by
  decide +kernel

/-! ## (2) `lower` never touches a character literal -/

/-- **srm_literals_in_map**: every character literal of `l` whose interior is not `\w*` has its
    interior, exactly as written, as a value of the FINAL map (under a string key) — whatever
    `lower` is; the literals are those of `splitquote l` with `lower = false`. -/
theorem srm_literals_in_map (l : Str) (lower : Bool) (r : SrmResult)
    (h : stringReplaceMap l lower = some r) (s : Str)
    (hs : Seg.quoted s ∈ (splitquote l none false).1) (hns : isSimple (interior s) = false) :
    ∃ n, r.map.get? (strKey n) = some (interior s) :=
  srm_literals_in_map' discipline rfl l lower r h s hs hns

example : Seg.quoted "'Hello World'".toList ∈ (splitquote "Print *, 'Hello World', X".toList none false).1 ∧
    isSimple (interior "'Hello World'".toList) = false := by
  have h : (splitquote "Print *, 'Hello World', X".toList none false).1
      = [.plain "Print *, ".toList, .quoted "'Hello World'".toList, .plain ", X".toList] := by
    decide +kernel
  rw [h]
  exact ⟨by simp, by decide⟩
example : (stringReplaceMap "Print *, 'Hello World', X".toList true).map (fun r => r.map.get? (strKey 1))
    = some (some "Hello World".toList) := by decide +kernel

/-! ## (3) a stray closer stays visible -/

/-- **srm_stray_paren** (closer half; the opener half is `srm_unmatched_opener_visible`): if the
    text reaching `splitparen` has a `)`/`]` read at depth 0 (un-escaped, outside quotes, closing
    nothing), the tokenised text has it too, at depth 0 — it sits in a plain item that is copied
    verbatim (`srm_stray_closer_at` gives the exact position). -/
theorem srm_stray_paren (l : Str) (lower : Bool) (r : SrmResult)
    (hr : stringReplaceMap l lower = some r)
    (h : StrayCloser defaultPairs (phase2Text discipline l lower)) :
    StrayCloser defaultPairs r.text :=
  srm_stray_closer_visible discipline rfl l lower r hr h

example : StrayCloser defaultPairs (phase2Text discipline "x = a+b) * (c+d)".toList false) := by
  decide +kernel

/-! ## (4) what the tokenised text hides -/

/-- **srm_hides_groups**: re-splitting the tokenised text with `splitparen` gives, item by item,
    the items of the text before the third loop with every group whose stripped interior is not
    `\w*` replaced by `opener ++ F2PY_EXPR_TUPLE_n ++ closer`; hence EVERY group of the tokenised
    text is `(\w*)` modulo blanks — `(name)`, `(placeholder)` or `()` — and the reader ends in the
    same state (same unmatched openers) as before. -/
theorem srm_hides_groups (l : Str) (lower : Bool) (r : SrmResult)
    (hr : stringReplaceMap l lower = some r) :
    splitparen r.text = srmItems discipline l lower ∧
    HidAll (splitparen (phase2Text discipline l lower)) (srmItems discipline l lower) ∧
    (∀ x, PItem.paren x ∈ splitparen r.text → isSimple (strip (interior x)) = true) ∧
    srun defaultPairs {} r.text = srun defaultPairs {} (phase2Text discipline l lower) := by
  obtain ⟨_, h2, _, h4, h5⟩ := srm_hides discipline rfl l lower r hr
  have h0 := srm_resplit discipline rfl l lower r hr
  exact ⟨h0, h2, by rw [h0]; exact h4, h5⟩

/-- **srm_hides_literals**: in the text after the first loop every character literal is
    `quote ++ \w* ++ last` : its interior is `\w*` (a short literal kept as it is) or a string
    key.  (The later loops only replace whole exponent constants and whole groups.) -/
theorem srm_hides_literals (l : Str) (lower : Bool) :
    ∃ ts, phase1Text discipline l lower = rawJoin ts ∧ valJoin ts = foldOutsideLiterals lower l ∧
      WFk (phase1 discipline {} (splitquote l none lower).1).1.map ts ∧
      ∀ k v, Tok.key k v ∈ ts → ∃ n, k = strKey n := by
  obtain ⟨ts, h1, h2, h3, h4, _⟩ :=
    phase1_spec discipline rfl (splitquote l none lower).1 {} P1Inv_init
  refine ⟨ts, h1, h2, h3, ?_⟩
  have key : ∀ (ts : List Tok) (m : Map), WFk m ts → (∀ k v, m.get? k = some v → ∃ j, k = strKey j) →
      ∀ k v, Tok.key k v ∈ ts → ∃ n, k = strKey n := by
    intro ts m
    induction ts with
    | nil => intro _ _ k v h; simp at h
    | cons t ts ih =>
      intro hw hm k v h
      cases t with
      | chunk s =>
        rcases List.mem_cons.mp h with h | h
        · cases h
        · exact ih hw hm k v h
      | key k' v' =>
        rcases List.mem_cons.mp h with h | h
        · cases h; exact hm k v hw.2.1
        · exact ih hw.2.2 hm k v h
  exact key ts _ h3 (fun k v h => by obtain ⟨j, _, hj⟩ := h4.keys k v h; exact ⟨j, hj⟩)

example : (stringReplaceMap "x = f(a+b, (c)) * g(i) + h( j )".toList).map (fun r => splitparen r.text)
    = some [.plain "x = f".toList, .paren "(F2PY_EXPR_TUPLE_1)".toList, .plain " * g".toList,
            .paren "(i)".toList, .plain " + h".toList, .paren "( j )".toList] := by decide +kernel

end Fp.Splitline

open Fp.Splitline in
#print axioms srm_roundtrip_partial
open Fp.Splitline in
#print axioms srm_roundtrip_partial_with
open Fp.Splitline in
#print axioms srm_roundtrip_partial_nolower
open Fp.Splitline in
#print axioms srm_roundtrip_noexp
open Fp.Splitline in
#print axioms srm_roundtrip_flat
open Fp.Splitline in
#print axioms srm_strings_roundtrip
open Fp.Splitline in
#print axioms srm_roundtrip_fails_prefix
open Fp.Splitline in
#print axioms srm_roundtrip_fails_straddle_F
open Fp.Splitline in
#print axioms srm_roundtrip_fails_straddle_us
open Fp.Splitline in
#print axioms srm_literals_in_map
open Fp.Splitline in
#print axioms srm_stray_paren
open Fp.Splitline in
#print axioms srm_hides_groups
open Fp.Splitline in
#print axioms srm_hides_literals
open Fp.Splitline in
#print axioms srm_founds_free
open Fp.Splitline in
#print axioms Free_NoMagic
