"""C16 — symbol tables mirror the scoping structure and drive intrinsic resolution."""
import random
import re
from fv import real, gen, treeutil, engine, findings
from fv.props import util
from fv.model import get_model
from fv import cosim_symtree as CS

RULE = ("generated nests of modules / submodules / main programs / external and contained subprograms / BLOCK constructs, with "
        "declarations of variables named like intrinsics placed at chosen scope levels (ground truth by construction) and marked "
        "references `r_k = NAME(args)` in every scope: (a) the forest of symbol tables == the scope tree (one top-level table per "
        "program unit, children nested as in the source; BLOCK names renumbered); (b) each table holds exactly the intrinsic-typed "
        "names declared in its scope; (c) a reference is an Intrinsic_Function_Reference iff NAME is not declared in the scope of "
        "the reference or an enclosing one (sibling / inner declarations have no effect); plus co-simulation of the Lean SymTab "
        "model against the real SymbolTables/SymbolTable classes on random operation scripts. non-trivial = depth >= 2 and >= 1 shadowed reference")
ASSUMPTIONS = ["declared names are lower-cased by fparser; USE'd modules are recorded but never resolve a name (wildcard imports only "
               "relax the arity check)"]
TIE_MODULES = ["FparserModel.SymTab", "FparserModel.Generated.Intrinsics", "FparserModel.Block", "FparserModel.SymGlue", "FparserModel.Generated.SymGlueSites", "FparserModel.Props.SymGlue"]

# generic names and specific names of the same intrinsics (a declaration of `abs` must not
# affect `iabs`, nor the other way round)
INTR = ["sin", "cos", "abs", "sqrt", "exp", "tan", "nint", "len", "size", "real",
        "dsin", "alog", "iabs", "dabs", "dsqrt", "dcos", "log", "dexp"]


class Scope:
    def __init__(self, kind, name, parent=None):
        self.kind, self.name, self.parent = kind, name, parent
        self.decls = []
        self.kids = []
        self.refs = []   # (k, NAME)
        self.uses = []
        self.imports = []   # local names brought in by USE … ONLY / rename lists


def build(rng, std):
    counter = [0]
    refc = [0]

    def newname(pfx):
        counter[0] += 1
        return "%s%d" % (pfx, counter[0])

    def fill(sc, depth):
        # declarations that shadow intrinsics
        for nm in rng.sample(INTR, rng.randint(0, 3)):
            sc.decls.append(nm)
        # children
        if sc.kind in ("module", "program", "subroutine", "function", "submodule") and depth < 2 and rng.random() < 0.7:
            for _ in range(rng.randint(1, 2)):
                k = rng.choice(["subroutine", "function"])
                c = Scope(k, newname("s" if k == "subroutine" else "f"), sc)
                sc.kids.append(c)
                fill(c, depth + 1)

    def blocks(sc, depth):
        out = []
        if std == "f2008" and sc.kind != "module" and sc.kind != "submodule" and depth < 3 and rng.random() < 0.5:
            for _ in range(rng.randint(1, 2)):
                b = Scope("block", newname("blk") if rng.random() < 0.6 else None, sc)
                for nm in rng.sample(INTR, rng.randint(0, 2)):
                    b.decls.append(nm)
                b.kids = blocks(b, depth + 1)
                out.append(b)
        return out

    units = []
    for _ in range(rng.randint(1, 3)):
        k = rng.choice(["module", "program", "subroutine", "function"] + (["submodule"] if std == "f2008" else []))
        if k == "program" and any(u.kind == "program" for u in units):
            k = "subroutine"
        u = Scope(k, newname({"module": "m", "program": "p", "subroutine": "xs", "function": "xf", "submodule": "sm"}[k]))
        fill(u, 0)
        units.append(u)

    lines = []

    def emit(sc, ind):
        pad = "  " * ind
        hdr = {"module": "module %s", "program": "program %s", "subroutine": "subroutine %s", "function": "function %s()",
               "submodule": "submodule (parent_m) %s"}
        if sc.kind == "block":
            lines.append(pad + ("%s: block" % sc.name if sc.name else "block"))
        else:
            lines.append(pad + hdr[sc.kind] % sc.name)
            if rng.random() < 0.3:
                mod = rng.choice(["mod_q", "iso_x"])
                sc.uses.append(mod)
                lines.append(pad + "  use %s" % mod)
            if rng.random() < 0.35:
                # only-list / rename-list whose local names are intrinsic names, with generic
                # specs (operators, assignment) before, between and after them
                mod = rng.choice(["vec_ops", "mod_r"])
                sc.uses.append(mod)
                ents = []
                for _ in range(rng.randint(1, 4)):
                    r = rng.random()
                    if r < 0.3:
                        ents.append(rng.choice(["operator(.dot.)", "operator(+)", "assignment(=)", "OPERATOR (.x.)"]))
                    elif r < 0.65:
                        nm = rng.choice(INTR)
                        sc.imports.append(nm)
                        ents.append(nm if rng.random() < 0.7 else nm.upper())
                    else:
                        nm = rng.choice(INTR)
                        sc.imports.append(nm)
                        ents.append("%s => v_%s" % (nm, nm))
                only = rng.random() < 0.7
                if not only:
                    ents = [e for e in ents if "=>" in e]
                    sc.imports[:] = [e.split(" =>")[0] for e in ents]
                if ents:
                    lines.append(pad + "  use %s, %s%s" % (mod, "only: " if only else "", ", ".join(ents)))
                elif only:
                    lines.append(pad + "  use %s, only:" % mod)
        for nm in sc.decls:
            form = rng.choice(["integer :: %s", "real :: %s(10)", "real, dimension(5) :: %s", "integer %s"])
            lines.append(pad + "  " + form % nm)
        if sc.kind not in ("module", "submodule"):
            lines.append(pad + "  real :: yy")
            body_blocks = blocks(sc, ind) if sc.kind != "block" else sc.kids
            if sc.kind != "block":
                sc.blocks = body_blocks
            # references before, between and after the blocks
            def ref():
                nm = rng.choice(INTR)
                refc[0] += 1
                k = refc[0]
                sc.refs.append((k, nm))
                arg = "'abc'" if nm == "len" else "yy"
                lines.append(pad + "  r_%d = %s(%s)" % (k, nm if rng.random() < 0.7 else nm.upper(), arg))
            for _ in range(rng.randint(1, 2)):
                ref()
            for b in body_blocks:
                emit(b, ind + 1)
                ref()
        if sc.kind == "block":
            lines.append(pad + ("end block %s" % sc.name if sc.name else "end block"))
            return
        subs = [c for c in sc.kids if c.kind != "block"]
        if subs:
            lines.append(pad + "contains")
            for c in subs:
                emit(c, ind + 1)
        lines.append(pad + "end %s %s" % (sc.kind, sc.name))

    for u in units:
        emit(u, 0)
    return units, "\n".join(lines) + "\n"


def scope_children(sc):
    """child scopes in source order: BLOCKs of the execution part first, then contained subprograms"""
    if sc.kind == "block":
        return list(sc.kids)
    return list(getattr(sc, "blocks", [])) + [c for c in sc.kids if c.kind != "block"]


def expected_forest(units):
    cnt = [0]

    def rec(sc):
        if sc.kind == "block" and sc.name is None:
            nm = "block:#"
        else:
            nm = sc.name.lower()
        return (nm, sorted(set(d.lower() for d in sc.decls) | ({"yy"} if sc.kind not in ("module", "submodule") else set())),
                [rec(c) for c in scope_children(sc)])
    return [rec(u) for u in units]


def real_forest():
    from fparser.two.symbol_table import SYMBOL_TABLES

    def rec(t):
        nm = re.sub(r"block:\d+", "block:#", t.name)
        return (nm, sorted(t._data_symbols.keys()), [rec(c) for c in t.children])
    return [rec(t) for t in SYMBOL_TABLES._symbol_tables.values()]


def visible(sc, name):
    while sc is not None:
        if name in sc.decls or name in sc.imports:
            return True
        sc = sc.parent
    return False


PROBES = [
    ("program p\ndo 10 i=1,3\nb1: block\ninteger :: k\nend block b1\n10 x = 1\nend program p\n", [("p", [], [("b1", ["k"], [])])]),
    ("program p\ndo 10 i=1,3\nb1: block\ninteger :: k\nend block b1\n10 continue\nend program p\n", [("p", [], [("b1", ["k"], [])])]),
]


def dedup_stale(f):
    """drop a sibling table that repeats the name of an earlier sibling and is empty: what an
    abandoned block attempt leaves behind (known finding F-C16-1)"""
    out = []
    seen = set()
    for t in f:
        if t[0] in seen and not t[1] and not t[2]:
            continue
        seen.add(t[0])
        out.append((t[0], t[1], dedup_stale(t[2])))
    return out


def run_probe(case):
    src, exp = PROBES[case["probe"]]
    res = {"key": ["probe", case["probe"]], "counts": {"probe": 1}, "findings": [], "nontrivial": True}
    real.get_parser("f2008", force=True)
    o = real.try_parse(src, std="f2008", free=True)
    got = real_forest() if o.kind == "tree" else None
    if got != exp:
        known = "pred:stale_duplicate_table" if got is not None and dedup_stale(got) == exp else None
        res["findings"].append({"signature": known or "probe-forest-differs:%d" % case["probe"],
                                "what": "symbol-table forest %r, scope tree %r | %r" % (got, exp, src), "replay": {"case": case, "source": src}})
    return res


def run_case(case):
    if case.get("kind") == "cosim":
        return run_cosim(case)
    if "probe" in case:
        return run_probe(case)
    std = case["std"]
    rng = random.Random(case["seed"] ^ 0xC16)
    units, src = build(rng, std)
    res = {"key": [case["seed"], std], "counts": {}, "findings": [], "nontrivial": False}
    real.get_parser(std, force=True)   # clears the tables
    o = real.try_parse(src, std=std, free=True)
    rp = {"case": case, "source": src}
    if o.kind != "tree":
        res["findings"].append({"signature": "c16-reject:" + util.outcome_signature(o), "what": "generated scope nest rejected: %s" % str(o.exc)[:200], "replay": rp})
        return res
    exp = expected_forest(units)
    got = real_forest()
    allsc = []

    def coll(sc, d):
        allsc.append((sc, d))
        for c in scope_children(sc):
            coll(c, d + 1)
    for u in units:
        coll(u, 0)
    nshadow = sum(1 for sc, d in allsc for (k, nm) in sc.refs if visible(sc, nm))
    res["nontrivial"] = max(d for _, d in allsc) >= 2 and nshadow >= 1
    res["counts"] = {"scopes": len(allsc), "refs": sum(len(sc.refs) for sc, _ in allsc), "shadowed-refs": nshadow,
                     "blocks": sum(1 for sc, _ in allsc if sc.kind == "block")}
    res["sample"] = {"seed": case["seed"], "head": src[:300]}
    if [(a, c) for a, b, c in _names(got)] != [(a, c) for a, b, c in _names(exp)]:
        known = findings.classify("C16", src, {"std": std})
        res["findings"].append({"signature": known or "table-forest-differs", "what": "symbol-table forest %r, scope tree %r" % (_shape(got), _shape(exp)), "replay": rp})
    elif got != exp:
        res["findings"].append({"signature": "table-symbols-differ", "what": "declared names per table differ: %r vs %r" % (_first_sym_diff(got, exp)), "replay": rp})
    # references
    F = real.F03
    assigns = {}
    for a in real.walk(o.tree, F.Assignment_Stmt):
        lhs = str(a.items[0]).lower()
        if lhs.startswith("r_"):
            assigns[int(lhs[2:])] = a.items[2]
    for sc, d in allsc:
        for k, nm in sc.refs:
            node = assigns.get(k)
            if node is None:
                res["findings"].append({"signature": "reference-lost", "what": "reference r_%d not found in tree" % k, "replay": rp})
                continue
            is_intr = type(node).__name__ == "Intrinsic_Function_Reference"
            want = not visible(sc, nm)
            if is_intr != want:
                res["findings"].append({"signature": "intrinsic-resolution:%s" % ("shadowed-taken-as-intrinsic" if is_intr else "intrinsic-not-recognised"),
                                        "what": "r_%d = %s(...) in scope %s (%s): node %s, expected %s" % (
                                            k, nm, sc.name, sc.kind, type(node).__name__, "intrinsic" if want else "not intrinsic (declared in an enclosing scope)"),
                                        "replay": rp})
    return res


def _names(f):
    out = []

    def rec(t, path):
        out.append((path + (t[0],), t[1], len(t[2])))
        for c in t[2]:
            rec(c, path + (t[0],))
    for t in f:
        rec(t, ())
    return out


def _shape(f):
    return [(t[0], _shape(t[2])) for t in f]


def _first_sym_diff(a, b):
    for (pa, sa, _), (pb, sb, _) in zip(_names(a), _names(b)):
        if sa != sb:
            return ("/".join(pa), sa), ("/".join(pb), sb)
    return ("?", "?")


def run_cosim(case):
    rng = random.Random(case["seed"])
    m = get_model()
    res = {"key": ["cosim", case["seed"]], "counts": {}, "findings": [], "nontrivial": True}
    n = 0
    for _ in range(case["n"]):
        ops, expect, final = CS.gen_symtab_script(rng)
        n += 1
        pr = CS.check_symtab(m, ops, expect, final)
        for o_ in ops:
            k = "op:" + o_.split()[0]
            res["counts"][k] = res["counts"].get(k, 0) + 1
        if pr:
            res["findings"].append({"signature": "correspondence:Fp.SymTab", "no_input": True,
                                    "what": "symbol-table model and real classes differ: %s | script %s" % (pr[0][:200], " ; ".join(ops)[:300]),
                                    "replay": {"case": case, "script": ops}})
            break
    for ops in CS.FIXED_SYMTAB:
        rt = CS.RealTabs()
        expect = [rt.step(o_) for o_ in ops]
        final = (str(rt.st), rt.render_forest(), rt.path_of(rt.st.current_scope))
        pr = CS.check_symtab(m, ops, expect, final)
        if pr:
            res["findings"].append({"signature": "correspondence:Fp.SymTab", "no_input": True, "what": pr[0][:300], "replay": {"case": case, "script": ops}})
    res["evals"] = n
    return res


def cases(tier, seed):
    n = util.tier_n(tier, 300, 3000)
    out = [{"probe": i} for i in range(len(PROBES))]
    out += [{"seed": s, "std": "f2008" if i % 3 else "f2003"} for i, s in enumerate(util.seeds(seed, n, 16))]
    for s in util.seeds(seed, util.tier_n(tier, 8, 64), 161):
        out.append({"kind": "cosim", "seed": s, "n": 120, "_timeout": 600})
    return out


def run(tier, rep, st):
    util.sub_cosim(rep, tier, "cosim_symglue", "Fp.SymGlue", 150, 2000)
    results = engine.run_cases(__name__, cases(tier, rep.seed), rep)
    rep.evaluations = sum(r.get("evals", 1) for r in results)
