import FparserModel.Proofs.SplitlineSrm2Iface
/-!
Cutting a token text at a position that is not inside a key; `strip` as a decomposition.
-/
namespace Fp.Splitline
open Fp

theorem strKey_isWord (n : Nat) : ∀ c ∈ strKey n, isWord c = true := by
  intro c hc
  unfold strKey at hc
  rcases List.mem_append.mp hc with hc | hc
  · rcases List.mem_append.mp hc with hc | hc
    · have : strPrefix.all isWord = true := by decide
      exact List.all_eq_true.mp this c hc
    · exact (isDigit_props c ((natStr_spec n).2.1 c hc)).2.2.1
  · simp at hc; subst hc; decide

theorem realKey_isWord (n : Nat) : ∀ c ∈ realKey n, isWord c = true := by
  intro c hc
  unfold realKey at hc
  rcases List.mem_append.mp hc with hc | hc
  · rcases List.mem_append.mp hc with hc | hc
    · have : realPrefix.all isWord = true := by decide
      exact List.all_eq_true.mp this c hc
    · exact (isDigit_props c ((natStr_spec n).2.1 c hc)).2.2.1
  · simp at hc; subst hc; decide

theorem exprKey_isWord (n : Nat) : ∀ c ∈ exprKey n, isWord c = true := by
  intro c hc
  unfold exprKey at hc
  rcases List.mem_append.mp hc with hc | hc
  · have : exprPrefix.all isWord = true := by decide
    exact List.all_eq_true.mp this c hc
  · exact (isDigit_props c ((natStr_spec n).2.1 c hc)).2.2.1

theorem ClosedKey_word {k : Str} (h : ClosedKey k) : ∀ c ∈ k, isWord c = true := by
  rcases h with ⟨j, rfl⟩ | ⟨j, rfl⟩
  · exact strKey_isWord j
  · exact realKey_isWord j

theorem KeyOK_of_closed {k : Str} (h : ClosedKey k) (rest : Str) : KeyOK k rest := by
  rcases h with ⟨j, rfl⟩ | ⟨j, rfl⟩
  · exact .inl ⟨j, rfl⟩
  · exact .inr (.inl ⟨j, rfl⟩)

/-- the cut `a | b` cannot fall strictly inside a key (keys are made of word characters) -/
def CutOK (a b : Str) : Prop :=
  a = [] ∨ b = [] ∨ (∃ c, a.getLast? = some c ∧ isWord c = false) ∨
    (∃ c, b.head? = some c ∧ isWord c = false)

theorem CutOK_tail {s a b : Str} (h : CutOK (s ++ a) b) : CutOK a b := by
  rcases h with h | h | ⟨c, h1, h2⟩ | h
  · left; simp at h; exact h.2
  · exact .inr (.inl h)
  · by_cases ha : a = []
    · exact .inl ha
    · refine .inr (.inr (.inl ⟨c, ?_, h2⟩))
      rw [List.getLast?_append] at h1
      cases hl : a.getLast? with
      | none => simp [List.getLast?_eq_none_iff] at hl; exact absurd hl ha
      | some x => rw [hl] at h1; simpa using h1
  · exact .inr (.inr (.inr h))

theorem split_toksk {m : Map} :
    ∀ ts, WFk m ts → Closed ts → ∀ a b, rawJoin ts = a ++ b → CutOK a b →
      ∃ ta tb, rawJoin ta = a ∧ rawJoin tb = b ∧ valJoin ts = valJoin ta ++ valJoin tb ∧
        WFk m ta ∧ WFk m tb ∧ Closed ta ∧ Closed tb
  | [], _, _, a, b, h, _ => by
    simp at h
    obtain ⟨rfl, rfl⟩ := h
    exact ⟨[], [], rfl, rfl, rfl, trivial, trivial, trivial, trivial⟩
  | .chunk s :: ts, hw, hc, a, b, h, hcut => by
    rw [rawJoin_cons] at h
    simp only [Tok.raw] at h
    rcases List.append_eq_append_iff.mp h with ⟨a', ha, hb⟩ | ⟨s', hs, hb⟩
    · subst ha
      obtain ⟨ta, tb, h1, h2, h3, h4, h5, h6, h7⟩ :=
        split_toksk ts hw hc a' b hb (CutOK_tail hcut)
      exact ⟨.chunk s :: ta, tb, by simp [Tok.raw, h1], h2, by simp [Tok.val, h3],
        h4, h5, h6, h7⟩
    · subst hs
      exact ⟨[.chunk a], .chunk s' :: ts, by simp [Tok.raw], by simp [Tok.raw, hb],
        by simp [Tok.val], trivial, hw, trivial, hc⟩
  | .key k v :: ts, hw, hc, a, b, h, hcut => by
    rw [rawJoin_cons] at h
    simp only [Tok.raw] at h
    rcases List.append_eq_append_iff.mp h with ⟨a', ha, hb⟩ | ⟨k', hk, hb⟩
    · subst ha
      obtain ⟨ta, tb, h1, h2, h3, h4, h5, h6, h7⟩ :=
        split_toksk ts hw.2.2 hc.2 a' b hb (CutOK_tail hcut)
      exact ⟨.key k v :: ta, tb, by simp [Tok.raw, h1], h2, by simp [Tok.val, h3],
        ⟨KeyOK_of_closed hc.1 _, hw.2.1, h4⟩, h5, ⟨hc.1, h6⟩, h7⟩
    · by_cases ha : a = []
      · subst ha
        simp at hk; subst hk
        exact ⟨[], .key k v :: ts, rfl, by simp [Tok.raw, hb], by simp, trivial, hw, trivial, hc⟩
      · by_cases hk' : k' = []
        · subst hk'
          simp at hk hb
          subst hk; subst hb
          exact ⟨[.key k v], ts, by simp [Tok.raw], rfl, by simp [Tok.val],
            ⟨KeyOK_of_closed hc.1 _, hw.2.1, trivial⟩, hw.2.2, ⟨hc.1, trivial⟩, hc.2⟩
        · exfalso
          have hword := ClosedKey_word hc.1
          rcases hcut with h0 | h0 | ⟨c, h1, h2⟩ | ⟨c, h1, h2⟩
          · exact ha h0
          · subst hb; simp at h0; exact hk' h0.1
          · have : c ∈ k := by rw [hk]; exact List.mem_append_left _ (List.mem_of_getLast? h1)
            rw [hword c this] at h2; cases h2
          · cases k' with
            | nil => exact hk' rfl
            | cons x k'' =>
              subst hb
              simp at h1; subst h1
              have : x ∈ k := by rw [hk]; simp
              rw [hword x this] at h2; cases h2

theorem split_toks {m : Map} (ts : List Tok) (hw : WF m ts) (hc : Closed ts) (a b : Str)
    (h : rawJoin ts = a ++ b) (hcut : CutOK a b) :
    ∃ ta tb, rawJoin ta = a ∧ rawJoin tb = b ∧ valJoin ts = valJoin ta ++ valJoin tb ∧
      WF m ta ∧ WF m tb ∧ Closed ta ∧ Closed tb := by
  obtain ⟨ta, tb, h1, h2, h3, h4, h5, h6, h7⟩ := split_toksk ts hw.1 hc a b h hcut
  have hf := hw.2
  rw [h3] at hf
  exact ⟨ta, tb, h1, h2, h3, ⟨h4, Free_append_left _ _ hf⟩, ⟨h5, Free_append_right _ _ hf⟩, h6, h7⟩

theorem WFk_append_closed {m : Map} : ∀ a, WFk m a → Closed a → ∀ b, WFk m b → WFk m (a ++ b)
  | [], _, _, b, hb => hb
  | .chunk s :: a, hw, hc, b, hb => WFk_append_closed a hw hc b hb
  | .key k v :: a, hw, hc, b, hb =>
    ⟨KeyOK_of_closed hc.1 _, hw.2.1, WFk_append_closed a hw.2.2 hc.2 b hb⟩

theorem Closed_append : ∀ a b, Closed a → Closed b → Closed (a ++ b)
  | [], _, _, hb => hb
  | .chunk _ :: a, b, ha, hb => Closed_append a b ha hb
  | .key _ _ :: a, b, ha, hb => ⟨ha.1, Closed_append a b ha.2 hb⟩

theorem mem_takeWhile_p (p : Char → Bool) : ∀ (l : Str) (c : Char), c ∈ l.takeWhile p → p c = true
  | [], c, h => by simp at h
  | a :: l, c, h => by
    rw [List.takeWhile_cons] at h
    by_cases ha : p a = true
    · simp only [ha, if_true] at h
      rcases List.mem_cons.mp h with h | h
      · subst h; exact ha
      · exact mem_takeWhile_p p l c h
    · simp [ha] at h

/-- `strip` removes a run of blanks at either end -/
theorem strip_decomp (s : Str) :
    ∃ w1 w2, s = w1 ++ (strip s ++ w2) ∧ (∀ c ∈ w1, isSpace c = true) ∧ (∀ c ∈ w2, isSpace c = true) := by
  refine ⟨(rstrip s).takeWhile isSpace, (s.reverse.takeWhile isSpace).reverse, ?_, ?_, ?_⟩
  · have h1 : s = rstrip s ++ (s.reverse.takeWhile isSpace).reverse := by
      unfold rstrip
      rw [← List.reverse_append, List.takeWhile_append_dropWhile, List.reverse_reverse]
    have h2 : rstrip s = (rstrip s).takeWhile isSpace ++ strip s := by
      unfold strip lstrip
      rw [List.takeWhile_append_dropWhile]
    conv => lhs; rw [h1, h2]
    simp
  · intro c hc; exact (mem_takeWhile_p _ _ _ hc)
  · intro c hc; exact mem_takeWhile_p _ _ _ (List.mem_reverse.mp hc)

end Fp.Splitline
