"""Co-simulation of the Header model (lean/FparserModel/Header.lean) against the real hand-written
opening / END statement classes of program units, derived types, interfaces and constructs
(fparser/two/Fortran2003.py + Fortran2008/, `EndStmtBase`, `StmtBase.tofortran`, and the name / label
discipline of `BlockBase.match`), with the REAL child classes as oracle.

(i) CLASS LEVEL, both standards, every modelled class (`header.classes` from `firstModelled` on):
    * the real `cls.match(string)` runs with `Base.__new__` wrapped, recording the DIRECT child
      calls (class, text, node / NoMatchError / other exception);
    * the compiled model is asked `header.match std cls text <answered calls>`; an unanswered child
      call makes it reply `ask cls text`, which is answered from the recording: the sequence of
      `ask`s is the model's call sequence;
    * required: same child calls in the same order with the same texts, same outcome (tuple / no
      match / WHICH exception escapes), item-wise the same tuple (None / str / the very object the
      k-th call returned), and the model's `tostr` of those items == `str(node)`.
    * for the first accepted samples of every class: `header.str` (the model's tostr over PRINTED
      children) on the matched tuple and on the tuple with one item replaced by None: same text /
      same exception as the real tostr.
    Samples: the statement texts handed to modelled classes while parsing `--n/10` generated
    programs (`fv.gen.gen_program`), a shape generator covering every optional part of every class,
    every sample fed to its own class and to ~6 other modelled classes (cross feeding), and of each
    sample one-token deletions / duplications, case / blank variants, parenthesis insertions.

(ii) PROGRAM LEVEL NAME DISCIPLINE: for every block kind x opener named/unnamed x END variants (bare,
    keyword, same / other-case / other / surplus name, other keyword, glued spellings, compound
    spellings, labels of a labelled DO, CONTINUE) a small program is parsed by the real parser
    (tree / FortranSyntaxError / SystemExit) and compared with `header.names` (accepted -> tree;
    syntaxError, noMatch, goesOn, enderRejected, openerRejected -> syntax; systemExit -> exit); the
    same for intermediate statements carrying a construct name (`header.mid`).

(iii) LABEL x NAME PRINTING: `node.tofortran(tab, isfix)` of every StmtBase node with an `item` in
    small programs (every combination label present/absent x construct name present/absent,
    nesting depth 0..2, names on plain statements, labelled DO) against `header.tofortran`, for the
    tabs "", 2 and 6 blanks x free/fixed AND for the very calls (tab, isfix) the real printer makes
    while it prints the whole tree; re-reading: `header.reread` of the free-form printed line gives
    back (label, name, text), and so does the real reader on `str(tree)`.

Run time is bounded: per-sample SIGALRM limit (a BaseException), `--max-seconds` wall budget
(default 14 + 0.2*n).  Deterministic in (seed, n).

NEGATIVE CONTROL (every invocation): (0) unmodified real code and driver -> no disagreement on the
fixed cases; (1..8) the real method is replaced IN THIS PROCESS by a copy of its own source with one
realistic edit (the 8th REVERTS the repair /repo 98a89ee of Generic_Binding.match); each must be REPORTED as a disagreement on at least one fixed case; (last) one
driver answer flipped -> reported.  A control that does not behave like this makes the exit code 1.

    timeout 600 /venv/bin/python -m fv.cosim_header --seed 0 --n 200
"""
import argparse
import collections
import inspect
import os
import random
import re
import signal
import sys
import time

from fv import repo
from fv import model as fvmodel

repo.activate()

from fparser.two import utils as U                     # noqa: E402
from fparser.two import Fortran2003 as F3              # noqa: E402
from fparser.two import Fortran2008 as F8              # noqa: E402

STDS = ("f2003", "f2008")

ONLY_2008 = {"End_Block_Stmt", "End_Critical_Stmt", "End_Submodule_Stmt", "Submodule_Stmt",
             "Parent_Identifier", "Block_Stmt", "Critical_Stmt"}

MAX_LEN = 110
MAX_DEPTH = 3
MAX_GROUPS = 6


def admissible(s):
    if len(s) > MAX_LEN or "\n" in s:
        return False
    depth = best = groups = 0
    for ch in s:
        if ch in "([":
            depth += 1
            groups += 1
            best = max(best, depth)
        elif ch in ")]":
            depth = max(0, depth - 1)
    if "F2PY" in s and best > 0:
        return False
    return best <= MAX_DEPTH and groups <= MAX_GROUPS


# ------------------------------------------------------------------------------- time limit

class CaseTimeout(BaseException):
    """per-sample limit; a BaseException so that `except Exception` clauses cannot swallow it"""


def _alarm(signum, frame):
    raise CaseTimeout()


class time_limit:
    def __init__(self, seconds=2.0):
        self.seconds = seconds

    def __enter__(self):
        self.old = signal.signal(signal.SIGALRM, _alarm)
        signal.setitimer(signal.ITIMER_REAL, self.seconds, 1.0)

    def __exit__(self, *a):
        signal.setitimer(signal.ITIMER_REAL, 0)
        signal.signal(signal.SIGALRM, self.old)
        return False


# ------------------------------------------------------------------------------- real side

_BLOCKNAME = re.compile(r"^block:\d+$")


def cls_of(std, name):
    if name in ONLY_2008:
        return getattr(F8, name, None) if std == "f2008" else None
    if std == "f2008":
        c = F8.__dict__.get(name)
        if isinstance(c, type) and c.__module__.startswith("fparser.two.Fortran2008.") \
                and not name.endswith("_List"):
            return c
    return getattr(F3, name, None)


class Recorder:
    """wraps Base.__new__; records the calls made at depth 1"""

    def __init__(self):
        self.depth = 0
        self.calls = []

    def __enter__(self):
        self.orig = U.Base.__dict__["__new__"]
        orig = self.orig.__func__ if isinstance(self.orig, staticmethod) else self.orig
        rec = self

        def new(cls, string, parent_cls=None, _deepcopy=False):
            rec.depth += 1
            top = rec.depth == 1
            try:
                try:
                    r = orig(cls, string, parent_cls, _deepcopy)
                except U.NoMatchError:
                    if top:
                        rec.calls.append((cls.__name__, string, "nomatch", None))
                    raise
                except Exception as e:  # noqa: BLE001
                    if top:
                        rec.calls.append((cls.__name__, string, "raises", type(e).__name__))
                    raise
                if top:
                    rec.calls.append((cls.__name__, string, "ok", r))
                return r
            finally:
                rec.depth -= 1

        U.Base.__new__ = new
        return self

    def __exit__(self, *a):
        U.Base.__new__ = self.orig
        return False


def real_match(cls, text):
    """-> (outcome, result, calls); outcome = ok | nomatch | raises:<Type>"""
    with Recorder() as rec:
        try:
            r = cls.match(text)
            if r is None:
                out = "nomatch"
            elif isinstance(r, tuple):
                out = "ok"
            else:
                out = "raises:NotATuple"
        except U.NoMatchError:
            r, out = None, "nomatch"
        except Exception as e:  # noqa: BLE001
            r, out = None, "raises:" + type(e).__name__
    return out, r, rec.calls


def build_obj(cls, text, result):
    """what Base.__new__ does with a tuple"""
    obj = object.__new__(cls)
    obj.string = text
    obj.item = None
    U._set_parent(obj, result)
    if hasattr(cls, "init"):
        obj.init(*result)
    return obj


def flags_of(n):
    """the three structural questions of `HOracle` about a returned node"""
    f = ["0", "0", "0"]
    try:
        if hasattr(n, "items") and any("ELEMENTAL" in str(c) for c in U.walk(n.items, F3.Prefix_Spec)):
            f[0] = "1"
    except Exception:  # noqa: BLE001
        pass
    try:
        if U.walk(n, F3.Language_Binding_Spec):
            f[1] = "1"
    except Exception:  # noqa: BLE001
        pass
    try:
        if F3.Proc_Component_Attr_Spec("POINTER") in n.items:
            f[2] = "1"
    except Exception:  # noqa: BLE001
        pass
    return "".join(f)


def answer_fields(call):
    """kind str flags exc of a recorded call"""
    name, text, kind, r = call
    if kind == "nomatch":
        return ["nomatch", "", "000", ""]
    if kind == "raises":
        return ["raises", "", "000", r]
    try:
        s = str(r)
    except Exception as e:  # noqa: BLE001
        s = "<str raises %s>" % type(e).__name__
    return ["ok", s, flags_of(r), ""]


# ------------------------------------------------------------------------------- one sample

class Checker:
    def __init__(self, mdl, verbose=False):
        self.m = mdl
        self.stats = collections.Counter()
        self.per_cls = collections.Counter()
        self.per_cls_ok = collections.Counter()
        self.bad = []
        self.exc = {}
        self.verbose = verbose
        self.per_cls_str = collections.Counter()
        self.str_quota = 0
        self.str_bad = []

    def disagree(self, std, name, text, msg):
        self.stats["disagree"] += 1
        if len(self.bad) < 80:
            self.bad.append("%s %s(%r): %s" % (std, name, text if len(text) < 200 else text[:200] + "...", msg[:600]))

    def check(self, std, name, text):
        cls = cls_of(std, name)
        if cls is None:
            r = self.m.ask("header.match", std, name, text)
            if r[0] != "unmodelled":
                self.disagree(std, name, text, "no such class under %s, model %r" % (std, r[:2]))
            else:
                self.stats["unmodelled"] += 1
            return
        self.stats["samples"] += 1
        self.per_cls[name] += 1
        out, result, calls = real_match(cls, text)
        calls = [c for c in calls if isinstance(c[1], str)]
        table = []
        asked = []
        reply = None
        for _round in range(60):
            req = ["header.match", std, name, text]
            for (n, t, f) in table:
                req += [n, t] + f
            reply = self.m.ask(*req)
            if reply[0] != "ask":
                break
            qn, qt = reply[1], reply[2]
            asked.append((qn, qt))
            idx = None
            for i, c in enumerate(calls):
                if c[0] == qn and c[1] == qt:
                    idx = i
                    break
            if idx is None:
                self.disagree(std, name, text, "model calls %s(%r), real calls: %r (real outcome %s)"
                              % (qn, qt, [(c[0], c[1], c[2]) for c in calls], out))
                return
            table.append((qn, qt, answer_fields(calls[idx])))
        else:
            self.disagree(std, name, text, "ask loop did not end")
            return
        if reply[0] == "unmodelled":
            self.disagree(std, name, text, "class exists, model says unmodelled")
            return
        real_seq = []
        for c in calls:
            if (c[0], c[1]) not in real_seq:
                real_seq.append((c[0], c[1]))
        if reply[0] == "nomatch":
            mout = "nomatch"
        elif reply[0] == "raises":
            e = reply[1]
            mout = "raises:" + (e[6:] if e.startswith("child:") else e)
        else:
            mout = "ok"
        if asked != real_seq:
            self.disagree(std, name, text, "call sequence: model %r (%s), real %r (%s)" % (asked, mout, real_seq, out))
            return
        if out.startswith("raises:"):
            key = (name, out)
            if key not in self.exc or len(text) < len(self.exc[key][1]):
                self.exc[key] = (std, text)
        if mout != out:
            self.disagree(std, name, text, "outcome: model %s, real %s" % (mout, out))
            return
        self.stats["agree_" + out.split(":")[0]] += 1
        if out != "ok":
            return
        self.per_cls_ok[name] += 1
        try:
            obj = build_obj(cls, text, result)
        except Exception as e:  # noqa: BLE001
            self.disagree(std, name, text, "real init raises %s" % type(e).__name__)
            return
        ritems = list(obj.items) if hasattr(obj, "items") else list(result)
        n = int(reply[1])
        pos = 2
        mitems = []
        for _ in range(n):
            k = reply[pos]
            if k == "N":
                mitems.append(("N",))
                pos += 1
            else:
                mitems.append((k, reply[pos + 1]))
                pos += 2
        tail = reply[pos:]

        def entry_key(i):
            return (table[int(i)][0], table[int(i)][1])

        def key_of(o):
            for c in calls:
                if c[3] is o and c[2] == "ok":
                    return (c[0], c[1])
            return None

        ok = len(mitems) == len(ritems)
        if ok:
            for mi, ri in zip(mitems, ritems):
                if mi[0] == "N":
                    ok = ri is None
                elif mi[0] == "S":
                    ok = isinstance(ri, str) and (ri == mi[1] or (mi[1] == "block:" and bool(_BLOCKNAME.match(ri))))
                elif mi[0] == "T":
                    ok = key_of(ri) is not None and key_of(ri) == entry_key(mi[1])
                else:
                    ok = False
                if not ok:
                    break
        if not ok:
            self.disagree(std, name, text, "items: model %r, real %r" % (mitems, ritems))
            return
        try:
            rstr = ("str", str(obj))
        except Exception as e:  # noqa: BLE001
            rstr = ("strraises", type(e).__name__)
        if tuple(tail[:2]) != rstr:
            self.disagree(std, name, text, "tostr: model %r, real %r" % (tuple(tail[:2]), rstr))
            return
        self.stats["agree_str"] += 1
        if hasattr(obj, "items") and self.per_cls_str[(std, name)] < self.str_quota:
            self.per_cls_str[(std, name)] += 1
            self.check_str(std, name, obj, ritems)

    def check_str(self, std, name, obj, ritems):
        """`header.str` (the model's tostr over printed children) on the matched items and on the same items
        with one of them replaced by None: same text or same exception"""
        variants = [list(ritems)]
        for j in range(len(ritems)):
            if ritems[j] is not None:
                v = list(ritems)
                v[j] = None
                variants.append(v)
        keep = obj.items
        for v in variants:
            fields = []
            for it in v:
                if it is None:
                    fields.append("N")
                elif isinstance(it, str):
                    fields += ["S", "block:" if _BLOCKNAME.match(it) else it]
                else:
                    fields += ["T", str(it)]
            try:
                obj.items = type(keep)(v)
                try:
                    want = ["str", obj.tostr()]
                except Exception as e:  # noqa: BLE001
                    want = ["strraises", type(e).__name__]
            finally:
                obj.items = keep
            got = self.m.ask("header.str", std, name, *fields)
            self.stats["str_probes"] += 1
            if got != want:
                self.stats["str_disagree"] += 1
                key = (name, tuple(got), tuple(want[:1]))
                if len(self.str_bad) < 40:
                    self.str_bad.append("%s %s.tostr(%r): model %r, real %r" % (std, name, [x if x is None or isinstance(x, str) else "<" + str(x) + ">" for x in v], got, want))


# ------------------------------------------------------------------------------- samples

END_KW = {
    "End_Program_Stmt": "program", "End_Module_Stmt": "module", "End_Subroutine_Stmt": "subroutine",
    "End_Function_Stmt": "function", "End_Block_Data_Stmt": "block data", "End_Type_Stmt": "type",
    "End_Interface_Stmt": "interface", "End_Do_Stmt": "do", "End_If_Stmt": "if",
    "End_Select_Stmt": "select", "End_Select_Type_Stmt": "select", "End_Where_Stmt": "where",
    "End_Forall_Stmt": "forall", "End_Associate_Stmt": "associate", "End_Enum_Stmt": "enum",
    "End_Block_Stmt": "block", "End_Critical_Stmt": "critical", "End_Submodule_Stmt": "submodule",
}

PROBES = {
    "End_Block_Data_Stmt": ["END BLOCK DATA", "endblockdata", "end block  data", "end blockdata", "end blockdata bd",
                            "endblockdatabd", "end block d ata", "end bloc kdata", "end block", "end block dat",
                            "end blockdat a", "end b lock data", "end  block data  bd", "end block data bd bd"],
    "End_Interface_Stmt": ["end interface operator(+)", "end interface assignment(=)", "end interface foo",
                           "end interface read(formatted)", "end interface operator(.myop.)", "endinterface",
                           "end interface operator(+))", "end interface operator (+) x"],
    "End_If_Stmt": ["end ifx", "endifx", "end if x", "end if x y", "end ifnam", "end i f", "endif", "END IF", "end  if",
                    "end\tif", "end", "en", "", "end if(", "end i", "ENDIF NAM"],
    "End_Do_Stmt": ["enddo", "end do nam", "end  do  x", "end d o", "enddonam", "END DO"],
    "End_Program_Stmt": ["end", "END", "end program", "endprogram p", "endprogramx", "end programp", "end prog", "end p",
                         "end program p q", "end program 1", "end  ", "end subroutine", "endp rogram"],
    "End_Select_Stmt": ["end select", "endselect", "end select nam", "end selectnam", "end select type"],
    "End_Select_Type_Stmt": ["end select", "endselect", "end select nam", "end select type"],
    "End_Enum_Stmt": ["end enum", "endenum", "end enum x", "end enumx", "end", "end e num"],
    "End_Type_Stmt": ["end type", "end type t", "endtype t", "end typet", "end", "end type t(k)"],
    "End_Submodule_Stmt": ["end", "end submodule", "endsubmodule s", "end submodules", "end sub module"],
    "End_Block_Stmt": ["end block", "endblock", "end block nam", "end block data", "end blockdata", "end"],
    "End_Critical_Stmt": ["end critical", "endcritical nam", "end criticalnam", "end"],
    "Program_Stmt": ["program p", "program", "programp", "PROGRAM  P", "program p q", "program 1", "program p(x)", " program p"],
    "Module_Stmt": ["module m", "module", "modulem", "module procedure", "module m n", "MODULE M"],
    "Submodule_Stmt": ["submodule (a) b", "submodule (a:b) c", "submodule(a)b", "submodule (a) ", "submodule a b",
                       "submodule (a) (b)", "submodule x (a) b", "submodule (a) b c", "submodule ()", "submodule",
                       "submodule (a:b:c) d", "submodule ((a)) b", "submodule (a)) b", "submodule 'x' (a) b", "SUBMODULE (A) B"],
    "Parent_Identifier": ["a", "a:b", "a : b", "a:b:c", ":", "a:", ":b", "", " a "],
    "Block_Data_Stmt": ["block data", "block data bd", "blockdata bd", "blockdata", "block  data  bd", "block", "blockdatabd",
                        "block dat", "BLOCK DATA BD", "block data bd cd", "block data 1"],
    "Subroutine_Stmt": ["subroutine s", "subroutine s()", "subroutine s(a, b) bind(c)", "pure subroutine s(a)",
                        "elemental subroutine s() bind(c)", "subroutine s() bind(c, name='a)b')", "subroutine s bind(c)",
                        "subroutine s(a, b, *)", "subroutines", "subroutine", "subroutine 1", "subroutine s(", "subroutine s(a",
                        "subroutine s(a))", "subroutine s() x", "subroutine s()bind(c)", "recursive pure subroutine s",
                        "pure pure subroutine s", "integer subroutine s", "elemental recursive subroutine s",
                        "module subroutine s(a)", "impure elemental subroutine s(a)", "SUBROUTINE S ( A )",
                        "subroutine subroutine", "subroutine subroutine()", "xsubroutine s", "pure, subroutine s",
                        "subroutine s(a) bind(c, name='subroutine')", "call subroutine s", "subroutine s('a')",
                        "elemental subroutine s(a) bind(c, name = \"x\")", "elemental subroutine s bind(c)",
                        "subroutine s()()", "subroutine s ) (", "subroutine s$a(b)", "subroutine s_1",
                        "subroutine s((a))", "subroutine s(a(b))", "subroutine s(')", "subroutine s('a', \"b)\")",
                        "recursive subroutinesubroutine()", "type(subroutine) subroutine s", "subroutine s() bind(c) bind(c)",
                        "subroutine s(a)(b) bind(c)", "subroutine s ()bind ( c )", "subroutine s(a) ! c", "subroutine s; x"],
    "Function_Stmt": ["integer function f(a) result(r)", "function f()", "elemental function f() bind(c)",
                      "recursive function f() result(r) bind(c, name=\"ff\")", "function f", "function f(", "function f(a",
                      "function f(a) result(r)", "function f(a) bind(c) result(r)", "function f(a) result(r) bind(c)",
                      "real(8) function f(x)", "type(t) function f(x)", "pure integer elemental function f(x)",
                      "elemental function f() result(r) bind(c)", "elemental function f() result(r)",
                      "elemental integer function f() bind(c) result(r)", "function 1()", "function", "functionf()",
                      "function f() x", "function f()) result(r)", "function f(a, b, *)", "character(len=5) function f()",
                      "function function()", "function f() result(function)", "double precision function f()",
                      "integer function f() bind(c, name='function')", "pure pure function f()",
                      "elemental recursive function f()", "FUNCTION F ( A , B ) RESULT ( R )", "module function f(a)",
                      "function f() result()", "function f() result(r) x", "function f() bind(d)",
                      "impure elemental function f(a) bind(c)", "real function f(a) result(r) bind ( c , name = 'q' )",
                      "integer functionf()", "xfunction f()", "function f()result(r)", "function f result(r)",
                      "pure function function function()", "type(function) function f()", "function f(a(b)) result(r)",
                      "function f((a))", "function f(')') result(r)", "character(len=len('function')) function f()",
                      "integer(kind=4) pure function f(x) result(y)", "function f(a) result(r) bind(c) x",
                      "elemental function f() result(r) bind(c, name='x')", "function f() bind(c) bind(c)",
                      "function f() result(r) result(q)", "class(t) function f()", "integer*4 function f()"],
    "Prefix": ["pure", "recursive", "elemental", "impure", "module", "integer", "real(8)", "type(t)", "pure recursive",
               "pure integer", "integer pure", "pure integer elemental", "pure pure", "elemental recursive",
               "recursive integer elemental", "integer real", "pure integer pure", "", " ", "pure  recursive",
               "PURE", "Elemental Impure", "module pure", "foo", "pure foo", "foo pure bar", "character(len=5) pure",
               "double precision", "pure double precision", "double pure precision", "integer integer",
               "impure pure", "pure integer recursive real", "elemental integer recursive"],
    "Prefix_Spec": ["pure", "PURE", "recursive", "elemental", "impure", "module", "non_recursive", "pur", " pure", "pure ", ""],
    "Suffix": ["result(r)", "bind(c)", "bind(c, name='x')", "result(r) bind(c)", "bind(c) result(r)", "result (r)",
               "result(r) x", "result()", "result( ) bind(c)", "result", "bind(c) result()", "bind(c) result (r)",
               "bind(c)result(r)", "result(r)bind(c)", "x result(r)", "result r", "result(r", "result(r))", "RESULT(R)",
               "bind(c, name='a)b') result(r)", "result(r) bind(c, name='result(x)')", "bind(c) xresult(r)",
               "bind(c) result(r) ", " result(r)", "result(a(1))", "(r)", "result(r) result(q)", "bind(c) bind(c) result(r)"],
    "Language_Binding_Spec": ["bind(c)", "BIND(C)", "bind ( c )", "bind(c, name='x')", "bind ( c , name = 'x' )", "bind(d)",
                              "bind(c name='x')", "bind(c, nam='x')", "bind(c, name 'x')", "bind(c,)", "bind()", "bind",
                              "bind(c", "bind c)", "bind(c))", "bind(c, name=)", "bind(c, name='a)b')", "bind(cc)",
                              "bind(c, name=x//'y')", "bindx(c)", "bind(c,name=\"q\")", "bind(c, name=='x')"],
    "Dummy_Arg_List": ["a", "a, b", "a, b, *", "*", "", "a,", ",a", "a,,b", "a b", "1", "a, *, *"],
    "Dummy_Arg_Name_List": ["a", "a, b", "*", "", "a,"],
    "Dummy_Arg": ["a", "*", "**", " *", "1", ""],
    "Entry_Stmt": ["entry e", "entry e()", "entry e(a,b) result(r)", "entry e(a) bind(c)", "entry", "entrye", "entry e(",
                   "entry e(a", "entry e)", "entry e() x", "entry e(a)) result(r)", "ENTRY E ( A )", "entry e('a)')",
                   "entry e(a, *)", "entry (a)", "entry e (a) result (r) bind(c)", "entry e('a", "entry e(a)(b)"],
    "Interface_Stmt": ["interface", "interface foo", "abstract interface", "interface operator(+)", "interfacefoo",
                       "interface abstract", "abstract  interface", "abstractinterface", "abstract interface foo",
                       "interface assignment(=)", "interface read(formatted)", "INTERFACE", "interface  ", "abstract",
                       "interface operator(.myop.)", "interface operator(+))", "interface 1", "ABSTRACT INTERFACE"],
    "Generic_Spec": ["operator(+)", "operator(.myop.)", "operator(+))", "assignment(=)", "read(formatted)",
                     "write ( unformatted )", "operator (+)", "operator( + )", "operator()", "operator", "operator+",
                     "assignment(==)", "assignment ( = )", "assignment()", "assignment", "assignment(=", "operator(+",
                     "OPERATOR(//)", "operator(.not.)", "foo", "operatorx(+)", "assignment(=))", "assignment( =)"],
    "Dtio_Generic_Spec": ["read(formatted)", "write ( unformatted )", "READ(UNFORMATTED)", "write(formatted)", "read",
                          "read()", "read(format)", "read formatted", "read(formatted", "write(formatted))",
                          "readx(formatted)", "read (formatted) x", "print(formatted)", "write( Formatted )", "read(write)"],
    "Extended_Intrinsic_Op": ["+", "-", "*", "**", "***", "/", "//", "///", "/ /", "==", "/=", "<", "<=", ">", ">=", ".eq.",
                              ".EQ.", ". eq .", ".and.", ".not.", ".myop.", ".eqv.", ".neqv.", "+x", ".eq.x", "=", "=>",
                              "", " +", "<>", ".ne", "ne.", ".n e.", "*/", "/*", "/ =", ".or. ", ".eqvv."],
    "Procedure_Stmt": ["module procedure a, b", "procedure :: a", "procedure a", "procedure", "module procedure",
                       "moduleprocedure a", "module  procedure :: a", "procedure::a,b", "procedurea", "module a",
                       "MODULE PROCEDURE A", " procedure a", " module procedure a", "procedure : a", "procedure :: ",
                       "module procedure ::", "module module procedure a", "procedure(a) :: b"],
    "Derived_Type_Stmt": ["type t", "type :: t", "type, abstract, extends(b) :: t", "type t(k, l)", "type", "typet", "type ::",
                          "type, :: t", "type, abstract t", "type x :: t", "type :: t()", "type :: t(k", "type :: t k",
                          "type, bind(c) :: t", "type, public :: t", "type, private, abstract :: t(k)", "TYPE :: T",
                          " type t ", "type :: 1", "type(t)", "type is (t)", "type :: t(k)(l)", "type,abstract::t",
                          "type :: t :: u", "type, extends(b) :: t(k) x", "type t$x", "type :: t(k))"],
    "Type_Attr_Spec": ["abstract", "ABSTRACT", "bind(c)", "bind ( C )", "extends(t)", "extends ( t )", "public", "private",
                       "abstractx", "bind(d)", "bind", "bind()", "extends", "extends()", "extends(t", "extends t)",
                       "extends(t))", "bind(c, name='x')", " abstract", "extends(1)"],
    "Type_Attr_Spec_List": ["abstract", "abstract, extends(b)", "public, bind(c)", "abstract,", "", "abstract abstract"],
    "Private_Components_Stmt": ["private", "PRIVATE", "private ", " private", "privat", "private x", ""],
    "Sequence_Stmt": ["sequence", "SEQUENCE", "sequence x", "sequenc", " sequence"],
    "Contains_Stmt": ["contains", "CONTAINS", "contain", "contains x", "contains ", ""],
    "Binding_Private_Stmt": ["private", "PRIVATE", "private x", "public"],
    "Specific_Binding": ["procedure :: a", "procedure, pass :: a => b", "procedure(iface), deferred :: a", "procedure a",
                         "procedure", "procedurea", "procedure  a", "procedure :: a => b", "procedure a => b",
                         "procedure(iface) :: a => b", "procedure(iface) a", "procedure(iface), deferred, pass :: a",
                         "procedure, nopass a", "procedure, :: a", "procedure x :: a", "procedure(iface :: a",
                         "procedure() :: a", "procedure::a", "procedure::a=>b", "procedure, pass(x) :: a => b",
                         "PROCEDURE :: A", " procedure :: a ", "procedure :: a =>", "procedure :: => b", "procedure ::",
                         "procedure(iface)a", "procedure ,pass::a", "procedure(i)(j) :: a", "procedure :: a => b => c",
                         "procedure ::a", "procedure a:: b", "procedure(x)", "procedure()"],
    "Generic_Binding": ["generic :: a => b, c", "generic, public :: operator(+) => p", "generic :: a =>xb", "generic::a=>b",
                        "generic :: a => b", "generic", "generic ::", "generic :: a", "generic :: => b", "generic :: a =>",
                        "generic, :: a => b", "generic, private :: assignment(=) => p, q", "generic a => b",
                        "generic x :: a => b", "GENERIC :: A => B", "generic :: a => b => c", "generic :: a =>  b",
                        "generic :: read(formatted) => rf", "generic :: a = > b", "genericx :: a => b", "generic :: a=> b",
                        "generic, public, private :: a => b"],
    "Final_Binding": ["final :: f1, f2", "final f", "final", "final ::", "finalf", "final::f", "FINAL :: F", "final : f",
                      "final :: f,", "final, x :: f"],
    "Binding_Attr": ["pass", "nopass", "non_overridable", "deferred", "PASS", "pass(x)", "pass (x)", "public", "private",
                     "pas", "pass()", "pass(", ""],
    "Proc_Component_Def_Stmt": ["procedure(), pointer :: p => null()", "procedure(real), pointer, nopass :: p",
                                "procedure(f), save :: p, q => null()", "procedure(f), pointer :: p", "procedure(f) :: p",
                                "procedure(f), pointer p", "procedure, pointer :: p", "procedure(f), nopass :: p",
                                "procedure(f), nopass, pointer :: p", "procedure(f) pointer :: p", "procedure(f",
                                "procedure(f), :: p", "procedure(f), pointer ::", "PROCEDURE ( F ) , POINTER :: P",
                                "procedure(real(8)), pointer :: p", "procedure((f)), pointer :: p",
                                "procedure(f), pointer, pass(a) :: p", "procedure(f), pointer :: p => null(), q",
                                "procedure ( ), pointer :: p", "procedure(f), pointer, pointer :: p",
                                "procedure(f),pointer::p", "procedure(type(t)), pointer :: p", "procedure(f), public, pointer :: p",
                                "procedure(f), pointerx :: p", "procedure('a)b'), pointer :: p", "xprocedure(f), pointer :: p"],
    "Procedure_Declaration_Stmt": ["procedure(), pointer :: p => null()", "procedure(real), pointer :: p",
                                   "procedure(f), save :: p, q => null()", "procedure(f) :: p", "procedure(f) p",
                                   "procedure(f) p, q", "procedure() p", "procedure p", "procedure", "procedure(f",
                                   "procedure(f), :: p", "procedure(f), save p", "procedure(f) x :: p", "procedure(f) ::",
                                   "procedure(f), intent(in), optional :: p", "PROCEDURE ( F ) :: P", "procedure(f)",
                                   "procedure(real(8)) :: p", "procedure(f)::p", "procedure (f), bind(c) :: p",
                                   "procedure(f), pointer :: p => q", "procedure('a)b') :: p", "procedure(f) :: p :: q",
                                   "procedure(f),save::p"],
    "Proc_Decl": ["p => null()", "p => q", "p", "p =>", "=> null()", "p => null", "p=>null()", " p => null() ",
                  "p => q => null()", "p => null() => q", "", "p => 1", "p(1) => null()", "p => 'a=>b'", "p => null( )",
                  "P => NULL()", "p = > null()"],
    "Proc_Attr_Spec": ["intent(in)", "intent ( inout )", "optional", "pointer", "protected", "save", "public", "private",
                       "bind(c)", "INTENT(OUT)", "intent", "intent()", "intent(in", "intent in)", "intent(in))", "optionalx",
                       "POINTER", " save", "intent(foo)", "intentx(in)", "bind(c, name='x')"],
    "Import_Stmt": ["import", "import :: a, b", "import a", "importa", "import ::", "IMPORT", "import : a", "import::a",
                    "import a,", "import, only: a", "import 1"],
    "Enum_Def_Stmt": ["enum, bind(c)", "enum , bind ( c )", "ENUM, BIND(C)", "enum,bind(c)", "enum", "enum bind(c)",
                      "enum, bind(d)", "e n u m , b i n d ( c )", "enum, bind(c) x", " enum, bind(c) ", "enum,\tbind(c)"],
    "Enumerator_Def_Stmt": ["enumerator :: a = 1, b", "enumerator a", "enumerator", "enumerator ::", "enumeratora",
                            "enumerator::a", "ENUMERATOR :: A", "enumerator : a", "enumerator a = 1"],
    "Associate_Stmt": ["associate (z => a, y => b%c)", "associate(z=>a)", "associate", "associate ()", "associate z => a",
                       "associate (z => a", "associate (z => a))", "associate (z => a) x", "ASSOCIATE ( Z => A )",
                       "associate ((z => a)", "associate (z)", "associatex (z => a)", "associate (z => f(a, b))"],
    "Association": ["z => a", "z=>a", "z => b%c", "z =>", "=> a", "z", "z => a => b", "z => f(a)", "z => 'a=>b'", "1 => a",
                    " z => a ", "z = > a", "z => (a)", "z(1) => a"],
    "Select_Type_Stmt": ["select type (i)", "select type (z => i)", "selecttype(i)", "select type", "select type ()",
                         "select type i", "select type (i", "select type (i))", "select case (i)", "select  type  ( z=>i )",
                         "SELECT TYPE (I)", "select type (z => )", "select type ( => i)", "select type (z => i => j)",
                         "select typex (i)", "select type (a%b)", "selec type (i)", "select type (i) x"],
    "Type_Guard_Stmt": ["type is (integer)", "type is (t) nam", "class is (t)", "class default", "class default nam",
                        "typeis(integer)", "classis(t)", "classdefault", "type is", "type is ()", "type is (t", "type is t)",
                        "type is (t))", "type is (real(8)) nam", "class is (t) nam nam", "class  default  nam",
                        "TYPE IS (INTEGER)", " type is (t)", "class defaultnam", "class is", "class", "type", "type (t)",
                        "type is (character(len=*))", "class is (t)nam", "class default (t)", "type isx (t)", "class defaul"],
    "Block_Stmt": ["block", "BLOCK", "block data", "block x", "blockx", " block", "block ", "bloc", ""],
    "Critical_Stmt": ["critical", "CRITICAL", "critical x", "criticalx", "critical ", " critical", ""],
    "Else_Stmt": ["else", "else nam", "ELSE", "elsenam", "else  nam", "else if (a) then", "else nam nam", "els", "else 1",
                  "else where", "elsewhere", " else", "else "],
    "Elsewhere_Stmt": ["elsewhere", "else where nam", "else where", "elsewhere nam", "elsewherenam", "ELSEWHERE",
                       "else  where  nam", "elsewhere (a > 0)", "elsewhere nam nam", "else", "elsewher", "else wherex",
                       " elsewhere", "elsewhere 1", "else\twhere"],
    "Masked_Elsewhere_Stmt": ["elsewhere (a > 0) nam", "elsewhere (a > 0)", "else where (a)", "elsewhere(a)nam", "elsewhere",
                              "elsewhere ()", "elsewhere (a", "elsewhere a)", "elsewhere (a))", "elsewhere (a) (b)",
                              "ELSEWHERE (A) NAM", "elsewhere ((a) .and. (b)) nam", "elsewhere (a) nam nam", "elsewhere x (a)",
                              "else  where  ( a )  nam ", "elsewhere (a) ", " elsewhere (a)", "elsewhere (')')"],
    "Binding_PASS_Arg_Name": ["pass(a)", "pass (a)", "PASS(A)", "pass", "pass()", "pass(a", "pass a", "nopass(a)", "pass(a))",
                              "pass(a) x", "pass( a )"],
    "Proc_Component_PASS_Arg_Name": ["pass(a)", "pass (a)", "pass", "pass()", "PASS ( A )"],
}

for _c, _kw in END_KW.items():
    PROBES.setdefault(_c, [])
    for _v in ["end", "end " + _kw, "end %s nam" % _kw, "END %s NAM" % _kw.upper(), "end" + _kw.replace(" ", ""),
               "end" + _kw.replace(" ", "") + " nam", "end %sx" % _kw, "end %snam" % _kw, "end %s nam nam" % _kw,
               "end  %s" % _kw, "end\t%s\tnam" % _kw, "end banana", "end %s 1" % _kw, "end %s" % _kw[:-1], "en", "endx",
               "end %s " % _kw, " end %s" % _kw]:
        if _v not in PROBES[_c]:
            PROBES[_c].append(_v)

NAMES = ["a", "nam", "x1", "my_name", "N", "s$t", "subroutine", "end", "pure", "result", "function", "bind"]
PREFIX_WORDS = ["pure", "recursive", "elemental", "impure", "module", "integer", "real(8)", "type(t)"]
SUFFIXES = ["result(r)", "bind(c)", "bind(c, name='x')", "result(r) bind(c)", "bind(c) result(r)",
            "bind(c, name=\"a)b\") result(r)", "result(r) bind(c, name='subroutine')"]
ARGS = ["", "a", "a, b, *", "a,b", " a ", "*"]


def shapes(rng, k):
    """statements of every modelled shape with the optional parts switched on/off at random"""
    sp = lambda: rng.choice(["", " ", "  "])    # noqa: E731
    sp1 = lambda: rng.choice([" ", "  ", "\t"])    # noqa: E731
    kw = lambda s: rng.choice([s, s, s.upper(), s.capitalize()])    # noqa: E731
    N = lambda: rng.choice(NAMES)      # noqa: E731
    out = collections.defaultdict(list)
    for _ in range(k):
        pre = " ".join(rng.choice(PREFIX_WORDS) for _ in range(rng.choice([0, 0, 1, 1, 2, 3])))
        out["Prefix"].append(pre)
        args = rng.choice(ARGS)
        bind = rng.choice(["", "", " bind(c)", " bind(c, name='x')", "bind(c)", " bind ( c , name = 'q)' )"])
        out["Subroutine_Stmt"].append("%s%s%s%s%s%s" % (pre + " " if pre else "", kw("subroutine"), sp1(), N(),
                                                        rng.choice(["", "(%s)" % args, " (%s)" % args]), bind))
        suf = rng.choice(["", ""] + [" " + s for s in SUFFIXES])
        out["Function_Stmt"].append("%s%s%s%s%s(%s)%s" % (pre + " " if pre else "", kw("function"), sp1(), N(), sp(), args, suf))
        out["Suffix"].append(rng.choice(SUFFIXES))
        out["Entry_Stmt"].append("%s %s%s%s" % (kw("entry"), N(), rng.choice(["", "()", "(%s)" % args]), suf))
        out["Dummy_Arg_List"].append(args)
        out["Language_Binding_Spec"].append("%s%s(%sc%s%s)" % (kw("bind"), sp(), sp(), sp(),
                                            rng.choice(["", ",%s%s%s=%s'x'" % (sp(), kw("name"), sp(), sp())])))
        for c, w in END_KW.items():
            if rng.random() < 0.4:
                out[c].append("%s%s%s%s" % (kw("end"), sp(), kw(w) if rng.random() < 0.8 else kw(w).replace(" ", sp()),
                                            rng.choice(["", sp1() + N(), N()])))
        out["Program_Stmt"].append("%s%s%s" % (kw("program"), sp1(), N()))
        out["Module_Stmt"].append("%s%s%s" % (kw("module"), sp1(), N()))
        out["Submodule_Stmt"].append("%s%s(%s%s%s)%s%s" % (kw("submodule"), sp(), sp(), rng.choice(["a", "a:b", "a : b"]), sp(), sp(), N()))
        out["Block_Data_Stmt"].append("%s%s%s%s" % (kw("block"), sp(), kw("data"), rng.choice(["", " " + N()])))
        gs = rng.choice(["operator(+)", "operator(.myop.)", "operator ( // )", "assignment(=)", "assignment ( = )",
                         "read(formatted)", "write ( unformatted )", N(), "operator(==)", "operator(.and.)"])
        out["Generic_Spec"].append(gs)
        out["Dtio_Generic_Spec"].append(gs)
        out["Interface_Stmt"].append(rng.choice(["%s %s" % (kw("interface"), gs), kw("interface"),
                                                 "%s%s%s" % (kw("abstract"), sp1(), kw("interface"))]))
        out["End_Interface_Stmt"].append("%s %s %s" % (kw("end"), kw("interface"), gs))
        out["Procedure_Stmt"].append("%s%s%s%s" % (rng.choice(["", kw("module") + sp1()]), kw("procedure"),
                                                   rng.choice([" ", " :: ", "::"]), rng.choice(["a", "a, b"])))
        attrs = rng.sample(["abstract", "bind(c)", "extends(t)", "public", "private"], rng.randint(0, 3))
        out["Derived_Type_Stmt"].append("%s%s%s%s%s" % (kw("type"), "".join("," + sp() + a for a in attrs),
                                                        rng.choice([" :: ", "::", " "]) if not attrs else rng.choice([" :: ", "::"]),
                                                        N(), rng.choice(["", "(k)", " (k, l)"])))
        if attrs:
            out["Type_Attr_Spec_List"].append(", ".join(attrs))
            out["Type_Attr_Spec"].append(attrs[0])
        battr = rng.sample(["pass", "nopass", "deferred", "non_overridable", "public", "pass(x)"], rng.randint(0, 2))
        out["Specific_Binding"].append("%s%s%s%s%s%s" % (
            kw("procedure"), rng.choice(["", "", "(iface)"]), "".join("," + sp() + a for a in battr),
            rng.choice([" :: ", "::", " "]) if not battr else " :: ", N(), rng.choice(["", " => b", "=>b"])))
        if battr:
            out["Binding_Attr"].append(battr[0])
        out["Generic_Binding"].append("%s%s%s::%s%s%s=>%s%s" % (kw("generic"), rng.choice(["", ", public", ",private"]), sp(),
                                                                sp(), gs, sp(), sp(), rng.choice(["b", "b, c"])))
        out["Final_Binding"].append("%s%s%s" % (kw("final"), rng.choice([" ", " :: ", "::"]), rng.choice(["f", "f1, f2"])))
        pattr = rng.sample(["pointer", "nopass", "pass", "pass(a)", "public", "save"], rng.randint(1, 3))
        iface = rng.choice(["", "f", "real", "real(8)", "type(t)"])
        decls = rng.choice(["p", "p, q", "p => null()", "p, q => null()", "p => f"])
        out["Proc_Component_Def_Stmt"].append("%s%s(%s)%s :: %s" % (kw("procedure"), sp(), iface,
                                                                    "".join("," + sp() + a for a in pattr), decls))
        pa2 = rng.sample(["pointer", "save", "optional", "intent(in)", "protected", "public", "bind(c)"], rng.randint(0, 2))
        out["Procedure_Declaration_Stmt"].append("%s%s(%s)%s%s%s" % (kw("procedure"), sp(), iface,
                                                                     "".join("," + sp() + a for a in pa2),
                                                                     " :: " if pa2 else rng.choice([" :: ", " "]), decls))
        if pa2:
            out["Proc_Attr_Spec"].append(pa2[0])
        out["Proc_Decl"].append(rng.choice(["p => null()", "p=>null ( )", "p => q", "p"]))
        out["Import_Stmt"].append("%s%s" % (kw("import"), rng.choice(["", " a", " :: a, b", "::a"])))
        out["Enum_Def_Stmt"].append("%s%s,%s%s%s(%sc%s)" % (kw("enum"), sp(), sp(), kw("bind"), sp(), sp(), sp()))
        out["Enumerator_Def_Stmt"].append("%s%s%s" % (kw("enumerator"), rng.choice([" ", " :: ", "::"]),
                                                      rng.choice(["a", "a = 1, b", "a, b=2"])))
        assoc = rng.choice(["z => a", "z => a, y => b%c", "z=>f(a, b)", "z => a(1:2)"])
        out["Associate_Stmt"].append("%s%s(%s%s%s)" % (kw("associate"), sp(), sp(), assoc, sp()))
        out["Association"].append(assoc.split(",")[0])
        out["Select_Type_Stmt"].append("%s%s%s%s(%s%s%s)" % (kw("select"), sp(), kw("type"), sp(), sp(),
                                                             rng.choice(["i", "z => i", "z=>a%b"]), sp()))
        nm = rng.choice(["", "", " " + N()])
        out["Type_Guard_Stmt"].append(rng.choice([
            "%s%s%s%s(%s)%s" % (kw("type"), sp(), kw("is"), sp(), rng.choice(["integer", "t", "real(8)", "character(len=*)"]), nm),
            "%s%s%s%s(%s)%s" % (kw("class"), sp(), kw("is"), sp(), "t", nm),
            "%s%s%s%s" % (kw("class"), sp(), kw("default"), nm)]))
        out["Block_Stmt"].append(kw("block"))
        out["Critical_Stmt"].append(kw("critical"))
        out["Else_Stmt"].append(kw("else") + nm)
        out["Elsewhere_Stmt"].append("%s%s%s%s" % (kw("else"), sp(), kw("where"), nm))
        out["Masked_Elsewhere_Stmt"].append("%s%s%s%s(%s)%s" % (kw("else"), sp(), kw("where"), sp(),
                                                                rng.choice(["a > 0", "m", "(a) .and. (b)", "s == ')'"]), nm))
        out["Private_Components_Stmt"].append(kw("private"))
        out["Sequence_Stmt"].append(kw("sequence"))
        out["Contains_Stmt"].append(kw("contains"))
        out["Binding_Private_Stmt"].append(kw("private"))
        out["Prefix_Spec"].append(kw(rng.choice(PREFIX_WORDS)))
        out["Parent_Identifier"].append(rng.choice(["a", "a:b", " a : b "]))
        out["Extended_Intrinsic_Op"].append(rng.choice(["+", "**", "//", ".eq.", ".myop.", "<=", "/=", ". and ."]))
        out["Binding_PASS_Arg_Name"].append("%s%s(%s)" % (kw("pass"), sp(), N()))
        out["Proc_Component_PASS_Arg_Name"].append("%s%s(%s)" % (kw("pass"), sp(), N()))
        out["Dummy_Arg"].append(rng.choice(["*", "a"]))
        out["Dummy_Arg_Name_List"].append(rng.choice(["a", "a, b"]))
    return out


def tokens_of(s):
    toks, cur = [], ""
    for ch in s:
        if ch.isalnum() or ch in "_.'\"":
            cur += ch
        else:
            if cur:
                toks.append(cur)
                cur = ""
            toks.append(ch)
    if cur:
        toks.append(cur)
    return toks


SPLICE = ["result(r)", "bind(c)", "::", "=>", ",", "pure", "end", "(", ")", "'", "nam", "procedure", "operator(+)",
          "pointer", "is", "default", "where", "data", "type", "x", "=", ":", "*", "module", "name='q'"]


def mutants(rng, s, k=4):
    out = []
    toks = tokens_of(s)
    for _ in range(k):
        r = rng.random()
        t = list(toks)
        if not t:
            break
        i = rng.randrange(len(t))
        if r < 0.22:
            del t[i]
        elif r < 0.36:
            t.insert(i, t[i])
        elif r < 0.5:
            t.insert(i, rng.choice(["(", ")", ")", "(", ",", "=", ":", "'", " "]))
        elif r < 0.58:
            t[i] = rng.choice(["", " ", "()", "*", "::", "=>"])
        elif r < 0.66:
            t[i] = t[i].swapcase()
        elif r < 0.74:
            t.insert(i, rng.choice([" ", "  ", "\t"]))
        elif r < 0.86:
            t.insert(i, rng.choice(SPLICE) + rng.choice(["", " "]))
        else:
            # character level: drop / double / blank one character
            u = "".join(t)
            j = rng.randrange(len(u))
            q = rng.random()
            u = u[:j] + u[j + 1:] if q < 0.4 else (u[:j] + u[j] + u[j:] if q < 0.7 else u[:j] + " " + u[j:])
            out.append(u)
            continue
        out.append("".join(t))
    return out


def set_std(std):
    """`ParserFactory().create` rewrites Base.subclasses (process-wide); go through fv.real so that its cache of
    the current standard stays right"""
    from fv import real
    real.get_parser(std, force=True)


def harvest_generated(seed, n, deadline, modelled):
    """the texts handed to modelled classes while the real parser parses generated programs"""
    from fv import gen, real
    out = collections.defaultdict(set)
    parsed = 0
    want = set(modelled)
    raw = U.Base.__dict__["__new__"]
    orig = raw.__func__ if isinstance(raw, staticmethod) else raw

    def new(cls, string, parent_cls=None, _deepcopy=False):
        if isinstance(string, str) and cls.__name__ in want:
            out[cls.__name__].add(string)
        return orig(cls, string, parent_cls, _deepcopy)

    U.Base.__new__ = new
    try:
        for i in range(n):
            if time.time() > deadline:
                break
            try:
                with time_limit(5.0):
                    p = gen.gen_program(seed * 100003 + i, std="f2008")
                    o = real.try_parse(p.text(), std="f2008")
                    real.reset_symbol_tables()
            except CaseTimeout:
                continue
            except Exception:  # noqa: BLE001
                continue
            if o.kind == "tree":
                parsed += 1
    finally:
        U.Base.__new__ = raw
    return {k: {t for t in v if admissible(t)} for k, v in out.items()}, parsed


# ------------------------------------------------------------------------------- (ii) names

# kind -> (wrap before, [opener templates ({N} = name)], body, wrap after, how named, unnamed allowed)
KINDS = {
    "mainProgram": ("", ["program {N}"], "x = 1", "", "stmt", False),
    "module": ("", ["module {N}"], "integer :: x", "", "stmt", False),
    "submodule": ("", ["submodule (anc) {N}", "submodule (anc:par) {N}"], "integer :: x", "", "stmt", False),
    "subroutine": ("", ["subroutine {N}()", "subroutine {N}", "pure subroutine {N}(a, b)", "subroutine {N}() bind(c)"],
                   "x = 1", "", "stmt", False),
    "subroutineBody": ("module mm\ninterface\n", ["subroutine {N}(a)", "subroutine {N}"], "integer :: a",
                       "\nend interface\nend module mm", "stmt", False),
    "function": ("", ["function {N}()", "integer function {N}(a) result(r)", "recursive function {N}() bind(c)"],
                 "x = 1", "", "stmt", False),
    "functionBody": ("module mm\ninterface\n", ["function {N}(a)", "real function {N}()"], "integer :: a",
                     "\nend interface\nend module mm", "stmt", False),
    "blockData": ("", ["block data {N}", "blockdata {N}"], "integer :: x", "", "stmt", True),
    "derivedType": ("module mm\n", ["type :: {N}", "type {N}", "type, abstract :: {N}"], "integer :: x",
                    "\nend module mm", "stmt", False),
    "interface": ("module mm\n", ["interface {N}"], "module procedure p", "\nend module mm", "stmt", True),
    "enumDef": ("module mm\n", ["enum, bind(c)"], "enumerator :: a", "\nend module mm", None, True),
    "ifC": ("program pp\n", ["if (a) then"], "x = 1", "\nend program pp", "cons", True),
    "caseC": ("program pp\n", ["select case (i)"], "case (1)\nx = 1", "\nend program pp", "cons", True),
    "selectType": ("subroutine pp(i)\nclass(*) :: i\n", ["select type (i)", "select type (z => i)"],
                   "type is (integer)\nx = 1", "\nend subroutine pp", "cons", True),
    "whereC": ("program pp\n", ["where (a > 0)"], "a = 1", "\nend program pp", "cons", True),
    "forallC": ("program pp\n", ["forall (i=1:2)"], "a(i) = 1", "\nend program pp", "cons", True),
    "associate": ("program pp\n", ["associate (z => a)", "associate (z => a, y => b%c)"], "x = 1", "\nend program pp",
                  "cons", True),
    "blockC": ("program pp\n", ["block"], "x = 1", "\nend program pp", "cons", True),
    "critical": ("program pp\n", ["critical"], "x = 1", "\nend program pp", "cons", True),
    "doNonlabel": ("program pp\n", ["do i = 1, 2", "do", "do while (a)"], "x = 1", "\nend program pp", "cons", True),
    "doLabel": ("program pp\n", ["do 10 i = 1, 2", "do 10"], "x = 1", "\nend program pp", "cons", True),
}
KINDS_2008 = {"submodule", "blockC", "critical"}
OTHER_KW = ["if", "do", "program", "subroutine", "block data", "block", "select", "type", "function", "module",
            "interface", "where", "associate", "enum", "forall", "critical", "submodule"]
SPELLINGS = [("nam", "oth"), ("Nam", "nAM2"), ("n_1", "n_2"), ("x", "xx"), ("BLK", "blk_"), ("end", "endd"),
             ("data", "dat"), ("do", "if")]


def kinds_of_model(mdl):
    r = mdl.ask("header.kinds")
    out = {}
    for i in range(0, len(r) - 7, 8):
        out[r[i].split(".")[-1]] = dict(block=r[i + 1], start=r[i + 2], end=r[i + 3], kw=None)
    return out


def end_variants(kw, nm, oth, okw):
    g = kw.replace(" ", "")
    v = collections.OrderedDict()
    v["bare"] = "end"
    v["kw"] = "end " + kw
    v["same"] = "end %s %s" % (kw, nm)
    v["case"] = "end %s %s" % (kw, nm.swapcase())
    v["other"] = "end %s %s" % (kw, oth)
    v["surplus"] = "end %s %s %s" % (kw, nm, nm)
    v["banana"] = "end banana"
    v["otherkw"] = "end " + okw
    v["otherkwname"] = "end %s %s" % (okw, nm)
    v["glued"] = "end" + g
    v["gluedname"] = "end%s %s" % (g, nm)
    v["kwx"] = "end %sx" % kw
    v["kwnam"] = "end %s%s" % (kw, nm)
    v["upper"] = ("end %s %s" % (kw, nm)).upper()
    v["blanks"] = "end   %s   %s" % (kw, nm)
    v["allglued"] = "end%s%s" % (g, nm)
    if " " in kw:
        a, b = kw.split(" ", 1)
        v["cmp_wide"] = "end %s  %s" % (a, b)
        v["cmp_tight"] = "end %s%s" % (a, b)
        v["cmp_tightname"] = "end %s%s %s" % (a, b, nm)
        v["cmp_endglued"] = "end%s %s" % (a, b)
        v["cmp_half"] = "end %s" % a
        v["cmp_split"] = "end %s %s %s" % (a, b[:-1], b[-1:])
    return v


VERDICT_KIND = {"accepted": "tree", "syntaxError": "syntax", "noMatch": "syntax", "goesOn": "syntax",
                "enderRejected": "syntax", "openerRejected": "syntax", "systemExit": "exit"}


# openers which the start class itself (or a `*_Name` child) rejects; rejections decided by other children
# (Prefix, Suffix, Selector ...) are outside the NAME oracle of `header.names` and are covered by part (i)
BROKEN_OPENERS = {
    "mainProgram": ["programnam", "program nam nam", "program"], "module": ["modulenam", "module nam nam"],
    "submodule": ["submodule anc nam", "submodule (anc) nam nam"],
    "subroutine": ["subroutine nam(", "subroutine 1nam()"],
    "function": ["function nam", "function nam(", "function 1nam()"],
    "blockData": ["block data nam nam", "blockdatanam"], "derivedType": ["type :: nam nam", "type, :: nam", "type nam(", "typenam"],
    "interface": ["interfacenam", "abstract interface nam"], "enumDef": ["enum", "enum, bind(d)"],
    "selectType": ["select type i", "select type"], "associate": ["associate z => a", "associate ()"],
    "blockC": ["block x"], "critical": ["critical x"],
}


def names_cases(rng, n, endkw):
    """-> list of (std, kind, src, request) ; request = the fields of `header.names`"""
    cases = []
    for kind, ops in BROKEN_OPENERS.items():
        pre, openers, body, post, by, _ = KINDS[kind]
        for op in ops:
            etext = "end %s%s" % (endkw[kind], " nam" if by == "stmt" and " nam" in op else "")
            src = pre + op + "\n" + body + "\n" + etext + post + "\n"
            for std in STDS:
                if std == "f2003" and kind in KINDS_2008:
                    continue
                cases.append((std, kind, "broken opener", src, [std, kind, op, "-", "-", None, etext, "-"]))
    for kind, (pre, openers, body, post, by, unnamed_ok) in KINDS.items():
        kw = endkw[kind]
        for named in (True, False):
            if not named and not unnamed_ok:
                continue
            if named and by is None:
                continue
            for rep in range(2 + n // 100):
                nm, oth = SPELLINGS[0] if rep == 0 else rng.choice(SPELLINGS)
                op_t = openers[0] if rep == 0 else rng.choice(openers)
                okw = rng.choice([k for k in OTHER_KW if k != kw])
                variants = list(end_variants(kw, nm, oth, okw).items())
                if kind == "doLabel":
                    ext = []
                    for name_, text in variants:
                        for lab in ("10", "20", None):
                            ext.append((name_ + ":" + str(lab), text, lab, "End_Do_Stmt"))
                    for lab in ("10", "20", None):
                        ext.append(("continue:" + str(lab), "continue", lab, "Continue_Stmt"))
                        ext.append(("CONTINUE:" + str(lab), "Continue", lab, "Continue_Stmt"))
                    if rep:
                        ext = rng.sample(ext, 12)
                else:
                    ext = []
                    for name_, text in variants:
                        lab = rng.choice([None, None, None, "77", "10"])
                        ext.append((name_, text, lab, None))
                    if rep:
                        ext = rng.sample(ext, 8)
                for vname, etext, elab, ecls in ext:
                    if by == "stmt":
                        otext = op_t.replace("{N}", nm if named else "").rstrip()
                        oname = "-"
                        oline = otext
                    elif by == "cons":
                        otext = op_t
                        oname = "+" + nm if named else "-"
                        oline = (nm + ": " if named else "") + otext
                    else:
                        otext, oname, oline = op_t, "-", op_t
                    olab = "10" if kind == "doLabel" else "-"
                    src = pre + oline + "\n" + body + "\n" + (elab + " " if elab else "") + etext + post + "\n"
                    for std in STDS:
                        if std == "f2003" and (kind in KINDS_2008 or rep):
                            continue
                        cases.append((std, kind, vname, src, [std, kind, otext, oname, olab, ecls, etext, elab or "-"]))
    return cases


MIDS = {
    "ifC": [("Else_Stmt", "else{M}")],
    "whereC": [("Elsewhere_Stmt", "elsewhere{M}"), ("Elsewhere_Stmt", "else where{M}"),
               ("Masked_Elsewhere_Stmt", "elsewhere (a > 1){M}"), ("Masked_Elsewhere_Stmt", "else where(a > 1){M}")],
    "selectType": [("Type_Guard_Stmt", "type is (real){M}"), ("Type_Guard_Stmt", "class default{M}"),
                   ("Type_Guard_Stmt", "class is (t){M}")],
}


def mid_cases(rng, n):
    cases = []
    for kind, mids in MIDS.items():
        pre, openers, body, post, by, _ = KINDS[kind]
        kw = {"ifC": "if", "whereC": "where", "selectType": "select"}[kind]
        for named in (True, False):
            for mcls, mt in mids:
                for rep in range(1 + n // 100):
                    nm, oth = SPELLINGS[0] if rep == 0 else rng.choice(SPELLINGS[:5])
                    for vname, m in (("none", ""), ("same", " " + nm), ("case", " " + nm.swapcase()), ("other", " " + oth),
                                     ("glued", nm), ("surplus", " %s %s" % (nm, nm))):
                        otext = openers[0]
                        oname = "+" + nm if named else "-"
                        mtext = mt.replace("{M}", m)
                        src = (pre + (nm + ": " if named else "") + otext + "\n" + body + "\n" + mtext + "\n" +
                               body.split("\n")[-1] + "\nend " + kw + (" " + nm if named else "") + post + "\n")
                        for std in STDS:
                            if std == "f2003" and rep:
                                continue
                            cases.append((std, kind, vname, src, [std, kind, otext, oname, mcls, mtext]))
    return cases


def real_kind(src, std):
    from fv import real
    o = real.try_parse(src, std=std)
    real.reset_symbol_tables()
    return o


def check_names(ck, case, cmd="header.names"):
    std, kind, vname, src, req = case
    ck.stats["names" if cmd == "header.names" else "mids"] += 1
    o = real_kind(src, std)
    r = ck.m.ask(cmd, *req)
    v = r[1] if len(r) > 1 and r[0] == "verdict" else "?" + " ".join(r)
    want = VERDICT_KIND.get(v)
    ck.stats["verdict_" + v] += 1
    if want != o.kind:
        ck.disagree(std, kind, src, "%s %s: model %s (%s), real %s %s" % (
            cmd, vname, v, " ".join(r[2:]), o.kind, (str(o.exc) or "").strip().split("\n")[0][:90]))
        return False
    ck.stats["names_agree_" + o.kind] += 1
    return True


# ------------------------------------------------------------------------------- (iii) printing

PRINT_LABELS = [None, None, "0", "007", "10", "12345", "99999", "1", "00", "100"]
TABS = ["", "  ", "      "]


def print_program(rng, std):
    """a main program with constructs nested to depth 2; every statement with/without label, every
    construct with/without name"""
    cnt = [0]

    def lab():
        l = rng.choice(PRINT_LABELS)
        return l + " " if l is not None else ""

    def simple():
        nm = rng.choice(["", "", "", "", "st: ", "L1:", "q : "])
        return lab() + nm + rng.choice(["continue", "x = 1", "a(i) = b + 1", "call s(a)", "print *, a(1:2)", "goto 10",
                                        "if (a) x = 2", "stop"])

    def block(depth):
        lines = []
        for _ in range(rng.randint(1, 3)):
            r = rng.random()
            if depth >= 2 or r < 0.3:
                lines.append(simple())
                continue
            cnt[0] += 1
            named = rng.random() < 0.5
            nm = rng.choice(["nam", "N%d" % cnt[0], "outer", "x_%d" % cnt[0]]) if named else None
            pfx = (nm + rng.choice([": ", ":", " : "])) if named else ""
            sfx = " " + nm if named else ""
            kinds = ["if", "do", "select", "associate", "dowhile", "where", "labeldo"] + \
                (["block", "critical"] if std == "f2008" else [])
            k = rng.choice(kinds)
            if k == "if":
                lines.append(lab() + pfx + "if (a) then")
                lines += block(depth + 1)
                if rng.random() < 0.5:
                    lines.append(lab() + "else if (b) then" + rng.choice(["", sfx]))
                    lines += block(depth + 1)
                if rng.random() < 0.5:
                    lines.append(lab() + "else" + rng.choice(["", sfx]))
                    lines += block(depth + 1)
                lines.append(lab() + rng.choice(["end if", "endif"]) + sfx)
            elif k == "do":
                lines.append(lab() + pfx + "do i = 1, n")
                lines += block(depth + 1)
                lines.append(lab() + rng.choice(["end do", "enddo"]) + sfx)
            elif k == "labeldo":
                dl = str(500 + cnt[0])
                lines.append(lab() + pfx + "do %s i = 1, n" % dl)
                lines += block(depth + 1)
                lines.append(dl + " " + (rng.choice(["end do", "enddo"]) + sfx if named or rng.random() < 0.5 else "continue"))
            elif k == "dowhile":
                lines.append(lab() + pfx + "do while (a)")
                lines += block(depth + 1)
                lines.append(lab() + "end do" + sfx)
            elif k == "select":
                lines.append(lab() + pfx + "select case (i)")
                lines.append(lab() + "case (1)" + rng.choice(["", sfx]))
                lines += block(depth + 1)
                lines.append(lab() + "case default" + rng.choice(["", sfx]))
                lines += block(depth + 1)
                lines.append(lab() + "end select" + sfx)
            elif k == "associate":
                lines.append(lab() + pfx + "associate (z => a)")
                lines += block(depth + 1)
                lines.append(lab() + "end associate" + sfx)
            elif k == "where":
                lines.append(lab() + pfx + "where (m)")
                lines.append(lab() + "q = 1")
                if rng.random() < 0.5:
                    lines.append(lab() + "elsewhere" + rng.choice(["", sfx]))
                    lines.append(lab() + "q = 2")
                lines.append(lab() + "end where" + sfx)
            elif k == "block":
                lines.append(lab() + pfx + "block")
                lines += block(depth + 1)
                lines.append(lab() + "end block" + sfx)
            else:
                lines.append(lab() + pfx + "critical")
                lines += block(depth + 1)
                lines.append(lab() + "end critical" + sfx)
        return lines

    body = block(0)
    return "\n".join([lab() + "program pp"] + body + [lab() + "end program pp"]) + "\n"


PRINT_FIXED = [
    "program p\n10 nam: if (a) then\nx=1\n20 end if nam\nend program p\n",
    "program p\n0 continue\n007 continue\n12345 continue\n99999 x = 1\nend program p\n",
    "program p\nnam: do i=1,2\n30 outer: block\n40 x = 1\n50 end block outer\nend do nam\nend program p\n",
    "program p\n1 n1 : select case (i)\n2 case (1) n1\n3 n2:associate (z => a)\n4 end associate n2\n5 end select n1\nend program p\n",
    "1 program p\n2 mm: do 10 i = 1, 2\n10 continue\n3 end program p\n",
]


PRINT_CONSTRUCTS = [("if (a) then", "end if"), ("do i = 1, n", "end do"), ("select case (i)", "end select"),
                    ("associate (z => a)", "end associate"), ("do while (a)", "enddo"), ("forall (i=1:n)", "end forall"),
                    ("block", "end block"), ("critical", "end critical")]


def print_combos():
    """every construct x label (opener, END) x construct name x nesting depth 0..2"""
    out = []
    for op, en in PRINT_CONSTRUCTS:
        for lab in (None, "0", "007", "12345"):
            for named in (False, True):
                for depth in (0, 1, 2):
                    l = lab + " " if lab else ""
                    inner = [l + ("nam: " if named else "") + op]
                    inner += ["case (1)"] if op.startswith("select") else []
                    inner += [l + ("a(i) = 1" if op.startswith("forall") else "continue")]
                    inner += [l + en + (" nam" if named else "")]
                    for d in range(depth):
                        inner = ["o%d: do j%d = 1, 2" % (d, d)] + inner + ["end do o%d" % d]
                    out.append((op, "\n".join(["program pp"] + inner + ["end program pp"]) + "\n"))
    return out


def stmt_nodes(tree):
    out = []
    for nd in U.walk(tree):
        if isinstance(nd, U.StmtBase) and getattr(nd, "item", None) is not None \
                and type(nd).tofortran is U.StmtBase.tofortran:
            out.append(nd)
    return out


def opt(x, plus=False):
    if x is None:
        return "-"
    return ("+" if plus else "") + str(x)


def check_print(ck, std, src):
    """-> False when anything about this program disagrees"""
    from fv import real
    ck.stats["print_programs"] += 1
    o = real_kind(src, std)
    if o.kind != "tree":
        ck.stats["print_unparsed"] += 1
        if ck.verbose:
            print("UNPARSED", repr(src), o.exc)
        return True
    good = True
    nodes = stmt_nodes(o.tree)
    reqs, wants, metas = [], [], []
    for nd in nodes:
        try:
            text = str(nd)
        except Exception:  # noqa: BLE001
            continue
        lab, nm = nd.item.label, nd.item.name
        if lab == 0:
            ck.stats["print_label0"] += 1
        for tab in TABS:
            for isfix in (False, True):
                try:
                    w = nd.tofortran(tab=tab, isfix=isfix)
                except Exception as e:  # noqa: BLE001
                    w = "<raises %s>" % type(e).__name__
                reqs.append(("header.tofortran", opt(lab), opt(nm, True), text, tab, "1" if isfix else "0"))
                wants.append(w)
                metas.append((type(nd).__name__, lab, nm, text, tab, isfix))
        # re-reading the free-form line
        line = nd.tofortran(tab="  ", isfix=False)
        reqs.append(("header.reread", line))
        wants.append(None)
        metas.append((type(nd).__name__, lab, nm, text, line))
    for q, w, meta, r in zip(reqs, wants, metas, ck.m.ask_many(reqs)):
        if q[0] == "header.tofortran":
            ck.stats["print_lines"] += 1
            if r != [w]:
                good = False
                ck.disagree(std, meta[0], src, "tofortran(label=%r, name=%r, %r, tab=%r, isfix=%r): model %r, real %r"
                            % (meta[1:] + (r, w)))
        else:
            ck.stats["reread_model"] += 1
            lab, nm, text = meta[1], meta[2], meta[3]
            want = [opt(lab if lab else None), opt(nm, True), text]
            if r[:2] + [r[2].lstrip()] != want:
                good = False
                ck.disagree(std, meta[0], src, "reread(%r): model %r, expected %r" % (meta[4], r, want))
    # the tabs the real printer uses at the real nesting depths: record the StmtBase.tofortran calls made while
    # the whole tree is printed (free and fixed form)
    rec = []
    orig_tf = U.StmtBase.tofortran

    def tf(self, tab="", isfix=None):
        w = orig_tf(self, tab=tab, isfix=isfix)
        if getattr(self, "item", None) is not None:
            rec.append((self, tab, bool(isfix), w))
        return w

    U.StmtBase.tofortran = tf
    try:
        printed = str(o.tree)
        try:
            o.tree.tofortran(isfix=True)
        except Exception:  # noqa: BLE001
            pass
    finally:
        U.StmtBase.tofortran = orig_tf
    reqs = [("header.tofortran", opt(nd.item.label), opt(nd.item.name, True), str(nd), tab, "1" if isfix else "0")
            for nd, tab, isfix, w in rec]
    for (nd, tab, isfix, w), r in zip(rec, ck.m.ask_many(reqs) if reqs else []):
        ck.stats["print_tree_lines"] += 1
        ck.stats["print_depth_%d" % min(len(tab) // 2, 3)] += 1
        if r != [w]:
            good = False
            ck.disagree(std, type(nd).__name__, src, "tofortran in the printed tree (label=%r, name=%r, tab=%r, isfix=%r): "
                        "model %r, real %r" % (nd.item.label, nd.item.name, tab, isfix, r, w))
    # the real reader on the printed program
    o2 = real_kind(printed + "\n", std)
    ck.stats["reread_real"] += 1
    if o2.kind != "tree":
        good = False
        ck.disagree(std, "Program", src, "printed program does not parse again: %s %r" % (o2.kind, printed))
    else:
        a = [(nd.item.label if nd.item.label else None, nd.item.name, str(nd)) for nd in nodes]
        b = [(nd.item.label if nd.item.label else None, nd.item.name, str(nd)) for nd in stmt_nodes(o2.tree)]
        if a != b:
            good = False
            d = [(x, y) for x, y in zip(a, b) if x != y][:3]
            ck.disagree(std, "Program", src, "labels/names after re-reading the printed program differ: %r (%d/%d statements)"
                        % (d, len(a), len(b)))
    return good


# ------------------------------------------------------------------------------- negative control

def patched(cls, meth, edits):
    """a copy of cls.<meth> with the (old, new) edits applied to its source; None if an `old` is absent"""
    raw = cls.__dict__[meth]
    fn = raw.__func__ if isinstance(raw, (staticmethod, classmethod)) else raw
    src = inspect.getsource(fn)
    for old, new in edits:
        if old not in src:
            return None
        src = src.replace(old, new, 1)
    lines = src.split("\n")
    while lines and lines[0].lstrip().startswith("@"):
        lines.pop(0)
    ns = {}
    exec(compile("if 1:\n" + "\n".join(lines), "<mutation>", "exec"), fn.__globals__, ns)  # noqa: S102
    f = ns[fn.__name__]
    if isinstance(raw, staticmethod):
        return staticmethod(f)
    if isinstance(raw, classmethod):
        return classmethod(f)
    return f


def _names_case(std, kind, named, etext, nm="nam", elab=None, ecls=None):
    pre, openers, body, post, by, _ = KINDS[kind]
    op_t = openers[0]
    if by == "stmt":
        otext, oname = op_t.replace("{N}", nm if named else "").rstrip(), "-"
        oline = otext
    elif by == "cons":
        otext, oname = op_t, ("+" + nm if named else "-")
        oline = (nm + ": " if named else "") + otext
    else:
        otext, oname, oline = op_t, "-", op_t
    olab = "10" if kind == "doLabel" else "-"
    src = pre + oline + "\n" + body + "\n" + (elab + " " if elab else "") + etext + post + "\n"
    return ("names", (std, kind, "control", src, [std, kind, otext, oname, olab, ecls, etext, elab or "-"]))


# title, where, class, method, edits | attribute value, cases
MUTATIONS = [
    ("Forall_Construct.match without match_names/strict_match_names", F3, "Forall_Construct", "match",
     [("            match_names=True,  # C732\n", ""), ("            strict_match_names=True,  # C732\n", "")],
     [("forallC", True, "end forall oth"), ("forallC", True, "end forall"), ("forallC", False, "end forall nam")]),
    ("StmtBase.tofortran drops the construct name of a labelled statement", U, "StmtBase", "tofortran",
     [("        if name:\n", "        if name and not label:\n")],
     [("print", "f2003", PRINT_FIXED[0])]),
    ("EndStmtBase.match ignores text glued to the keyword", U, "EndStmtBase", "match",
     [("            line = line[len(stmt_type) :].lstrip()\n",
       "            line = line[len(stmt_type) :]\n            line = line.lstrip() if line[:1].isspace() else \"\"\n")],
     [("cls", "f2003", "End_If_Stmt", "end ifx"), ("cls", "f2003", "End_If_Stmt", "END IFX")]),
    ("Prefix_Spec.keywords loses IMPURE, gains NON_RECURSIVE", F3, "Prefix_Spec", "keywords",
     ["ELEMENTAL", "MODULE", "NON_RECURSIVE", "PURE", "RECURSIVE"],
     [("cls", "f2003", "Prefix_Spec", "impure"), ("cls", "f2003", "Prefix_Spec", "non_recursive"),
      ("cls", "f2003", "Prefix", "impure elemental")]),
    ("Suffix.tostr prints BIND before RESULT", F3, "Suffix", "tostr",
     [("        return \"RESULT(%s) %s\" % self.items\n", "        return \"%s RESULT(%s)\" % (self.items[1], self.items[0])\n")],
     [("cls", "f2003", "Suffix", "result(r) bind(c)")]),
    ("BlockBase.match compares the trailing names case-sensitively", U, "BlockBase", "match",
     [("start_stmt.get_name().string.lower()", "start_stmt.get_name().string"),
      ("!= end_stmt.get_name().string.lower()", "!= end_stmt.get_name().string")],
     [("module", True, "end module NAM"), ("subroutine", True, "end subroutine Nam")]),
    ("Language_Binding_Spec.tostr prints NAME= without blanks", F3, "Language_Binding_Spec", "tostr",
     [("BIND(C, NAME = %s)", "BIND(C, NAME=%s)")],
     [("cls", "f2003", "Language_Binding_Spec", "bind(c, name='x')")]),
    ("Generic_Binding.match: the repair 98a89ee reverted (line[i + 3:] again)", F3, "Generic_Binding", "match",
     [("Binding_Name_List(line[i + 2 :].lstrip())", "Binding_Name_List(line[i + 3 :].lstrip())")],
     [("cls", "f2003", "Generic_Binding", "generic :: a =>xb"), ("cls", "f2003", "Generic_Binding", "generic :: a=>b"),
      ("cls", "f2008", "Generic_Binding", "generic::a=>b")]),
]

CONTROL_CASES = [
    ("cls", "f2003", "End_If_Stmt", "end ifx"), ("cls", "f2003", "End_If_Stmt", "END IFX"),
    ("cls", "f2003", "End_If_Stmt", "end if nam"),
    ("cls", "f2003", "Prefix_Spec", "impure"), ("cls", "f2003", "Prefix_Spec", "non_recursive"),
    ("cls", "f2003", "Prefix", "impure elemental"), ("cls", "f2003", "Suffix", "result(r) bind(c)"),
    ("cls", "f2003", "Language_Binding_Spec", "bind(c, name='x')"),
    ("cls", "f2003", "Function_Stmt", "elemental function f() bind(c)"),
    ("cls", "f2008", "Procedure_Stmt", "module procedure :: a, b"), ("cls", "f2008", "Block_Stmt", "block"),
    ("cls", "f2003", "Generic_Binding", "generic :: a =>xb"), ("cls", "f2003", "Generic_Binding", "generic :: a=>b"),
    ("cls", "f2008", "Generic_Binding", "generic::a=>b"), ("cls", "f2003", "Generic_Binding", "generic xyz :: a => b"),
    ("cls", "f2003", "Proc_Component_Def_Stmt", "procedure(f), pointer :: p => null()"),
    ("print", "f2003", PRINT_FIXED[0]), ("print", "f2008", PRINT_FIXED[2]),
]


def run_case(ck, case):
    if case[0] == "cls":
        set_std(case[1])
        ck.check(case[1], case[2], case[3])
    elif case[0] == "print":
        check_print(ck, case[1], case[2])
    elif case[0] == "names":
        check_names(ck, case[1])
    elif case[0] == "mid":
        check_names(ck, case[1], "header.mid")


def control_names_cases():
    return [_names_case("f2003", "forallC", True, "end forall oth"), _names_case("f2003", "forallC", True, "end forall"),
            _names_case("f2003", "forallC", False, "end forall nam"), _names_case("f2003", "forallC", True, "end forall NAM"),
            _names_case("f2003", "module", True, "end module NAM"), _names_case("f2003", "subroutine", True, "end subroutine Nam"),
            _names_case("f2003", "module", True, "end module oth"), _names_case("f2008", "blockC", True, "end block"),
            _names_case("f2003", "doLabel", True, "end do nam", elab="20", ecls="End_Do_Stmt"),
            _names_case("f2003", "doLabel", False, "continue", elab="10", ecls="Continue_Stmt")]


class _FlippedModel:
    """the driver with one kind of answer flipped"""

    def __init__(self, mdl):
        self.m = mdl

    def flip(self, r):
        if r and r[0] == "ok" and len(r) >= 2 and r[-2] == "str":
            return r[:-1] + [r[-1] + "!"]
        if r and r[0] == "nomatch":
            return ["raises", "IndexError"]
        if r and r[0] == "raises":
            return ["nomatch"]
        if r and r[0] == "verdict":
            return [r[0], "syntaxError" if r[1] == "accepted" else "accepted"] + r[2:]
        if r and len(r) == 1:
            return [r[0] + "!"]
        if r and len(r) == 3:
            return [r[0], r[1], r[2] + "!"]
        return r

    def ask(self, *a):
        return self.flip(self.m.ask(*a))

    def ask_many(self, reqs):
        return [self.flip(r) for r in self.m.ask_many(reqs)]


def negative_control(mdl, kinds):
    lines = []
    good = True
    fixed = list(CONTROL_CASES) + control_names_cases()
    fixed = [c for c in fixed]
    for c in fixed:
        if c[0] == "names" and c[1][4][5] is None:
            c[1][4][5] = kinds[c[1][1]]["end"]
    ck = Checker(mdl)
    for c in fixed:
        run_case(ck, c)
    lines.append("control 0 (unmodified): %d disagreements on %d cases" % (ck.stats["disagree"], len(fixed)))
    if ck.stats["disagree"]:
        good = False
        lines += ["   " + b[:300] for b in ck.bad[:5]]
    for title, where, cname, meth, edits, cases in MUTATIONS:
        cls = getattr(where, cname)
        orig = cls.__dict__[meth]
        if callable(orig) or isinstance(orig, (staticmethod, classmethod)):
            repl = patched(cls, meth, edits)
        else:
            repl = list(edits)
        if repl is None:
            lines.append("control %r: NOT APPLICABLE (the source no longer contains the line to edit)" % title)
            good = False
            continue
        full = []
        for c in cases:
            if c[0] in ("cls", "print"):
                full.append(c)
            else:
                nc = _names_case("f2003", c[0], c[1], c[2])
                nc[1][4][5] = kinds[c[0]]["end"]
                full.append(nc)
        setattr(cls, meth, repl)
        try:
            ck = Checker(mdl)
            for c in full:
                run_case(ck, c)
        finally:
            setattr(cls, meth, orig)
        rep = ck.stats["disagree"]
        lines.append("control %r: %d disagreements on %d cases" % (title, rep, len(full)))
        if rep == 0:
            good = False
    ck = Checker(_FlippedModel(mdl))
    n_rep = 0
    for c in fixed:
        before = ck.stats["disagree"]
        run_case(ck, c)
        if ck.stats["disagree"] > before:
            n_rep += 1
    lines.append("control flipped driver: %d/%d cases reported" % (n_rep, len(fixed)))
    if n_rep != len(fixed):
        good = False
    return good, lines


# ------------------------------------------------------------------------------- main

def run(seed, n, exe=None, verbose=False, max_seconds=None):
    t0 = time.time()
    budget = max_seconds if max_seconds is not None else 14 + 0.2 * n
    deadline = t0 + budget
    mdl = fvmodel.Model(exe) if exe else fvmodel.get_model()
    r = mdl.ask("header.classes")
    first = int(r[0])
    modelled = r[1 + first:]
    kinds = kinds_of_model(mdl)
    missing = [k for k in KINDS if k not in kinds] + [k for k in kinds if k not in KINDS]
    good, lines = negative_control(mdl, kinds)
    for l in lines:
        print(l)
    if missing:
        print("block kinds of the model and of this harness differ: %r" % missing)
        good = False
    rng = random.Random(seed)
    # ---------------------------------------------------------------- (i) class level
    t_i = t0 + 0.62 * budget
    harvested, parsed = harvest_generated(seed, max(1, n // 10), t0 + 0.2 * budget, modelled)
    sh = shapes(rng, max(4, n // 4))
    samples = {std: collections.defaultdict(list) for std in STDS}
    for std in STDS:
        for name in modelled:
            base = []
            base += PROBES.get(name, [])
            base += sorted(harvested.get(name, ()))[: 10 + n // 4]
            base += sh.get(name, [])
            seen = set()
            lst = []
            r2 = random.Random("%s|%s|%s" % (seed, std, name))
            for b in base:
                for t in [b] + mutants(r2, b, 3) + [b.upper(), " " + b + " ", b.replace(" ", "  "), b.replace(" ", "\t")]:
                    if t not in seen and admissible(t):
                        seen.add(t)
                        lst.append(t)
            probes = []
            for b in PROBES.get(name, []):
                if admissible(b) and b not in probes:
                    probes.append(b)
            rest = [t for t in lst if t not in set(probes)]
            r2.shuffle(rest)
            samples[std][name] = (probes + rest)[: 40 + n]
        # cross feeding: every sample also goes to ~6 other modelled classes
        r3 = random.Random("%s|%s|cross" % (seed, std))
        cross = collections.defaultdict(list)
        for name in modelled:
            for t in samples[std][name][: 6 + n // 8]:
                for other in r3.sample(modelled, 6):
                    if other != name:
                        cross[other].append(t)
        for name in modelled:
            seen = set(samples[std][name])
            for t in cross[name]:
                if t not in seen:
                    seen.add(t)
                    samples[std][name].append(t)
    total = sum(len(v) for std in STDS for v in samples[std].values())
    print("(i) programs parsed for harvesting: %d (%d statement texts); samples: %d (classes %d x 2 standards)"
          % (parsed, sum(len(v) for v in harvested.values()), total, len(modelled)))
    ck = Checker(mdl, verbose)
    ck.str_quota = 3 + n // 40
    timeouts = 0
    skipped = 0
    for si, std in enumerate(STDS):
        set_std(std)
        stop_at = t0 + (0.41 if si == 0 else 0.62) * budget
        idx = 0
        stopped = False
        while True:
            any_left = False
            for name in modelled:
                lst = samples[std][name]
                if idx < len(lst):
                    any_left = True
                    if time.time() > stop_at:
                        stopped = True
                        break
                    try:
                        with time_limit(2.0):
                            ck.check(std, name, lst[idx])
                    except CaseTimeout:
                        timeouts += 1
            if stopped or not any_left:
                if stopped:
                    skipped += sum(max(0, len(samples[std][nm]) - idx) for nm in modelled)
                break
            idx += 1
    st = ck.stats
    print("(i) checked: %d samples; agree: ok %d (printed text %d), no match %d, raises %d; timeouts %d; unmodelled %d; "
          "not reached within the time budget: %d"
          % (st["samples"], st["agree_ok"], st["agree_str"], st["agree_nomatch"], st["agree_raises"], timeouts,
             st["unmodelled"], skipped))
    print("(i) per class (samples/accepted): " + ", ".join(
        "%s %d/%d" % (k, ck.per_cls[k], ck.per_cls_ok[k]) for k in modelled))
    if ck.exc:
        print("(i) exceptions escaping from the real match (agreed with the model unless listed below):")
        for (name, out), (std, text) in sorted(ck.exc.items()):
            print("   %s %s(%r) -> %s" % (std, name, text, out))
    print("(i) tostr over printed children (`header.str`) on matched tuples and on tuples with one item "
          "replaced by None: %d probes, %d disagreements" % (st["str_probes"], st["str_disagree"]))
    for b in ck.str_bad:
        print("   " + b)
    # ---------------------------------------------------------------- (ii) names
    endkw = {k: END_KW.get(v["end"], "do") for k, v in kinds.items()}
    ncases = names_cases(random.Random(seed * 31 + 1), n, endkw)
    for c in ncases:
        if c[4][5] is None:
            c[4][5] = kinds[c[1]]["end"]
    mcases = mid_cases(random.Random(seed * 31 + 2), n)
    r4 = random.Random(seed * 31 + 3)
    stop_ii = t0 + 0.86 * budget
    done_n = done_m = 0
    # interleave so that a budget stop leaves a uniform subset: the base matrix first (as generated),
    # but the mids are short, do them first
    for c in mcases:
        if time.time() > stop_ii and done_m >= 12:
            break
        try:
            with time_limit(5.0):
                check_names(ck, c, "header.mid")
            done_m += 1
        except CaseTimeout:
            timeouts += 1
    order = list(range(len(ncases)))
    r4.shuffle(order)
    for k in order:
        if time.time() > stop_ii and done_n >= 60:
            break
        try:
            with time_limit(5.0):
                check_names(ck, ncases[k])
            done_n += 1
        except CaseTimeout:
            timeouts += 1
    print("(ii) name discipline: %d/%d opener x END programs, %d/%d intermediate-statement programs; agreed real outcomes: "
          "tree %d, syntax error %d, SystemExit %d; model verdicts: %s"
          % (done_n, len(ncases), done_m, len(mcases), st["names_agree_tree"], st["names_agree_syntax"],
             st["names_agree_exit"], ", ".join("%s %d" % (k[8:], v) for k, v in sorted(st.items()) if k.startswith("verdict_"))))
    # ---------------------------------------------------------------- (iii) printing
    r5 = random.Random(seed * 31 + 4)
    for std in STDS:
        for src in PRINT_FIXED:
            if std == "f2003" and "block" in src:
                continue
            check_print(ck, std, src)
    combos = print_combos()
    for op, src in r5.sample(combos, min(len(combos), 12 + n // 4)):
        if time.time() > deadline:
            break
        for std in STDS:
            if std == "f2003" and op in ("block", "critical"):
                continue
            check_print(ck, std, src)
    k = 0
    while k < 6 + n // 4 and time.time() < deadline:
        std = STDS[k % 2]
        try:
            with time_limit(5.0):
                check_print(ck, std, print_program(r5, std))
        except CaseTimeout:
            timeouts += 1
        k += 1
    print("(iii) label x name printing: %d programs (%d not parsed), %d tofortran lines compared, %d lines re-read by the "
          "model, %d printed programs re-read by the real reader; %d lines of whole printed trees at the real tabs (depth 0: %d, "
          "1: %d, 2: %d, deeper: %d); statements with label 0 (dropped on printing): %d"
          % (st["print_programs"], st["print_unparsed"], st["print_lines"], st["reread_model"], st["reread_real"],
             st["print_tree_lines"], st["print_depth_0"], st["print_depth_1"], st["print_depth_2"], st["print_depth_3"],
             st["print_label0"]))
    print("disagreements: %d" % st["disagree"])
    for b in ck.bad:
        print("   " + b)
    print("elapsed %.1f s" % (time.time() - t0))
    ok = good and st["disagree"] == 0 and st["samples"] > 0 and done_n > 0 and done_m > 0 and st["print_lines"] > 0
    print("RESULT: %s" % ("PASS" if ok else "FAIL"))
    return 0 if ok else 1


def main(argv=None):
    ap = argparse.ArgumentParser()
    ap.add_argument("--seed", type=int, default=0)
    ap.add_argument("--n", type=int, default=40)
    ap.add_argument("--exe", default=os.environ.get("FV_MODEL_EXE"))
    ap.add_argument("--max-seconds", type=float, default=None)
    ap.add_argument("-v", "--verbose", action="store_true")
    a = ap.parse_args(argv)
    return run(a.seed, a.n, a.exe, a.verbose, a.max_seconds)


if __name__ == "__main__":
    sys.exit(main())
