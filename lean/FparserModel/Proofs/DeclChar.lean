import FparserModel.Proofs.DeclData2
/-!
# Decl — `Char_Selector` (as repaired in /repo 68391df: every branch maps its pieces back)
-/
namespace Fp.Decl
open Fp Fp.Splitline Fp.Combi

variable {A : Type}

/-- a text without `F` and `_` contains no placeholder -/
theorem keyFindAllAux_plain : ∀ (fuel : Nat) (x : Str), (∀ c ∈ x, c ≠ 'F' ∧ c ≠ '_') →
    keyFindAllAux fuel x = []
  | 0, _, _ => rfl
  | _ + 1, [], _ => rfl
  | fuel + 1, c :: cs, h => by
    have hc := h c (by simp)
    simp only [keyFindAllAux, matchKey_other c cs hc.1 hc.2]
    exact keyFindAllAux_plain fuel cs (fun d hd => h d (by simp [hd]))

theorem applyMap_plainChars (m : Map) (x : Str) (h : ∀ c ∈ x, c ≠ 'F' ∧ c ≠ '_') :
    applyMap m x = x := by
  have : keyFindAll x = [] := keyFindAllAux_plain _ x h
  simp [applyMap, this]

theorem upperC_F {x : Char} (h : x = 'F') : upperC x = 'F' := by subst h; decide
theorem upperC_us {x : Char} (h : x = '_') : upperC x = '_' := by subst h; decide

/-- `KW =` at the head of a tokenised piece: the keyword, the `=`, and the rest as a piece -/
theorem kwEq_piece {m : Map} (kw : String) (n : Nat) (hn : kw.length = n)
    (hF : 'F' ∉ kw.toList) (hU : '_' ∉ kw.toList) (hS : ∀ c ∈ kw.toList, isSpace c = false)
    {line : Str} (hp : Piece m line) (hk : kwAt kw line = true)
    (he : sw (lstrip (line.drop n)) "=" = true) :
    ∃ k, upper k = kw.toList ++ ['='] ∧
      Piece m (lstrip ((lstrip (line.drop n)).drop 1)) ∧
      nb m line = k ++ nb m (lstrip ((lstrip (line.drop n)).drop 1)) := by
  obtain ⟨e0, u0⟩ := kwAt_spec hk n hn
  have t0 := kwAt_toks hk n hn hS
  obtain ⟨w, hw, hb⟩ := lstrip_decomp (line.drop n)
  have e1 : lstrip (line.drop n) = '=' :: (lstrip (line.drop n)).drop 1 := by
    have := sw_spec he
    simpa using this
  have eline : line = (line.take n ++ w) ++ '=' :: (lstrip (line.drop n)).drop 1 := by
    conv => lhs; rw [e0, hw, e1]
    simp
  have hp' : Piece m ((line.take n ++ w) ++ '=' :: (lstrip (line.drop n)).drop 1) := by
    rw [← eline]; exact hp
  obtain ⟨pk, pr, e2⟩ := nb_sep hp' (by decide) (by decide)
  obtain ⟨pl, el⟩ := nb_lstrip pr
  have hplain : ∀ c ∈ line.take n ++ w, c ≠ 'F' ∧ c ≠ '_' := by
    intro c hc
    rcases List.mem_append.mp hc with hc | hc
    · have hu : upperC c ∈ kw.toList := by
        rw [← u0]; exact List.mem_map.mpr ⟨c, hc, rfl⟩
      constructor
      · intro h; rw [upperC_F h] at hu; exact hF hu
      · intro h; rw [upperC_us h] at hu; exact hU hu
    · have := hb c hc
      constructor <;> intro h <;> subst h <;> exact absurd this (by decide)
  have ek : nb m (line.take n ++ w) = line.take n := by
    unfold nb
    rw [applyMap_plainChars m _ hplain, toks_append, t0]
    have : toks w = [] := noBlank_blanks hb
    rw [this]; simp
  refine ⟨line.take n ++ ['='], by unfold upper at u0 ⊢; rw [List.map_append, u0]; rfl, pl, ?_⟩
  conv => lhs; rw [eline]
  rw [e2, ek, el]
  simp

theorem kwEq_split {kw : String} {line : Str} (h : kwEq kw line = true) :
    kwAt kw line = true ∧ sw (lstrip (line.drop kw.length)) "=" = true := by
  simpa [kwEq] using h

theorem toks_k1 : toks "(KIND = ".toList = "(KIND=".toList := by decide
theorem toks_k2 : toks "(LEN = ".toList = "(LEN=".toList := by decide
theorem toks_k3 : toks ", KIND = ".toList = ",KIND=".toList := by decide

theorem tostrCharSelector_none (o : Leaves A) (k : A) :
    tostrCharSelector o ⟨none, k⟩ = "(KIND = ".toList ++ o.render k ++ [')'] := rfl
theorem tostrCharSelector_some (o : Leaves A) (l k : A) :
    tostrCharSelector o ⟨some l, k⟩
      = "(LEN = ".toList ++ o.render l ++ ", KIND = ".toList ++ o.render k ++ [')'] := rfl

theorem toks_printed_kind (o : Leaves A) (k : A) (x : Str) (h : toks (o.render k) = x) :
    toks (tostrCharSelector o ⟨none, k⟩) = "(KIND=".toList ++ x ++ [')'] := by
  rw [tostrCharSelector_none, toks_append, toks_append, toks_k1, h]; rfl

theorem toks_printed_len_kind (o : Leaves A) (l k : A) (v x : Str) (hl : toks (o.render l) = v)
    (hk : toks (o.render k) = x) :
    toks (tostrCharSelector o ⟨some l, k⟩) = "(LEN=".toList ++ v ++ ",KIND=".toList ++ x ++ [')'] := by
  rw [tostrCharSelector_some]
  simp only [toks_append, toks_k2, toks_k3, hl, hk]
  rfl

/-- the canonical form of a char-selector: what is printed for what was written -/
inductive CharSelCanon : Str → Str → Prop
  /-- `( KIND = k )` -/
  | kind (K k : Str) : upper K = "KIND=".toList →
      CharSelCanon ('(' :: (K ++ k ++ [')'])) ("(KIND=".toList ++ k ++ [')'])
  /-- `( LEN = v , KIND = k )` -/
  | lenKind (L K v k : Str) : upper L = "LEN=".toList → upper K = "KIND=".toList →
      CharSelCanon ('(' :: (L ++ v ++ ',' :: K ++ k ++ [')']))
        ("(LEN=".toList ++ v ++ ",KIND=".toList ++ k ++ [')'])
  /-- `( KIND = k , LEN = v )`: printed in the other order -/
  | kindLen (L K v k : Str) : upper L = "LEN=".toList → upper K = "KIND=".toList →
      CharSelCanon ('(' :: (K ++ k ++ ',' :: L ++ v ++ [')']))
        ("(LEN=".toList ++ v ++ ",KIND=".toList ++ k ++ [')'])
  /-- `( v , [KIND =] k )` -/
  | positional (K v k : Str) : (K = [] ∨ upper K = "KIND=".toList) →
      CharSelCanon ('(' :: (v ++ ',' :: K ++ k ++ [')']))
        ("(LEN=".toList ++ v ++ ",KIND=".toList ++ k ++ [')'])

theorem toks_wrapped' {s : Str} (h : wrapped s = true) :
    toks s = '(' :: (toks (strip (interior s)) ++ [')']) := by
  conv => lhs; rw [wrapped_spec h]
  rw [toks_cons_nonspace _ (by decide), toks_append, toks_strip]
  rfl

/-- **Char_Selector, tokens** (view of the tokeniser explicit) -/
theorem charSelector_tokens_view (o : Leaves A) (hf : Faithful o) (s : Str) (n : CharSel A)
    (h : matchCharSelector o s = some n)
    (hv : ∀ r, tokenise (strip (interior s)) = some r → View (strip (interior s)) r) :
    CharSelCanon (toks s) (toks (tostrCharSelector o n)) := by
  unfold matchCharSelector at h
  split at h
  · exact absurd h (by simp)
  rename_i hw
  have hw' : wrapped s = true := by
    cases h1 : wrapped s <;> simp [h1] at hw ⊢
  cases ht : tokenise (strip (interior s)) with
  | none => rw [ht] at h; exact absurd h (by simp)
  | some r =>
    have v := hv r ht
    simp only [ht] at h
    have hwhole : toks s = '(' :: (nb r.map r.text ++ [')']) := by
      rw [toks_wrapped' hw']
      have : nb r.map r.text = toks (strip (interior s)) := v.whole
      rw [this]
    rw [hwhole]
    by_cases hlen : kwEq "LEN" r.text = true
    · -- LEN = v , KIND = k
      simp only [hlen, if_true] at h
      obtain ⟨hk1, he1⟩ := kwEq_split hlen
      obtain ⟨L, uL, p1, e1⟩ := kwEq_piece "LEN" 3 rfl (by decide) (by decide) (by decide) v.piece hk1 he1
      have ea : afterKwEq "LEN" r.text = lstrip ((lstrip (r.text.drop 3)).drop 1) := rfl
      rw [ea] at h
      cases hc : cutFirst ',' (lstrip ((lstrip (r.text.drop 3)).drop 1)) with
      | none => rw [hc] at h; exact absurd h (by simp)
      | some ab =>
        obtain ⟨a, b⟩ := ab
        simp only [hc] at h
        obtain ⟨e2, _⟩ := cutFirst_spec _ _ _ hc
        rw [e2] at p1 e1
        obtain ⟨pa, pb, e3⟩ := nb_sep p1 (by decide) (by decide)
        obtain ⟨plb, elb⟩ := nb_lstrip pb
        split at h
        · exact absurd h (by simp)
        rename_i hkk
        have hkk' : kwAt "KIND" (lstrip b) = true := by simpa using hkk
        split at h
        · exact absurd h (by simp)
        rename_i hee
        have hee' : sw (lstrip ((lstrip b).drop 4)) "=" = true := by simpa using hee
        obtain ⟨K, uK, p2, e4⟩ := kwEq_piece "KIND" 4 rfl (by decide) (by decide) (by decide) plb hkk' hee'
        cases hl : o.leaf .typeParamValue (applyMap r.map (rstrip a)) with
        | none => rw [hl] at h; exact absurd h (by simp)
        | some tv =>
          rw [hl] at h
          cases hkd : o.leaf .scalarIntInitializationExpr
              (applyMap r.map (lstrip ((lstrip ((lstrip b).drop 4)).drop 1))) with
          | none => rw [hkd] at h; exact absurd h (by simp)
          | some kk =>
            rw [hkd] at h
            simp only [Option.map_some, Option.some.injEq] at h
            subst h
            have f1 : toks (o.render tv) = nb r.map a := by
              rw [hf _ _ _ hl]; exact (nb_rstrip pa).2
            have f2 : toks (o.render kk) = nb r.map (lstrip ((lstrip ((lstrip b).drop 4)).drop 1)) :=
              hf _ _ _ hkd
            rw [toks_printed_len_kind o tv kk _ _ f1 f2, e1, e3, ← elb, e4]
            have := CharSelCanon.lenKind L K (nb r.map a)
              (nb r.map (lstrip ((lstrip ((lstrip b).drop 4)).drop 1))) uL uK
            simpa [List.append_assoc] using this
    · simp only [hlen, Bool.false_eq_true, if_false] at h
      by_cases hkind : kwEq "KIND" r.text = true
      · -- KIND = k [, LEN = v]
        simp only [hkind, if_true] at h
        obtain ⟨hk1, he1⟩ := kwEq_split hkind
        obtain ⟨K, uK, p1, e1⟩ := kwEq_piece "KIND" 4 rfl (by decide) (by decide) (by decide) v.piece hk1 he1
        have ea : afterKwEq "KIND" r.text = lstrip ((lstrip (r.text.drop 4)).drop 1) := rfl
        rw [ea] at h
        cases hc : cutFirst ',' (lstrip ((lstrip (r.text.drop 4)).drop 1)) with
        | none =>
          rw [hc] at h
          simp only at h
          cases hkd : o.leaf .scalarIntInitializationExpr
              (applyMap r.map (lstrip ((lstrip (r.text.drop 4)).drop 1))) with
          | none => rw [hkd] at h; exact absurd h (by simp)
          | some kk =>
            rw [hkd] at h
            simp only [Option.map_some, Option.some.injEq] at h
            subst h
            have f2 := hf _ _ _ hkd
            rw [toks_printed_kind o kk _ f2, e1]
            have := CharSelCanon.kind K (nb r.map (lstrip ((lstrip (r.text.drop 4)).drop 1))) uK
            simpa [nb, List.append_assoc] using this
        | some ab =>
          obtain ⟨a, b⟩ := ab
          simp only [hc] at h
          obtain ⟨e2, _⟩ := cutFirst_spec _ _ _ hc
          rw [e2] at p1 e1
          obtain ⟨pa, pb, e3⟩ := nb_sep p1 (by decide) (by decide)
          obtain ⟨plb, elb⟩ := nb_lstrip pb
          split at h
          · exact absurd h (by simp)
          rename_i hkk
          have hkk' : kwAt "LEN" (lstrip b) = true := by simpa using hkk
          split at h
          · exact absurd h (by simp)
          rename_i hee
          have hee' : sw (lstrip ((lstrip b).drop 3)) "=" = true := by simpa using hee
          obtain ⟨L, uL, p2, e4⟩ := kwEq_piece "LEN" 3 rfl (by decide) (by decide) (by decide) plb hkk' hee'
          cases hl : o.leaf .typeParamValue
              (applyMap r.map (lstrip ((lstrip ((lstrip b).drop 3)).drop 1))) with
          | none => rw [hl] at h; exact absurd h (by simp)
          | some tv =>
            rw [hl] at h
            cases hkd : o.leaf .scalarIntInitializationExpr (applyMap r.map (rstrip a)) with
            | none => rw [hkd] at h; exact absurd h (by simp)
            | some kk =>
              rw [hkd] at h
              simp only [Option.map_some, Option.some.injEq] at h
              subst h
              have f1 : toks (o.render tv) = nb r.map (lstrip ((lstrip ((lstrip b).drop 3)).drop 1)) :=
                hf _ _ _ hl
              have f2 : toks (o.render kk) = nb r.map a := by
                rw [hf _ _ _ hkd]; exact (nb_rstrip pa).2
              rw [toks_printed_len_kind o tv kk _ _ f1 f2, e1, e3, ← elb, e4]
              have := CharSelCanon.kindLen L K
                (nb r.map (lstrip ((lstrip ((lstrip b).drop 3)).drop 1))) (nb r.map a) uL uK
              simpa [List.append_assoc] using this
      · -- v , [KIND =] k
        simp only [hkind, Bool.false_eq_true, if_false] at h
        cases hc : cutFirst ',' r.text with
        | none => rw [hc] at h; exact absurd h (by simp)
        | some ab =>
          obtain ⟨a, b⟩ := ab
          simp only [hc] at h
          obtain ⟨e2, _⟩ := cutFirst_spec _ _ _ hc
          have p0 : Piece r.map (a ++ ',' :: b) := by rw [← e2]; exact v.piece
          obtain ⟨pa, pb, e3⟩ := nb_sep p0 (by decide) (by decide)
          obtain ⟨plb, elb⟩ := nb_lstrip pb
          by_cases hk2 : kwEq "KIND" (lstrip b) = true
          · simp only [hk2, if_true] at h
            obtain ⟨hkk', hee'⟩ := kwEq_split hk2
            obtain ⟨K, uK, p2, e4⟩ := kwEq_piece "KIND" 4 rfl (by decide) (by decide) (by decide) plb hkk' hee'
            have ea : afterKwEq "KIND" (lstrip b) = lstrip ((lstrip ((lstrip b).drop 4)).drop 1) := rfl
            rw [ea] at h
            cases hl : o.leaf .typeParamValue (applyMap r.map (rstrip a)) with
            | none => rw [hl] at h; exact absurd h (by simp)
            | some tv =>
              rw [hl] at h
              cases hkd : o.leaf .scalarIntInitializationExpr
                  (applyMap r.map (lstrip ((lstrip ((lstrip b).drop 4)).drop 1))) with
              | none => rw [hkd] at h; exact absurd h (by simp)
              | some kk =>
                rw [hkd] at h
                simp only [Option.map_some, Option.some.injEq] at h
                subst h
                have f1 : toks (o.render tv) = nb r.map a := by
                  rw [hf _ _ _ hl]; exact (nb_rstrip pa).2
                have f2 := hf _ _ _ hkd
                rw [toks_printed_len_kind o tv kk _ _ f1 f2, e2, e3, ← elb, e4]
                have := CharSelCanon.positional K (nb r.map a)
                  (nb r.map (lstrip ((lstrip ((lstrip b).drop 4)).drop 1))) (.inr uK)
                simpa [nb, List.append_assoc] using this
          · simp only [hk2, Bool.false_eq_true, if_false] at h
            cases hl : o.leaf .typeParamValue (applyMap r.map (rstrip a)) with
            | none => rw [hl] at h; exact absurd h (by simp)
            | some tv =>
              rw [hl] at h
              cases hkd : o.leaf .scalarIntInitializationExpr (applyMap r.map (lstrip b)) with
              | none => rw [hkd] at h; exact absurd h (by simp)
              | some kk =>
                rw [hkd] at h
                simp only [Option.map_some, Option.some.injEq] at h
                subst h
                have f1 : toks (o.render tv) = nb r.map a := by
                  rw [hf _ _ _ hl]; exact (nb_rstrip pa).2
                have f2 := hf _ _ _ hkd
                rw [toks_printed_len_kind o tv kk _ _ f1 f2, e2, e3, ← elb]
                have := CharSelCanon.positional [] (nb r.map a) (nb r.map (lstrip b)) (.inl rfl)
                simpa [nb, List.append_assoc] using this

end Fp.Decl
