import FparserModel.Proofs.ExprComplete

/-! the main induction: every derivation of the standard grammar inside the boundary is
parsed to exactly its own tree -/
namespace Fp.Expr

theorem fall_l1 {e : Ex} (h : Derives .prim e) : parse .l1 (render e) = parse .prim (render e) := by
  rw [parse_eq .l1]
  have : matchStep parse (rowOf .l1) (render e) = none := by
    cases h with
    | operand i d g =>
      simp only [render]
      exact matchStep_unary_none (b := .prim) rfl rfl (Or.inr rfl)
    | parens _ =>
      simp only [render]
      exact matchStep_unary_none (b := .prim) rfl rfl (Or.inl rfl)
  rw [this]
  simp [rowOf_l1]

theorem test_defined_dot (n : Nat) (g : Bool) : OpCls.test .defined (.op (.dot n) g) = true := rfl

theorem test_of_multOp {o : Op} (g : Bool) (h : o.isMultOp = true) : OpCls.test .mult (.op o g) = true := by
  cases o <;> simp [Op.isMultOp] at h <;> rfl
theorem test_of_addOp {o : Op} (g : Bool) (h : o.isAddOp = true) : OpCls.test .add (.op o g) = true := by
  cases o <;> simp [Op.isAddOp] at h <;> rfl
theorem test_of_relOp {o : Op} (g : Bool) (h : o.isRelOp = true) : OpCls.test .rel (.op o g) = true := by
  cases o <;> simp [Op.isRelOp] at h <;> rfl
theorem test_of_equivOp {o : Op} (g : Bool) (h : o.isEquivOp = true) : OpCls.test .equiv (.op o g) = true := by
  cases o <;> simp [Op.isEquivOp] at h <;> rfl

theorem ndr_top {n : Nat} {g : Bool} {l r : Ex}
    (h : noDottedRightOfDefinedBinary (.bin (.op (.dot n) g) l r) = true) :
    ∀ t ∈ topToks r, OpCls.test .defined t = false := by
  simp only [noDottedRightOfDefinedBinary, Bool.and_eq_true, List.all_eq_true] at h
  intro t ht
  have := h.1.1 t ht
  simpa [OpCls.test] using this

/-- C03 inside the boundary, for every nonterminal of the standard grammar -/
theorem complete {s : SLv} {e : Ex} (h : Derives s e) :
    noDottedRightOfDefinedBinary e = true → glueFree (render e) = true →
    parse s.toLv (render e) = some e := by
  induction h with
  | operand i d g =>
    intro _ _
    rw [parse_eq]
    simp [SLv.toLv, rowOf_prim, matchStep, render]
  | @parens e _ ih =>
    intro hn hg
    have hp := ih hn (glue_paren hg)
    rw [parse_eq]
    simp only [SLv.toLv, rowOf_prim, matchStep, render]
    have h1 : (render e ++ [T.rp]).getLast? = some T.rp := by simp
    have h2 : (render e ++ [T.rp]).dropLast = render e := by simp
    simp only [h1, h2, render_ne_nil e, ↓reduceIte]
    simp only [SLv.toLv] at hp
    rw [hp]
  | l1_prim hd ih =>
    intro hn hg
    show parse .l1 _ = _
    rw [fall_l1 hd]; exact ih hn hg
  | l1_defun n g _ ih =>
    intro hn hg
    exact prod_unary rowOf_l1 _ _ (test_defined_dot n g) (ih hn (glue_un hg))
  | mult_l1 hd ih =>
    intro hn hg
    show parse .multOp _ = _
    rw [parse_eq .multOp]
    have : matchStep parse (rowOf .multOp) (render _) = none :=
      matchStep_binR_none (a := .l1) (b := .multOp) rfl rfl rfl
        (splitFirst_none_of_top _ _ (derives_opsOK hd)
          (no_test_of_rank (c := .power) hd (by simp) (by simp [SLv.rank, OpCls.rank])))
    rw [this]
    simp only [rowOf_multOp]
    exact ih hn hg
  | @mult_pow g a b ha hb iha ihb =>
    intro hn hg
    show parse .multOp _ = _
    rw [parse_eq .multOp]
    have : matchStep parse (rowOf .multOp) (render (.bin (.op .pow g) a b))
        = some (.bin (.op .pow g) a b) := by
      apply matchStep_binR_some (a := .l1) (b := .multOp) (l := render a) (r := render b) rfl rfl rfl
      · exact splitFirst_root _ _ a b (derives_opsOK ha) rfl rfl
          (no_test_of_rank (c := .power) ha (by simp) (by simp [SLv.rank, OpCls.rank]))
      · exact render_ne_nil a
      · exact render_ne_nil b
      · exact Or.inl rfl
      · exact iha (ndr_bin hn).1 (glue_bin hg).1
      · exact ihb (ndr_bin hn).2 (glue_bin hg).2
    rw [this]
  | add_mult hd ih =>
    intro hn hg
    show parse .addOp _ = _
    rw [fall_binL rowOf_addOp _ (derives_opsOK hd)
      (no_test_of_rank hd (by simp) (by simp [SLv.rank, OpCls.rank]))]
    exact ih hn hg
  | add_bin o g ho ha hb iha ihb =>
    intro hn hg
    exact prod_binL rowOf_addOp o g _ _ (derives_opsOK ha) (derives_opsOK hb) (test_of_multOp g ho)
      (no_test_of_rank hb (by simp) (by simp [SLv.rank, OpCls.rank])) (Or.inl rfl) hg
      (iha (ndr_bin hn).1 (glue_bin hg).1) (ihb (ndr_bin hn).2 (glue_bin hg).2)
  | l2_add hd ih =>
    intro hn hg
    show parse .l2 _ = _
    rw [fall_binL rowOf_l2 _ (derives_opsOK hd)
      (no_test_of_rank hd (by simp) (by simp [SLv.rank, OpCls.rank])),
      fall_unary rowOf_l2u _ (no_test_of_rank hd (by simp) (by simp [SLv.rank, OpCls.rank]))]
    exact ih hn hg
  | @l2_sign o g e ho hd ih =>
    intro hn hg
    show parse .l2 (render (.un (.op o g) e)) = _
    rw [parse_eq .l2]
    have : matchStep parse (rowOf .l2) (render (.un (.op o g) e)) = none := by
      apply matchStep_binL_none (a := .l2) (b := .addOp) rfl rfl rfl
      intro l o' r hs
      left
      simp only [render, rowOf_l2] at hs
      rw [splitLast, step_of_not_paren rfl, splitLast_none_of_top _ e (derives_opsOK hd)
        (no_test_of_rank hd (by simp) (by simp [SLv.rank, OpCls.rank]))] at hs
      simp only at hs
      split at hs
      · simp only [Option.some.injEq, Prod.mk.injEq] at hs
        exact hs.1.symm
      · simp at hs
    rw [this]
    simp only [rowOf_l2]
    exact prod_unary rowOf_l2u _ _ (test_of_addOp g ho) (ih hn (glue_un hg))
  | l2_bin o g ho ha hb iha ihb =>
    intro hn hg
    exact prod_binL rowOf_l2 o g _ _ (derives_opsOK ha) (derives_opsOK hb) (test_of_addOp g ho)
      (no_test_of_rank hb (by simp) (by simp [SLv.rank, OpCls.rank])) (Or.inl rfl) hg
      (iha (ndr_bin hn).1 (glue_bin hg).1) (ihb (ndr_bin hn).2 (glue_bin hg).2)
  | l3_l2 hd ih =>
    intro hn hg
    show parse .l3 _ = _
    rw [fall_binL rowOf_l3 _ (derives_opsOK hd)
      (no_test_of_rank hd (by simp) (by simp [SLv.rank, OpCls.rank]))]
    exact ih hn hg
  | l3_bin g ha hb iha ihb =>
    intro hn hg
    exact prod_binL rowOf_l3 .concat g _ _ (derives_opsOK ha) (derives_opsOK hb) rfl
      (no_test_of_rank hb (by simp) (by simp [SLv.rank, OpCls.rank])) (Or.inl rfl) hg
      (iha (ndr_bin hn).1 (glue_bin hg).1) (ihb (ndr_bin hn).2 (glue_bin hg).2)
  | l4_l3 hd ih =>
    intro hn hg
    show parse .l4 _ = _
    rw [fall_binL rowOf_l4 _ (derives_opsOK hd)
      (no_test_of_rank hd (by simp) (by simp [SLv.rank, OpCls.rank]))]
    exact ih hn hg
  | l4_bin o g ho ha hb iha ihb =>
    intro hn hg
    exact prod_binL rowOf_l4 o g _ _ (derives_opsOK ha) (derives_opsOK hb) (test_of_relOp g ho)
      (no_test_of_rank hb (by simp) (by simp [SLv.rank, OpCls.rank])) (Or.inl rfl) hg
      (iha (ndr_bin hn).1 (glue_bin hg).1) (ihb (ndr_bin hn).2 (glue_bin hg).2)
  | and_l4 hd ih =>
    intro hn hg
    show parse .andOp _ = _
    rw [fall_unary rowOf_andOp _ (no_test_of_rank hd (by simp) (by simp [SLv.rank, OpCls.rank]))]
    exact ih hn hg
  | and_not g _ ih =>
    intro hn hg
    exact prod_unary rowOf_andOp _ _ rfl (ih hn (glue_un hg))
  | or_and hd ih =>
    intro hn hg
    show parse .orOp _ = _
    rw [fall_binL rowOf_orOp _ (derives_opsOK hd)
      (no_test_of_rank hd (by simp) (by simp [SLv.rank, OpCls.rank]))]
    exact ih hn hg
  | or_bin g ha hb iha ihb =>
    intro hn hg
    exact prod_binL rowOf_orOp .and g _ _ (derives_opsOK ha) (derives_opsOK hb) rfl
      (no_test_of_rank hb (by simp) (by simp [SLv.rank, OpCls.rank])) (Or.inl rfl) hg
      (iha (ndr_bin hn).1 (glue_bin hg).1) (ihb (ndr_bin hn).2 (glue_bin hg).2)
  | equiv_or hd ih =>
    intro hn hg
    show parse .equivOp _ = _
    rw [fall_binL rowOf_equivOp _ (derives_opsOK hd)
      (no_test_of_rank hd (by simp) (by simp [SLv.rank, OpCls.rank]))]
    exact ih hn hg
  | equiv_bin g ha hb iha ihb =>
    intro hn hg
    exact prod_binL rowOf_equivOp .or g _ _ (derives_opsOK ha) (derives_opsOK hb) rfl
      (no_test_of_rank hb (by simp) (by simp [SLv.rank, OpCls.rank])) (Or.inl rfl) hg
      (iha (ndr_bin hn).1 (glue_bin hg).1) (ihb (ndr_bin hn).2 (glue_bin hg).2)
  | l5_equiv hd ih =>
    intro hn hg
    show parse .l5 _ = _
    rw [fall_binL rowOf_l5 _ (derives_opsOK hd)
      (no_test_of_rank hd (by simp) (by simp [SLv.rank, OpCls.rank]))]
    exact ih hn hg
  | l5_bin o g ho ha hb iha ihb =>
    intro hn hg
    exact prod_binL rowOf_l5 o g _ _ (derives_opsOK ha) (derives_opsOK hb) (test_of_equivOp g ho)
      (no_test_of_rank hb (by simp) (by simp [SLv.rank, OpCls.rank])) (Or.inl rfl) hg
      (iha (ndr_bin hn).1 (glue_bin hg).1) (ihb (ndr_bin hn).2 (glue_bin hg).2)
  | expr_l5 hd ih =>
    intro hn hg
    show parse .expr _ = _
    rw [fall_expr hd (by simp [SLv.rank])]
    exact ih hn hg
  | expr_bin n g ha hb iha ihb =>
    intro hn hg
    exact prod_binL rowOf_expr (.dot n) g _ _ (derives_opsOK ha) (derives_opsOK hb) rfl
      (ndr_top hn) (Or.inr rfl) hg
      (iha (ndr_bin hn).1 (glue_bin hg).1) (ihb (ndr_bin hn).2 (glue_bin hg).2)

end Fp.Expr
