import FparserModel.Registry
/-!
# Tree — mirror of the tree links of `fparser/two/utils.py`
(`_set_parent`, `Base.__init__`, `Base.children`, `walk`, `get_child`, `get_root`) and of the
copy protocol (`Base.__getnewargs__`, `Base.__new__(_deepcopy=True)`, `copy.deepcopy`).

Objects are numbers (`Id` = allocation index into the arena).  A child sequence is a
`List Item`; an item is what `items` / `content` may hold: a node, a `str`, `None`, a nested
tuple / list, or any other Python object (only its truthiness matters).
-/
namespace Fp.Tree

inductive Item where
  | node (id : Nat)
  | str (s : String)
  | none
  /-- any other Python object; `truthy` = `bool(obj)` -/
  | other (truthy : Bool)
  | tup (xs : List Item)
  | lst (xs : List Item)
deriving Repr, Inhabited

structure Node where
  cls : Nat
  /-- `node.children` : `content` if not None else `items` else `[]` -/
  children : List Item := []
  /-- `node.parent` (`none`: `None`, or the attribute was never set) -/
  parent : Option Nat := none
deriving Repr, Inhabited

abbrev Arena := List Node

mutual
/-- a printable, injective rendering (used to state concrete examples: `Item` is a nested
    inductive without a derived `DecidableEq`) -/
def Item.key : Item → String
  | .node id => "n" ++ toString id
  | .str s => "'" ++ s ++ "'"
  | .none => "N"
  | .other b => if b then "o1" else "o0"
  | .tup xs => "(" ++ Item.keyL xs ++ ")"
  | .lst xs => "[" ++ Item.keyL xs ++ "]"
def Item.keyL : List Item → String
  | [] => ""
  | x :: xs => Item.key x ++ " " ++ Item.keyL xs
end

def Node.key (nd : Node) : Nat × String × Option Nat := (nd.cls, Item.keyL nd.children, nd.parent)

/-! ## `_set_parent` -/

mutual
/-- the nodes whose `.parent` one `_set_parent(p, [item])` step assigns, in order -/
def spItem : Item → List Nat
  | .node id => [id]
  | .tup xs => spList xs      -- `if item:` — an empty tuple is skipped, which yields [] too
  | .lst xs => spList xs
  | .str _ => []
  | .none => []
  | .other _ => []
def spList : List Item → List Nat
  | [] => []
  | x :: xs => spItem x ++ spList xs
end

def setParent (a : Arena) (n : Nat) (p : Option Nat) : Arena :=
  a.modify n (fun nd => { nd with parent := p })

inductive Ev where
  /-- `object.__new__(cls)` : the new object's id is the arena length -/
  | alloc (cls : Nat)
  /-- `_set_parent(p, items)` -/
  | attach (p : Nat) (items : List Item)
  /-- `Base.__init__` : `self.parent = None` -/
  | reset (n : Nat)
  /-- `init(...)` / later mutation: the value `node.children` has from now on -/
  | children (n : Nat) (items : List Item)
deriving Repr

def step (a : Arena) : Ev → Arena
  | .alloc cls => a ++ [{ cls := cls }]
  | .attach p items => (spList items).foldl (fun a n => setParent a n (some p)) a
  | .reset n => setParent a n none
  | .children n items => a.modify n (fun nd => { nd with children := items })

def run (a : Arena) (evs : List Ev) : Arena := evs.foldl step a

/-! ## `get_root`, `walk`, `get_child` -/

/-- `while current.parent: current = current.parent`; `none` when `fuel` runs out (a parent
    cycle: the Python loops forever) -/
def getRootF (a : Arena) : Nat → Nat → Option Nat
  | 0, _ => none
  | fuel + 1, n =>
    match a[n]? with
    | none => some n
    | some nd =>
      match nd.parent with
      | none => some n
      | some p => getRootF a fuel p

def getRoot (a : Arena) (n : Nat) : Option Nat := getRootF a (a.length + 1) n

mutual
def Item.size : Item → Nat
  | .tup xs => 1 + Item.sizeL xs
  | .lst xs => 1 + Item.sizeL xs
  | _ => 1
def Item.sizeL : List Item → Nat
  | [] => 0
  | x :: xs => Item.size x + Item.sizeL xs
end

/-- `walk(node_list, types=None)` for a list/tuple `node_list`.  `fuel` bounds the nesting
    depth (nodes + tuples). -/
def walkList (a : Arena) : Nat → List Item → List Item
  | 0, _ => []
  | fuel + 1, items =>
    items.flatMap fun child =>
      -- `if types is None: local_list.append(child)`
      child :: (match child with
        | .node id =>
          match a[id]? with
          | some nd => walkList a fuel nd.children
          | none => []
        | .tup comps =>
          -- `for component in child: local_list += walk(component, ...)`
          comps.flatMap fun comp =>
            match comp with
            | .tup ys => walkList a fuel ys
            | .lst ys => walkList a fuel ys
            | other => walkList a fuel [other]   -- `node_list = [node_list]`
        | .lst comps =>
          -- `elif isinstance(child, (list, tuple))` (HEAD feeadef: lists too)
          comps.flatMap fun comp =>
            match comp with
            | .tup ys => walkList a fuel ys
            | .lst ys => walkList a fuel ys
            | other => walkList a fuel [other]
        | _ => [])

def arenaFuel (a : Arena) : Nat :=
  a.length + (a.foldl (fun n nd => n + Item.sizeL nd.children) 0) + 2

/-- `walk(node)` -/
def walk (a : Arena) (n : Nat) : List Item := walkList a (arenaFuel a) [.node n]

/-- the node ids in `walk(node)` -/
def walkIds (a : Arena) (n : Nat) : List Nat :=
  (walk a n).filterMap fun | .node id => some id | _ => Option.none

/-- `get_child(node, node_type)` : first *immediate* child that is a node whose class
    satisfies `isType` -/
def getChild (a : Arena) (n : Nat) (isType : Nat → Bool) : Option Nat :=
  match a[n]? with
  | none => none
  | some nd =>
    nd.children.findSome? fun
      | .node id => match a[id]? with
        | some c => if isType c.cls then some id else Option.none
        | none => Option.none
      | _ => Option.none

/-! ## the copy protocol -/

/-- what `copy.deepcopy` / `pickle` observe of a class (see `Registry.ClassFacts`) -/
structure CopyFacts where
  argsNeedString : Bool
  hasString : Bool
  newAccepts : Bool
deriving DecidableEq, Repr

def CopyFacts.ok (f : CopyFacts) : Bool := (!f.argsNeedString || f.hasString) && f.newAccepts

def copyFactsOf (c : Registry.ClassFacts) : CopyFacts := ⟨c.argsNeedString, c.hasString, c.newAccepts⟩

/-- `CopyOK` of a class table entry -/
def CopyOK (c : Registry.ClassFacts) : Prop := (copyFactsOf c).ok = true
instance (c : Registry.ClassFacts) : Decidable (CopyOK c) := by unfold CopyOK; infer_instance

inductive CopyErr where
  /-- `__getnewargs__` raised `AttributeError: ... has no attribute 'string'` (class) -/
  | noString (cls : Nat)
  /-- `cls.__new__(cls, *args)` raised `TypeError` (class) -/
  | newRejects (cls : Nat)
  | badId (id : Nat)
  | outOfFuel
deriving DecidableEq, Repr

structure CopyState where
  /-- `memo` : old id → new id -/
  memo : List (Nat × Nat) := []
  /-- the copies, in allocation order; the copy with index `i` has id `base + i` -/
  out : List Node := []
deriving Repr

def memoGet (m : List (Nat × Nat)) (k : Nat) : Option Nat := Registry.nGet m k

mutual
/-- `copy.deepcopy(x, memo)` for a node: `__reduce_ex__` (→ `__getnewargs__`), `__new__`,
    then the instance dict in insertion order: children (`items`/`content`) then `parent`. -/
def copyNode (facts : Nat → CopyFacts) (a : Arena) (base : Nat) :
    Nat → Nat → CopyState → Except CopyErr (Nat × CopyState)
  | 0, _, _ => .error .outOfFuel
  | fuel + 1, x, st =>
    match memoGet st.memo x with
    | some y => .ok (y, st)
    | none =>
      match a[x]? with
      | none => .error (.badId x)
      | some nd =>
        let f := facts nd.cls
        if f.argsNeedString && !f.hasString then .error (.noString nd.cls)
        else if !f.newAccepts then .error (.newRejects nd.cls)
        else
          let y := base + st.out.length
          let st : CopyState := { memo := st.memo ++ [(x, y)], out := st.out ++ [{ cls := nd.cls }] }
          match copyItems facts a base fuel nd.children st with
          | .error e => .error e
          | .ok (kids, st) =>
            let par : Except CopyErr (Option Nat × CopyState) :=
              match nd.parent with
              | none => .ok (none, st)
              | some p =>
                match copyNode facts a base fuel p st with
                | .error e => .error e
                | .ok (p', st) => .ok (some p', st)
            match par with
            | .error e => .error e
            | .ok (p', st) =>
              let filled : Node := { cls := nd.cls, children := kids, parent := p' }
              .ok (y, { st with out := st.out.modify (y - base) (fun _ => filled) })
def copyItems (facts : Nat → CopyFacts) (a : Arena) (base : Nat) :
    Nat → List Item → CopyState → Except CopyErr (List Item × CopyState)
  | 0, _, _ => .error .outOfFuel
  | _ + 1, [], st => .ok ([], st)
  | fuel + 1, it :: rest, st =>
    let one : Except CopyErr (Item × CopyState) :=
      match it with
      | .node id =>
        match copyNode facts a base fuel id st with
        | .error e => .error e
        | .ok (y, st) => .ok (.node y, st)
      | .tup xs =>
        match copyItems facts a base fuel xs st with
        | .error e => .error e
        | .ok (ys, st) => .ok (.tup ys, st)
      | .lst xs =>
        match copyItems facts a base fuel xs st with
        | .error e => .error e
        | .ok (ys, st) => .ok (.lst ys, st)
      | other => .ok (other, st)
    match one with
    | .error e => .error e
    | .ok (it', st) =>
      match copyItems facts a base fuel rest st with
      | .error e => .error e
      | .ok (rest', st) => .ok (it' :: rest', st)
end

/-- `copy.deepcopy(node)` : the arena extended by the copies, and the id of the copy -/
def deepcopy (facts : Nat → CopyFacts) (a : Arena) (n : Nat) : Except CopyErr (Arena × Nat) :=
  let fuel := 2 * arenaFuel a + 2
  match copyNode facts a a.length fuel n {} with
  | .error e => .error e
  | .ok (y, st) => .ok (a ++ st.out, y)

/-- `pickle.loads(pickle.dumps(node))`.  `dumps` walks the whole object graph calling
    `__getnewargs__` (only the missing-`.string` failure can occur there); `loads` then runs
    `cls.__new__(cls, *args)` for the objects in the same order. -/
def pickleRoundTrip (facts : Nat → CopyFacts) (a : Arena) (n : Nat) : Except CopyErr (Arena × Nat) :=
  match deepcopy (fun c => { facts c with newAccepts := true }) a n with
  | .error e => .error e
  | .ok _ => deepcopy facts a n

end Fp.Tree
